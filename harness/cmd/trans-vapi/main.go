// trans-vapi: translator T-vapi for C10 (go/ast + go/types via go/packages; fails closed).
//
// Type-checks core/validatorapi and core/parsigex of the repo at -repo and emits
// lean/CharonV/Generated/Vapi.lean:
//
//   - vapiRows: one row for EVERY method of validatorapi.Component from which a call of an
//     element of `c.subs` (the subscriber fan-out) is reachable: does a checked
//     `c.verifyPartialSig(ctx, X, PK)` dominate every subscriber call; is every value put into the
//     set handed to the subscribers that X (the same variable, or the same constructor call on the
//     same arguments); is it filed under that PK.
//   - gateRows: the additional checked gate calls that precede the verification in a handler
//     (propDataMatchesDuty, signing.VerifyAggregateAndProofSelection, core.VerifyEth2SignedData).
//   - parsigexRows: the same three facts for (*ParSigEx).handle (verification loop over the received
//     set dominates the subscriber loop, which is handed that same set).
//   - shapeRows: verifyPartialSig really verifies under the share looked up for its pubkey argument;
//     NewComponent leaves insecureTest unset; handle consults the gater before anything else.
//
// One level of same-package helper is followed: an UNEXPORTED method of Component whose only dealing
// with partial signatures is to hand one or more of its own ParSignedDataSet parameters, untouched, to
// every element of `c.subs` in top-level `for _, sub := range c.subs` loops (a "fan-out helper", see
// asFanOutHelper) gets no row of its own; each call of it is treated, in the calling method, as the
// subscriber loop itself standing at the call statement, with the helper's set parameters replaced by
// the call's arguments (the helper's body inlined at the call site for the check "verification
// dominates fan-out"). Such a helper may only be called (never used as a method value), only from
// methods of Component, and must not itself call a function that reaches `c.subs`.
//
// Go it does not understand makes it exit 1 (a handler it understands but that does not verify
// yields a row with `false`, which makes theorem every_endpoint_verifies false).
package main

import (
	"bytes"
	"flag"
	"fmt"
	"go/ast"
	"go/printer"
	"go/token"
	"go/types"
	"os"
	"path/filepath"
	"sort"
	"strings"

	"golang.org/x/tools/go/packages"
)

func fail(f string, a ...any) {
	fmt.Fprintf(os.Stderr, "trans-vapi: "+f+"\n", a...)
	os.Exit(1)
}

type pkgCtx struct {
	pkg     *packages.Package
	info    *types.Info
	fset    *token.FileSet
	helpers map[types.Object]*helperInfo // fan-out helpers of this package (validatorapi only)
}

// helperInfo describes a fan-out helper: which of its (flattened) parameters it hands to the subscribers.
type helperInfo struct {
	decl      *ast.FuncDecl
	nParams   int
	setParams []int
}

// insertsInto reports whether fn inserts into a ParSignedDataSet or builds a non-trivial literal of it.
func (p *pkgCtx) touchesSets(fn *ast.FuncDecl) bool {
	found := false
	ast.Inspect(fn.Body, func(n ast.Node) bool {
		switch s := n.(type) {
		case *ast.AssignStmt:
			for _, l := range s.Lhs {
				if ix, ok := l.(*ast.IndexExpr); ok {
					if tv, ok := p.info.Types[ix.X]; ok && p.isParSignedDataSet(tv.Type) {
						found = true
					}
				}
			}
		case *ast.CompositeLit:
			if tv, ok := p.info.Types[s]; ok && p.isParSignedDataSet(tv.Type) {
				found = true
			}
		}
		return true
	})
	return found
}

// asFanOutHelper: fd is an unexported method of Component, free of labels / goto / function literals /
// go statements, that neither inserts into nor constructs a ParSignedDataSet, mentions `c.subs` only as
// the operand of top-level `for _, sub := range c.subs` loops, and in those loops calls `sub` only with
// (…, …, P) where P is one of fd's own parameters, of type core.ParSignedDataSet, never assigned,
// address-taken or incremented in fd. Returns nil if fd is not of that form (it is then analysed as a
// handler, which fails closed on whatever made it differ).
func (p *pkgCtx) asFanOutHelper(fd *ast.FuncDecl) *helperInfo {
	if recvTypeName(fd) != "Component" || ast.IsExported(fd.Name.Name) || fd.Type.TypeParams != nil {
		return nil
	}
	plain := true
	ast.Inspect(fd.Body, func(n ast.Node) bool {
		switch s := n.(type) {
		case *ast.LabeledStmt, *ast.FuncLit, *ast.GoStmt:
			plain = false
		case *ast.BranchStmt:
			if s.Tok == token.GOTO || s.Label != nil {
				plain = false
			}
		}
		return true
	})
	if !plain || p.touchesSets(fd) {
		return nil
	}
	params := map[types.Object]int{}
	n := 0
	for _, f := range fd.Type.Params.List {
		if _, variadic := f.Type.(*ast.Ellipsis); variadic {
			return nil
		}
		if len(f.Names) == 0 {
			n++
			continue
		}
		for _, nm := range f.Names {
			if o := p.info.Defs[nm]; o != nil {
				params[o] = n
			}
			n++
		}
	}
	h := &helperInfo{decl: fd, nParams: n}
	loops := 0
	for _, s := range fd.Body.List {
		rs, ok := p.isSubsRange(s, "Component")
		if !ok {
			continue
		}
		loops++
		sets, ok := p.subCallSets(rs)
		if !ok {
			return nil
		}
		for _, set := range sets {
			o := p.obj(set)
			idx, isParam := params[o]
			if o == nil || !isParam || !p.isParSignedDataSet(o.Type()) || p.writes(fd, o) != 0 {
				return nil
			}
			h.setParams = append(h.setParams, idx)
		}
	}
	mentions := 0
	ast.Inspect(fd.Body, func(n ast.Node) bool {
		if e, ok := n.(ast.Expr); ok && p.isField(e, "Component", "subs") {
			mentions++
		}
		return true
	})
	if loops == 0 || mentions != loops {
		return nil
	}
	sort.Ints(h.setParams)
	return h
}

// helperCallExpr: e is a call `<x>.<helper>(…)` of a fan-out helper.
func (p *pkgCtx) helperCallExpr(e ast.Expr) (*ast.CallExpr, *helperInfo) {
	c, ok := ast.Unparen(e).(*ast.CallExpr)
	if !ok {
		return nil, nil
	}
	se, ok := ast.Unparen(c.Fun).(*ast.SelectorExpr)
	if !ok {
		return nil, nil
	}
	h := p.helpers[p.info.Uses[se.Sel]]
	if h == nil {
		return nil, nil
	}
	return c, h
}

// stmtHelperCall: the statement evaluates exactly one helper call as its own expression:
// `c.h(…)`, `x := c.h(…)` / `x = c.h(…)`, `return c.h(…)`, `if x := c.h(…); cond { … }`.
func (p *pkgCtx) stmtHelperCall(s ast.Stmt) (*ast.CallExpr, *helperInfo) {
	switch x := s.(type) {
	case *ast.ExprStmt:
		return p.helperCallExpr(x.X)
	case *ast.AssignStmt:
		if len(x.Rhs) == 1 {
			return p.helperCallExpr(x.Rhs[0])
		}
	case *ast.ReturnStmt:
		if len(x.Results) == 1 {
			return p.helperCallExpr(x.Results[0])
		}
	case *ast.IfStmt:
		if x.Init != nil {
			return p.stmtHelperCall(x.Init)
		}
	}
	return nil, nil
}

func (p *pkgCtx) str(n ast.Node) string {
	var b bytes.Buffer
	_ = printer.Fprint(&b, p.fset, n)
	return strings.Join(strings.Fields(b.String()), " ")
}

func (p *pkgCtx) pos(n ast.Node) string {
	ps := p.fset.Position(n.Pos())
	return fmt.Sprintf("%s:%d", filepath.Base(ps.Filename), ps.Line)
}

// obj returns the object an identifier expression denotes (nil if e is not a plain identifier).
func (p *pkgCtx) obj(e ast.Expr) types.Object {
	id, ok := ast.Unparen(e).(*ast.Ident)
	if !ok {
		return nil
	}
	if o := p.info.Uses[id]; o != nil {
		return o
	}
	return p.info.Defs[id]
}

// isField reports whether e is a selector of field `field` of named struct type `typ` (through
// pointers) declared in this package.
func (p *pkgCtx) isField(e ast.Expr, typ, field string) bool {
	se, ok := ast.Unparen(e).(*ast.SelectorExpr)
	if !ok || se.Sel.Name != field {
		return false
	}
	sel := p.info.Selections[se]
	if sel == nil || sel.Kind() != types.FieldVal {
		return false
	}
	t := sel.Recv()
	if pt, ok := t.(*types.Pointer); ok {
		t = pt.Elem()
	}
	n, ok := t.(*types.Named)
	return ok && n.Obj().Name() == typ && n.Obj().Pkg() == p.pkg.Types
}

func (p *pkgCtx) isParSignedDataSet(t types.Type) bool {
	n, ok := t.(*types.Named)
	return ok && n.Obj().Name() == "ParSignedDataSet" && n.Obj().Pkg() != nil && strings.HasSuffix(n.Obj().Pkg().Path(), "/charon/core")
}

// equalExpr: structural equality of two expressions, identifiers compared by object.
func (p *pkgCtx) equalExpr(a, b ast.Expr) bool {
	a, b = ast.Unparen(a), ast.Unparen(b)
	switch x := a.(type) {
	case *ast.Ident:
		y, ok := b.(*ast.Ident)
		if !ok {
			return false
		}
		ox, oy := p.obj(x), p.obj(y)
		return ox != nil && ox == oy
	case *ast.SelectorExpr:
		y, ok := b.(*ast.SelectorExpr)
		return ok && x.Sel.Name == y.Sel.Name && p.info.Uses[x.Sel] == p.info.Uses[y.Sel] && p.equalExpr(x.X, y.X)
	case *ast.CallExpr:
		y, ok := b.(*ast.CallExpr)
		if !ok || len(x.Args) != len(y.Args) || !p.equalExpr(x.Fun, y.Fun) {
			return false
		}
		for i := range x.Args {
			if !p.equalExpr(x.Args[i], y.Args[i]) {
				return false
			}
		}
		return true
	}
	return false
}

// identsIn collects the variable objects mentioned in e.
func (p *pkgCtx) identsIn(e ast.Expr) []types.Object {
	var out []types.Object
	ast.Inspect(e, func(n ast.Node) bool {
		if id, ok := n.(*ast.Ident); ok {
			if v, ok := p.info.Uses[id].(*types.Var); ok && !v.IsField() {
				out = append(out, v)
			}
		}
		return true
	})
	return out
}

// writesIn counts the statements of fn positioned in (from, to) that (re)assign, increment or take
// the address of object o (a `:=` definition is not a write).
func (p *pkgCtx) writesIn(fn *ast.FuncDecl, o types.Object, from, to token.Pos) int {
	n := 0
	in := func(nd ast.Node) bool { return nd.Pos() > from && nd.Pos() < to }
	ast.Inspect(fn.Body, func(nd ast.Node) bool {
		switch s := nd.(type) {
		case *ast.AssignStmt:
			for _, l := range s.Lhs {
				if id, ok := l.(*ast.Ident); ok && p.info.Uses[id] == o && in(s) {
					n++
				}
			}
		case *ast.UnaryExpr:
			if s.Op == token.AND && p.obj(s.X) == o && in(s) {
				n++
			}
		case *ast.IncDecStmt:
			if p.obj(s.X) == o && in(s) {
				n++
			}
		case *ast.RangeStmt:
			if s.Tok == token.ASSIGN && (p.obj(s.Key) == o || (s.Value != nil && p.obj(s.Value) == o)) && in(s) {
				n++
			}
		}
		return true
	})
	return n
}

func (p *pkgCtx) writes(fn *ast.FuncDecl, o types.Object) int {
	return p.writesIn(fn, o, fn.Body.Pos()-1, fn.Body.End())
}

// definition returns the right-hand side of the single `x := rhs` that defines the identifier e
// (nil if e is not an identifier so defined, or is written to anywhere else).
func (p *pkgCtx) definition(fn *ast.FuncDecl, e ast.Expr) (ast.Expr, token.Pos) {
	o := p.obj(e)
	if o == nil || p.writes(fn, o) != 0 {
		return nil, token.NoPos
	}
	var rhs ast.Expr
	var at token.Pos
	n := 0
	ast.Inspect(fn.Body, func(nd ast.Node) bool {
		as, ok := nd.(*ast.AssignStmt)
		if !ok || as.Tok != token.DEFINE {
			return true
		}
		for i, l := range as.Lhs {
			if id, ok := l.(*ast.Ident); ok && p.info.Defs[id] == o {
				n++
				if len(as.Lhs) == len(as.Rhs) {
					rhs, at = as.Rhs[i], as.Pos()
				}
			}
		}
		return true
	})
	if n != 1 {
		return nil, token.NoPos
	}
	return rhs, at
}

// sameValue: the inserted expression `ins` (evaluated at insAt) denotes the value that expression
// `ver` denoted when it was verified (at verAt): the same variable, unwritten in between; or the same
// call of the same function on the same variables, none of them written in between (a variable
// defined once by such a call stands for the call).
func (p *pkgCtx) sameValue(fn *ast.FuncDecl, ver ast.Expr, verAt token.Pos, ins ast.Expr, insAt token.Pos) bool {
	unwritten := func(e ast.Expr, from, to token.Pos) bool {
		for _, o := range p.identsIn(e) {
			if p.writesIn(fn, o, from, to) != 0 {
				return false
			}
		}
		return true
	}
	if p.obj(ver) != nil && p.obj(ver) == p.obj(ins) {
		return unwritten(ver, verAt, insAt)
	}
	from := verAt
	a, b := ver, ins
	if d, at := p.definition(fn, ver); d != nil {
		a = d
		if at < from {
			from = at
		}
	}
	if d, at := p.definition(fn, ins); d != nil {
		b = d
		if at < from {
			from = at
		}
	}
	_, aCall := ast.Unparen(a).(*ast.CallExpr)
	_, bCall := ast.Unparen(b).(*ast.CallExpr)
	return aCall && bCall && p.equalExpr(a, b) && unwritten(a, from, insAt) && unwritten(b, from, insAt)
}

// errChecked: stmts[i] assigns the call's error to `err` and stmts[i+1] is `if err != nil { …; return … }`,
// or stmts[i] is `if err := call; err != nil { …; return … }`. Returns the call.
func (p *pkgCtx) checkedCall(stmts []ast.Stmt, i int) *ast.CallExpr {
	endsWithReturn := func(b *ast.BlockStmt) bool {
		if len(b.List) == 0 {
			return false
		}
		_, ok := b.List[len(b.List)-1].(*ast.ReturnStmt)
		return ok
	}
	errNotNil := func(c ast.Expr, errObj types.Object) bool {
		be, ok := c.(*ast.BinaryExpr)
		if !ok || be.Op != token.NEQ {
			return false
		}
		id, ok := be.Y.(*ast.Ident)
		return ok && id.Name == "nil" && p.obj(be.X) == errObj && errObj != nil
	}
	singleErrAssign := func(s ast.Stmt) (*ast.CallExpr, types.Object) {
		as, ok := s.(*ast.AssignStmt)
		if !ok || len(as.Lhs) != 1 || len(as.Rhs) != 1 {
			return nil, nil
		}
		call, ok := as.Rhs[0].(*ast.CallExpr)
		if !ok {
			return nil, nil
		}
		return call, p.obj(as.Lhs[0])
	}
	switch s := stmts[i].(type) {
	case *ast.AssignStmt:
		call, errObj := singleErrAssign(s)
		if call == nil || i+1 >= len(stmts) {
			return nil
		}
		ifs, ok := stmts[i+1].(*ast.IfStmt)
		if !ok || ifs.Init != nil || ifs.Else != nil || !errNotNil(ifs.Cond, errObj) || !endsWithReturn(ifs.Body) {
			return nil
		}
		return call
	case *ast.IfStmt:
		if s.Init == nil || s.Else != nil {
			return nil
		}
		call, errObj := singleErrAssign(s.Init)
		if call == nil || !errNotNil(s.Cond, errObj) || !endsWithReturn(s.Body) {
			return nil
		}
		return call
	}
	return nil
}

// calleeName renders the called function: "recv.method" for methods of this package's types via a
// field/receiver, "pkg.Func" for imported functions, "func" for local ones.
func (p *pkgCtx) calleeName(c *ast.CallExpr) string {
	switch f := ast.Unparen(c.Fun).(type) {
	case *ast.Ident:
		return f.Name
	case *ast.SelectorExpr:
		if id, ok := f.X.(*ast.Ident); ok {
			if pn, ok := p.info.Uses[id].(*types.PkgName); ok {
				return pn.Imported().Name() + "." + f.Sel.Name
			}
		}
		return "." + f.Sel.Name
	}
	return "?"
}

type row struct {
	method                    string
	verifies, sameVal, samePK bool
	notes                     []string
	gates                     []string
}

func (r *row) note(f string, a ...any) { r.notes = append(r.notes, fmt.Sprintf(f, a...)) }

// subLoops finds `for _, sub := range <recv>.subs` statements in a statement list (not nested).
func (p *pkgCtx) isSubsRange(s ast.Stmt, typ string) (*ast.RangeStmt, bool) {
	rs, ok := s.(*ast.RangeStmt)
	if !ok || !p.isField(rs.X, typ, "subs") {
		return nil, false
	}
	return rs, true
}

// subCallArgs returns the third argument of every call of the loop's value variable inside the loop.
func (p *pkgCtx) subCallSets(rs *ast.RangeStmt) ([]ast.Expr, bool) {
	subObj := p.obj(rs.Value)
	if subObj == nil {
		return nil, false
	}
	var sets []ast.Expr
	ok := true
	ast.Inspect(rs.Body, func(n ast.Node) bool {
		if c, isCall := n.(*ast.CallExpr); isCall && p.obj(c.Fun) == subObj {
			if len(c.Args) != 3 {
				ok = false
				return false
			}
			sets = append(sets, c.Args[2])
		}
		return true
	})
	// the loop variable must not escape in any other way
	uses := 0
	ast.Inspect(rs.Body, func(n ast.Node) bool {
		if id, isID := n.(*ast.Ident); isID && p.info.Uses[id] == subObj {
			uses++
		}
		return true
	})
	return sets, ok && len(sets) > 0 && uses == len(sets)
}

// verifyStmt describes a checked c.verifyPartialSig call at index idx of a statement list.
type verifyAt struct {
	idx   int
	x, pk ast.Expr
	at    token.Pos
}

func (p *pkgCtx) verifiesIn(stmts []ast.Stmt) []verifyAt {
	var out []verifyAt
	for i := range stmts {
		c := p.checkedCall(stmts, i)
		if c == nil {
			continue
		}
		se, ok := ast.Unparen(c.Fun).(*ast.SelectorExpr)
		if !ok || se.Sel.Name != "verifyPartialSig" || len(c.Args) != 3 {
			continue
		}
		if sel := p.info.Selections[se]; sel == nil || sel.Kind() != types.MethodVal {
			continue
		}
		out = append(out, verifyAt{i, c.Args[1], c.Args[2], c.Pos()})
	}
	return out
}

var gateFuncs = map[string]bool{"propDataMatchesDuty": true, "signing.VerifyAggregateAndProofSelection": true, "core.VerifyEth2SignedData": true}

// gatesBefore lists checked gate calls among stmts[:end], looking one level into
// `if !c.insecureTest { … }` blocks.
func (p *pkgCtx) gatesBefore(stmts []ast.Stmt, end int) []string {
	var out []string
	scan := func(list []ast.Stmt, n int) {
		for i := 0; i < n; i++ {
			if c := p.checkedCall(list, i); c != nil && gateFuncs[p.calleeName(c)] {
				name := p.calleeName(c)
				out = append(out, name[strings.LastIndex(name, ".")+1:])
			}
		}
	}
	scan(stmts, end)
	for i := 0; i < end; i++ {
		if ifs, ok := stmts[i].(*ast.IfStmt); ok && ifs.Init == nil && ifs.Else == nil {
			if u, ok := ifs.Cond.(*ast.UnaryExpr); ok && u.Op == token.NOT && p.isField(u.X, "Component", "insecureTest") {
				scan(ifs.Body.List, len(ifs.Body.List))
			}
		}
	}
	return out
}

func (p *pkgCtx) analyseHandler(fn *ast.FuncDecl) row {
	r := row{method: fn.Name.Name, verifies: true, sameVal: true, samePK: true}
	bad := func(field *bool, f string, a ...any) { *field = false; r.note(f, a...) }
	body := fn.Body.List

	// no goto / labels: statement order in a block is then execution order
	ast.Inspect(fn.Body, func(n ast.Node) bool {
		switch s := n.(type) {
		case *ast.LabeledStmt:
			fail("%s: labeled statement at %s", fn.Name.Name, p.pos(s))
		case *ast.BranchStmt:
			if s.Tok == token.GOTO || s.Label != nil {
				fail("%s: goto / labeled branch at %s", fn.Name.Name, p.pos(s))
			}
		case *ast.FuncLit:
			fail("%s: function literal at %s (not understood in a handler)", fn.Name.Name, p.pos(s))
		case *ast.GoStmt, *ast.DeferStmt:
			if _, isDefer := s.(*ast.DeferStmt); !isDefer {
				fail("%s: go statement at %s", fn.Name.Name, p.pos(n))
			}
		}
		return true
	})

	// every insertion into a ParSignedDataSet and every non-empty literal of that type in the function
	type insertion struct {
		stmt    ast.Stmt
		pk, val ast.Expr
	}
	var inserts []insertion
	ast.Inspect(fn.Body, func(n ast.Node) bool {
		switch s := n.(type) {
		case *ast.AssignStmt:
			for i, l := range s.Lhs {
				ix, ok := l.(*ast.IndexExpr)
				if !ok {
					continue
				}
				if tv, ok := p.info.Types[ix.X]; ok && p.isParSignedDataSet(tv.Type) {
					if len(s.Lhs) != len(s.Rhs) {
						fail("%s: multi-value insertion at %s", fn.Name.Name, p.pos(s))
					}
					inserts = append(inserts, insertion{s, ix.Index, s.Rhs[i]})
				}
			}
		case *ast.CompositeLit:
			if tv, ok := p.info.Types[s]; ok && p.isParSignedDataSet(tv.Type) {
				for _, el := range s.Elts {
					kvx, ok := el.(*ast.KeyValueExpr)
					if !ok {
						fail("%s: set literal element at %s", fn.Name.Name, p.pos(el))
					}
					inserts = append(inserts, insertion{nil, kvx.Key, kvx.Value})
				}
			}
		}
		return true
	})
	if len(inserts) == 0 {
		bad(&r.sameVal, "no insertion into a ParSignedDataSet found")
	}

	// locate the subscriber loops, and the calls of fan-out helpers (each stands for the helper's loops)
	type site struct {
		top    int            // index in body of the top-level statement containing the loop
		outer  *ast.RangeStmt // enclosing `for k, v := range M` (nil: the loop is top-level)
		loop   *ast.RangeStmt // nil for a helper call
		call   *ast.CallExpr  // call of a fan-out helper
		helper *helperInfo
	}
	var sites []site
	nLoops, nCalls := 0, 0
	addSite := func(i int, outer *ast.RangeStmt, s ast.Stmt) bool {
		if rs, ok := p.isSubsRange(s, "Component"); ok {
			sites = append(sites, site{top: i, outer: outer, loop: rs})
			nLoops++
			return true
		}
		if c, h := p.stmtHelperCall(s); c != nil {
			sites = append(sites, site{top: i, outer: outer, call: c, helper: h})
			nCalls++
			return true
		}
		return false
	}
	for i, s := range body {
		if addSite(i, nil, s) {
			continue
		}
		if outer, ok := s.(*ast.RangeStmt); ok {
			for _, in := range outer.Body.List {
				addSite(i, outer, in)
			}
		}
	}
	// every mention of c.subs must be one of these loops, every helper call one of these statements
	mentions, helperCalls := 0, 0
	ast.Inspect(fn.Body, func(n ast.Node) bool {
		if e, ok := n.(ast.Expr); ok {
			if p.isField(e, "Component", "subs") {
				mentions++
			}
			if c, _ := p.helperCallExpr(e); c != nil {
				if _, isParen := e.(*ast.ParenExpr); !isParen {
					helperCalls++
				}
			}
		}
		return true
	})
	if mentions != nLoops {
		fail("%s: %d uses of c.subs but %d understood subscriber loops", fn.Name.Name, mentions, nLoops)
	}
	if helperCalls != nCalls {
		fail("%s: %d calls of a fan-out helper but %d understood call statements", fn.Name.Name, helperCalls, nCalls)
	}
	if len(sites) == 0 {
		fail("%s: no subscriber loop and no call of a fan-out helper found", fn.Name.Name)
	}

	firstSub := sites[0].top
	for _, st := range sites {
		if st.top < firstSub {
			firstSub = st.top
		}
	}

	// where are the checked verifications, relative to the insertions?
	topVerifs := p.verifiesIn(body)
	for _, ins := range inserts {
		if ins.stmt == nil {
			// literal {PK: X}: needs a top-level verification before the first subscriber loop and
			// before the literal's own top-level statement
			var match *verifyAt
			for k := range topVerifs {
				if topVerifs[k].idx < firstSub {
					match = &topVerifs[k]
				}
			}
			if match == nil {
				bad(&r.verifies, "set literal {%s: %s}: no checked verifyPartialSig before the subscriber loop", p.str(ins.pk), p.str(ins.val))
				continue
			}
			if !p.sameValue(fn, match.x, match.at, ins.val, ins.val.Pos()) {
				bad(&r.sameVal, "set literal value %s is not the verified %s", p.str(ins.val), p.str(match.x))
			}
			if !p.sameValue(fn, match.pk, match.at, ins.pk, ins.pk.Pos()) {
				bad(&r.samePK, "set literal key %s is not the verified-for %s", p.str(ins.pk), p.str(match.pk))
			}
			r.gates = append(r.gates, p.gatesBefore(body, match.idx)...)
			continue
		}
		// insertion statement: must sit in the statement list of a top-level range loop that precedes
		// every subscriber loop, after a checked verification in that same list
		found := false
		for i, s := range body {
			fl, ok := s.(*ast.RangeStmt)
			if !ok {
				continue
			}
			for j, in := range fl.Body.List {
				if in != ins.stmt {
					continue
				}
				found = true
				if i >= firstSub {
					bad(&r.verifies, "insertion at %s is not before the subscriber loop", p.pos(ins.stmt))
				}
				var match *verifyAt
				vs := p.verifiesIn(fl.Body.List)
				for k := range vs {
					if vs[k].idx < j {
						match = &vs[k]
					}
				}
				if match == nil {
					bad(&r.verifies, "insertion at %s: no checked verifyPartialSig before it in the loop body", p.pos(ins.stmt))
					continue
				}
				if !p.sameValue(fn, match.x, match.at, ins.val, ins.val.Pos()) {
					bad(&r.sameVal, "inserted value %s is not the verified %s", p.str(ins.val), p.str(match.x))
				}
				if !p.sameValue(fn, match.pk, match.at, ins.pk, ins.pk.Pos()) {
					bad(&r.samePK, "insertion key %s is not the verified-for %s", p.str(ins.pk), p.str(match.pk))
				}
				r.gates = append(r.gates, p.gatesBefore(fl.Body.List, match.idx)...)
			}
		}
		if !found {
			bad(&r.verifies, "insertion at %s is not in the statement list of a top-level loop", p.pos(ins.stmt))
		}
	}

	// what is handed to the subscribers must be one of the sets accounted for above
	for _, st := range sites {
		var sets []ast.Expr
		if st.loop != nil {
			var ok bool
			sets, ok = p.subCallSets(st.loop)
			if !ok {
				fail("%s: subscriber loop at %s not understood", fn.Name.Name, p.pos(st.loop))
			}
		} else {
			// the helper's body inlined: its subscriber calls receive these arguments
			if len(st.call.Args) != st.helper.nParams || st.call.Ellipsis != token.NoPos {
				fail("%s: call of %s at %s not understood", fn.Name.Name, st.helper.decl.Name.Name, p.pos(st.call))
			}
			for _, idx := range st.helper.setParams {
				sets = append(sets, st.call.Args[idx])
			}
		}
		for _, set := range sets {
			tv, ok := p.info.Types[set]
			if !ok || !p.isParSignedDataSet(tv.Type) {
				fail("%s: subscriber argument %s is not a ParSignedDataSet", fn.Name.Name, p.str(set))
			}
			switch e := ast.Unparen(set).(type) {
			case *ast.CompositeLit: // accounted for as a literal insertion
			case *ast.Ident:
				o := p.obj(e)
				if st.outer != nil && o == p.obj(st.outer.Value) {
					// range value of a map of sets: the map must be a local filled only with make() / sets
					// that are themselves only filled by the accounted insertions
					mObj := p.obj(st.outer.X)
					if mObj == nil {
						fail("%s: ranged map %s not understood", fn.Name.Name, p.str(st.outer.X))
					}
					mt, ok := mObj.Type().Underlying().(*types.Map)
					if !ok || !p.isParSignedDataSet(mt.Elem()) {
						fail("%s: %s is not a map of ParSignedDataSet", fn.Name.Name, p.str(st.outer.X))
					}
					p.checkMapFill(fn, mObj)
				} else {
					// a local defined once by a set literal
					if p.writes(fn, o) != 0 || !p.definedByLiteral(fn, o) {
						fail("%s: subscriber argument %s is not a set literal variable", fn.Name.Name, e.Name)
					}
				}
			default:
				fail("%s: subscriber argument %s not understood", fn.Name.Name, p.str(set))
			}
		}
	}
	sort.Strings(r.gates)
	r.gates = dedup(r.gates)
	return r
}

func dedup(xs []string) []string {
	var out []string
	for i, x := range xs {
		if i == 0 || xs[i-1] != x {
			out = append(out, x)
		}
	}
	return out
}

func (p *pkgCtx) isMakeSet(e ast.Expr) bool {
	c, ok := ast.Unparen(e).(*ast.CallExpr)
	if !ok || len(c.Args) < 1 {
		return false
	}
	if id, ok := c.Fun.(*ast.Ident); !ok || id.Name != "make" {
		return false
	}
	tv, ok := p.info.Types[c.Args[0]]
	return ok && p.isParSignedDataSet(tv.Type)
}

// checkMapFill: every `M[k] = rhs` has rhs = make(core.ParSignedDataSet) or a local that is only ever
// assigned make(...) or M[...]; M itself is defined by make and not otherwise written.
func (p *pkgCtx) checkMapFill(fn *ast.FuncDecl, mObj types.Object) {
	okLocal := func(o types.Object) bool {
		good := true
		ast.Inspect(fn.Body, func(n ast.Node) bool {
			as, ok := n.(*ast.AssignStmt)
			if !ok {
				return true
			}
			for i, l := range as.Lhs {
				if p.obj(l) != o {
					continue
				}
				var rhs ast.Expr
				if len(as.Rhs) == len(as.Lhs) {
					rhs = as.Rhs[i]
				} else if len(as.Rhs) == 1 && i == 0 {
					rhs = as.Rhs[0] // v, ok := M[k]
				} else {
					good = false
					continue
				}
				if p.isMakeSet(rhs) {
					continue
				}
				if ix, ok := ast.Unparen(rhs).(*ast.IndexExpr); ok && p.obj(ix.X) == mObj {
					continue
				}
				good = false
			}
			return true
		})
		return good
	}
	ast.Inspect(fn.Body, func(n ast.Node) bool {
		as, ok := n.(*ast.AssignStmt)
		if !ok {
			return true
		}
		for i, l := range as.Lhs {
			if p.obj(l) == mObj && as.Tok == token.ASSIGN {
				fail("%s: map %s reassigned at %s", fn.Name.Name, mObj.Name(), p.pos(as))
			}
			ix, ok := l.(*ast.IndexExpr)
			if !ok || p.obj(ix.X) != mObj {
				continue
			}
			if len(as.Lhs) != len(as.Rhs) {
				fail("%s: map fill at %s not understood", fn.Name.Name, p.pos(as))
			}
			rhs := as.Rhs[i]
			if p.isMakeSet(rhs) {
				continue
			}
			if o := p.obj(rhs); o != nil && okLocal(o) {
				continue
			}
			fail("%s: %s[...] = %s at %s not understood", fn.Name.Name, mObj.Name(), p.str(rhs), p.pos(as))
		}
		return true
	})
}

func (p *pkgCtx) definedByLiteral(fn *ast.FuncDecl, o types.Object) bool {
	found := false
	ast.Inspect(fn.Body, func(n ast.Node) bool {
		as, ok := n.(*ast.AssignStmt)
		if !ok || as.Tok != token.DEFINE || len(as.Lhs) != len(as.Rhs) {
			return true
		}
		for i, l := range as.Lhs {
			if id, ok := l.(*ast.Ident); ok && p.info.Defs[id] == o {
				if _, ok := ast.Unparen(as.Rhs[i]).(*ast.CompositeLit); ok {
					found = true
				}
			}
		}
		return true
	})
	return found
}

func recvTypeName(fd *ast.FuncDecl) string {
	if fd.Recv == nil || len(fd.Recv.List) != 1 {
		return ""
	}
	t := fd.Recv.List[0].Type
	if st, ok := t.(*ast.StarExpr); ok {
		t = st.X
	}
	if id, ok := t.(*ast.Ident); ok {
		return id.Name
	}
	return ""
}

func leanBool(b bool) string {
	if b {
		return "true"
	}
	return "false"
}

func main() {
	repo := flag.String("repo", "/repo", "repository root")
	out := flag.String("out", "", "output .lean file")
	flag.Parse()
	if *out == "" {
		fail("-out required")
	}
	env := append(os.Environ(), "GOFLAGS=-mod=mod", "GOPROXY=off")
	cfg := &packages.Config{Dir: *repo, Env: env, Mode: packages.NeedName | packages.NeedFiles | packages.NeedCompiledGoFiles |
		packages.NeedImports | packages.NeedTypes | packages.NeedTypesSizes | packages.NeedSyntax | packages.NeedTypesInfo}
	pkgs, err := packages.Load(cfg, "./core/validatorapi", "./core/parsigex")
	if err != nil {
		fail("load: %v", err)
	}
	byName := map[string]*pkgCtx{}
	for _, pk := range pkgs {
		if len(pk.Errors) > 0 {
			fail("package %s: %v", pk.PkgPath, pk.Errors[0])
		}
		byName[pk.Name] = &pkgCtx{pkg: pk, info: pk.TypesInfo, fset: pk.Fset}
	}
	va, px := byName["validatorapi"], byName["parsigex"]
	if va == nil || px == nil {
		fail("packages not found")
	}

	// ---- validatorapi: direct subscriber sites, call graph, rows ------------------------------
	type fnInfo struct {
		decl      *ast.FuncDecl
		direct    bool
		viaHelper bool // calls a fan-out helper
		callees   map[types.Object]bool
	}
	fns := map[types.Object]*fnInfo{}
	var order []types.Object
	for _, f := range va.pkg.Syntax {
		fname := filepath.Base(va.fset.Position(f.Pos()).Filename)
		if strings.HasSuffix(fname, "_test.go") || fname == "verif_export.go" {
			continue
		}
		for _, d := range f.Decls {
			fd, ok := d.(*ast.FuncDecl)
			if !ok || fd.Body == nil {
				continue
			}
			o := va.info.Defs[fd.Name]
			fi := &fnInfo{decl: fd, callees: map[types.Object]bool{}}
			ast.Inspect(fd.Body, func(n ast.Node) bool {
				switch x := n.(type) {
				case ast.Expr:
					if va.isField(x, "Component", "subs") {
						fi.direct = true
					}
					if c, ok := x.(*ast.CallExpr); ok {
						switch f := ast.Unparen(c.Fun).(type) {
						case *ast.Ident:
							if t := va.info.Uses[f]; t != nil && t.Pkg() == va.pkg.Types {
								fi.callees[t] = true
							}
						case *ast.SelectorExpr:
							if t := va.info.Uses[f.Sel]; t != nil && t.Pkg() == va.pkg.Types {
								fi.callees[t] = true
							}
						}
					}
				}
				return true
			})
			fns[o] = fi
			order = append(order, o)
		}
	}
	// fan-out helpers (one level): direct, of the helper form, calling no other function that reaches c.subs
	va.helpers = map[types.Object]*helperInfo{}
	for _, o := range order {
		fi := fns[o]
		if !fi.direct || fi.decl.Name.Name == "Subscribe" {
			continue
		}
		callsDirect := false
		for c := range fi.callees {
			if ci, ok := fns[c]; ok && ci.direct && ci.decl.Name.Name != "Subscribe" {
				callsDirect = true
			}
		}
		if callsDirect {
			continue
		}
		if h := va.asFanOutHelper(fi.decl); h != nil {
			va.helpers[o] = h
		}
	}
	// a helper may only be called, and only from methods of Component (which are then analysed as handlers)
	if len(va.helpers) > 0 {
		inCallPos := map[*ast.Ident]bool{}
		for _, f := range va.pkg.Syntax {
			ast.Inspect(f, func(n ast.Node) bool {
				if c, ok := n.(*ast.CallExpr); ok {
					if se, ok := ast.Unparen(c.Fun).(*ast.SelectorExpr); ok {
						inCallPos[se.Sel] = true
					}
				}
				return true
			})
		}
		for id, o := range va.info.Uses {
			if h := va.helpers[o]; h != nil && !inCallPos[id] {
				fail("fan-out helper %s used as a value at %s", h.decl.Name.Name, va.pos(id))
			}
		}
		for _, o := range order {
			fi := fns[o]
			for c := range fi.callees {
				if h := va.helpers[c]; h != nil {
					if recvTypeName(fi.decl) != "Component" {
						fail("fan-out helper %s called outside a method of Component: %s", h.decl.Name.Name, fi.decl.Name.Name)
					}
					fi.viaHelper = true
				}
			}
		}
	}
	var rows []row
	for _, o := range order {
		fi := fns[o]
		name := fi.decl.Name.Name
		if va.helpers[o] != nil {
			continue // accounted for at its call sites
		}
		if fi.direct || fi.viaHelper {
			if recvTypeName(fi.decl) != "Component" {
				fail("c.subs used outside a method of Component: %s", name)
			}
			if name == "Subscribe" {
				// registration only: c.subs = append(c.subs, wrapper)
				if len(fi.decl.Body.List) != 1 {
					fail("Subscribe: body not understood")
				}
				as, ok := fi.decl.Body.List[0].(*ast.AssignStmt)
				if !ok || len(as.Lhs) != 1 || !va.isField(as.Lhs[0], "Component", "subs") {
					fail("Subscribe: body not understood")
				}
				continue
			}
			rows = append(rows, va.analyseHandler(fi.decl))
			continue
		}
		// indirect reachability: a function that calls a direct one is not understood
		for c := range fi.callees {
			if ci, ok := fns[c]; ok && (ci.direct || ci.viaHelper) && ci.decl.Name.Name != "Subscribe" {
				r := row{method: name}
				r.note("reaches c.subs through %s: not understood", ci.decl.Name.Name)
				rows = append(rows, r)
			}
		}
	}

	// ---- shape facts ---------------------------------------------------------------------------
	type shape struct {
		name string
		ok   bool
	}
	var shapes []shape
	// verifyPartialSig: getVerifyShareFunc(<pubkey param>) checked, then return core.VerifyEth2SignedData(ctx, c.eth2Cl, <cast of parSig param>, <that share>)
	{
		ok := false
		for _, fi := range fns {
			if fi.decl.Name.Name != "verifyPartialSig" || recvTypeName(fi.decl) != "Component" {
				continue
			}
			ps := fi.decl.Type.Params.List
			if len(ps) != 3 {
				break
			}
			parSigObj, pkObj := va.info.Defs[ps[1].Names[0]], va.info.Defs[ps[2].Names[0]]
			var shareObj, castObj types.Object
			body := fi.decl.Body.List
			for i, s := range body {
				as, isAs := s.(*ast.AssignStmt)
				if isAs && len(as.Rhs) == 1 {
					if c, isCall := as.Rhs[0].(*ast.CallExpr); isCall && va.isField(c.Fun, "Component", "getVerifyShareFunc") &&
						len(c.Args) == 1 && va.obj(c.Args[0]) == pkObj && len(as.Lhs) == 2 && va.checkedCallMulti(body, i) {
						shareObj = va.obj(as.Lhs[0])
					}
					if ta, isTA := as.Rhs[0].(*ast.TypeAssertExpr); isTA && len(as.Lhs) == 2 {
						if se, isSel := ta.X.(*ast.SelectorExpr); isSel && se.Sel.Name == "SignedData" && va.obj(se.X) == parSigObj {
							castObj = va.obj(as.Lhs[0])
						}
					}
				}
			}
			last, isRet := body[len(body)-1].(*ast.ReturnStmt)
			if isRet && len(last.Results) == 1 && shareObj != nil && castObj != nil {
				if c, isCall := last.Results[0].(*ast.CallExpr); isCall && va.calleeName(c) == "core.VerifyEth2SignedData" && len(c.Args) == 4 &&
					va.isField(c.Args[1], "Component", "eth2Cl") && va.obj(c.Args[2]) == castObj && va.obj(c.Args[3]) == shareObj &&
					va.writes(fi.decl, shareObj) == 0 && va.writes(fi.decl, castObj) == 0 {
					ok = true
				}
			}
			// nothing but the insecureTest early return may return nil before that
			for _, s := range body[:len(body)-1] {
				if ifs, isIf := s.(*ast.IfStmt); isIf {
					if va.isField(ifs.Cond, "Component", "insecureTest") {
						continue
					}
					for _, b := range ifs.Body.List {
						if rt, isRt := b.(*ast.ReturnStmt); isRt && len(rt.Results) == 1 {
							if id, isID := rt.Results[0].(*ast.Ident); isID && id.Name == "nil" {
								ok = false
							}
						}
					}
				}
			}
		}
		shapes = append(shapes, shape{"verifyPartialSig.verifies_cast_of_arg_under_share_of_pubkey_arg", ok})
	}
	// NewComponent: the returned literal does not mention insecureTest, and nothing else sets it
	{
		ok := true
		sets := 0
		for _, fi := range fns {
			ast.Inspect(fi.decl.Body, func(n ast.Node) bool {
				switch x := n.(type) {
				case *ast.KeyValueExpr:
					if id, isID := x.Key.(*ast.Ident); isID && id.Name == "insecureTest" {
						sets++
						if fi.decl.Name.Name != "NewComponentInsecure" {
							ok = false
						}
					}
				case *ast.AssignStmt:
					for _, l := range x.Lhs {
						if va.isField(l, "Component", "insecureTest") {
							ok = false
						}
					}
				}
				return true
			})
		}
		shapes = append(shapes, shape{"NewComponent.leaves_insecureTest_false", ok && sets <= 1})
	}

	// ---- parsigex.handle -------------------------------------------------------------------------
	var prow row
	{
		var hd *ast.FuncDecl
		uses := 0
		for _, f := range px.pkg.Syntax {
			fname := filepath.Base(px.fset.Position(f.Pos()).Filename)
			if strings.HasSuffix(fname, "_test.go") || fname == "verif_export.go" {
				continue
			}
			for _, d := range f.Decls {
				fd, ok := d.(*ast.FuncDecl)
				if !ok || fd.Body == nil {
					continue
				}
				n := 0
				ast.Inspect(fd.Body, func(nd ast.Node) bool {
					if e, ok := nd.(ast.Expr); ok && px.isField(e, "ParSigEx", "subs") {
						n++
					}
					return true
				})
				if n == 0 {
					continue
				}
				switch {
				case fd.Name.Name == "Subscribe" && n == 2:
				case fd.Name.Name == "handle" && n == 1 && recvTypeName(fd) == "ParSigEx":
					hd = fd
				default:
					fail("parsigex: m.subs used in %s: not understood", fd.Name.Name)
				}
				uses += n
			}
		}
		if hd == nil {
			fail("parsigex: handle not found")
		}
		prow = row{method: "handle", verifies: true, sameVal: true, samePK: true}
		body := hd.Body.List
		subIdx, verIdx, gateIdx := -1, -1, -1
		var setObj types.Object
		for i, s := range body {
			if rs, ok := px.isSubsRange(s, "ParSigEx"); ok {
				sets, ok := px.subCallSets(rs)
				if !ok || len(sets) != 1 {
					fail("parsigex.handle: subscriber loop not understood")
				}
				subIdx = i
				setObj = px.obj(sets[0])
				if setObj == nil {
					fail("parsigex.handle: subscriber argument %s not understood", px.str(sets[0]))
				}
			}
		}
		if subIdx < 0 {
			fail("parsigex.handle: no subscriber loop at top level")
		}
		for i, s := range body {
			rs, ok := s.(*ast.RangeStmt)
			if !ok || len(rs.Body.List) == 0 {
				continue
			}
			c := px.checkedCall(rs.Body.List, 0)
			if c == nil || !px.isField(c.Fun, "ParSigEx", "verifyFunc") || len(c.Args) != 5 {
				continue
			}
			verIdx = i
			if px.obj(rs.X) != setObj || px.writes(hd, setObj) != 0 {
				prow.sameVal = false
				prow.note("verified set %s is not the set handed to subscribers", px.str(rs.X))
			}
			if !(px.obj(c.Args[3]) == px.obj(rs.Key) && px.obj(c.Args[4]) == px.obj(rs.Value) && px.obj(rs.Key) != nil && px.obj(rs.Value) != nil) {
				prow.samePK = false
				prow.note("verifyFunc is not called on the loop's own key and value")
			}
			break
		}
		if verIdx < 0 || verIdx > subIdx {
			prow.verifies = false
			prow.note("no checked verification loop before the subscriber loop")
		}
		for i, s := range body {
			ifs, ok := s.(*ast.IfStmt)
			if !ok || ifs.Init != nil {
				continue
			}
			if u, ok := ifs.Cond.(*ast.UnaryExpr); ok && u.Op == token.NOT {
				if c, ok := u.X.(*ast.CallExpr); ok && px.isField(c.Fun, "ParSigEx", "gaterFunc") && len(ifs.Body.List) > 0 {
					if _, isRet := ifs.Body.List[len(ifs.Body.List)-1].(*ast.ReturnStmt); isRet {
						gateIdx = i
					}
				}
			}
		}
		shapes = append(shapes, shape{"handle.gater_checked_before_verification_and_subscribers", gateIdx >= 0 && gateIdx < verIdx && gateIdx < subIdx})
	}

	// ---- emit ------------------------------------------------------------------------------------
	var b strings.Builder
	b.WriteString("-- GENERATED by harness/cmd/trans-vapi (translator T-vapi) from core/validatorapi and core/parsigex. Do not edit.\n")
	b.WriteString("import CharonV.Model.Admit\nnamespace CharonV.Generated.Vapi\nopen CharonV.Admit\n\n")
	emitRows := func(name string, rs []row) {
		b.WriteString("def " + name + " : List HandlerRow := [")
		for i, r := range rs {
			if i > 0 {
				b.WriteString(",")
			}
			fmt.Fprintf(&b, "\n  ⟨%q, %s, %s, %s⟩", r.method, leanBool(r.verifies), leanBool(r.sameVal), leanBool(r.samePK))
			for _, n := range r.notes {
				fmt.Fprintf(&b, " -- %s", strings.ReplaceAll(n, "\n", " "))
			}
		}
		b.WriteString("]\n\n")
	}
	emitRows("vapiRows", rows)
	b.WriteString("def gateRows : List (String × String) := [")
	first := true
	for _, r := range rows {
		for _, g := range r.gates {
			if !first {
				b.WriteString(",")
			}
			first = false
			fmt.Fprintf(&b, "\n  (%q, %q)", r.method, g)
		}
	}
	b.WriteString("]\n\n")
	emitRows("parsigexRows", []row{prow})
	b.WriteString("def shapeRows : List (String × Bool) := [")
	for i, s := range shapes {
		if i > 0 {
			b.WriteString(",")
		}
		fmt.Fprintf(&b, "\n  (%q, %s)", s.name, leanBool(s.ok))
	}
	b.WriteString("]\n\nend CharonV.Generated.Vapi\n")
	old, _ := os.ReadFile(*out)
	if string(old) != b.String() {
		if err := os.WriteFile(*out, []byte(b.String()), 0o644); err != nil {
			fail("write: %v", err)
		}
	}
	for _, r := range append(rows, prow) {
		fmt.Printf("%-34s verifies=%v same-value=%v same-pubkey=%v gates=%v %s\n", r.method, r.verifies, r.sameVal, r.samePK, r.gates, strings.Join(r.notes, "; "))
	}
	for _, s := range shapes {
		fmt.Printf("%-70s %v\n", s.name, s.ok)
	}
}

// checkedCallMulti: `a, err := f(...)` at stmts[i] followed by `if err != nil { …; return … }`.
func (p *pkgCtx) checkedCallMulti(stmts []ast.Stmt, i int) bool {
	as, ok := stmts[i].(*ast.AssignStmt)
	if !ok || len(as.Lhs) != 2 || i+1 >= len(stmts) {
		return false
	}
	errObj := p.obj(as.Lhs[1])
	ifs, ok := stmts[i+1].(*ast.IfStmt)
	if !ok || ifs.Init != nil || len(ifs.Body.List) == 0 {
		return false
	}
	be, ok := ifs.Cond.(*ast.BinaryExpr)
	if !ok || be.Op != token.NEQ || p.obj(be.X) != errObj || errObj == nil {
		return false
	}
	_, isRet := ifs.Body.List[len(ifs.Body.List)-1].(*ast.ReturnStmt)
	return isRet
}
