// trans-appwire: translator T-appwire for C01 (go/ast + go/types via go/packages; fails closed).
//
// C01's proof and drivers assume how the production binary assembles the core workflow. This tool
// regenerates those facts from the source on every run. It type-checks the packages app,
// core/consensus and cluster of the repo at -repo and emits lean/CharonV/Generated/AppWire.lean:
//
//   - calls: EVERY call, in those packages, of a constructor of the core workflow (a function named
//     `New*` or `Wire` of package core or core/{parsigdb,sigagg,parsigex,validatorapi,dutydb,aggsigdb,
//     bcast,consensus,consensus/qbft,fetcher,scheduler,priority,tracker}), every call of a function of
//     the scanned packages that contains such a call (wireCoreWorkflow, wirePrioritise, newTracker, …),
//     and every composite literal of type cluster.NodeIdx (as pseudo call `cluster.NodeIdx{}` with the
//     field values PeerIdx, ShareIdx as arguments). Per call: enclosing function, full name of the
//     callee, the enclosing constructs (if / else / range / for / func literal / case / go / defer and
//     the guards `unless c` = preceding `if c { return|continue|break }` of the same blocks; this is
//     where feature flags and test-config switches show up), and per argument its normalised text, its
//     static type, the local variable it is / is rooted at, and the listed call it is.
//   - vars: every local variable or parameter reachable from those arguments through defining
//     expressions: kind (parameter i / local / …), type, and EVERY assignment to it (enclosing
//     constructs, right-hand side, result index, called function), whether its address is taken.
//   - writes: every `v.f = e` / `v[k] = e` / `v.f++` on such a variable (how the share maps are built);
//     aliases: every `y := v` / `y = &v` / `y := *v` (a second name through which v could be changed).
//   - uses: every occurrence of the variables that hold a component, a gater / deadliner / verifier
//     function value, a map or a cluster.NodeIdx: what is done with it (argument i of which call,
//     method called, …) — a second producer into the Broadcaster, or a share index going to the wrong
//     consumer, shows up here. (Listed for the variables that are an argument — or the root of one — of a
//     listed call, that receive a listed call's result, or that are written into such a variable.)
//   - wireSites: every non-test file of the repository that refers to core.Wire; wireParams: the
//     parameters of core.Wire; plainReturns: the non-error returns of the functions that contain a
//     listed call.
//
// Normalisation: package qualifiers are the declared package names (import aliases do not matter); in
// each function the first variable of a name keeps it and the k-th shadowing one is printed `name'k`
// (except err / ok / _), so a text denotes the same variables wherever it appears in that function;
// white space is collapsed; a text longer than 150 characters is cut and given a hash of the whole.
// In the Lean file every text is ONE number (0x01 followed by its UTF-8 bytes; the text is in the comment
// before it): the kernel compares numbers fast and String values very slowly. The keys the tables are
// searched by (function, package, variable names) are stored in place, all other texts in the table `strs`.
//
// Canonical texts (fields `canon` of an argument, `nrhs` of an assignment, `nrole` of a use): the same
// text with the local variables of the enclosing function printed by what they ARE instead of by their
// source name (function ntext): a parameter is `«param i»`; a variable assigned exactly once, whose address
// is not taken, by a call of a named function is `«full name of the callee»` (`#r` appended for result r > 0
// of a multi-valued call, ` @ <enclosing constructs>` if the assignment is not at the top level of the
// function, `~k` for the k-th further variable of the function with the same token); a variable
// assigned exactly once (address not taken, no element or field of it written) by a call-free selector path
// over such variables or never-assigned parameters stands for that path (`threshold := lock.Threshold`
// makes `threshold` print as `«param 3».Threshold`); in `nrole` the used variable itself is `_`. Any other
// variable (several assignments, address taken, literal / func literal / call of a function value) keeps
// its name. These texts do not change when a local is renamed or when a call-free path is first bound to
// a local; `thresholds_agree` and `single_instances_wired` are stated over them and over the var / use
// indices (def-use), not over names.
//
// Fails closed (exit 1, nothing written, a stale output file removed by vlib/trans_appwire.py): a
// listed function used other than by calling it directly (function value, go/defer of a value, method
// expression), a needed variable defined by a construct the tool does not model (type switch binding),
// a package that does not type-check, dot imports of a watched package, generic or method wiring functions.
//
// Not modelled (trusted): what the callees do with what they are given (a function that receives `lock`
// or `&conf` could change it: the analysis is per function, plus the argument / parameter correspondence
// of the listed calls); values smuggled through struct fields, channels or package-level variables.
package main

import (
	"bytes"
	"crypto/sha256"
	"flag"
	"fmt"
	"go/ast"
	"go/parser"
	"go/printer"
	"go/token"
	"go/types"
	"os"
	"path/filepath"
	"sort"
	"strings"

	"golang.org/x/tools/go/packages"
)

const modPrefix = "github.com/obolnetwork/charon/"

func fail(f string, a ...any) {
	fmt.Fprintf(os.Stderr, "trans-appwire: "+f+"\n", a...)
	os.Exit(1)
}

// packages whose constructors are listed
var watchedPkgs = map[string]bool{
	"core": true, "core/parsigdb": true, "core/sigagg": true, "core/parsigex": true, "core/validatorapi": true,
	"core/dutydb": true, "core/aggsigdb": true, "core/bcast": true, "core/consensus": true, "core/consensus/qbft": true,
	"core/fetcher": true, "core/scheduler": true, "core/priority": true, "core/tracker": true,
}

// packages that are scanned for calls
var scanned = []string{"app", "core/consensus", "cluster"}

func relPkg(p *types.Package) (string, bool) {
	if p == nil {
		return "", false
	}
	r := strings.TrimPrefix(p.Path(), modPrefix)
	return r, r != p.Path()
}

func qualifier(p *types.Package) string {
	if r, ok := relPkg(p); ok {
		return r
	}
	return p.Path()
}

func watchedFunc(o types.Object) bool {
	f, ok := o.(*types.Func)
	if !ok {
		return false
	}
	r, ok := relPkg(f.Pkg())
	if !ok || !watchedPkgs[r] {
		return false
	}
	if sig, ok := f.Type().(*types.Signature); !ok || sig.Recv() != nil {
		return false
	}
	return f.Name() == "Wire" || strings.HasPrefix(f.Name(), "New")
}

func fullName(f *types.Func) string {
	sig := f.Type().(*types.Signature)
	if r := sig.Recv(); r != nil {
		return "(" + types.TypeString(r.Type(), qualifier) + ")." + f.Name()
	}
	if f.Pkg() == nil {
		return f.Name()
	}
	return qualifier(f.Pkg()) + "." + f.Name()
}

// ---------------------------------------------------------------------------------------------------

type pkgCtx struct {
	pkg   *packages.Package
	info  *types.Info
	fset  *token.FileSet
	rel   string
	decls []*ast.FuncDecl
}

type fnCtx struct {
	pc      *pkgCtx
	decl    *ast.FuncDecl
	name    string
	parents map[ast.Node]ast.Node
	// per object facts of this function
	defs     map[types.Object][]defRec
	addr     map[types.Object]bool
	kind     map[types.Object]string
	writes   []writeRec
	aliases  []writeRec // `y := x`, `y = &x`, `y := *x` for a local variable x
	unsupDef map[types.Object]string
	tokCache map[types.Object]string // canonical tokens of the locals (assignTokens)
}

type defRec struct {
	at  ast.Node // the statement
	rhs ast.Expr // nil: see txt
	pre string   // printed before rhs ("range ", "+= ")
	txt string
	res int
}

type writeRec struct {
	obj types.Object
	at  ast.Node
	lhs ast.Expr
	rhs ast.Expr
	txt string
}

var (
	fnOf     = map[*ast.FuncDecl]*fnCtx{}
	allPkgs  []*pkgCtx
	strIDs   = map[string]int{}
	strTable []string
)

func intern(s string) int {
	if id, ok := strIDs[s]; ok {
		return id
	}
	id := len(strTable)
	strIDs[s] = id
	strTable = append(strTable, s)
	return id
}

func shorten(s string) string {
	s = strings.Join(strings.Fields(s), " ")
	if len(s) <= 150 {
		return s
	}
	h := sha256.Sum256([]byte(s))
	cut := 110
	for cut > 0 && s[cut]&0xC0 == 0x80 { // do not cut inside a UTF-8 sequence
		cut--
	}
	return fmt.Sprintf("%s ...#%x", s[:cut], h[:4])
}

func (p *pkgCtx) text(n ast.Node) string {
	var b bytes.Buffer
	_ = printer.Fprint(&b, p.fset, n)
	return shorten(b.String())
}

func (p *pkgCtx) pos(n ast.Node) string {
	ps := p.fset.Position(n.Pos())
	return fmt.Sprintf("%s:%d", filepath.Base(ps.Filename), ps.Line)
}

func (p *pkgCtx) objOf(id *ast.Ident) types.Object {
	if o := p.info.Uses[id]; o != nil {
		return o
	}
	return p.info.Defs[id]
}

func isLocalVar(o types.Object) bool {
	v, ok := o.(*types.Var)
	if !ok || v.IsField() || v.Pkg() == nil {
		return false
	}
	return v.Parent() != v.Pkg().Scope()
}

func isGlobalVar(o types.Object) bool {
	v, ok := o.(*types.Var)
	return ok && !v.IsField() && v.Pkg() != nil && v.Parent() == v.Pkg().Scope()
}

// rename: package qualifiers -> declared package name; shadowing locals -> name'k.
func (p *pkgCtx) rename() {
	for _, f := range p.pkg.Syntax {
		ast.Inspect(f, func(n ast.Node) bool {
			if id, ok := n.(*ast.Ident); ok {
				if pn, ok := p.info.Uses[id].(*types.PkgName); ok {
					id.Name = pn.Imported().Name()
				}
			}
			return true
		})
	}
	for _, fd := range p.decls {
		type occ struct {
			o   types.Object
			pos token.Pos
		}
		byName := map[string][]occ{}
		seen := map[types.Object]bool{}
		ast.Inspect(fd, func(n ast.Node) bool {
			id, ok := n.(*ast.Ident)
			if !ok {
				return true
			}
			o := p.info.Defs[id]
			if o == nil || !isLocalVar(o) || seen[o] {
				return true
			}
			if id.Name == "_" || id.Name == "err" || id.Name == "ok" {
				return true
			}
			seen[o] = true
			byName[id.Name] = append(byName[id.Name], occ{o, id.Pos()})
			return true
		})
		newName := map[types.Object]string{}
		for name, os := range byName {
			sort.Slice(os, func(i, j int) bool { return os[i].pos < os[j].pos })
			for k, oc := range os {
				if k > 0 {
					newName[oc.o] = fmt.Sprintf("%s'%d", name, k)
				}
			}
		}
		if len(newName) == 0 {
			continue
		}
		ast.Inspect(fd, func(n ast.Node) bool {
			if id, ok := n.(*ast.Ident); ok {
				if nn, ok := newName[p.objOf(id)]; ok {
					id.Name = nn
				}
			}
			return true
		})
	}
}

func (p *pkgCtx) declAt(pos token.Pos) *ast.FuncDecl {
	for _, d := range p.decls {
		if d.Pos() <= pos && pos < d.End() {
			return d
		}
	}
	return nil
}

func (p *pkgCtx) fn(d *ast.FuncDecl) *fnCtx {
	if f, ok := fnOf[d]; ok {
		return f
	}
	o, _ := p.info.Defs[d.Name].(*types.Func)
	if o == nil {
		fail("%s: function without object", p.pos(d))
	}
	f := &fnCtx{pc: p, decl: d, name: fullName(o), parents: map[ast.Node]ast.Node{},
		defs: map[types.Object][]defRec{}, addr: map[types.Object]bool{}, kind: map[types.Object]string{},
		unsupDef: map[types.Object]string{}}
	fnOf[d] = f
	var stack []ast.Node
	ast.Inspect(d, func(n ast.Node) bool {
		if n == nil {
			stack = stack[:len(stack)-1]
			return true
		}
		if len(stack) > 0 {
			f.parents[n] = stack[len(stack)-1]
		}
		stack = append(stack, n)
		return true
	})
	f.scanDefs()
	return f
}

func rootIdent(e ast.Expr) *ast.Ident {
	for {
		switch x := e.(type) {
		case *ast.Ident:
			return x
		case *ast.ParenExpr:
			e = x.X
		case *ast.SelectorExpr:
			e = x.X
		case *ast.IndexExpr:
			e = x.X
		case *ast.StarExpr:
			e = x.X
		case *ast.SliceExpr:
			e = x.X
		case *ast.TypeAssertExpr:
			e = x.X
		case *ast.CallExpr:
			e = x.Fun
		case *ast.UnaryExpr:
			e = x.X
		default:
			return nil
		}
	}
}

func (f *fnCtx) scanDefs() {
	p := f.pc
	// parameters and results
	idx := 0
	if f.decl.Recv != nil {
		for _, fl := range f.decl.Recv.List {
			for _, n := range fl.Names {
				if o := p.info.Defs[n]; o != nil {
					f.kind[o] = "recv"
				}
			}
		}
	}
	for _, fl := range f.decl.Type.Params.List {
		if len(fl.Names) == 0 {
			idx++
		}
		for _, n := range fl.Names {
			if o := p.info.Defs[n]; o != nil {
				f.kind[o] = fmt.Sprintf("param %d", idx)
			}
			idx++
		}
	}
	if f.decl.Type.Results != nil {
		for _, fl := range f.decl.Type.Results.List {
			for _, n := range fl.Names {
				if o := p.info.Defs[n]; o != nil {
					f.kind[o] = "result"
				}
			}
		}
	}
	if f.decl.Body == nil {
		return
	}
	pick := func(lhs, rhs []ast.Expr, i int) (ast.Expr, int) {
		if len(lhs) == len(rhs) {
			return rhs[i], 0
		}
		if len(rhs) == 1 {
			return rhs[0], i
		}
		return nil, 0
	}
	ast.Inspect(f.decl.Body, func(n ast.Node) bool {
		switch s := n.(type) {
		case *ast.FuncLit:
			for _, fl := range s.Type.Params.List {
				for _, nm := range fl.Names {
					if o := p.info.Defs[nm]; o != nil {
						f.kind[o] = "litparam"
					}
				}
			}
			if s.Type.Results != nil {
				for _, fl := range s.Type.Results.List {
					for _, nm := range fl.Names {
						if o := p.info.Defs[nm]; o != nil {
							f.kind[o] = "result"
						}
					}
				}
			}
		case *ast.AssignStmt:
			for i, l := range s.Lhs {
				l = ast.Unparen(l)
				rhs, res := pick(s.Lhs, s.Rhs, i)
				if o := aliasOf(p, rhs); o != nil && len(s.Lhs) == len(s.Rhs) {
					if id, ok := l.(*ast.Ident); !ok || id.Name != "_" {
						f.aliases = append(f.aliases, writeRec{obj: o, at: s, lhs: l, rhs: rhs})
					}
				}
				pre := ""
				if s.Tok != token.DEFINE && s.Tok != token.ASSIGN {
					pre = s.Tok.String() + " "
				}
				if id, ok := l.(*ast.Ident); ok {
					if id.Name == "_" {
						continue
					}
					o := p.objOf(id)
					if o == nil || !isLocalVar(o) {
						continue
					}
					d := defRec{at: s, rhs: rhs, res: res}
					if rhs == nil {
						d.txt = "<unsupported assignment>"
					} else {
						d.pre = pre
					}
					f.defs[o] = append(f.defs[o], d)
					continue
				}
				if r := rootIdent(l); r != nil {
					if o := p.objOf(r); o != nil && (isLocalVar(o) || isGlobalVar(o)) {
						w := writeRec{obj: o, at: s, lhs: l, rhs: rhs}
						if rhs == nil {
							w.txt = "<unsupported assignment>"
						} else if pre != "" {
							w.txt = pre + p.text(rhs)
						}
						f.writes = append(f.writes, w)
					}
				}
			}
		case *ast.ValueSpec:
			for i, nm := range s.Names {
				o := p.info.Defs[nm]
				if o == nil || !isLocalVar(o) {
					continue
				}
				d := defRec{at: s}
				switch {
				case len(s.Values) == 0:
					d.txt = "<zero>"
				case len(s.Values) == len(s.Names):
					d.rhs = s.Values[i]
					if a := aliasOf(p, s.Values[i]); a != nil && nm.Name != "_" {
						f.aliases = append(f.aliases, writeRec{obj: a, at: s, lhs: nm, rhs: s.Values[i]})
					}
				case len(s.Values) == 1:
					d.rhs, d.res = s.Values[0], i
				default:
					d.txt = "<unsupported assignment>"
				}
				f.defs[o] = append(f.defs[o], d)
			}
		case *ast.RangeStmt:
			for i, e := range []ast.Expr{s.Key, s.Value} {
				if e == nil {
					continue
				}
				e = ast.Unparen(e)
				if id, ok := e.(*ast.Ident); ok {
					if id.Name == "_" {
						continue
					}
					if o := p.objOf(id); o != nil && isLocalVar(o) {
						f.defs[o] = append(f.defs[o], defRec{at: s, rhs: s.X, pre: "range ", res: i})
					}
				} else if r := rootIdent(e); r != nil {
					if o := p.objOf(r); o != nil && (isLocalVar(o) || isGlobalVar(o)) {
						f.writes = append(f.writes, writeRec{obj: o, at: s, lhs: e, txt: "range " + p.text(s.X)})
					}
				}
			}
		case *ast.IncDecStmt:
			x := ast.Unparen(s.X)
			if id, ok := x.(*ast.Ident); ok {
				if o := p.objOf(id); o != nil && isLocalVar(o) {
					f.defs[o] = append(f.defs[o], defRec{at: s, txt: s.Tok.String()})
				}
			} else if r := rootIdent(x); r != nil {
				if o := p.objOf(r); o != nil && (isLocalVar(o) || isGlobalVar(o)) {
					f.writes = append(f.writes, writeRec{obj: o, at: s, lhs: x, txt: s.Tok.String()})
				}
			}
		case *ast.UnaryExpr:
			if s.Op == token.AND {
				if r := rootIdent(s.X); r != nil {
					if o := p.objOf(r); o != nil && isLocalVar(o) {
						f.addr[o] = true
					}
				}
			}
		case *ast.TypeSwitchStmt:
			if as, ok := s.Assign.(*ast.AssignStmt); ok {
				if id, ok := as.Lhs[0].(*ast.Ident); ok {
					// the per-clause objects are in Implicits
					for _, c := range s.Body.List {
						if o := p.info.Implicits[c]; o != nil {
							f.unsupDef[o] = "type switch binding " + id.Name
						}
					}
				}
			}
		}
		return true
	})
}

// aliasOf: e is `x`, `&x`, `*x` (or `&x.f…`) for a local variable x: the variable.
func aliasOf(p *pkgCtx, e ast.Expr) types.Object {
	if e == nil {
		return nil
	}
	e = ast.Unparen(e)
	switch x := e.(type) {
	case *ast.UnaryExpr:
		if x.Op != token.AND {
			return nil
		}
		r := rootIdent(x.X)
		if r == nil {
			return nil
		}
		if o := p.objOf(r); o != nil && isLocalVar(o) {
			return o
		}
		return nil
	case *ast.StarExpr:
		e = ast.Unparen(x.X)
	}
	if id, ok := e.(*ast.Ident); ok {
		if o := p.objOf(id); o != nil && isLocalVar(o) {
			return o
		}
	}
	return nil
}

// path: the enclosing constructs of n inside its function, outermost first.
func (f *fnCtx) path(n ast.Node) []string {
	p := f.pc
	var rev []string
	isErrNotNil := func(c ast.Expr) bool {
		be, ok := c.(*ast.BinaryExpr)
		if !ok || be.Op != token.NEQ {
			return false
		}
		x, ok1 := be.X.(*ast.Ident)
		y, ok2 := be.Y.(*ast.Ident)
		return ok1 && ok2 && strings.HasPrefix(x.Name, "err") && y.Name == "nil"
	}
	isJump := func(b *ast.BlockStmt) bool {
		if len(b.List) == 0 {
			return false
		}
		switch l := b.List[len(b.List)-1].(type) {
		case *ast.ReturnStmt:
			return true
		case *ast.BranchStmt:
			return l.Tok == token.CONTINUE || l.Tok == token.BREAK || l.Tok == token.GOTO
		case *ast.ExprStmt:
			if c, ok := l.X.(*ast.CallExpr); ok {
				if id, ok := c.Fun.(*ast.Ident); ok && id.Name == "panic" {
					return true
				}
			}
		}
		return false
	}
	ifHead := func(s *ast.IfStmt) string {
		if s.Init != nil {
			return p.text(s.Init) + "; " + p.text(s.Cond)
		}
		return p.text(s.Cond)
	}
	guards := func(list []ast.Stmt, child ast.Node) {
		// preceding guard ifs of this statement list, innermost-last order (we build reversed)
		var g []string
		for _, st := range list {
			if st == child {
				break
			}
			is, ok := st.(*ast.IfStmt)
			if !ok || is.Else != nil || !isJump(is.Body) || isErrNotNil(is.Cond) {
				continue
			}
			g = append(g, "unless "+ifHead(is))
		}
		for i := len(g) - 1; i >= 0; i-- {
			rev = append(rev, g[i])
		}
	}
	child := n
	for {
		par, ok := f.parents[child]
		if !ok {
			break
		}
		switch s := par.(type) {
		case *ast.IfStmt:
			if child == ast.Node(s.Body) {
				rev = append(rev, "if "+ifHead(s))
			} else if s.Else != nil && child == ast.Node(s.Else) {
				rev = append(rev, "else "+ifHead(s))
			}
		case *ast.ForStmt:
			if child == ast.Node(s.Body) {
				h := "for"
				if s.Cond != nil {
					h += " " + p.text(s.Cond)
				}
				rev = append(rev, h)
			}
		case *ast.RangeStmt:
			if child == ast.Node(s.Body) {
				h := "range "
				if s.Key != nil {
					h += p.text(s.Key)
					if s.Value != nil {
						h += ", " + p.text(s.Value)
					}
					h += " " + s.Tok.String() + " "
				}
				rev = append(rev, h+p.text(s.X))
			}
		case *ast.FuncLit:
			h := "funclit"
			if gp, ok := f.parents[s]; ok {
				switch a := gp.(type) {
				case *ast.AssignStmt:
					for i, r := range a.Rhs {
						if r == ast.Expr(s) && len(a.Lhs) == len(a.Rhs) {
							h += " " + p.text(a.Lhs[i])
						}
					}
				case *ast.ValueSpec:
					for i, r := range a.Values {
						if r == ast.Expr(s) && len(a.Names) == len(a.Values) {
							h += " " + a.Names[i].Name
						}
					}
				}
			}
			rev = append(rev, h)
		case *ast.CaseClause:
			if len(s.List) == 0 {
				rev = append(rev, "default")
			} else {
				var xs []string
				for _, e := range s.List {
					xs = append(xs, p.text(e))
				}
				rev = append(rev, "case "+strings.Join(xs, ", "))
			}
			guards(s.Body, child)
		case *ast.SwitchStmt:
			h := "switch"
			if s.Tag != nil {
				h += " " + p.text(s.Tag)
			}
			rev = append(rev, h)
		case *ast.TypeSwitchStmt:
			rev = append(rev, "typeswitch "+p.text(s.Assign))
		case *ast.CommClause:
			if s.Comm == nil {
				rev = append(rev, "select default")
			} else {
				rev = append(rev, "select "+p.text(s.Comm))
			}
			guards(s.Body, child)
		case *ast.GoStmt:
			rev = append(rev, "go")
		case *ast.DeferStmt:
			rev = append(rev, "defer")
		case *ast.BlockStmt:
			guards(s.List, child)
		}
		child = par
	}
	out := make([]string, len(rev))
	for i := range rev {
		out[len(rev)-1-i] = rev[i]
	}
	return out
}

// ---------------------------------------------------------------------------------------------------
// tables

type argRow struct {
	canon    int // canonical text (ntext)
	expr, ty int
	v, root  int // vars index or -1
	call     int // calls index or -1
	isVar    bool
	node     ast.Expr
}

type callRow struct {
	fn, pkg, name string
	path          []int
	args          []argRow
	spread        bool
	node          ast.Node
	pos           token.Pos
	f             *fnCtx
}

type defRow struct {
	nrhs   int // canonical text of the right-hand side
	path   []int
	rhs    int
	res    int
	call   int
	callee int
}

type varRow struct {
	fn, name string
	ty       int
	kind     string
	defs     []defRow
	addr     bool
	obj      types.Object
	f        *fnCtx
	done     bool
}

type writeRow struct {
	v      int
	path   []int
	lhs    int
	rhs    int
	rhsVar int
}

type useRow struct {
	v     int
	path  []int
	role  int
	nrole int // role with the variable itself printed `_` and the other locals canonically
}

var (
	calls     []*callRow
	callOf    = map[ast.Node]int{}
	vars      []*varRow
	varOf     = map[types.Object]int{}
	writeRows []writeRow
	aliasRows []writeRow
	useRows   []useRow
	useVars   = map[int]bool{}
)

func internPath(xs []string) []int {
	out := make([]int, len(xs))
	for i, x := range xs {
		out[i] = intern(x)
	}
	return out
}

func pkgOfObj(o types.Object) *pkgCtx {
	for _, p := range allPkgs {
		if p.pkg.Types == o.Pkg() {
			return p
		}
	}
	return nil
}

// varIndex returns the row of local / global variable o, creating it (defs filled later by closeVars).
func varIndex(o types.Object) int {
	if i, ok := varOf[o]; ok {
		return i
	}
	p := pkgOfObj(o)
	if p == nil {
		return -1
	}
	row := &varRow{name: "", obj: o, ty: intern(shorten(types.TypeString(o.Type(), qualifier)))}
	if isGlobalVar(o) {
		row.kind = "global"
		row.name = o.Name()
	} else {
		d := p.declAt(o.Pos())
		if d == nil {
			return -1
		}
		f := p.fn(d)
		row.f = f
		row.fn = f.name
		row.kind = f.kind[o]
		if row.kind == "" {
			row.kind = "local"
		}
		row.addr = f.addr[o]
	}
	varOf[o] = len(vars)
	vars = append(vars, row)
	return len(vars) - 1
}

// identsOf: local/global variable objects mentioned in e (not descending into func literal bodies).
func identsOf(p *pkgCtx, e ast.Node) []types.Object {
	var out []types.Object
	ast.Inspect(e, func(n ast.Node) bool {
		if _, ok := n.(*ast.FuncLit); ok {
			return false
		}
		if id, ok := n.(*ast.Ident); ok {
			if o := p.info.Uses[id]; o != nil && (isLocalVar(o) || isGlobalVar(o)) {
				out = append(out, o)
			}
		}
		return true
	})
	return out
}

func calleeOf(p *pkgCtx, c *ast.CallExpr) (*types.Func, *ast.Ident) {
	fun := ast.Unparen(c.Fun)
	for {
		switch x := fun.(type) {
		case *ast.IndexExpr:
			fun = ast.Unparen(x.X)
			continue
		case *ast.IndexListExpr:
			fun = ast.Unparen(x.X)
			continue
		}
		break
	}
	switch x := fun.(type) {
	case *ast.Ident:
		if f, ok := p.info.Uses[x].(*types.Func); ok {
			return f, x
		}
	case *ast.SelectorExpr:
		if f, ok := p.info.Uses[x.Sel].(*types.Func); ok {
			// a method expression T.m is not a plain call of the method
			if sel := p.info.Selections[x]; sel != nil && sel.Kind() == types.MethodExpr {
				return nil, nil
			}
			return f, x.Sel
		}
	}
	return nil, nil
}

func isNodeIdx(t types.Type) bool {
	n, ok := t.(*types.Named)
	if !ok {
		return false
	}
	r, ok := relPkg(n.Obj().Pkg())
	return ok && r == "cluster" && n.Obj().Name() == "NodeIdx"
}

// ---------------------------------------------------------------------------------------------------
// canonical texts

// ownVar: o is a parameter / local variable declared inside f's declaration.
func (f *fnCtx) ownVar(o types.Object) bool {
	return o != nil && isLocalVar(o) && f.decl.Pos() <= o.Pos() && o.Pos() < f.decl.End()
}

// purePath: e is an identifier or a selector chain over one (no call, index, dereference, literal).
func purePath(e ast.Expr) bool {
	switch x := ast.Unparen(e).(type) {
	case *ast.Ident:
		return true
	case *ast.SelectorExpr:
		return purePath(x.X)
	}
	return false
}

func (f *fnCtx) written(o types.Object) bool {
	for _, w := range f.writes {
		if w.obj == o {
			return true
		}
	}
	return false
}

// stableVar: o keeps one value throughout f: a parameter that is never assigned, or a local assigned once; address not taken.
func (f *fnCtx) stableVar(o types.Object) bool {
	if f.addr[o] || f.unsupDef[o] != "" {
		return false
	}
	if strings.HasPrefix(f.kind[o], "param ") || f.kind[o] == "recv" {
		return len(f.defs[o]) == 0
	}
	return f.kind[o] == "" && len(f.defs[o]) == 1
}

// canonTok is the canonical token of variable o of f ("" = keep the source name).
func (f *fnCtx) canonTok(o types.Object, depth int) string {
	p := f.pc
	if !f.ownVar(o) {
		return ""
	}
	if k := f.kind[o]; k != "" {
		if strings.HasPrefix(k, "param ") {
			return "«" + k + "»"
		}
		return ""
	}
	if tok, ok := f.tokCache[o]; ok {
		return tok
	}
	if !f.stableVar(o) {
		return ""
	}
	d := f.defs[o][0]
	if d.rhs == nil || d.pre != "" {
		return ""
	}
	rhs := ast.Unparen(d.rhs)
	if ce, ok := rhs.(*ast.CallExpr); ok {
		fn, _ := calleeOf(p, ce)
		if fn == nil {
			return ""
		}
		tok := fullName(fn)
		if d.res > 0 {
			tok += fmt.Sprintf("#%d", d.res)
		}
		if path := f.path(d.at); len(path) > 0 {
			tok += " @ " + strings.Join(path, "; ")
		}
		return "«" + tok + "»"
	}
	if purePath(rhs) && d.res == 0 && depth < 4 && !f.written(o) {
		root := rootIdent(rhs)
		ro := p.objOf(root)
		if ro == nil || !f.ownVar(ro) || !f.stableVar(ro) || f.written(ro) {
			return ""
		}
		return f.ntextDepth(rhs, nil, depth+1)
	}
	return ""
}

// assignTokens fixes the token of every local of f once (so that `~k` suffixes do not depend on the query order).
func (f *fnCtx) assignTokens() {
	if f.tokCache != nil {
		return
	}
	p := f.pc
	var objs []types.Object
	seen := map[types.Object]bool{}
	ast.Inspect(f.decl, func(n ast.Node) bool {
		if id, ok := n.(*ast.Ident); ok {
			if o := p.info.Defs[id]; o != nil && f.ownVar(o) && f.kind[o] == "" && !seen[o] {
				seen[o] = true
				objs = append(objs, o)
			}
		}
		return true
	})
	toks := map[types.Object]string{}
	for _, o := range objs { // source order of the declarations
		toks[o] = f.canonTok(o, 0)
	}
	count := map[string]int{}
	f.tokCache = map[types.Object]string{}
	for _, o := range objs {
		t := toks[o]
		if strings.HasPrefix(t, "«") && strings.HasSuffix(t, "»") && !strings.Contains(t, "«param ") {
			count[t]++
			if k := count[t]; k > 1 {
				t = strings.TrimSuffix(t, "»") + fmt.Sprintf("~%d»", k)
			}
		}
		f.tokCache[o] = t
	}
}

// ntext prints n with the local variables of f replaced by their canonical tokens (self: printed `_`).
func (f *fnCtx) ntext(n ast.Node, self types.Object) string {
	f.assignTokens()
	return f.ntextDepth(n, self, 0)
}

func (f *fnCtx) ntextDepth(n ast.Node, self types.Object, depth int) string {
	p := f.pc
	type saved struct {
		id   *ast.Ident
		name string
	}
	var undo []saved
	ast.Inspect(n, func(x ast.Node) bool {
		id, ok := x.(*ast.Ident)
		if !ok {
			return true
		}
		o := p.objOf(id)
		if o == nil || !f.ownVar(o) {
			return true
		}
		tok := ""
		if self != nil && o == self {
			tok = "_"
		} else {
			tok = f.canonTok(o, depth)
		}
		if tok != "" && tok != id.Name {
			undo = append(undo, saved{id, id.Name})
			id.Name = tok
		}
		return true
	})
	var b bytes.Buffer
	_ = printer.Fprint(&b, p.fset, n)
	for _, u := range undo {
		u.id.Name = u.name
	}
	return shorten(b.String())
}

func makeArg(f *fnCtx, e ast.Expr) argRow {
	p := f.pc
	a := argRow{expr: intern(p.text(e)), canon: intern(f.ntext(e, nil)), v: -1, root: -1, call: -1, node: e}
	if tv, ok := p.info.Types[e]; ok && tv.Type != nil {
		a.ty = intern(shorten(types.TypeString(tv.Type, qualifier)))
	} else {
		a.ty = intern("?")
	}
	u := ast.Unparen(e)
	if id, ok := u.(*ast.Ident); ok {
		if o := p.objOf(id); o != nil && (isLocalVar(o) || isGlobalVar(o)) {
			a.v = varIndex(o)
			a.root = a.v
			a.isVar = true
		}
	} else if r := rootIdent(u); r != nil {
		// root of a selector / index / method-call chain; a package-qualified function call has no root
		if o := p.objOf(r); o != nil && (isLocalVar(o) || isGlobalVar(o)) {
			a.root = varIndex(o)
		}
	}
	return a
}

func main() {
	repo := flag.String("repo", envOr("VERIF_REPO", "/repo"), "repository root")
	out := flag.String("out", "", "output .lean file")
	flag.Parse()
	if *out == "" {
		fail("-out required")
	}
	env := append(os.Environ(), "GOFLAGS=-mod=mod", "GOPROXY=off")
	cfg := &packages.Config{Dir: *repo, Env: env, Mode: packages.NeedName | packages.NeedFiles | packages.NeedCompiledGoFiles |
		packages.NeedImports | packages.NeedTypes | packages.NeedTypesSizes | packages.NeedSyntax | packages.NeedTypesInfo}
	var pats []string
	for _, s := range scanned {
		pats = append(pats, "./"+s)
	}
	pkgs, err := packages.Load(cfg, pats...)
	if err != nil {
		fail("load: %v", err)
	}
	byRel := map[string]*pkgCtx{}
	for _, pk := range pkgs {
		if len(pk.Errors) > 0 {
			fail("package %s: %v", pk.PkgPath, pk.Errors[0])
		}
		r := strings.TrimPrefix(pk.PkgPath, modPrefix)
		pc := &pkgCtx{pkg: pk, info: pk.TypesInfo, fset: pk.Fset, rel: r}
		for _, f := range pk.Syntax {
			for _, d := range f.Decls {
				if fd, ok := d.(*ast.FuncDecl); ok {
					pc.decls = append(pc.decls, fd)
				}
			}
		}
		byRel[r] = pc
	}
	for _, s := range scanned {
		if byRel[s] == nil {
			fail("package %s not loaded", s)
		}
		allPkgs = append(allPkgs, byRel[s])
	}
	for _, p := range allPkgs {
		for _, imp := range p.pkg.Syntax {
			for _, is := range imp.Imports {
				if is.Name != nil && is.Name.Name == "." {
					path := strings.Trim(is.Path.Value, `"`)
					if r := strings.TrimPrefix(path, modPrefix); r != path && watchedPkgs[r] {
						fail("%s: dot import of %s", p.pos(is), path)
					}
				}
			}
		}
		p.rename()
	}

	// ---- 1. watched calls; wiring functions = functions that contain one ---------------------------
	type site struct {
		p    *pkgCtx
		d    *ast.FuncDecl
		call *ast.CallExpr
		fn   *types.Func
		lit  *ast.CompositeLit
	}
	var sites []site
	calleeIdent := map[*ast.Ident]bool{}
	wiring := map[*types.Func]bool{}
	for _, p := range allPkgs {
		for _, d := range p.decls {
			if d.Body == nil {
				continue
			}
			ast.Inspect(d.Body, func(n ast.Node) bool {
				switch x := n.(type) {
				case *ast.CallExpr:
					if fn, id := calleeOf(p, x); fn != nil && watchedFunc(fn) {
						sites = append(sites, site{p: p, d: d, call: x, fn: fn})
						calleeIdent[id] = true
						if o, ok := p.info.Defs[d.Name].(*types.Func); ok {
							wiring[o] = true
						}
					}
				case *ast.CompositeLit:
					if tv, ok := p.info.Types[x]; ok && isNodeIdx(tv.Type) {
						sites = append(sites, site{p: p, d: d, lit: x})
					}
				}
				return true
			})
		}
	}
	for fn := range wiring {
		sig := fn.Type().(*types.Signature)
		if sig.Recv() != nil || sig.TypeParams() != nil {
			fail("wiring function %s is a method or generic: not modelled", fullName(fn))
		}
	}
	// calls of wiring functions (from any function of the scanned packages)
	for _, p := range allPkgs {
		for _, d := range p.decls {
			if d.Body == nil {
				continue
			}
			ast.Inspect(d.Body, func(n ast.Node) bool {
				if x, ok := n.(*ast.CallExpr); ok {
					if fn, id := calleeOf(p, x); fn != nil && wiring[fn] && !watchedFunc(fn) {
						sites = append(sites, site{p: p, d: d, call: x, fn: fn})
						calleeIdent[id] = true
					}
				}
				return true
			})
		}
	}
	// any other reference to a listed function: fail closed
	for _, p := range allPkgs {
		for _, f := range p.pkg.Syntax {
			ast.Inspect(f, func(n ast.Node) bool {
				id, ok := n.(*ast.Ident)
				if !ok || calleeIdent[id] {
					return true
				}
				if o, ok := p.info.Uses[id].(*types.Func); ok && (watchedFunc(o) || wiring[o]) {
					fail("%s: %s is used other than by calling it directly: not modelled", p.pos(id), fullName(o))
				}
				return true
			})
		}
	}
	sort.SliceStable(sites, func(i, j int) bool {
		a, b := sites[i], sites[j]
		if a.p != b.p {
			return a.p.rel < b.p.rel
		}
		fa, fb := a.p.fset.Position(siteNode(a.call, a.lit).Pos()), b.p.fset.Position(siteNode(b.call, b.lit).Pos())
		if fa.Filename != fb.Filename {
			return fa.Filename < fb.Filename
		}
		return fa.Offset < fb.Offset
	})
	for _, s := range sites {
		f := s.p.fn(s.d)
		row := &callRow{fn: f.name, f: f}
		if s.call != nil {
			row.pkg, row.name = qualifier(s.fn.Pkg()), s.fn.Name()
			row.node = s.call
			row.spread = s.call.Ellipsis != token.NoPos
			row.path = internPath(f.path(s.call))
			for _, a := range s.call.Args {
				row.args = append(row.args, makeArg(f, a))
			}
		} else {
			row.pkg, row.name = "cluster", "NodeIdx{}"
			row.node = s.lit
			row.path = internPath(f.path(s.lit))
			vals := map[string]ast.Expr{}
			names := []string{"PeerIdx", "ShareIdx"}
			for i, e := range s.lit.Elts {
				if kv, ok := e.(*ast.KeyValueExpr); ok {
					k, ok := kv.Key.(*ast.Ident)
					if !ok {
						fail("%s: NodeIdx literal key", s.p.pos(e))
					}
					vals[k.Name] = kv.Value
				} else if i < len(names) {
					vals[names[i]] = e
				}
			}
			if len(s.lit.Elts) > 0 {
				for _, nm := range names {
					if v, ok := vals[nm]; ok {
						row.args = append(row.args, makeArg(f, v))
					} else {
						row.args = append(row.args, argRow{expr: intern("<zero>"), canon: intern("<zero>"), ty: intern("int"), v: -1, root: -1, call: -1})
					}
				}
				if len(vals) > 2 {
					fail("%s: NodeIdx literal with unknown fields", s.p.pos(s.lit))
				}
			}
		}
		callOf[row.node] = len(calls)
		calls = append(calls, row)
	}
	// nested listed calls
	for _, c := range calls {
		for i := range c.args {
			if n := ast.Unparen(c.args[i].node); n != nil {
				if k, ok := callOf[n]; ok {
					c.args[i].call = k
				}
			}
		}
	}

	// ---- 2. variables: seeds = variables in the arguments and on the left of listed calls -------------
	for _, c := range calls {
		p := c.f.pc
		for _, a := range c.args {
			if a.node == nil {
				continue
			}
			for _, o := range identsOf(p, a.node) {
				varIndex(o)
			}
		}
		// variables the call's results are assigned to
		if par, ok := c.f.parents[c.node]; ok {
			switch s := par.(type) {
			case *ast.AssignStmt:
				for _, l := range s.Lhs {
					if id, ok := ast.Unparen(l).(*ast.Ident); ok && id.Name != "_" {
						if o := p.objOf(id); o != nil && (isLocalVar(o) || isGlobalVar(o)) && !strings.HasPrefix(id.Name, "err") {
							varIndex(o)
						}
					}
				}
			case *ast.ValueSpec:
				for _, nm := range s.Names {
					if o := p.info.Defs[nm]; o != nil && nm.Name != "_" {
						varIndex(o)
					}
				}
			}
		}
	}
	// closure over defining expressions and writes
	doneWrites := map[*fnCtx]map[types.Object]bool{}
	for i := 0; i < len(vars); i++ {
		v := vars[i]
		if v.f == nil { // global: initialiser only
			continue
		}
		f, p := v.f, v.f.pc
		if why, bad := f.unsupDef[v.obj]; bad {
			fail("%s: variable %s is defined by a %s: not modelled", p.pos(f.decl), v.obj.Name(), why)
		}
		v.name = nameOf(p, f, v.obj)
		for _, d := range f.defs[v.obj] {
			dr := defRow{path: internPath(f.path(d.at)), res: d.res, call: -1, callee: intern("")}
			if d.txt != "" {
				dr.rhs = intern(d.txt)
				dr.nrhs = dr.rhs
			} else {
				dr.rhs = intern(shorten(d.pre + p.text(d.rhs)))
				dr.nrhs = intern(shorten(d.pre + f.ntext(d.rhs, nil)))
			}
			if d.rhs != nil && d.pre == "" {
				if ce, ok := ast.Unparen(d.rhs).(*ast.CallExpr); ok {
					if k, ok := callOf[ce]; ok {
						dr.call = k
					}
					if fn, _ := calleeOf(p, ce); fn != nil {
						dr.callee = intern(fullName(fn))
					}
				}
				if cl, ok := ast.Unparen(d.rhs).(*ast.CompositeLit); ok {
					if k, ok := callOf[cl]; ok {
						dr.call = k
					}
				}
			}
			if d.rhs != nil {
				for _, o := range identsOf(p, d.rhs) {
					varIndex(o)
				}
			}
			v.defs = append(v.defs, dr)
		}
		if len(v.defs) == 0 && v.kind == "local" {
			fail("%s: no definition found for local variable %s of %s: not modelled", p.pos(f.decl), v.obj.Name(), f.name)
		}
		if doneWrites[f] == nil {
			doneWrites[f] = map[types.Object]bool{}
		}
		if !doneWrites[f][v.obj] {
			doneWrites[f][v.obj] = true
			for _, w := range f.writes {
				if w.obj != v.obj {
					continue
				}
				wr := writeRow{v: i, path: internPath(f.path(w.at)), lhs: intern(p.text(w.lhs)), rhsVar: -1}
				if w.txt != "" {
					wr.rhs = intern(w.txt)
				} else {
					wr.rhs = intern(p.text(w.rhs))
				}
				for _, o := range identsOf(p, w.lhs) {
					varIndex(o)
				}
				if w.rhs != nil {
					for _, o := range identsOf(p, w.rhs) {
						varIndex(o)
					}
					if id, ok := ast.Unparen(w.rhs).(*ast.Ident); ok {
						if o := p.objOf(id); o != nil && (isLocalVar(o) || isGlobalVar(o)) {
							wr.rhsVar = varIndex(o)
						}
					}
				}
				writeRows = append(writeRows, wr)
			}
			for _, w := range f.aliases {
				if w.obj != v.obj {
					continue
				}
				aliasRows = append(aliasRows, writeRow{v: i, path: internPath(f.path(w.at)), lhs: intern(p.text(w.lhs)),
					rhs: intern(p.text(w.rhs)), rhsVar: -1})
			}
		}
	}
	for _, v := range vars {
		if v.f == nil {
			v.name = v.obj.Name()
			v.fn = qualifier(v.obj.Pkg())
		}
	}

	// ---- 3. uses of component / function / map / NodeIdx valued variables ------------------------------
	trackUses := func(v *varRow) bool {
		if v.f == nil {
			return true
		}
		t := v.obj.Type()
		if pt, ok := t.(*types.Pointer); ok {
			t = pt.Elem()
		}
		if n, ok := t.(*types.Named); ok {
			if r, ok := relPkg(n.Obj().Pkg()); ok && (watchedPkgs[r] || (r == "cluster" && n.Obj().Name() == "NodeIdx")) {
				return true
			}
		}
		switch t.Underlying().(type) {
		case *types.Signature, *types.Map:
			return true
		}
		return false
	}
	// only variables that are an argument (or its root) of a listed call, or receive a listed call's result
	cand := map[int]bool{}
	for _, c := range calls {
		for _, a := range c.args {
			if a.root >= 0 {
				cand[a.root] = true
			}
		}
	}
	for i, v := range vars {
		for _, d := range v.defs {
			if d.call >= 0 {
				cand[i] = true
			}
		}
	}
	for _, w := range writeRows {
		if cand[w.v] && w.rhsVar >= 0 {
			cand[w.rhsVar] = true
		}
	}
	for i, v := range vars {
		if cand[i] && trackUses(v) && v.f != nil {
			useVars[i] = true
		}
	}
	perFn := map[*fnCtx][]int{}
	for i := range vars {
		if useVars[i] {
			perFn[vars[i].f] = append(perFn[vars[i].f], i)
		}
	}
	var fnList []*fnCtx
	for f := range perFn {
		fnList = append(fnList, f)
	}
	sort.Slice(fnList, func(i, j int) bool { return fnList[i].name < fnList[j].name })
	for _, f := range fnList {
		p := f.pc
		want := map[types.Object]int{}
		for _, i := range perFn[f] {
			want[vars[i].obj] = i
		}
		ast.Inspect(f.decl.Body, func(n ast.Node) bool {
			id, ok := n.(*ast.Ident)
			if !ok {
				return true
			}
			vi, ok := want[p.info.Uses[id]]
			if !ok {
				return true
			}
			// climb the selector / index chain
			var cur ast.Node = id
			for {
				par := f.parents[cur]
				stop := true
				switch x := par.(type) {
				case *ast.ParenExpr:
					stop = false
				case *ast.SelectorExpr:
					stop = x.X != cur
				case *ast.IndexExpr:
					stop = x.X != cur
				case *ast.StarExpr:
					stop = false
				case *ast.SliceExpr:
					stop = x.X != cur
				case *ast.TypeAssertExpr:
					stop = x.X != cur
				}
				if stop {
					break
				}
				cur = par
			}
			isDef := false
			build := func(tx func(ast.Node) string) string {
				subject := tx(cur)
				par := f.parents[cur]
				role := ""
				switch x := par.(type) {
				case *ast.CallExpr:
					if ast.Node(x.Fun) == cur {
						role = "called " + subject
						// what the call is: its full text (arguments matter: what is subscribed)
						role += " | " + tx(x)
					} else {
						for i, a := range x.Args {
							if ast.Node(a) == cur {
								cn := tx(x.Fun)
								if fn, _ := calleeOf(p, x); fn != nil {
									cn = fullName(fn)
								}
								role = fmt.Sprintf("%s as arg %d of %s", subject, i, cn)
							}
						}
					}
				case *ast.AssignStmt:
					isL := false
					for _, l := range x.Lhs {
						if ast.Node(l) == cur {
							isL = true
						}
					}
					if isL {
						if cur == ast.Node(id) {
							isDef = true // a definition: listed in vars
							return ""
						}
						role = "written " + subject
					} else {
						role = "copied | " + tx(x)
					}
				case *ast.RangeStmt:
					if ast.Node(x.X) == cur {
						role = "ranged " + subject
					}
				case *ast.UnaryExpr:
					role = x.Op.String() + subject + " | " + tx(stmtOf(f, cur))
				}
				if role == "" {
					role = subject + " in | " + tx(headOf(stmtOf(f, cur)))
				}
				return role
			}
			role := build(p.text)
			if isDef {
				return true
			}
			self := vars[vi].obj
			nrole := build(func(n ast.Node) string { return f.ntext(n, self) })
			useRows = append(useRows, useRow{v: vi, path: internPath(f.path(cur)), role: intern(shorten(role)), nrole: intern(shorten(nrole))})
			return true
		})
	}

	// ---- 4. plain returns of wiring functions -----------------------------------------------------------
	type retRow struct {
		fn   string
		path []int
		txt  int
	}
	var rets []retRow
	for _, p := range allPkgs {
		for _, d := range p.decls {
			o, _ := p.info.Defs[d.Name].(*types.Func)
			if o == nil || !wiring[o] || d.Body == nil {
				continue
			}
			f := p.fn(d)
			ast.Inspect(d.Body, func(n ast.Node) bool {
				if _, ok := n.(*ast.FuncLit); ok {
					return false
				}
				r, ok := n.(*ast.ReturnStmt)
				if !ok {
					return true
				}
				// error return: last result is not the identifier nil
				if len(r.Results) > 0 {
					last := ast.Unparen(r.Results[len(r.Results)-1])
					if id, ok := last.(*ast.Ident); !ok || id.Name != "nil" {
						// returns a non-nil error expression iff the function's last result type is error
						sig := o.Type().(*types.Signature)
						if sig.Results().Len() > 0 && types.TypeString(sig.Results().At(sig.Results().Len()-1).Type(), nil) == "error" {
							return true
						}
					}
				}
				rets = append(rets, retRow{f.name, internPath(f.path(r)), intern(p.text(r))})
				return true
			})
		}
	}

	// ---- 5. core.Wire: parameters; files that refer to it ------------------------------------------------
	var wireParams [][2]string
	{
		var wf *types.Func
		for _, p := range allPkgs {
			for _, imp := range p.pkg.Imports {
				if imp.PkgPath == modPrefix+"core" && imp.Types != nil {
					if o, ok := imp.Types.Scope().Lookup("Wire").(*types.Func); ok {
						wf = o
					}
				}
			}
		}
		if wf == nil {
			fail("core.Wire not found")
		}
		sig := wf.Type().(*types.Signature)
		for i := 0; i < sig.Params().Len(); i++ {
			v := sig.Params().At(i)
			ts := types.TypeString(v.Type(), qualifier)
			if sig.Variadic() && i == sig.Params().Len()-1 {
				ts = "..." + strings.TrimPrefix(ts, "[]")
			}
			wireParams = append(wireParams, [2]string{v.Name(), ts})
		}
	}
	wireSites := scanWireSites(*repo)

	// ---- emit ------------------------------------------------------------------------------------------
	// Every text is one number: 0x01 followed by its UTF-8 bytes (the Lean kernel evaluates String
	// operations very slowly, and long lists of numerals elaborate slowly); the text itself is shown in a
	// line comment before its number.
	var sb strings.Builder
	q := func(s string) string { return fmt.Sprint(intern(s)) }           // interned: index into strs
	t := func(s string) string { return fmt.Sprintf("0x1%x", []byte(s)) } // inline text
	optNat := func(i int) string {
		if i < 0 {
			return "none"
		}
		return fmt.Sprintf("(some %d)", i)
	}
	natList := func(xs []int) string {
		ss := make([]string, len(xs))
		for i, x := range xs {
			ss[i] = fmt.Sprint(x)
		}
		return "[" + strings.Join(ss, ", ") + "]"
	}
	sb.WriteString("/- GENERATED by harness/cmd/trans-appwire (translator T-appwire, C01). Do not edit, not committed.\n")
	sb.WriteString("Source: packages app, core/consensus, cluster (go/packages, type-checked). See the header of\n")
	sb.WriteString("harness/cmd/trans-appwire/main.go for what is listed and how texts are normalised.\n")
	sb.WriteString("Every text is interned in `strs` as one number, 0x01 followed by its UTF-8 bytes (the text is in the comment before it);\n")
	sb.WriteString("all other tables refer to texts by their index in `strs`. -/\n")
	sb.WriteString("namespace CharonV.Generated.AppWire\n\n")
	sb.WriteString(`/-- a text: the number whose base-256 digits are 1 followed by the UTF-8 bytes of the text. -/
abbrev Txt := Nat

/-- one argument of a listed call: text and static type, the variable it is rooted at (index into ` + "`vars`" + `;
` + "`isVar`" + `: it is exactly that variable), the listed call it is (index into ` + "`calls`" + `). -/
structure Arg where
  expr  : Nat
  ty    : Nat
  root  : Option Nat
  isVar : Bool
  call  : Option Nat
  canon : Nat
deriving Repr

/-- a listed call: enclosing function, package and name of the called function, enclosing constructs
(outermost first), arguments, whether the last argument is passed as ` + "`xs...`" + `. ` + "`fn`, `pkg`, `name`" + ` are texts
(the keys the tables are searched by are stored in place), everything else is an index into ` + "`strs`" + `. -/
structure Call where
  fn     : Txt
  pkg    : Txt
  name   : Txt
  path   : List Nat
  args   : List Arg
  spread : Bool
deriving Repr

/-- one assignment to a variable: enclosing constructs, right-hand side, index of the result taken from a
multi-valued right-hand side, the listed call the right-hand side is, the full name of the function it calls. -/
structure Def where
  path   : List Nat
  rhs    : Nat
  res    : Nat
  call   : Option Nat
  callee : Nat
  nrhs   : Nat
deriving Repr

structure Var where
  fn   : Txt
  name : Txt
  ty   : Nat
  kind : Nat
  defs : List Def
  addrTaken : Bool
deriving Repr

/-- ` + "`v.f = e`, `v[k] = e`" + ` (table ` + "`writes`" + `) or ` + "`y := v`, `y = &v`, `y := *v`" + ` (table ` + "`aliases`" + `, ` + "`lhs`" + ` is y). -/
structure Write where
  var    : Nat
  fn     : Txt
  name   : Txt
  path   : List Nat
  lhs    : Nat
  rhs    : Nat
  rhsVar : Option Nat
deriving Repr

structure Use where
  var  : Nat
  fn   : Txt
  name : Txt
  path : List Nat
  role : Nat
  nrole : Nat
deriving Repr

`)
	var tb strings.Builder
	tb.WriteString("def calls : List Call := [\n")
	for i, c := range calls {
		var as []string
		for _, a := range c.args {
			as = append(as, fmt.Sprintf("⟨%d, %d, %s, %s, %s, %d⟩", a.expr, a.ty, optNat(a.root), leanBool(a.isVar), optNat(a.call), a.canon))
		}
		fmt.Fprintf(&tb, "  -- %d: in %s: %s.%s\n  ⟨%s, %s, %s, %s, [%s], %s⟩%s\n", i, c.fn, c.pkg, c.name, t(c.fn), t(c.pkg), t(c.name), natList(c.path),
			strings.Join(as, ", "), leanBool(c.spread), sep(i, len(calls)))
	}
	tb.WriteString("]\n\n")
	tb.WriteString("def vars : List Var := [\n")
	for i, v := range vars {
		var ds []string
		for _, d := range v.defs {
			ds = append(ds, fmt.Sprintf("⟨%s, %d, %d, %s, %d, %d⟩", natList(d.path), d.rhs, d.res, optNat(d.call), d.callee, d.nrhs))
		}
		fmt.Fprintf(&tb, "  -- %d: %s in %s\n  ⟨%s, %s, %d, %s, [%s], %s⟩%s\n", i, v.name, v.fn, t(v.fn), t(v.name), v.ty, q(v.kind),
			strings.Join(ds, ", "), leanBool(v.addr), sep(i, len(vars)))
	}
	tb.WriteString("]\n\n")
	tb.WriteString("def writes : List Write := [\n")
	for i, w := range writeRows {
		fmt.Fprintf(&tb, "  ⟨%d, %s, %s, %s, %d, %d, %s⟩%s\n", w.v, t(vars[w.v].fn), t(vars[w.v].name), natList(w.path), w.lhs, w.rhs, optNat(w.rhsVar), sep(i, len(writeRows)))
	}
	tb.WriteString("]\n\n")
	tb.WriteString("def aliases : List Write := [\n")
	for i, w := range aliasRows {
		fmt.Fprintf(&tb, "  ⟨%d, %s, %s, %s, %d, %d, %s⟩%s\n", w.v, t(vars[w.v].fn), t(vars[w.v].name), natList(w.path), w.lhs, w.rhs, optNat(w.rhsVar), sep(i, len(aliasRows)))
	}
	tb.WriteString("]\n\n")
	tb.WriteString("def uses : List Use := [\n")
	for i, u := range useRows {
		fmt.Fprintf(&tb, "  ⟨%d, %s, %s, %s, %d, %d⟩%s\n", u.v, t(vars[u.v].fn), t(vars[u.v].name), natList(u.path), u.role, u.nrole, sep(i, len(useRows)))
	}
	tb.WriteString("]\n\n")
	tb.WriteString("/-- non-error returns of the functions that contain a listed call: (function, path, text). -/\n")
	tb.WriteString("def plainReturns : List (Txt × List Nat × Nat) := [\n")
	for i, r := range rets {
		fmt.Fprintf(&tb, "  (%s, %s, %d)%s\n", t(r.fn), natList(r.path), r.txt, sep(i, len(rets)))
	}
	tb.WriteString("]\n\n")
	tb.WriteString("/-- parameters of `core.Wire`: (name, type). -/\n")
	tb.WriteString("def wireParams : List (Nat × Nat) := [\n")
	for i, w := range wireParams {
		fmt.Fprintf(&tb, "  (%s, %s)%s\n", q(w[0]), q(w[1]), sep(i, len(wireParams)))
	}
	tb.WriteString("]\n\n")
	tb.WriteString("/-- non-test Go files of the repository that refer to `core.Wire`. -/\n")
	{
		ids := make([]int, len(wireSites))
		for i, w := range wireSites {
			ids[i] = intern(w)
		}
		tb.WriteString("def wireSites : List Nat := " + natList(ids) + "\n\n")
	}
	sb.WriteString("def strs : List Txt := [\n")
	for i, s := range strTable {
		fmt.Fprintf(&sb, "  -- %d: %s\n  0x1%x%s\n", i, strings.ReplaceAll(s, "\n", " "), []byte(s), sep(i, len(strTable)))
	}
	sb.WriteString("]\n\n")
	sb.WriteString(tb.String())
	sb.WriteString("end CharonV.Generated.AppWire\n")

	summary := fmt.Sprintf("%d calls, %d vars, %d writes, %d uses, %d strings", len(calls), len(vars), len(writeRows), len(useRows), len(strTable))
	if old, err := os.ReadFile(*out); err == nil && string(old) == sb.String() {
		fmt.Printf("trans-appwire: %s (unchanged)\n", summary)
		return
	}
	if err := os.MkdirAll(filepath.Dir(*out), 0o755); err != nil {
		fail("%v", err)
	}
	tmp := *out + ".tmp"
	if err := os.WriteFile(tmp, []byte(sb.String()), 0o644); err != nil {
		fail("%v", err)
	}
	if err := os.Rename(tmp, *out); err != nil {
		fail("%v", err)
	}
	fmt.Printf("trans-appwire: %s\n", summary)
}

func siteNode(c *ast.CallExpr, l *ast.CompositeLit) ast.Node {
	if c != nil {
		return c
	}
	return l
}

func nameOf(p *pkgCtx, f *fnCtx, o types.Object) string {
	// the (renamed) name is what the identifiers print as: find the defining identifier
	name := o.Name()
	ast.Inspect(f.decl, func(n ast.Node) bool {
		if id, ok := n.(*ast.Ident); ok && p.info.Defs[id] == o {
			name = id.Name
			return false
		}
		return true
	})
	return name
}

// stmtOf: the nearest enclosing statement of n.
func stmtOf(f *fnCtx, n ast.Node) ast.Node {
	for cur := n; cur != nil; cur = f.parents[cur] {
		if _, ok := cur.(ast.Stmt); ok {
			return cur
		}
		if _, ok := cur.(*ast.ValueSpec); ok {
			return cur
		}
	}
	return n
}

// headOf: a compound statement is represented by its header only.
func headOf(n ast.Node) ast.Node {
	switch s := n.(type) {
	case *ast.IfStmt:
		return s.Cond
	case *ast.ForStmt:
		if s.Cond != nil {
			return s.Cond
		}
	case *ast.RangeStmt:
		return s.X
	case *ast.SwitchStmt:
		if s.Tag != nil {
			return s.Tag
		}
	}
	return n
}

// scanWireSites: non-test files (outside package core's own declaration) that mention core.Wire.
func scanWireSites(repo string) []string {
	var out []string
	err := filepath.Walk(repo, func(path string, fi os.FileInfo, err error) error {
		if err != nil {
			return err
		}
		if fi.IsDir() {
			n := fi.Name()
			if path != repo && (strings.HasPrefix(n, ".") || n == "vendor" || n == "node_modules") {
				return filepath.SkipDir
			}
			return nil
		}
		if !strings.HasSuffix(path, ".go") || strings.HasSuffix(path, "_test.go") {
			return nil
		}
		src, err := os.ReadFile(path)
		if err != nil {
			return err
		}
		if strings.HasPrefix(fi.Name(), "verif_export") && bytes.HasPrefix(src, []byte("//go:build verif")) {
			return nil // hook of the verification harness: not part of the production build
		}
		if !bytes.Contains(src, []byte("Wire")) {
			return nil
		}
		fset := token.NewFileSet()
		file, err := parser.ParseFile(fset, path, src, parser.SkipObjectResolution)
		if err != nil {
			fail("parse %s: %v", path, err)
		}
		rel, _ := filepath.Rel(repo, path)
		inCore := filepath.Dir(rel) == "core" && file.Name.Name == "core"
		alias := ""
		for _, is := range file.Imports {
			if strings.Trim(is.Path.Value, `"`) == modPrefix+"core" {
				alias = "core"
				if is.Name != nil {
					alias = is.Name.Name
				}
				if alias == "." || alias == "_" {
					fail("%s: dot / blank import of core", rel)
				}
			}
		}
		hit := false
		ast.Inspect(file, func(n ast.Node) bool {
			switch x := n.(type) {
			case *ast.SelectorExpr:
				if id, ok := x.X.(*ast.Ident); ok && alias != "" && id.Name == alias && x.Sel.Name == "Wire" {
					hit = true
				}
			case *ast.FuncDecl:
				if inCore && x.Recv == nil && x.Name.Name == "Wire" {
					// the declaration itself: look for recursive uses inside only
					ast.Inspect(x.Body, func(m ast.Node) bool {
						if id, ok := m.(*ast.Ident); ok && id.Name == "Wire" {
							hit = true
						}
						return true
					})
					return false
				}
			case *ast.Ident:
				if inCore && x.Name == "Wire" {
					hit = true
				}
			}
			return true
		})
		if hit {
			out = append(out, filepath.ToSlash(rel))
		}
		return nil
	})
	if err != nil {
		fail("walk %s: %v", repo, err)
	}
	sort.Strings(out)
	return out
}

func sep(i, n int) string {
	if i == n-1 {
		return ""
	}
	return ","
}

func leanBool(b bool) string {
	if b {
		return "true"
	}
	return "false"
}

func envOr(k, d string) string {
	if v := os.Getenv(k); v != "" {
		return v
	}
	return d
}
