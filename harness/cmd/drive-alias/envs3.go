package main

// Environment `cache`: the eth2wrap duties cache that sits between the beacon client and the scheduler /
// validatorapi in production (property C20 owns its state machine; here only what memory it hands out).

import (
	"context"
	"fmt"

	eth2v1 "github.com/attestantio/go-eth2-client/api/v1"
	eth2p0 "github.com/attestantio/go-eth2-client/spec/phase0"

	"github.com/obolnetwork/charon/app/eth2wrap"
)

type cacheEnv struct {
	baseEnv
	variant string
	c       *eth2wrap.DutiesCache
	bn      any
	fetched bool
}

func cachePairs() [][2]string {
	return [][2]string{{"cache", "sync"}, {"cache", "attester"}, {"cache", "proposer"}}
}

func init() {
	envs["cache"] = func(variant string) env {
		switch variant {
		case "sync", "attester", "proposer":
		default:
			return nil
		}
		e := &cacheEnv{variant: variant}
		m := sharedBeaconMock()
		m.SyncCommitteeDutiesFunc = func(context.Context, eth2p0.Epoch, []eth2p0.ValidatorIndex) ([]*eth2v1.SyncCommitteeDuty, error) {
			d, _ := e.bn.([]*eth2v1.SyncCommitteeDuty)
			return d, nil
		}
		m.AttesterDutiesFunc = func(context.Context, eth2p0.Epoch, []eth2p0.ValidatorIndex) ([]*eth2v1.AttesterDuty, error) {
			d, _ := e.bn.([]*eth2v1.AttesterDuty)
			return d, nil
		}
		m.ProposerDutiesFunc = func(context.Context, eth2p0.Epoch, []eth2p0.ValidatorIndex) ([]*eth2v1.ProposerDuty, error) {
			d, _ := e.bn.([]*eth2v1.ProposerDuty)
			return d, nil
		}
		e.c = eth2wrap.NewDutiesCache(m, []eth2p0.ValidatorIndex{1, 2})
		return e
	}
}

func (e *cacheEnv) alloc(*ctx, string) ([]any, bool) {
	var v any
	switch e.variant {
	case "attester":
		var d []*eth2v1.AttesterDuty
		for i := 1; i <= 2; i++ {
			d = append(d, &eth2v1.AttesterDuty{PubKey: eth2Pk(i), Slot: 1, ValidatorIndex: eth2p0.ValidatorIndex(i), CommitteeIndex: 3, CommitteeLength: 16, CommitteesAtSlot: 4})
		}
		v = d
	case "proposer":
		v = []*eth2v1.ProposerDuty{{PubKey: eth2Pk(1), Slot: 1, ValidatorIndex: 1}, {PubKey: eth2Pk(2), Slot: 2, ValidatorIndex: 2}}
	default:
		var d []*eth2v1.SyncCommitteeDuty
		for i := 1; i <= 2; i++ {
			d = append(d, &eth2v1.SyncCommitteeDuty{PubKey: eth2Pk(i), ValidatorIndex: eth2p0.ValidatorIndex(i),
				ValidatorSyncCommitteeIndices: []eth2p0.CommitteeIndex{eth2p0.CommitteeIndex(i), eth2p0.CommitteeIndex(130 + i)}})
		}
		v = d
	}
	return []any{v}, true
}

func (e *cacheEnv) ports() (fetch, hit string) {
	switch e.variant {
	case "attester":
		return "cache.fetchAttesterDuties", "cache.AttesterDutiesCache"
	case "proposer":
		return "cache.fetchProposerDuties", "cache.ProposerDutiesCache"
	}
	return "cache.fetchSyncDuties", "cache.SyncCommDutiesCache"
}

func (e *cacheEnv) call(c context.Context) any {
	idx := []eth2p0.ValidatorIndex{1, 2}
	switch e.variant {
	case "attester":
		return must(e.c.AttesterDutiesCache(c, 0, idx))
	case "proposer":
		return must(e.c.ProposerDutiesCache(c, 0, idx))
	}
	return must(e.c.SyncCommDutiesCache(c, 0, idx))
}

func (e *cacheEnv) pass(x *ctx, port string, src *holder, dst int) (roots []any, hidden, kept, ok bool) {
	c, cancel := qctx()
	defer cancel()
	fetch, hit := e.ports()
	switch port {
	case fetch:
		if !src.input || e.fetched {
			return nil, false, false, false
		}
		e.bn = src.roots[0]
		e.fetched = true
		// the first request misses: the cache asks the beacon client and files (shallow copies of) the answer
		ok = guard(x, port, func() { _ = e.call(c) })
		return nil, true, true, ok
	case hit:
		if !src.hidden || !e.fetched {
			return nil, false, false, false
		}
		var out any
		ok = guard(x, port, func() { out = e.call(c) })
		return []any{out}, false, false, ok
	}
	return nil, false, false, false
}

func (e *cacheEnv) episode(x *ctx) {
	fetch, hit := e.ports()
	x.do("alloc 0 -")
	x.do(fmt.Sprintf("pass %s 0 1 - h", fetch))
	x.do(fmt.Sprintf("pass %s 1 2 -", hit))
	x.do(fmt.Sprintf("pass %s 1 3 2", hit))
	// one caller (scheduler, validatorapi) writes into what it got; only as a whole: the cache copies the
	// duty structs and shares the slices / the metadata map they come with
	x.do(fmt.Sprintf("mutall %d", 2+x.rng.Intn(2)))
	x.do(fmt.Sprintf("pass %s 1 4 2", hit))
}
