package main

// Catalog of every value type that flows through the core workflow, built from the repository's own
// random generators (testutil): every core.UnsignedData, core.SignedData implementation × version,
// and the duty definitions.

import (
	"testing"

	eth2api "github.com/attestantio/go-eth2-client/api"
	eth2v1 "github.com/attestantio/go-eth2-client/api/v1"
	eth2spec "github.com/attestantio/go-eth2-client/spec"
	"github.com/attestantio/go-eth2-client/spec/altair"
	"github.com/attestantio/go-eth2-client/spec/electra"
	eth2p0 "github.com/attestantio/go-eth2-client/spec/phase0"

	"github.com/obolnetwork/charon/core"
	"github.com/obolnetwork/charon/testutil"
)

// tt is only used for the t.Helper() calls of testutil generators.
var tt = &testing.T{}

type unsignedKind struct {
	name string
	duty core.DutyType
	mk   func() core.UnsignedData
}

type signedKind struct {
	name string
	duty core.DutyType
	mk   func() core.SignedData
}

func must[T any](v T, err error) T {
	if err != nil {
		panic(err)
	}
	return v
}

func vprop(p *eth2api.VersionedProposal) core.UnsignedData {
	return must(core.NewVersionedProposal(p))
}

// attVersions: withIdx sets ValidatorIndex on the electra/fulu forms (single attestations carry it,
// aggregates do not).
func attVersions(withIdx bool) map[string]func() *eth2spec.VersionedAttestation {
	p0 := func(v eth2spec.DataVersion) func() *eth2spec.VersionedAttestation {
		return func() *eth2spec.VersionedAttestation {
			a := &eth2spec.VersionedAttestation{Version: v}
			att := testutil.RandomPhase0Attestation()
			switch v {
			case eth2spec.DataVersionPhase0:
				a.Phase0 = att
			case eth2spec.DataVersionAltair:
				a.Altair = att
			case eth2spec.DataVersionBellatrix:
				a.Bellatrix = att
			case eth2spec.DataVersionCapella:
				a.Capella = att
			case eth2spec.DataVersionDeneb:
				a.Deneb = att
			}
			return a
		}
	}
	return map[string]func() *eth2spec.VersionedAttestation{
		"phase0":    p0(eth2spec.DataVersionPhase0),
		"altair":    p0(eth2spec.DataVersionAltair),
		"bellatrix": p0(eth2spec.DataVersionBellatrix),
		"capella":   p0(eth2spec.DataVersionCapella),
		"deneb":     p0(eth2spec.DataVersionDeneb),
		"electra": func() *eth2spec.VersionedAttestation {
			v := testutil.RandomVIdx()
			a := testutil.RandomElectraVersionedAttestation()
			if withIdx {
				a.ValidatorIndex = &v
			}
			return a
		},
		"fulu": func() *eth2spec.VersionedAttestation {
			v := testutil.RandomVIdx()
			a := testutil.RandomFuluVersionedAttestation()
			if withIdx {
				a.ValidatorIndex = &v
			}
			return a
		},
	}
}

var versionOrder = []string{"phase0", "altair", "bellatrix", "capella", "deneb", "electra", "fulu"}

func aggAndProofVersions() map[string]func() *eth2spec.VersionedSignedAggregateAndProof {
	p0 := func(v eth2spec.DataVersion) func() *eth2spec.VersionedSignedAggregateAndProof {
		return func() *eth2spec.VersionedSignedAggregateAndProof {
			a := &eth2spec.VersionedSignedAggregateAndProof{Version: v}
			x := testutil.RandomSignedAggregateAndProof()
			switch v {
			case eth2spec.DataVersionPhase0:
				a.Phase0 = x
			case eth2spec.DataVersionAltair:
				a.Altair = x
			case eth2spec.DataVersionBellatrix:
				a.Bellatrix = x
			case eth2spec.DataVersionCapella:
				a.Capella = x
			case eth2spec.DataVersionDeneb:
				a.Deneb = x
			}
			return a
		}
	}
	el := func(v eth2spec.DataVersion) func() *eth2spec.VersionedSignedAggregateAndProof {
		return func() *eth2spec.VersionedSignedAggregateAndProof {
			x := &electra.SignedAggregateAndProof{
				Message: &electra.AggregateAndProof{
					AggregatorIndex: testutil.RandomVIdx(),
					Aggregate:       testutil.RandomElectraAttestation(),
					SelectionProof:  testutil.RandomEth2Signature(),
				},
				Signature: testutil.RandomEth2Signature(),
			}
			a := &eth2spec.VersionedSignedAggregateAndProof{Version: v}
			if v == eth2spec.DataVersionElectra {
				a.Electra = x
			} else {
				a.Fulu = x
			}
			return a
		}
	}
	return map[string]func() *eth2spec.VersionedSignedAggregateAndProof{
		"phase0":    p0(eth2spec.DataVersionPhase0),
		"altair":    p0(eth2spec.DataVersionAltair),
		"bellatrix": p0(eth2spec.DataVersionBellatrix),
		"capella":   p0(eth2spec.DataVersionCapella),
		"deneb":     p0(eth2spec.DataVersionDeneb),
		"electra":   el(eth2spec.DataVersionElectra),
		"fulu":      el(eth2spec.DataVersionFulu),
	}
}

func mkAttData() core.AttestationData {
	return core.AttestationData{
		Data: *testutil.RandomAttestationDataPhase0(),
		Duty: eth2v1.AttesterDuty{
			PubKey:                  testutil.RandomEth2PubKey(tt),
			Slot:                    testutil.RandomSlot(),
			ValidatorIndex:          testutil.RandomVIdx(),
			CommitteeIndex:          testutil.RandomCommIdx(),
			CommitteeLength:         128,
			CommitteesAtSlot:        4,
			ValidatorCommitteeIndex: 7,
		},
	}
}

func unsignedKinds() []unsignedKind {
	ks := []unsignedKind{
		{"AttestationData", core.DutyAttester, func() core.UnsignedData { return mkAttData() }},
		{"VersionedProposal/phase0", core.DutyProposer, func() core.UnsignedData {
			return vprop(&eth2api.VersionedProposal{Version: eth2spec.DataVersionPhase0, Phase0: testutil.RandomPhase0BeaconBlock()})
		}},
		{"VersionedProposal/altair", core.DutyProposer, func() core.UnsignedData {
			return vprop(&eth2api.VersionedProposal{Version: eth2spec.DataVersionAltair, Altair: testutil.RandomAltairBeaconBlock()})
		}},
		{"VersionedProposal/bellatrix", core.DutyProposer, func() core.UnsignedData { return testutil.RandomBellatrixCoreVersionedProposal() }},
		{"VersionedProposal/capella", core.DutyProposer, func() core.UnsignedData { return testutil.RandomCapellaCoreVersionedProposal() }},
		{"VersionedProposal/deneb", core.DutyProposer, func() core.UnsignedData { return vprop(testutil.RandomDenebVersionedProposal()) }},
		{"VersionedProposal/electra", core.DutyProposer, func() core.UnsignedData { return vprop(testutil.RandomElectraVersionedProposal()) }},
		{"VersionedProposal/fulu", core.DutyProposer, func() core.UnsignedData { return vprop(testutil.RandomFuluVersionedProposal()) }},
		{"VersionedProposal/bellatrix-blinded", core.DutyProposer, func() core.UnsignedData { return testutil.RandomBellatrixVersionedBlindedProposal() }},
		{"VersionedProposal/capella-blinded", core.DutyProposer, func() core.UnsignedData { return testutil.RandomCapellaVersionedBlindedProposal() }},
		{"VersionedProposal/deneb-blinded", core.DutyProposer, func() core.UnsignedData {
			return vprop(&eth2api.VersionedProposal{Version: eth2spec.DataVersionDeneb, Blinded: true, DenebBlinded: testutil.RandomDenebBlindedBeaconBlock()})
		}},
		{"VersionedProposal/electra-blinded", core.DutyProposer, func() core.UnsignedData {
			return vprop(&eth2api.VersionedProposal{Version: eth2spec.DataVersionElectra, Blinded: true, ElectraBlinded: testutil.RandomElectraBlindedBeaconBlock()})
		}},
		{"VersionedProposal/fulu-blinded", core.DutyProposer, func() core.UnsignedData {
			return vprop(&eth2api.VersionedProposal{Version: eth2spec.DataVersionFulu, Blinded: true, FuluBlinded: testutil.RandomElectraBlindedBeaconBlock()})
		}},
	}
	av := attVersions(false)
	for _, v := range versionOrder {
		mk := av[v]
		ks = append(ks, unsignedKind{"VersionedAggregatedAttestation/" + v, core.DutyAggregator, func() core.UnsignedData {
			return must(core.NewVersionedAggregatedAttestation(mk()))
		}})
	}
	ks = append(ks,
		unsignedKind{"SyncContribution", core.DutySyncContribution, func() core.UnsignedData { return testutil.RandomCoreSyncContribution() }},
		unsignedKind{"SyncContributions", core.DutySyncContribution, func() core.UnsignedData {
			a, b := testutil.RandomCoreSyncContribution(), testutil.RandomCoreSyncContribution()
			b.Slot = a.Slot
			b.SubcommitteeIndex = a.SubcommitteeIndex + 1
			return core.SyncContributions{a, b}
		}},
	)
	return ks
}

// legacyUnsigned: implementations of UnsignedData that no store accepts (checked through Clone only).
func legacyUnsigned() []unsignedKind {
	return []unsignedKind{
		{"AggregatedAttestation", core.DutyAggregator, func() core.UnsignedData {
			return core.NewAggregatedAttestation(testutil.RandomAggregateAttestation())
		}},
	}
}

func signedKinds() []signedKind {
	var ks []signedKind
	sp := map[string]func() core.SignedData{
		"bellatrix":         func() core.SignedData { return testutil.RandomBellatrixCoreVersionedSignedProposal() },
		"capella":           func() core.SignedData { return testutil.RandomCapellaCoreVersionedSignedProposal() },
		"deneb":             func() core.SignedData { return testutil.RandomDenebCoreVersionedSignedProposal() },
		"electra":           func() core.SignedData { return testutil.RandomElectraCoreVersionedSignedProposal() },
		"fulu":              func() core.SignedData { return testutil.RandomFuluCoreVersionedSignedProposal() },
		"bellatrix-blinded": func() core.SignedData { return testutil.RandomBellatrixVersionedSignedBlindedProposal() },
		"capella-blinded":   func() core.SignedData { return testutil.RandomCapellaVersionedSignedBlindedProposal() },
		"deneb-blinded":     func() core.SignedData { return testutil.RandomDenebVersionedSignedBlindedProposal() },
		"electra-blinded":   func() core.SignedData { return testutil.RandomElectraVersionedSignedBlindedProposal() },
		"fulu-blinded":      func() core.SignedData { return testutil.RandomFuluVersionedSignedBlindedProposal() },
	}
	for _, v := range []string{"bellatrix", "capella", "deneb", "electra", "fulu", "bellatrix-blinded", "capella-blinded", "deneb-blinded", "electra-blinded", "fulu-blinded"} {
		ks = append(ks, signedKind{"VersionedSignedProposal/" + v, core.DutyProposer, sp[v]})
	}
	ks = append(ks,
		signedKind{"VersionedSignedProposal/phase0", core.DutyProposer, func() core.SignedData {
			return must(core.NewVersionedSignedProposal(&eth2api.VersionedSignedProposal{Version: eth2spec.DataVersionPhase0,
				Phase0: &eth2p0.SignedBeaconBlock{Message: testutil.RandomPhase0BeaconBlock(), Signature: testutil.RandomEth2Signature()}}))
		}},
		signedKind{"VersionedSignedProposal/altair", core.DutyProposer, func() core.SignedData {
			return must(core.NewVersionedSignedProposal(&eth2api.VersionedSignedProposal{Version: eth2spec.DataVersionAltair,
				Altair: &altair.SignedBeaconBlock{Message: testutil.RandomAltairBeaconBlock(), Signature: testutil.RandomEth2Signature()}}))
		}},
	)
	av := attVersions(true)
	for _, v := range versionOrder {
		mk := av[v]
		ks = append(ks, signedKind{"VersionedAttestation/" + v, core.DutyAttester, func() core.SignedData {
			return must(core.NewVersionedAttestation(mk()))
		}})
	}
	ap := aggAndProofVersions()
	for _, v := range versionOrder {
		mk := ap[v]
		ks = append(ks, signedKind{"VersionedSignedAggregateAndProof/" + v, core.DutyAggregator, func() core.SignedData {
			return core.NewVersionedSignedAggregateAndProof(mk())
		}})
	}
	ks = append(ks,
		signedKind{"Signature", core.DutySignature, func() core.SignedData { return testutil.RandomCoreSignature() }},
		signedKind{"SignedVoluntaryExit", core.DutyExit, func() core.SignedData { return core.NewSignedVoluntaryExit(testutil.RandomExit()) }},
		signedKind{"VersionedSignedValidatorRegistration", core.DutyBuilderRegistration, func() core.SignedData {
			return testutil.RandomCoreVersionedSignedValidatorRegistration(tt)
		}},
		signedKind{"SignedRandao", core.DutyRandao, func() core.SignedData { return testutil.RandomCoreSignedRandao() }},
		signedKind{"BeaconCommitteeSelection", core.DutyPrepareAggregator, func() core.SignedData { return testutil.RandomCoreBeaconCommitteeSelection() }},
		signedKind{"SyncCommitteeSelection", core.DutyPrepareSyncContribution, func() core.SignedData { return testutil.RandomCoreSyncCommitteeSelection() }},
		signedKind{"SignedSyncMessage", core.DutySyncMessage, func() core.SignedData {
			return core.NewSignedSyncMessage(testutil.RandomSyncCommitteeMessage())
		}},
		signedKind{"SignedSyncContributionAndProof", core.DutySyncContribution, func() core.SignedData {
			return testutil.RandomCoreSignedSyncContributionAndProof()
		}},
	)
	return ks
}

// legacySigned: SignedData implementations that are not produced for any duty type by the current
// workflow (checked through Clone and the duty-agnostic stores).
func legacySigned() []signedKind {
	return []signedKind{
		{"SignedAggregateAndProof", core.DutyAggregator, func() core.SignedData {
			return core.NewSignedAggregateAndProof(testutil.RandomSignedAggregateAndProof())
		}},
		{"SyncContributionAndProof", core.DutyAggregator, func() core.SignedData {
			return core.NewSyncContributionAndProof(testutil.RandomSyncContributionAndProof())
		}},
	}
}

type defKind struct {
	name string
	mk   func() core.DutyDefinition
}

func defKinds() []defKind {
	return []defKind{
		{"AttesterDefinition", func() core.DutyDefinition { d := mkAttData().Duty; return core.NewAttesterDefinition(&d) }},
		{"ProposerDefinition", func() core.DutyDefinition {
			return core.NewProposerDefinition(&eth2v1.ProposerDuty{PubKey: testutil.RandomEth2PubKey(tt), Slot: testutil.RandomSlot(), ValidatorIndex: testutil.RandomVIdx()})
		}},
		{"SyncCommitteeDefinition", func() core.DutyDefinition {
			return core.NewSyncCommitteeDefinition(&eth2v1.SyncCommitteeDuty{PubKey: testutil.RandomEth2PubKey(tt), ValidatorIndex: testutil.RandomVIdx(),
				ValidatorSyncCommitteeIndices: []eth2p0.CommitteeIndex{3, 130, 131}})
		}},
	}
}

func findUnsigned(name string) (unsignedKind, bool) {
	for _, k := range append(unsignedKinds(), legacyUnsigned()...) {
		if k.name == name {
			return k, true
		}
	}
	return unsignedKind{}, false
}

func findSigned(name string) (signedKind, bool) {
	for _, k := range append(signedKinds(), legacySigned()...) {
		if k.name == name {
			return k, true
		}
	}
	return signedKind{}, false
}

func corePubKey(i int) core.PubKey {
	var b [48]byte
	b[0] = byte(i)
	b[1] = 0xC1
	b[47] = 0x18
	return core.PubKeyFrom48Bytes(b)
}
