package main

// Environments of drive-alias, part 1: every Clone() method of core (env `types`), dutydb.MemDB read
// directly and through the validatorapi component wired as in core.Wire (env `dutydb`),
// aggsigdb.MemDB / MemDBV2 (envs `aggsigdb1`, `aggsigdb2`), parsigdb.MemDB (env `parsigdb`) and
// sigagg.Aggregator (env `sigagg`).

import (
	"context"
	"fmt"
	"sort"
	"strings"
	"sync"
	"time"

	eth2api "github.com/attestantio/go-eth2-client/api"
	eth2p0 "github.com/attestantio/go-eth2-client/spec/phase0"

	"github.com/obolnetwork/charon/core"
	"github.com/obolnetwork/charon/core/aggsigdb"
	"github.com/obolnetwork/charon/core/dutydb"
	"github.com/obolnetwork/charon/core/parsigdb"
	"github.com/obolnetwork/charon/core/sigagg"
	"github.com/obolnetwork/charon/core/validatorapi"
	"github.com/obolnetwork/charon/tbls"
	"github.com/obolnetwork/charon/tbls/tblsconv"
	"github.com/obolnetwork/charon/testutil/beaconmock"
)

var envs = map[string]func(variant string) env{}

// allPairs lists every (env, variant) pair in a fixed order.
func allPairs() [][2]string {
	var out [][2]string
	for _, k := range append(unsignedKinds(), legacyUnsigned()...) {
		out = append(out, [2]string{"types", "U:" + k.name}, [2]string{"types", "USet:" + k.name})
	}
	for _, k := range append(signedKinds(), legacySigned()...) {
		out = append(out, [2]string{"types", "S:" + k.name}, [2]string{"types", "Par:" + k.name},
			[2]string{"types", "PSet:" + k.name}, [2]string{"types", "SSet:" + k.name})
	}
	for _, k := range defKinds() {
		out = append(out, [2]string{"types", "D:" + k.name}, [2]string{"types", "DSet:" + k.name})
	}
	for _, k := range unsignedKinds() {
		out = append(out, [2]string{"dutydb", k.name})
		// "+w": two queries for the key are already blocked when it is stored (both resolved in one pass of the store)
		out = append(out, [2]string{"dutydb", k.name + "+w"})
	}
	out = append(out, [2]string{"dutydb", "SyncContributions@1"})
	for _, k := range append(signedKinds(), legacySigned()...) {
		out = append(out, [2]string{"aggsigdb1", k.name}, [2]string{"aggsigdb2", k.name})
		// "+w": two readers are already blocked on the key when it is stored; their answers are the
		// first two Await results of the episode
		out = append(out, [2]string{"aggsigdb1", k.name + "+w"}, [2]string{"aggsigdb2", k.name + "+w"})
	}
	for _, k := range signedKinds() {
		out = append(out, [2]string{"parsigdb", k.name}, [2]string{"sigagg", k.name})
	}
	out = append(out, extraPairs()...)
	out = append(out, cachePairs()...)
	// interleave the envs so that a short run touches all of them: stable sort by a per-env counter
	cnt := map[string]int{}
	type it struct {
		p [2]string
		n int
	}
	var its []it
	for _, p := range out {
		its = append(its, it{p, cnt[p[0]]})
		cnt[p[0]]++
	}
	sort.SliceStable(its, func(i, j int) bool { return its[i].n < its[j].n })
	out = out[:0]
	for _, x := range its {
		out = append(out, x.p)
	}
	return out
}

// ---------------------------------------------------------------- shared pieces

// stubDeadliner never expires anything.
type stubDeadliner struct{ ch chan core.Duty }

func (d stubDeadliner) Add(core.Duty) core.DeadlineStatus { return core.DeadlineScheduled }
func (d stubDeadliner) C() <-chan core.Duty               { return d.ch }

func newStubDeadliner() stubDeadliner { return stubDeadliner{ch: make(chan core.Duty)} }

var (
	bmockOnce sync.Once
	bmockVal  beaconmock.Mock
)

func sharedBeaconMock() beaconmock.Mock {
	bmockOnce.Do(func() {
		m, err := beaconmock.New(context.Background())
		if err != nil {
			panic(err)
		}
		bmockVal = m
	})
	return bmockVal
}

func qctx() (context.Context, context.CancelFunc) {
	return context.WithTimeout(context.Background(), 5*time.Second)
}

type baseEnv struct{}

func (baseEnv) passw(*ctx, string, *holder, int) ([]any, string, bool) { return nil, "", false }
func (baseEnv) close()                                                 {}

// guard turns a panic of the component (e.g. after a reader corrupted shared state) into a violation.
func guard(x *ctx, port string, f func()) (ok bool) {
	defer func() {
		if r := recover(); r != nil {
			x.run.Violate("alias:"+port+":panic", fmt.Sprintf("env %s/%s: %s panicked: %v", x.envName, x.variant, port, r))
			ok = false
		}
	}()
	f()
	return true
}

// ---------------------------------------------------------------- env types: every Clone()

type typesEnv struct {
	baseEnv
	mk func() any
}

func init() {
	envs["types"] = func(variant string) env {
		kind, name, ok := strings.Cut(variant, ":")
		if !ok {
			return nil
		}
		pk1, pk2 := corePubKey(1), corePubKey(2)
		switch kind {
		case "U", "USet":
			k, ok := findUnsigned(name)
			if !ok {
				return nil
			}
			if kind == "U" {
				return &typesEnv{mk: func() any { return k.mk() }}
			}
			return &typesEnv{mk: func() any { return core.UnsignedDataSet{pk1: k.mk(), pk2: k.mk()} }}
		case "S", "Par", "PSet", "SSet":
			k, ok := findSigned(name)
			if !ok {
				return nil
			}
			switch kind {
			case "S":
				return &typesEnv{mk: func() any { return k.mk() }}
			case "Par":
				return &typesEnv{mk: func() any { return core.ParSignedData{SignedData: k.mk(), ShareIdx: 3} }}
			case "PSet":
				return &typesEnv{mk: func() any {
					return core.ParSignedDataSet{pk1: {SignedData: k.mk(), ShareIdx: 1}, pk2: {SignedData: k.mk(), ShareIdx: 1}}
				}}
			default:
				return &typesEnv{mk: func() any { return core.SignedDataSet{pk1: k.mk(), pk2: k.mk()} }}
			}
		case "D", "DSet":
			for _, k := range defKinds() {
				if k.name != name {
					continue
				}
				if kind == "D" {
					return &typesEnv{mk: func() any { return k.mk() }}
				}
				return &typesEnv{mk: func() any { return core.DutyDefinitionSet{pk1: k.mk(), pk2: k.mk()} }}
			}
		}
		return nil
	}
}

func (e *typesEnv) alloc(*ctx, string) ([]any, bool) { return []any{e.mk()}, true }

func cloneAny(v any) (any, error) {
	switch t := v.(type) {
	case core.UnsignedDataSet:
		return t.Clone()
	case core.SignedDataSet:
		return t.Clone()
	case core.ParSignedDataSet:
		return t.Clone()
	case core.DutyDefinitionSet:
		return t.Clone()
	case core.ParSignedData:
		return t.Clone()
	case core.SignedData:
		return t.Clone()
	case core.UnsignedData:
		return t.Clone()
	case core.DutyDefinition:
		return t.Clone()
	}
	return nil, fmt.Errorf("no Clone for %T", v)
}

func (e *typesEnv) pass(x *ctx, port string, src *holder, dst int) ([]any, bool, bool, bool) {
	if port != "core.Clone" || len(src.roots) != 1 {
		return nil, false, false, false
	}
	var out any
	ok := guard(x, port, func() {
		c, err := cloneAny(src.roots[0])
		if err != nil {
			panic(err)
		}
		out = c
	})
	return []any{out}, false, false, ok
}

func (e *typesEnv) episode(x *ctx) {
	x.do("alloc 0 -")
	x.do("pass core.Clone 0 1 -")
	x.do("pass core.Clone 0 2 1")
	x.do("pass core.Clone 1 3 1")
	n := 4
	x.mutRounds([]int{0, 1, 2, 3}, 2+x.rng.Intn(3), func() {
		// clone one of the values that nobody mutated again: it still equals its pristine value
		var ok []int
		for _, id := range []int{0, 1, 2, 3} {
			if h := x.holders[id]; h != nil && !h.changed {
				ok = append(ok, id)
			}
		}
		if len(ok) == 0 {
			return
		}
		src := ok[x.rng.Intn(len(ok))]
		x.do(fmt.Sprintf("pass core.Clone %d %d %d", src, n, src))
		n++
	})
}

// ---------------------------------------------------------------- env dutydb (+ validatorapi reads)

type dutydbEnv struct {
	baseEnv
	kind  unsignedKind
	db    *dutydb.MemDB
	vapi  *validatorapi.Component
	last  core.UnsignedData // last stored value (keys of the queries)
	pk    core.PubKey
	entry int             // which entry of a plural value the readers ask for
	seen  map[string]bool // keys of stored objects already attributed to a kept holder
	waiters bool          // variant "+w": two readers block on the key before the first Store
	pre     []any         // their answers, handed out by the first read passes
}

func init() {
	envs["dutydb"] = func(variant string) env {
		waiters := strings.HasSuffix(variant, "+w")
		name, entry, _ := strings.Cut(strings.TrimSuffix(variant, "+w"), "@")
		k, ok := findUnsigned(name)
		if !ok || k.name == "AggregatedAttestation" {
			return nil
		}
		e := &dutydbEnv{kind: k, db: dutydb.NewMemDB(newStubDeadliner()), pk: corePubKey(7), seen: map[string]bool{}, waiters: waiters}
		if entry == "1" {
			e.entry = 1
		}
		// the validatorapi component, wired to the store exactly as core.Wire does
		v, err := validatorapi.NewComponentInsecure(nil, sharedBeaconMock(), 1)
		if err != nil {
			panic(err)
		}
		v.RegisterAwaitProposal(e.db.AwaitProposal)
		v.RegisterAwaitAttestation(e.db.AwaitAttestation)
		v.RegisterAwaitSyncContribution(e.db.AwaitSyncContribution)
		v.RegisterPubKeyByAttestation(e.db.PubKeyByAttestation)
		v.RegisterAwaitAggAttestation(e.db.AwaitAggAttestation)
		v.RegisterGetDutyDefinition(func(_ context.Context, duty core.Duty) (core.DutyDefinitionSet, error) {
			return core.DutyDefinitionSet{e.pk: defKinds()[1].mk()}, nil
		})
		e.vapi = v
		return e
	}
}

func (e *dutydbEnv) alloc(*ctx, string) ([]any, bool) {
	return []any{core.UnsignedDataSet{e.pk: e.kind.mk()}}, true
}

func unsignedSlot(v core.UnsignedData) uint64 {
	switch t := v.(type) {
	case core.AttestationData:
		return uint64(t.Data.Slot)
	case core.VersionedProposal:
		return uint64(must(t.Slot()))
	case core.VersionedAggregatedAttestation:
		return uint64(must(t.Data()).Slot)
	case core.SyncContribution:
		return uint64(t.Slot)
	case core.SyncContributions:
		return uint64(t[0].Slot)
	}
	panic("slot of unknown unsigned data")
}

// keptRoots lists the stored objects (the stored pointers / structs themselves, through the C06 hook)
// that were not yet attributed to a kept holder by an earlier Store of this episode.
func (e *dutydbEnv) keptRoots() []any {
	s := e.db.VerifSnapshot()
	var roots []any
	{
		var ks []dutydb.VerifAttKey
		for k := range s.Att {
			ks = append(ks, k)
		}
		sort.Slice(ks, func(i, j int) bool {
			if ks[i].Slot != ks[j].Slot {
				return ks[i].Slot < ks[j].Slot
			}
			return ks[i].CommIdx < ks[j].CommIdx
		})
		for _, k := range ks {
			if id := fmt.Sprint("att", k); !e.seen[id] {
				e.seen[id] = true
				roots = append(roots, s.Att[k])
			}
		}
	}
	{
		var ks []uint64
		for k := range s.Pro {
			ks = append(ks, k)
		}
		sort.Slice(ks, func(i, j int) bool { return ks[i] < ks[j] })
		for _, k := range ks {
			if id := fmt.Sprint("pro", k); !e.seen[id] {
				e.seen[id] = true
				roots = append(roots, s.Pro[k])
			}
		}
	}
	{
		var ks []dutydb.VerifAggKey
		for k := range s.Agg {
			ks = append(ks, k)
		}
		sort.Slice(ks, func(i, j int) bool { return fmt.Sprint(ks[i]) < fmt.Sprint(ks[j]) })
		for _, k := range ks {
			if id := fmt.Sprint("agg", k); !e.seen[id] {
				e.seen[id] = true
				roots = append(roots, s.Agg[k])
			}
		}
	}
	{
		var ks []dutydb.VerifContribKey
		for k := range s.Contrib {
			ks = append(ks, k)
		}
		sort.Slice(ks, func(i, j int) bool { return fmt.Sprint(ks[i]) < fmt.Sprint(ks[j]) })
		for _, k := range ks {
			if id := fmt.Sprint("con", k); !e.seen[id] {
				e.seen[id] = true
				roots = append(roots, s.Contrib[k])
			}
		}
	}
	return roots
}

func (e *dutydbEnv) pass(x *ctx, port string, src *holder, dst int) (roots []any, hidden, kept, ok bool) {
	c, cancel := qctx()
	defer cancel()
	if port == "dutyDB.Store" {
		if !src.input || len(src.roots) != 1 {
			return nil, false, false, false
		}
		set, isSet := src.roots[0].(core.UnsignedDataSet)
		if !isSet || len(set) != 1 {
			return nil, false, false, false
		}
		v := set[e.pk]
		ok = guard(x, port, func() {
			var res []chan any
			if e.waiters && e.last == nil {
				for i := 0; i < 2; i++ {
					ch := make(chan any, 1)
					res = append(res, ch)
					go func() {
						wc, wcancel := context.WithTimeout(context.Background(), 20*time.Second)
						defer wcancel()
						defer func() {
							if p := recover(); p != nil {
								ch <- fmt.Errorf("panic: %v", p)
							}
						}()
						ch <- e.await(wc, v)
					}()
				}
				// both readers must be parked in the store before the value arrives (a late one is answered directly: harmless)
				for t0 := time.Now(); time.Since(t0) < 2*time.Second; time.Sleep(time.Millisecond) {
					sn := e.db.VerifSnapshot()
					if len(sn.AttQueries)+len(sn.ProQueries)+len(sn.AggQueries)+len(sn.ContribQueries) >= 2 {
						break
					}
				}
			}
			if err := e.db.Store(c, core.Duty{Slot: unsignedSlot(v), Type: e.kind.duty}, set); err != nil {
				panic(err)
			}
			for _, ch := range res {
				a := <-ch
				if err, isErr := a.(error); isErr {
					panic(err)
				}
				e.pre = append(e.pre, a)
			}
			e.last = deepCopy(newCopier(), v).(core.UnsignedData)
			roots = e.keptRoots()
		})
		return roots, false, true, ok
	}
	if !src.kept || e.last == nil {
		return nil, false, false, false
	}
	if len(e.pre) > 0 && port == e.readPort() {
		var out any
		out, e.pre = e.pre[0], e.pre[1:]
		return []any{out}, false, false, true
	}
	viaVapi := dst%3 == 0 // every third read goes through the validatorapi component's method
	var out any
	ok = guard(x, port, func() {
		switch v := e.last.(type) {
		case core.AttestationData:
			commIdx := uint64(v.Duty.CommitteeIndex)
			if dst%2 == 1 {
				commIdx = 0 // the second key under which the store files the same data
			}
			switch port {
			case "dutyDB.AwaitAttestation":
				if viaVapi {
					r, err := e.vapi.AttestationData(c, &eth2api.AttestationDataOpts{Slot: v.Data.Slot, CommitteeIndex: eth2p0.CommitteeIndex(commIdx)})
					if err != nil {
						panic(err)
					}
					out = r.Data
				} else {
					out = must(e.db.AwaitAttestation(c, uint64(v.Data.Slot), commIdx))
				}
			case "dutyDB.PubKeyByAttestation":
				out = must(e.db.PubKeyByAttestation(c, uint64(v.Data.Slot), commIdx, uint64(v.Duty.ValidatorIndex)))
			default:
				panic("port not applicable")
			}
		case core.VersionedProposal:
			if port != "dutyDB.AwaitProposal" {
				panic("port not applicable")
			}
			out = must(e.db.AwaitProposal(c, uint64(must(v.Slot()))))
		case core.VersionedAggregatedAttestation:
			if port != "dutyDB.AwaitAggAttestation" {
				panic("port not applicable")
			}
			data := must(v.Data())
			root := must(data.HashTreeRoot())
			ci := must(v.CommitteeIndex())
			if viaVapi {
				r, err := e.vapi.AggregateAttestation(c, &eth2api.AggregateAttestationOpts{Slot: data.Slot, AttestationDataRoot: root, CommitteeIndex: ci})
				if err != nil {
					panic(err)
				}
				out = r.Data
			} else {
				out = must(e.db.AwaitAggAttestation(c, uint64(data.Slot), root, ci))
			}
		case core.SyncContribution, core.SyncContributions:
			if port != "dutyDB.AwaitSyncContribution" {
				panic("port not applicable")
			}
			var sc core.SyncContribution
			if l, isList := v.(core.SyncContributions); isList {
				sc = l[e.entry%len(l)]
			} else {
				sc = v.(core.SyncContribution)
			}
			if viaVapi {
				r, err := e.vapi.SyncCommitteeContribution(c, &eth2api.SyncCommitteeContributionOpts{Slot: sc.Slot, SubcommitteeIndex: sc.SubcommitteeIndex, BeaconBlockRoot: sc.BeaconBlockRoot})
				if err != nil {
					panic(err)
				}
				out = r.Data
			} else {
				out = must(e.db.AwaitSyncContribution(c, uint64(sc.Slot), sc.SubcommitteeIndex, sc.BeaconBlockRoot))
			}
		}
	})
	return []any{out}, false, false, ok
}

// await: the blocking query of the store for the key of v (the readers of variant "+w").
func (e *dutydbEnv) await(c context.Context, v core.UnsignedData) any {
	switch v := v.(type) {
	case core.AttestationData:
		return must(e.db.AwaitAttestation(c, uint64(v.Data.Slot), uint64(v.Duty.CommitteeIndex)))
	case core.VersionedProposal:
		return must(e.db.AwaitProposal(c, uint64(must(v.Slot()))))
	case core.VersionedAggregatedAttestation:
		data := must(v.Data())
		return must(e.db.AwaitAggAttestation(c, uint64(data.Slot), must(data.HashTreeRoot()), must(v.CommitteeIndex())))
	case core.SyncContribution:
		return must(e.db.AwaitSyncContribution(c, uint64(v.Slot), v.SubcommitteeIndex, v.BeaconBlockRoot))
	case core.SyncContributions:
		sc := v[e.entry%len(v)]
		return must(e.db.AwaitSyncContribution(c, uint64(sc.Slot), sc.SubcommitteeIndex, sc.BeaconBlockRoot))
	}
	panic(fmt.Sprintf("no query for %T", v))
}

// passw: validatorapi.Proposal queries the store through its registered function and then writes
// ConsensusValue / ExecutionValue into the answer before returning it to the validator client.
func (e *dutydbEnv) passw(x *ctx, port string, src *holder, dst int) ([]any, string, bool) {
	v, isProp := e.last.(core.VersionedProposal)
	if port != "dutyDB.AwaitProposal" || !isProp || !src.kept {
		return nil, "", false
	}
	c, cancel := qctx()
	defer cancel()
	var out any
	ok := guard(x, "vapi.Proposal", func() {
		r, err := e.vapi.Proposal(c, &eth2api.ProposalOpts{Slot: must(v.Slot())})
		if err != nil {
			panic(err)
		}
		out = r.Data
	})
	return []any{out}, "vapi.Proposal", ok
}

func (e *dutydbEnv) readPort() string {
	switch e.kind.duty {
	case core.DutyAttester:
		return "dutyDB.AwaitAttestation"
	case core.DutyProposer:
		return "dutyDB.AwaitProposal"
	case core.DutyAggregator:
		return "dutyDB.AwaitAggAttestation"
	}
	return "dutyDB.AwaitSyncContribution"
}

func (e *dutydbEnv) episode(x *ctx) {
	rp := e.readPort()
	x.do("alloc 0 -")
	x.do("pass dutyDB.Store 0 1 -")
	// readers 2 and 3; later readers have even ids and are compared with the pristine value of reader 2
	// (for the plural sync contributions the entry is chosen by dst mod 2: like is compared with like)
	x.do(fmt.Sprintf("pass %s 1 2 -", rp))
	x.do(fmt.Sprintf("pass %s 1 3 -", rp))
	x.do(fmt.Sprintf("pass %s 1 4 2", rp))
	n := 5
	if e.kind.duty == core.DutyAttester {
		x.do("pass dutyDB.PubKeyByAttestation 1 5 -")
		n = 6
	}
	reread := func() {
		if n%2 == 1 {
			n++
		}
		x.do(fmt.Sprintf("pass %s 1 %d 2", rp, n))
		n++
	}
	x.mutRounds([]int{0, 2, 3}, 1+x.rng.Intn(3), reread)
	if e.kind.duty == core.DutyProposer && x.rng.Chance(2, 3) {
		// the validator client asks validatorapi for the proposal
		x.do(fmt.Sprintf("passw dutyDB.AwaitProposal 1 %d", n))
		n++
		reread()
	}
	if x.rng.Chance(1, 3) {
		// a second value (another slot) is stored; what was handed out before must not be affected
		x.do("alloc 50 -")
		x.do("pass dutyDB.Store 50 51 -")
		x.do(fmt.Sprintf("pass %s 51 52 -", rp))
		x.mutRounds([]int{50, 52}, 1, nil)
	}
}

// ---------------------------------------------------------------- env aggsigdb1 / aggsigdb2

type aggDB interface {
	Store(context.Context, core.Duty, core.SignedDataSet) error
	Await(context.Context, core.Duty, core.PubKey, core.SubcommitteeIndex) (core.SignedData, error)
}

type aggsigdbEnv struct {
	baseEnv
	kind   signedKind
	db     aggDB
	v1     *aggsigdb.MemDB
	v2     *aggsigdb.MemDBV2
	cancel context.CancelFunc
	pk     core.PubKey
	duty   core.Duty
	last   core.SignedData
	waiters bool  // variant "+w": two readers block on the key before the first Store
	pre     []any // their answers, handed out by the first Await passes
}

func newAggsigdbEnv(v2 bool) func(string) env {
	return func(variant string) env {
		waiters := strings.HasSuffix(variant, "+w")
		k, ok := findSigned(strings.TrimSuffix(variant, "+w"))
		if !ok {
			return nil
		}
		c, cancel := context.WithCancel(context.Background())
		e := &aggsigdbEnv{kind: k, cancel: cancel, pk: corePubKey(9), duty: core.Duty{Slot: 77, Type: k.duty}, waiters: waiters}
		if v2 {
			e.v2 = aggsigdb.NewMemDBV2(newStubDeadliner())
			e.db = e.v2
			go e.v2.Run(c)
		} else {
			e.v1 = aggsigdb.NewMemDB(newStubDeadliner())
			e.db = e.v1
			go e.v1.Run(c)
		}
		return e
	}
}

func init() {
	envs["aggsigdb1"] = newAggsigdbEnv(false)
	envs["aggsigdb2"] = newAggsigdbEnv(true)
}

func (e *aggsigdbEnv) close() { e.cancel() }

func (e *aggsigdbEnv) alloc(*ctx, string) ([]any, bool) {
	if e.last != nil {
		// a second Store under the same key must carry equal data: hand in an independent equal copy
		return []any{core.SignedDataSet{e.pk: deepCopy(newCopier(), e.last).(core.SignedData)}}, true
	}
	return []any{core.SignedDataSet{e.pk: e.kind.mk()}}, true
}

func (e *aggsigdbEnv) subcomm(v core.SignedData) core.SubcommitteeIndex {
	idx, err := core.SyncSubcommitteeIndex(e.duty.Type, v)
	if err != nil {
		return 0
	}
	return idx
}

func (e *aggsigdbEnv) keptRoots(c context.Context) []any {
	var entries []aggsigdb.EntryVerif
	if e.v1 != nil {
		// a query round-trips through the Run loop: afterwards the loop goroutine is back in its select
		_, _ = e.db.Await(c, e.duty, e.pk, e.subcomm(e.last))
		entries, _, _ = e.v1.SnapshotVerif()
	} else {
		entries, _ = e.v2.SnapshotVerif()
	}
	sort.Slice(entries, func(i, j int) bool {
		return fmt.Sprint(entries[i].Duty, entries[i].PubKey, entries[i].SubcommIdx) < fmt.Sprint(entries[j].Duty, entries[j].PubKey, entries[j].SubcommIdx)
	})
	var roots []any
	for _, en := range entries {
		roots = append(roots, en.Data)
	}
	return roots
}

func (e *aggsigdbEnv) pass(x *ctx, port string, src *holder, dst int) (roots []any, hidden, kept, ok bool) {
	c, cancel := qctx()
	defer cancel()
	switch port {
	case "aggSigDB.Store":
		set, isSet := src.roots[0].(core.SignedDataSet)
		if !src.input || !isSet {
			return nil, false, false, false
		}
		ok = guard(x, port, func() {
			var res []chan any
			if e.waiters && e.last == nil {
				sub := e.subcomm(set[e.pk])
				for i := 0; i < 2; i++ {
					ch := make(chan any, 1)
					res = append(res, ch)
					go func() {
						wc, wcancel := context.WithTimeout(context.Background(), 20*time.Second)
						defer wcancel()
						v, err := e.db.Await(wc, e.duty, e.pk, sub)
						if err != nil {
							ch <- err
							return
						}
						ch <- v
					}()
				}
				time.Sleep(30 * time.Millisecond) // let both readers block (if they are late they are answered directly: harmless)
			}
			if err := e.db.Store(c, e.duty, set); err != nil {
				panic(err)
			}
			for _, ch := range res {
				v := <-ch
				if err, isErr := v.(error); isErr {
					panic(err)
				}
				e.pre = append(e.pre, v)
			}
			if e.last == nil {
				e.last = deepCopy(newCopier(), set[e.pk]).(core.SignedData)
			}
			roots = e.keptRoots(c)
		})
		return roots, false, true, ok
	case "aggSigDB.Await":
		if !src.kept || e.last == nil {
			return nil, false, false, false
		}
		var out any
		if len(e.pre) > 0 {
			out, e.pre = e.pre[0], e.pre[1:]
			return []any{out}, false, false, true
		}
		ok = guard(x, port, func() { out = must(e.db.Await(c, e.duty, e.pk, e.subcomm(e.last))) })
		return []any{out}, false, false, ok
	}
	return nil, false, false, false
}

func (e *aggsigdbEnv) episode(x *ctx) {
	x.do("alloc 0 -")
	x.do("pass aggSigDB.Store 0 1 -")
	x.do("pass aggSigDB.Await 1 2 -")
	x.do("pass aggSigDB.Await 1 3 2")
	n := 4
	x.mutRounds([]int{0, 2, 3}, 1+x.rng.Intn(3), func() {
		x.do(fmt.Sprintf("pass aggSigDB.Await 1 %d 2", n))
		n++
	})
	if x.rng.Chance(1, 2) {
		// the same data is stored again (idempotent); earlier answers and later queries are unaffected
		x.do("alloc 50 -")
		x.do("pass aggSigDB.Store 50 1 -")
		x.do(fmt.Sprintf("pass aggSigDB.Await 1 %d 2", n))
		x.mutRounds([]int{50, n}, 1, nil)
	}
}

// ---------------------------------------------------------------- env parsigdb

type parsigdbEnv struct {
	baseEnv
	kind     signedKind
	db       *parsigdb.MemDB
	duty     core.Duty
	pk       core.PubKey
	base     core.SignedData
	internal []any
	thresh   []any
}

func init() {
	envs["parsigdb"] = func(variant string) env {
		k, ok := findSigned(variant)
		if !ok {
			return nil
		}
		e := &parsigdbEnv{kind: k, pk: corePubKey(11), duty: core.Duty{Slot: 99, Type: k.duty}, base: k.mk()}
		e.db = parsigdb.NewMemDB(2, newStubDeadliner(), parsigdb.NewMemDBMetadata(12, time.Now()))
		// two subscribers per fan-out, as core.Wire plus tracker-like second consumers
		for i := 0; i < 2; i++ {
			e.db.SubscribeInternal(func(_ context.Context, _ core.Duty, set core.ParSignedDataSet) error {
				e.internal = append(e.internal, set)
				return nil
			})
			e.db.SubscribeThreshold(func(_ context.Context, _ core.Duty, set map[core.PubKey][]core.ParSignedData) error {
				e.thresh = append(e.thresh, set)
				return nil
			})
		}
		return e
	}
}

func (e *parsigdbEnv) alloc(_ *ctx, tag string) ([]any, bool) {
	share := 1
	if len(tag) == 1 && tag[0] >= 'a' && tag[0] <= 'd' {
		share = int(tag[0]-'a') + 1
	}
	data := deepCopy(newCopier(), e.base).(core.SignedData)
	return []any{core.ParSignedDataSet{e.pk: core.ParSignedData{SignedData: data, ShareIdx: share}}}, true
}

func (e *parsigdbEnv) keptRoots() []any {
	s := e.db.VerifSnapshot()
	var ks []parsigdb.VerifKey
	for k := range s.Entries {
		ks = append(ks, k)
	}
	sort.Slice(ks, func(i, j int) bool { return fmt.Sprint(ks[i]) < fmt.Sprint(ks[j]) })
	var roots []any
	for _, k := range ks {
		for _, p := range s.Entries[k] {
			roots = append(roots, p)
		}
	}
	return roots
}

func (e *parsigdbEnv) pass(x *ctx, port string, src *holder, dst int) (roots []any, hidden, kept, ok bool) {
	c, cancel := qctx()
	defer cancel()
	switch port {
	case "parSigDB.StoreInternal", "parSigDB.StoreExternal":
		set, isSet := src.roots[0].(core.ParSignedDataSet)
		if !src.input || !isSet {
			return nil, false, false, false
		}
		ok = guard(x, port, func() {
			var err error
			if port == "parSigDB.StoreInternal" {
				err = e.db.StoreInternal(c, e.duty, set)
			} else {
				err = e.db.StoreExternal(c, e.duty, set)
			}
			if err != nil {
				panic(err)
			}
			roots = e.keptRoots()
		})
		return roots, false, true, ok
	case "parSigDB.SubscribeInternal":
		if !src.kept || len(e.internal) == 0 {
			return nil, false, false, false
		}
		v := e.internal[0]
		e.internal = e.internal[1:]
		return []any{v}, false, false, true
	case "parSigDB.SubscribeThreshold":
		if !src.kept || len(e.thresh) == 0 {
			return nil, false, false, false
		}
		v := e.thresh[0]
		e.thresh = e.thresh[1:]
		return []any{v}, false, false, true
	}
	return nil, false, false, false
}

func (e *parsigdbEnv) episode(x *ctx) {
	x.do("alloc 0 - a")
	x.do("pass parSigDB.StoreInternal 0 1 -")
	x.do("pass parSigDB.SubscribeInternal 1 2 -")
	x.do("pass parSigDB.SubscribeInternal 1 3 -")
	if x.rng.Chance(1, 2) {
		x.mutRounds([]int{0, 2, 3}, 1, nil)
	}
	x.do("alloc 4 - b")
	x.do("pass parSigDB.StoreExternal 4 1 -")
	x.do("pass parSigDB.SubscribeThreshold 1 5 -")
	x.do("pass parSigDB.SubscribeThreshold 1 6 -")
	x.mutRounds([]int{0, 2, 3, 4, 5, 6}, 2+x.rng.Intn(3), nil)
	if x.rng.Chance(1, 3) {
		// a third share arrives: the group is larger than the threshold, nothing new is delivered
		x.do("alloc 7 - c")
		x.do("pass parSigDB.StoreExternal 7 1 -")
		x.mutRounds([]int{7}, 1, nil)
	}
}

// ---------------------------------------------------------------- env sigagg

type sigaggEnv struct {
	baseEnv
	kind   signedKind
	agg    *sigagg.Aggregator
	duty   core.Duty
	pk     core.PubKey
	shares map[int]tbls.PrivateKey
	out    []any
}

func init() {
	envs["sigagg"] = func(variant string) env {
		k, ok := findSigned(variant)
		if !ok {
			return nil
		}
		e := &sigaggEnv{kind: k, pk: corePubKey(13), duty: core.Duty{Slot: 5, Type: k.duty}}
		a, err := sigagg.New(2, func(context.Context, core.PubKey, core.SignedData) error { return nil })
		if err != nil {
			panic(err)
		}
		for i := 0; i < 2; i++ {
			a.Subscribe(func(_ context.Context, _ core.Duty, set core.SignedDataSet) error {
				e.out = append(e.out, set)
				return nil
			})
		}
		e.agg = a
		secret := must(tbls.GenerateSecretKey())
		e.shares = must(tbls.ThresholdSplit(secret, 3, 2))
		return e
	}
}

func (e *sigaggEnv) alloc(*ctx, string) ([]any, bool) {
	base := e.kind.mk()
	var psigs []core.ParSignedData
	for _, idx := range []int{1, 2} {
		sig := must(tbls.Sign(e.shares[idx], []byte("drive-alias")))
		d := must(deepCopy(newCopier(), base).(core.SignedData).SetSignature(tblsconv.SigToCore(sig)))
		psigs = append(psigs, core.ParSignedData{SignedData: d, ShareIdx: idx})
	}
	return []any{map[core.PubKey][]core.ParSignedData{e.pk: psigs}}, true
}

func (e *sigaggEnv) pass(x *ctx, port string, src *holder, dst int) (roots []any, hidden, kept, ok bool) {
	c, cancel := qctx()
	defer cancel()
	switch port {
	case "sigAgg.Aggregate":
		set, isSet := src.roots[0].(map[core.PubKey][]core.ParSignedData)
		if !src.input || !isSet {
			return nil, false, false, false
		}
		e.out = nil
		ok = guard(x, port, func() {
			if err := e.agg.Aggregate(c, e.duty, set); err != nil {
				panic(err)
			}
		})
		return nil, true, true, ok // the aggregator keeps nothing: hidden holder
	case "sigAgg.Subscribe":
		if !src.hidden || len(e.out) == 0 {
			return nil, false, false, false
		}
		v := e.out[0]
		e.out = e.out[1:]
		return []any{v}, false, false, true
	}
	return nil, false, false, false
}

func (e *sigaggEnv) episode(x *ctx) {
	x.do("alloc 0 -")
	x.do("pass sigAgg.Aggregate 0 1 - h")
	x.do("pass sigAgg.Subscribe 1 2 -")
	x.do("pass sigAgg.Subscribe 1 3 -")
	x.mutRounds([]int{0, 2, 3}, 2+x.rng.Intn(3), nil)
}
