package main

// Environments of drive-alias, part 2: scheduler.Scheduler (env `sched`), fetcher.Fetcher (env
// `fetch`) and the submit paths of validatorapi.Component (env `vapi`), all on a beaconmock, no network.

import (
	"context"
	"encoding/hex"
	"fmt"
	"sort"
	"sync"
	"time"

	eth2api "github.com/attestantio/go-eth2-client/api"
	eth2v1 "github.com/attestantio/go-eth2-client/api/v1"
	eth2capella "github.com/attestantio/go-eth2-client/api/v1/capella"
	eth2spec "github.com/attestantio/go-eth2-client/spec"
	"github.com/attestantio/go-eth2-client/spec/altair"
	"github.com/attestantio/go-eth2-client/spec/capella"
	eth2p0 "github.com/attestantio/go-eth2-client/spec/phase0"
	"github.com/jonboulle/clockwork"

	"github.com/obolnetwork/charon/app/eth2wrap"
	"github.com/obolnetwork/charon/app/featureset"
	"github.com/obolnetwork/charon/core"
	"github.com/obolnetwork/charon/core/fetcher"
	"github.com/obolnetwork/charon/core/scheduler"
	"github.com/obolnetwork/charon/core/validatorapi"
	"github.com/obolnetwork/charon/testutil"
	"github.com/obolnetwork/charon/testutil/beaconmock"
)

type (
	capellaBlock        = capella.BeaconBlock
	capellaBlindedBlock = eth2capella.BlindedBeaconBlock
)

func extraPairs() [][2]string {
	var out [][2]string
	for _, v := range []string{"attester", "proposer", "sync", "attester-head"} {
		out = append(out, [2]string{"sched", v})
	}
	for _, v := range []string{"attester", "attester-early", "proposer", "aggregator", "sync", "sync-v2"} {
		out = append(out, [2]string{"fetch", v})
	}
	for _, v := range []string{"attestations-electra", "attestations-fulu", "exit", "syncmsg", "aggregates", "contribs", "selections", "syncselections", "proposal", "blinded-proposal"} {
		out = append(out, [2]string{"vapi", v})
	}
	return out
}

func eth2Pk(i int) eth2p0.BLSPubKey {
	var b eth2p0.BLSPubKey
	b[0] = byte(i)
	b[1] = 0xC1
	b[47] = 0x18
	return b
}

// corePubKey(i) is the core form of eth2Pk(i).

var (
	schedGenesis  = time.Date(2024, 1, 1, 0, 0, 0, 0, time.UTC)
	schedMockOnce sync.Once
	schedMock     beaconmock.Mock
)

const (
	schedSPE     = 4
	schedSlotDur = time.Second
)

func baseSchedMock() beaconmock.Mock {
	schedMockOnce.Do(func() {
		m, err := beaconmock.New(context.Background(),
			beaconmock.WithGenesisTime(schedGenesis),
			beaconmock.WithSlotDuration(schedSlotDur),
			beaconmock.WithSlotsPerEpoch(schedSPE))
		if err != nil {
			panic(err)
		}
		schedMock = m
	})
	return schedMock
}

func twoValidators(context.Context) (eth2wrap.ActiveValidators, eth2wrap.CompleteValidators, error) {
	active := eth2wrap.ActiveValidators{}
	complete := eth2wrap.CompleteValidators{}
	for i := 1; i <= 2; i++ {
		idx := eth2p0.ValidatorIndex(i)
		active[idx] = eth2Pk(i)
		complete[idx] = &eth2v1.Validator{Index: idx, Balance: 32000000000, Status: eth2v1.ValidatorStateActiveOngoing,
			Validator: &eth2p0.Validator{PublicKey: eth2Pk(i), ExitEpoch: 1 << 62, WithdrawableEpoch: 1 << 62, EffectiveBalance: 32000000000}}
	}
	return active, complete, nil
}

func setFeatures(enable bool) {
	cfg := featureset.Config{MinStatus: "stable"}
	fl := []string{string(featureset.FetchAttOnBlock), string(featureset.FetchAttOnBlockWithDelay)}
	if enable {
		cfg.Enabled = fl[:1]
		cfg.Disabled = fl[1:]
	} else {
		cfg.Disabled = fl
	}
	if err := featureset.Init(context.Background(), cfg); err != nil {
		panic(err)
	}
}

// ---------------------------------------------------------------- env sched

type delivery struct {
	sub  int
	duty core.Duty
	set  core.DutyDefinitionSet
}

type schedEnv struct {
	baseEnv
	variant string
	sched   *scheduler.Scheduler
	cancel  context.CancelFunc
	mu      sync.Mutex
	got     []delivery
	early   []core.DutyDefinitionSet
	queue   []delivery
	bn      any // the beacon client's answer (holder 0)
	slot    uint64
	duty    core.Duty
	handled bool
}

func init() {
	envs["sched"] = func(variant string) env {
		e := &schedEnv{variant: variant, slot: 1}
		switch variant {
		case "attester", "attester-head":
			e.duty = core.NewAttesterDuty(e.slot)
		case "proposer":
			e.duty = core.NewProposerDuty(e.slot)
		case "sync":
			e.duty = core.NewSyncContributionDuty(e.slot)
		default:
			return nil
		}
		setFeatures(variant == "attester-head")
		m := baseSchedMock()
		m.CachedValidatorsFunc = twoValidators
		m.CachedAttesterDutiesFunc = func(context.Context, eth2p0.Epoch, []eth2p0.ValidatorIndex) (eth2wrap.AttesterDutyWithMeta, error) {
			if d, ok := e.bn.([]*eth2v1.AttesterDuty); ok {
				return eth2wrap.AttesterDutyWithMeta{Duties: d}, nil
			}
			return eth2wrap.AttesterDutyWithMeta{}, nil
		}
		m.CachedProposerDutiesFunc = func(context.Context, eth2p0.Epoch, []eth2p0.ValidatorIndex) (eth2wrap.ProposerDutyWithMeta, error) {
			if d, ok := e.bn.([]*eth2v1.ProposerDuty); ok {
				return eth2wrap.ProposerDutyWithMeta{Duties: d}, nil
			}
			return eth2wrap.ProposerDutyWithMeta{}, nil
		}
		m.CachedSyncCommDutiesFunc = func(context.Context, eth2p0.Epoch, []eth2p0.ValidatorIndex) (eth2wrap.SyncDutyWithMeta, error) {
			if d, ok := e.bn.([]*eth2v1.SyncCommitteeDuty); ok {
				return eth2wrap.SyncDutyWithMeta{Duties: d}, nil
			}
			return eth2wrap.SyncDutyWithMeta{}, nil
		}
		clock := clockwork.NewFakeClockAt(schedGenesis.Add(time.Duration(e.slot) * schedSlotDur))
		delay := func(core.Duty, time.Time) <-chan time.Time {
			ch := make(chan time.Time, 1)
			ch <- time.Time{}
			return ch
		}
		s, err := scheduler.NewVerif(clock, delay, nil, m, false)
		if err != nil {
			panic(err)
		}
		for i := 0; i < 2; i++ {
			i := i
			s.SubscribeDuties(func(_ context.Context, duty core.Duty, set core.DutyDefinitionSet) error {
				e.mu.Lock()
				e.got = append(e.got, delivery{i, duty, set})
				e.mu.Unlock()
				return nil
			})
		}
		s.RegisterFetcherFetchOnly(func(_ context.Context, _ core.Duty, set core.DutyDefinitionSet, _ string, _ eth2p0.Root) error {
			e.mu.Lock()
			e.early = append(e.early, set)
			e.mu.Unlock()
			return nil
		})
		e.sched = s
		e.cancel = func() {}
		return e
	}
}

func (e *schedEnv) close() { e.cancel() }

func (e *schedEnv) alloc(*ctx, string) ([]any, bool) {
	var v any
	switch e.variant {
	case "attester", "attester-head":
		var d []*eth2v1.AttesterDuty
		for i := 1; i <= 2; i++ {
			d = append(d, &eth2v1.AttesterDuty{PubKey: eth2Pk(i), Slot: eth2p0.Slot(e.slot), ValidatorIndex: eth2p0.ValidatorIndex(i),
				CommitteeIndex: 3, CommitteeLength: 16, CommitteesAtSlot: 4, ValidatorCommitteeIndex: uint64(i)})
		}
		v = d
	case "proposer":
		v = []*eth2v1.ProposerDuty{{PubKey: eth2Pk(1), Slot: eth2p0.Slot(e.slot), ValidatorIndex: 1}}
	case "sync":
		var d []*eth2v1.SyncCommitteeDuty
		for i := 1; i <= 2; i++ {
			d = append(d, &eth2v1.SyncCommitteeDuty{PubKey: eth2Pk(i), ValidatorIndex: eth2p0.ValidatorIndex(i),
				ValidatorSyncCommitteeIndices: []eth2p0.CommitteeIndex{eth2p0.CommitteeIndex(i), eth2p0.CommitteeIndex(130 + i)}})
		}
		v = d
	}
	return []any{v}, true
}

func (e *schedEnv) resolvePort() string {
	switch e.variant {
	case "proposer":
		return "sched.resolveProDuties"
	case "sync":
		return "sched.resolveSyncCommDuties"
	}
	return "sched.resolveAttDuties"
}

func (e *schedEnv) pass(x *ctx, port string, src *holder, dst int) (roots []any, hidden, kept, ok bool) {
	c, cancel := qctx()
	defer cancel()
	switch port {
	case "sched.resolveAttDuties", "sched.resolveProDuties", "sched.resolveSyncCommDuties":
		if port != e.resolvePort() || !src.input || e.handled {
			return nil, false, false, false
		}
		e.bn = src.roots[0]
		e.handled = true
		slot := core.Slot{Slot: e.slot, Time: schedGenesis.Add(time.Duration(e.slot) * schedSlotDur), SlotDuration: schedSlotDur, SlotsPerEpoch: schedSPE}
		ok = guard(x, port, func() {
			deadline := time.Now().Add(5 * time.Second)
			if e.variant == "attester-head" {
				// the previous slot resolves the epoch; then the head event of our slot arrives before the
				// slot is scheduled: the scheduler hands a copy of the definitions to the fetcher's FetchOnly
				prev := core.Slot{Slot: e.slot - 1, Time: schedGenesis.Add(time.Duration(e.slot-1) * schedSlotDur), SlotDuration: schedSlotDur, SlotsPerEpoch: schedSPE}
				e.sched.HandleSlotVerif(context.Background(), prev)
				e.sched.HandleHeadEvent(context.Background(), eth2p0.Slot(e.slot), eth2p0.Root{1}, "bn")
				for {
					e.mu.Lock()
					n := len(e.early)
					e.mu.Unlock()
					if n >= 1 {
						break
					}
					if time.Now().After(deadline) {
						panic("scheduler did not call the fetch-only function")
					}
					time.Sleep(200 * time.Microsecond)
				}
			}
			e.sched.HandleSlotVerif(context.Background(), slot)
			// wait for the trigger goroutines of this slot: two subscribers per resolved duty of the slot
			sn := e.sched.SnapshotVerif()
			want := 0
			for d := range sn.Duties {
				if d.Slot == e.slot {
					want += 2
				}
			}
			for {
				e.mu.Lock()
				n := 0
				for _, g := range e.got {
					if g.duty.Slot == e.slot {
						n++
					}
				}
				e.mu.Unlock()
				if n >= want {
					break
				}
				if time.Now().After(deadline) {
					panic(fmt.Sprintf("scheduler delivered %d of %d triggers", n, want))
				}
				time.Sleep(200 * time.Microsecond)
			}
			e.mu.Lock()
			e.queue = nil
			for _, g := range e.got {
				if g.duty.Slot == e.slot {
					e.queue = append(e.queue, g)
				}
			}
			e.mu.Unlock()
			sort.SliceStable(e.queue, func(i, j int) bool {
				a, b := e.queue[i], e.queue[j]
				// the duty of the variant first, then by type, subscriber 0 before subscriber 1
				am, bm := a.duty != e.duty, b.duty != e.duty
				if am != bm {
					return !am
				}
				if a.duty.Type != b.duty.Type {
					return a.duty.Type < b.duty.Type
				}
				return a.sub < b.sub
			})
		})
		return nil, true, true, ok // the scheduler's duty table cannot be seen: hidden holder
	case "sched.SubscribeDuties":
		if !src.hidden || len(e.queue) == 0 {
			return nil, false, false, false
		}
		d := e.queue[0]
		e.queue = e.queue[1:]
		return []any{d.set}, false, false, true
	case "sched.RegisterFetcherFetchOnly":
		if !src.hidden || len(e.early) == 0 {
			return nil, false, false, false
		}
		d := e.early[0]
		e.early = e.early[1:]
		return []any{d}, false, false, true
	case "sched.GetDutyDefinition":
		if !src.hidden || !e.handled {
			return nil, false, false, false
		}
		var out any
		ok = guard(x, port, func() { out = must(e.sched.GetDutyDefinition(c, e.duty)) })
		return []any{out}, false, false, ok
	}
	return nil, false, false, false
}

func (e *schedEnv) episode(x *ctx) {
	x.do("alloc 0 -")
	x.do(fmt.Sprintf("pass %s 0 1 - h", e.resolvePort()))
	n := 2
	for len(e.queue) > 0 {
		x.do(fmt.Sprintf("pass sched.SubscribeDuties 1 %d -", n))
		n++
	}
	if e.variant == "attester-head" {
		x.do(fmt.Sprintf("pass sched.RegisterFetcherFetchOnly 1 %d -", n))
		n++
	}
	first := n
	x.do(fmt.Sprintf("pass sched.GetDutyDefinition 1 %d -", n))
	n++
	x.do(fmt.Sprintf("pass sched.GetDutyDefinition 1 %d %d", n, first))
	n++
	var cands []int
	for i := 2; i < n; i++ {
		cands = append(cands, i)
	}
	x.mutRounds(cands, 2+x.rng.Intn(3), func() {
		x.do(fmt.Sprintf("pass sched.GetDutyDefinition 1 %d %d", n, first))
		n++
	})
	// the beacon client (or another consumer of its answer) writes into what it handed to the scheduler;
	// only as a whole: the scheduler copies the duty structs and keeps the slices they point to
	x.do("mutall 0")
	x.do(fmt.Sprintf("pass sched.GetDutyDefinition 1 %d %d", n, first))
}

// ---------------------------------------------------------------- env fetch

type fetchEnv struct {
	baseEnv
	variant string
	f       *fetcher.Fetcher
	duty    core.Duty
	out     []any
	aggAns  map[string]core.SignedData // answers of the registered aggsigdb function
	attAns  *eth2p0.AttestationData    // answer of the registered dutydb function
	bnAtt   *eth2p0.AttestationData    // beacon node answers
	bnProp  *eth2api.VersionedProposal
	bnAgg   *eth2spec.VersionedAttestation
	bnCon   map[uint64]*altair.SyncCommitteeContribution
	head    eth2p0.Root
}

const (
	fetchSlot = 9
	// selection proofs that make IsSyncCommAggregator true (from core/fetcher tests)
	syncSigA = "a9dbd88a49a7269e91b8ef1296f1e07f87fed919d51a446b67122bfdfd61d23f3f929fc1cd5209bd6862fd60f739b27213fb0a8d339f7f081fc84281f554b190bb49cc97a6b3364e622af9e7ca96a97fe2b766f9e746dead0b33b58473d91562"
	syncSigB = "99e60f20dde4d4872b048d703f1943071c20213d504012e7e520c229da87661803b9f139b9a0c5be31de3cef6821c080125aed38ebaf51ba9a2e9d21d7fbf2903577983109d097a8599610a92c0305408d97c1fd4b0b2d1743fb4eedf5443f99"
)

func blsSigFromHex(s string) (sig eth2p0.BLSSignature) {
	b, err := hex.DecodeString(s)
	if err != nil {
		panic(err)
	}
	copy(sig[:], b)
	return sig
}

func aggKey(d core.Duty, pk core.PubKey, sub core.SubcommitteeIndex) string {
	return fmt.Sprint(d.Type, "/", pk, "/", sub)
}

func init() {
	envs["fetch"] = func(variant string) env {
		e := &fetchEnv{variant: variant, aggAns: map[string]core.SignedData{}, bnCon: map[uint64]*altair.SyncCommitteeContribution{}}
		switch variant {
		case "attester", "attester-early":
			e.duty = core.NewAttesterDuty(fetchSlot)
		case "proposer":
			e.duty = core.NewProposerDuty(fetchSlot)
		case "aggregator":
			e.duty = core.NewAggregatorDuty(fetchSlot)
		case "sync", "sync-v2":
			e.duty = core.NewSyncContributionDuty(fetchSlot)
		default:
			return nil
		}
		m := sharedBeaconMock()
		m.AttestationDataFunc = func(_ context.Context, slot eth2p0.Slot, idx eth2p0.CommitteeIndex) (*eth2p0.AttestationData, error) {
			return e.bnAtt, nil
		}
		m.ProposalFunc = func(context.Context, *eth2api.ProposalOpts) (*eth2api.VersionedProposal, error) { return e.bnProp, nil }
		m.AggregateAttestationFunc = func(context.Context, eth2p0.Slot, eth2p0.Root) (*eth2spec.VersionedAttestation, error) {
			return e.bnAgg, nil
		}
		m.SyncCommitteeContributionFunc = func(_ context.Context, _ eth2p0.Slot, sub uint64, _ eth2p0.Root) (*altair.SyncCommitteeContribution, error) {
			return e.bnCon[sub], nil
		}
		f, err := fetcher.New(m, func(core.PubKey) string { return "0x0000000000000000000000000000000000000000" }, true, &fetcher.GraffitiBuilder{}, 5, false)
		if err != nil {
			panic(err)
		}
		f.RegisterAggSigDB(func(_ context.Context, d core.Duty, pk core.PubKey, sub core.SubcommitteeIndex) (core.SignedData, error) {
			v, ok := e.aggAns[aggKey(d, pk, sub)]
			if !ok {
				return nil, fmt.Errorf("no aggsigdb answer for %v", aggKey(d, pk, sub))
			}
			return v, nil
		})
		f.RegisterAwaitAttData(func(context.Context, uint64, uint64) (*eth2p0.AttestationData, error) { return e.attAns, nil })
		f.RegisterSyncContributionV2(func(uint64) bool { return variant == "sync-v2" })
		for i := 0; i < 2; i++ {
			f.Subscribe(func(_ context.Context, _ core.Duty, set core.UnsignedDataSet) error {
				e.out = append(e.out, set)
				return nil
			})
		}
		e.f = f
		return e
	}
}

// alloc: tag "" / "def" = the duty definition set handed to Fetch; "agg" = the answers of the
// aggsigdb function; "att" = the answer of the dutydb function; "bn" = the beacon node's answers.
func (e *fetchEnv) alloc(_ *ctx, tag string) ([]any, bool) {
	pk1, pk2 := corePubKey(1), corePubKey(2)
	switch tag {
	case "", "def":
		set := core.DutyDefinitionSet{}
		for i, pk := range []core.PubKey{pk1, pk2} {
			switch e.duty.Type {
			case core.DutyAttester, core.DutyAggregator:
				set[pk] = core.NewAttesterDefinition(&eth2v1.AttesterDuty{PubKey: eth2Pk(i + 1), Slot: fetchSlot, ValidatorIndex: eth2p0.ValidatorIndex(i + 1),
					CommitteeIndex: 3, CommitteeLength: 0, CommitteesAtSlot: 4, ValidatorCommitteeIndex: uint64(i)})
			case core.DutyProposer:
				if i == 0 {
					set[pk] = core.NewProposerDefinition(&eth2v1.ProposerDuty{PubKey: eth2Pk(1), Slot: fetchSlot, ValidatorIndex: 1})
				}
			default:
				// validator 1 sits in subcommittees 0 and 1, validator 2 in subcommittee 1
				idx := []eth2p0.CommitteeIndex{0, 128}
				if i == 1 {
					idx = []eth2p0.CommitteeIndex{129}
				}
				set[pk] = core.NewSyncCommitteeDefinition(&eth2v1.SyncCommitteeDuty{PubKey: eth2Pk(i + 1), ValidatorIndex: eth2p0.ValidatorIndex(i + 1), ValidatorSyncCommitteeIndices: idx})
			}
		}
		return []any{set}, true
	case "agg":
		var roots []any
		put := func(d core.Duty, pk core.PubKey, sub core.SubcommitteeIndex, v core.SignedData) {
			e.aggAns[aggKey(d, pk, sub)] = v
			roots = append(roots, v)
		}
		switch e.duty.Type {
		case core.DutyProposer:
			put(core.NewRandaoDuty(fetchSlot), pk1, 0, testutil.RandomCoreSignedRandao())
		case core.DutyAggregator:
			put(core.NewPrepareAggregatorDuty(fetchSlot), pk1, 0, testutil.RandomCoreBeaconCommitteeSelection())
			put(core.NewPrepareAggregatorDuty(fetchSlot), pk2, 0, testutil.RandomCoreBeaconCommitteeSelection())
		case core.DutySyncContribution:
			root := testutil.RandomRoot()
			for i, pk := range []core.PubKey{pk1, pk2} {
				msg := testutil.RandomSyncCommitteeMessage()
				msg.BeaconBlockRoot = root
				put(core.NewSyncMessageDuty(fetchSlot), pk, 0, core.NewSignedSyncMessage(msg))
				subs := []uint64{0, 1}
				if i == 1 {
					subs = []uint64{1}
				}
				for _, sub := range subs {
					sel := &eth2v1.SyncCommitteeSelection{ValidatorIndex: eth2p0.ValidatorIndex(i + 1), Slot: fetchSlot, SubcommitteeIndex: sub, SelectionProof: blsSigFromHex(syncSigA)}
					if sub == 1 {
						sel.SelectionProof = blsSigFromHex(syncSigB)
					}
					put(core.NewPrepareSyncContributionDuty(fetchSlot), pk, core.SubcommitteeIndex(sub), core.NewSyncCommitteeSelection(sel))
				}
			}
		default:
			return nil, false
		}
		return roots, true
	case "att":
		if e.duty.Type != core.DutyAggregator {
			return nil, false
		}
		e.attAns = testutil.RandomAttestationDataPhase0()
		return []any{e.attAns}, true
	case "bn":
		switch e.duty.Type {
		case core.DutyAttester:
			e.bnAtt = testutil.RandomAttestationDataPhase0()
			e.bnAtt.Slot = fetchSlot
			e.head = e.bnAtt.BeaconBlockRoot
			return []any{e.bnAtt}, true
		case core.DutyProposer:
			e.bnProp = testutil.RandomDenebVersionedProposal()
			return []any{e.bnProp}, true
		case core.DutyAggregator:
			e.bnAgg = testutil.RandomDenebVersionedAttestation()
			return []any{e.bnAgg}, true
		default:
			var roots []any
			for sub := uint64(0); sub < 2; sub++ {
				c := testutil.RandomSyncCommitteeContribution()
				c.Slot, c.SubcommitteeIndex = fetchSlot, sub
				e.bnCon[sub] = c
				roots = append(roots, c)
			}
			return roots, true
		}
	}
	return nil, false
}

func (e *fetchEnv) pass(x *ctx, port string, src *holder, dst int) (roots []any, hidden, kept, ok bool) {
	c, cancel := qctx()
	defer cancel()
	switch port {
	case "fetch.Fetch", "fetch.FetchOnly":
		set, isSet := src.roots[0].(core.DutyDefinitionSet)
		if !src.input || !isSet {
			return nil, false, false, false
		}
		ok = guard(x, port, func() {
			var err error
			if port == "fetch.FetchOnly" {
				err = e.f.FetchOnly(c, e.duty, set, "bn", e.head)
			} else {
				e.out = nil
				err = e.f.Fetch(c, e.duty, set)
			}
			if err != nil {
				panic(err)
			}
		})
		return nil, true, true, ok
	case "fetch.Subscribe":
		if !src.hidden || len(e.out) == 0 {
			return nil, false, false, false
		}
		v := e.out[0]
		e.out = e.out[1:]
		return []any{v}, false, false, true
	}
	return nil, false, false, false
}

func (e *fetchEnv) episode(x *ctx) {
	x.do("alloc 0 - def")
	cands := []int{0, 2, 3}
	if e.duty.Type != core.DutyAttester {
		x.do("alloc 10 - agg")
		cands = append(cands, 10)
	}
	if e.duty.Type == core.DutyAggregator {
		x.do("alloc 11 - att")
		cands = append(cands, 11)
	}
	x.do("alloc 12 - bn")
	cands = append(cands, 12)
	if e.variant == "attester-early" {
		x.do("pass fetch.FetchOnly 0 1 - h")
		if x.rng.Chance(1, 2) {
			// the scheduler's copy of the definitions is mutated between the early fetch and the trigger
			x.mutRounds([]int{0}, 1, nil)
		}
	}
	x.do("pass fetch.Fetch 0 1 - h")
	x.do("pass fetch.Subscribe 1 2 -")
	x.do("pass fetch.Subscribe 1 3 -")
	x.mutRounds(cands, 3+x.rng.Intn(3), nil)
}

// ---------------------------------------------------------------- env vapi (submit paths)

type vapiEnv struct {
	baseEnv
	variant string
	v       *validatorapi.Component
	out     []any
	aggAns  core.SignedData
	prop    core.VersionedProposal // what the dutydb function answers (proposal variants)
}

func init() {
	envs["vapi"] = func(variant string) env {
		switch variant {
		case "attestations-electra", "attestations-fulu", "exit", "syncmsg", "aggregates", "contribs", "selections", "syncselections", "proposal", "blinded-proposal":
		default:
			return nil
		}
		e := &vapiEnv{variant: variant}
		m := sharedBeaconMock()
		m.CachedValidatorsFunc = twoValidators
		v, err := validatorapi.NewComponentInsecure(nil, m, 1)
		if err != nil {
			panic(err)
		}
		v.RegisterPubKeyByAttestation(func(context.Context, uint64, uint64, uint64) (core.PubKey, error) { return corePubKey(1), nil })
		v.RegisterGetDutyDefinition(func(context.Context, core.Duty) (core.DutyDefinitionSet, error) {
			return core.DutyDefinitionSet{corePubKey(1): core.NewProposerDefinition(&eth2v1.ProposerDuty{PubKey: eth2Pk(1), ValidatorIndex: 1})}, nil
		})
		v.RegisterAwaitAggSigDB(func(context.Context, core.Duty, core.PubKey, core.SubcommitteeIndex) (core.SignedData, error) {
			// aggsigdb clones before returning: hand out a copy of the aggregate
			return e.aggAns.Clone()
		})
		v.RegisterAwaitProposal(func(context.Context, uint64) (*eth2api.VersionedProposal, error) {
			// dutydb after fixes/C18-dutydb-await-clone.diff: a copy of the stored proposal
			c, err := e.prop.Clone()
			if err != nil {
				return nil, err
			}
			p := c.(core.VersionedProposal)
			return &p.VersionedProposal, nil
		})
		for i := 0; i < 2; i++ {
			v.Subscribe(func(_ context.Context, _ core.Duty, set core.ParSignedDataSet) error {
				e.out = append(e.out, set)
				return nil
			})
		}
		e.v = v
		return e
	}
}

// alloc: the request object of the validator client.
func (e *vapiEnv) alloc(*ctx, string) ([]any, bool) {
	switch e.variant {
	case "attestations-electra", "attestations-fulu":
		mk := attVersions(true)["electra"]
		if e.variant == "attestations-fulu" {
			mk = attVersions(true)["fulu"]
		}
		return []any{&eth2api.SubmitAttestationsOpts{Attestations: []*eth2spec.VersionedAttestation{mk()}}}, true
	case "exit":
		x := testutil.RandomExit()
		x.Message.ValidatorIndex = 1
		x.Message.Epoch = 3
		return []any{x}, true
	case "syncmsg":
		a, b := testutil.RandomSyncCommitteeMessage(), testutil.RandomSyncCommitteeMessage()
		a.ValidatorIndex, b.ValidatorIndex = 1, 2
		b.Slot = a.Slot
		return []any{[]*altair.SyncCommitteeMessage{a, b}}, true
	case "aggregates":
		a := aggAndProofVersions()["deneb"]()
		a.Deneb.Message.AggregatorIndex = 1
		b := aggAndProofVersions()["electra"]()
		b.Electra.Message.AggregatorIndex = 2
		b.Electra.Message.Aggregate.Data.Slot = a.Deneb.Message.Aggregate.Data.Slot
		return []any{&eth2api.SubmitAggregateAttestationsOpts{SignedAggregateAndProofs: []*eth2spec.VersionedSignedAggregateAndProof{a, b}}}, true
	case "contribs":
		a := testutil.RandomSignedSyncContributionAndProof()
		a.Message.AggregatorIndex = 1
		return []any{[]*altair.SignedContributionAndProof{a}}, true
	case "selections":
		s := testutil.RandomBeaconCommitteeSelection()
		s.ValidatorIndex = 1
		e.aggAns = core.NewBeaconCommitteeSelection(s)
		return []any{&eth2api.BeaconCommitteeSelectionsOpts{Selections: []*eth2v1.BeaconCommitteeSelection{s}}}, true
	case "syncselections":
		s := testutil.RandomSyncCommitteeSelection()
		s.ValidatorIndex = 1
		e.aggAns = core.NewSyncCommitteeSelection(s)
		return []any{&eth2api.SyncCommitteeSelectionsOpts{Selections: []*eth2v1.SyncCommitteeSelection{s}}}, true
	case "proposal":
		sp := testutil.RandomCapellaVersionedSignedProposal()
		e.prop = must(core.NewVersionedProposal(&eth2api.VersionedProposal{Version: eth2spec.DataVersionCapella,
			Capella: deepCopy(newCopier(), sp.Capella.Message).(*capellaBlock)}))
		return []any{&eth2api.SubmitProposalOpts{Proposal: sp}}, true
	case "blinded-proposal":
		sp := testutil.RandomCapellaVersionedSignedBlindedProposal()
		bp := &eth2api.VersionedSignedBlindedProposal{Version: eth2spec.DataVersionCapella, Capella: sp.CapellaBlinded}
		e.prop = must(core.NewVersionedProposal(&eth2api.VersionedProposal{Version: eth2spec.DataVersionCapella, Blinded: true,
			CapellaBlinded: deepCopy(newCopier(), sp.CapellaBlinded.Message).(*capellaBlindedBlock)}))
		return []any{&eth2api.SubmitBlindedProposalOpts{Proposal: bp}}, true
	}
	return nil, false
}

func (e *vapiEnv) pass(x *ctx, port string, src *holder, dst int) (roots []any, hidden, kept, ok bool) {
	c, cancel := qctx()
	defer cancel()
	switch port {
	case "vapi.Submit":
		if !src.input {
			return nil, false, false, false
		}
		e.out = nil
		ok = guard(x, port, func() {
			var err error
			switch r := src.roots[0].(type) {
			case *eth2api.SubmitAttestationsOpts:
				err = e.v.SubmitAttestations(c, r)
			case *eth2p0.SignedVoluntaryExit:
				err = e.v.SubmitVoluntaryExit(c, r)
			case []*altair.SyncCommitteeMessage:
				err = e.v.SubmitSyncCommitteeMessages(c, r)
			case *eth2api.SubmitAggregateAttestationsOpts:
				err = e.v.SubmitAggregateAttestations(c, r)
			case []*altair.SignedContributionAndProof:
				err = e.v.SubmitSyncCommitteeContributions(c, r)
			case *eth2api.BeaconCommitteeSelectionsOpts:
				var resp *eth2api.Response[[]*eth2v1.BeaconCommitteeSelection]
				resp, err = e.v.BeaconCommitteeSelections(c, r)
				if err == nil {
					// what the validator client gets back is one more receiver
					e.out = append(e.out, resp.Data)
				}
			case *eth2api.SyncCommitteeSelectionsOpts:
				var resp *eth2api.Response[[]*eth2v1.SyncCommitteeSelection]
				resp, err = e.v.SyncCommitteeSelections(c, r)
				if err == nil {
					e.out = append(e.out, resp.Data)
				}
			case *eth2api.SubmitProposalOpts:
				err = e.v.SubmitProposal(c, r)
			case *eth2api.SubmitBlindedProposalOpts:
				err = e.v.SubmitBlindedProposal(c, r)
			default:
				err = fmt.Errorf("unknown request %T", r)
			}
			if err != nil {
				panic(err)
			}
		})
		return nil, true, true, ok
	case "vapi.Subscribe":
		if !src.hidden || len(e.out) == 0 {
			return nil, false, false, false
		}
		v := e.out[0]
		e.out = e.out[1:]
		return []any{v}, false, false, true
	}
	return nil, false, false, false
}

func (e *vapiEnv) episode(x *ctx) {
	x.do("alloc 0 -")
	x.do("pass vapi.Submit 0 1 - h")
	n := 2
	var cands = []int{0}
	for len(e.out) > 0 {
		x.do(fmt.Sprintf("pass vapi.Subscribe 1 %d -", n))
		cands = append(cands, n)
		n++
	}
	x.mutRounds(cands, 2+x.rng.Intn(3), nil)
}
