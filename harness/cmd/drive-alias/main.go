// drive-alias: correspondence driver and monitors for C18 (values passed between workflow
// components are isolated copies).
//
// The Lean model (lean/CharonV/Model/Heap.lean) proves isolation GIVEN a table that classifies every
// hand-off point (port) as clone or share. This driver ESTABLISHES the table on the real code: it
// hands real values of every flowing type through the real components (dutydb.MemDB, parsigdb.MemDB,
// aggsigdb.MemDB with its Run loop, aggsigdb.MemDBV2, sigagg.Aggregator, fetcher.Fetcher,
// scheduler.Scheduler, validatorapi.Component, and every Clone() method of core), computes by
// reflection the reachable mutable locations of every value handed out (reflect.go), mutates them and
// re-reads. The op stream is the model's op stream; per op the observable (who shares memory with the
// new holder, whose value differs from its pristine deep copy, whether a re-query equals the first
// answer) is compared with the model's prediction.
//
// holders: small integers. By convention of the generators 0 = the value the caller built, 1 = what the
// component keeps (seen through the verif hooks; `h` = hidden when there is no hook), others =
// readers / subscribers / further inputs.
//
// ops (see lean/Driver/Heap.lean for the outputs):
//
//	cfg asis|<bits>                     which proposed fixes the tree has (for the model; env VERIF_C18_FIXES)
//	new <env> <variant>                 fresh component instance(s) (episode reset)
//	alloc <h> <shape> [tag]             the caller builds an input value (shape is recomputed in exec mode)
//	pass <port> <src> <dst> <ref> [h]   hand-off through a port (store, query, subscriber delivery)
//	passw <port> <src> <dst>            query through a port by a component that then writes into the answer
//	mut <h> <i> | mutall <h>            the holder mutates its i-th / every reachable location
//	drop <h>
//
// Monitors (independent of the model): any memory shared between two holders, any holder whose value
// changed although it did not mutate it, any re-query that differs from the first answer.
package main

import (
	"fmt"
	"os"
	"reflect"
	"sort"
	"strconv"
	"strings"

	"github.com/obolnetwork/charon/app/log"

	"verifharness/hx"
)

type holder struct {
	id       int
	roots    []any
	pristine []any
	locs     []loc
	hidden   bool
	kept     bool   // the component's own copy
	input    bool   // built by the caller
	port     string // port through which it was obtained ("" for inputs)
	typ      string
	changed  bool // last computed: differs from pristine
	selfMut  bool // the holder mutated its own value
}

type env interface {
	// alloc builds a new input value.
	alloc(x *ctx, tag string) ([]any, bool)
	// pass executes the real hand-off and returns what arrived at dst.
	pass(x *ctx, port string, src *holder, dst int) (roots []any, hidden bool, kept bool, ok bool)
	// passw executes a query by a component (returned as writer) that writes into the answer.
	passw(x *ctx, port string, src *holder, dst int) (roots []any, writer string, ok bool)
	// episode generates one episode (gen mode) through x.do.
	episode(x *ctx)
	close()
}

type ctx struct {
	run     *hx.Run
	rng     *hx.Rng
	env     env
	envName string
	variant string
	holders map[int]*holder
	mutated map[uintptr]bool // locations already mutated in this episode
	lastMut *holder          // the holder that mutated last
	wasNe   map[string]bool  // ports whose last re-query already differed from the first answer
	recvMut bool             // since the last re-query, some holder other than a caller-built input mutated its value
}

func (x *ctx) visible() []*holder {
	ids := make([]int, 0, len(x.holders))
	for id, h := range x.holders {
		if !h.hidden {
			ids = append(ids, id)
		}
	}
	sort.Ints(ids)
	out := make([]*holder, len(ids))
	for i, id := range ids {
		out[i] = x.holders[id]
	}
	return out
}

func idList(ids []int) string {
	sort.Ints(ids)
	s := make([]string, len(ids))
	for i, v := range ids {
		s[i] = strconv.Itoa(v)
	}
	return "[" + strings.Join(s, ",") + "]"
}

func (x *ctx) bind(id int, roots []any, hidden, kept, input bool, port string) *holder {
	h := &holder{id: id, roots: roots, hidden: hidden, kept: kept, input: input, port: port}
	if !hidden {
		h.locs = locations(roots)
		c := newCopier()
		for _, r := range roots {
			h.pristine = append(h.pristine, deepCopy(c, r))
		}
		if len(roots) > 0 {
			h.typ = typeName(roots[0])
		}
		if !equalRoots(h.roots, h.pristine) {
			panic(fmt.Sprintf("deep copy of %s is not deep-equal to the original", h.typ))
		}
	}
	x.holders[id] = h
	return h
}

func equalRoots(a, b []any) bool {
	if len(a) != len(b) {
		return false
	}
	for i := range a {
		if !reflect.DeepEqual(a[i], b[i]) {
			return false
		}
	}
	return true
}

// sharers returns the visible holders sharing memory with h and, per sharer, the first shared location of h.
func (x *ctx) sharers(h *holder) ([]int, map[int]int) {
	var ids []int
	first := map[int]int{}
	for _, o := range x.visible() {
		if o.id == h.id {
			continue
		}
		if a, _ := overlap(h.locs, o.locs); a >= 0 {
			ids = append(ids, o.id)
			first[o.id] = a
		}
	}
	return ids, first
}

// changedSet recomputes which visible holders differ from their pristine copy; returns ids and the
// holders that changed in this recomputation.
func (x *ctx) changedSet() ([]int, []*holder) {
	var ids []int
	var newly []*holder
	for _, o := range x.visible() {
		ch := !equalRoots(o.roots, o.pristine)
		if ch && !o.changed {
			newly = append(newly, o)
		}
		o.changed = ch
		if ch {
			ids = append(ids, o.id)
		}
	}
	return ids, newly
}

func sig(port, what, typ, path string) string {
	s := "alias:" + port + ":" + what + ":" + strings.ReplaceAll(typ, "*", "")
	if p := strings.ReplaceAll(cleanPath(path), "*", ""); p != "" {
		s += ":" + p
	}
	return s
}

// monitorShare reports memory shared between the new holder and any other holder.
func (x *ctx) monitorShare(port string, h *holder, ids []int, first map[int]int) {
	for _, id := range ids {
		o := x.holders[id]
		l := h.locs[first[id]]
		what := "shared"
		switch {
		case o.kept && first[id] == 0 && l.kind == 'P':
			what = "returns_stored_pointer"
		case o.kept:
			what = "shares_with_store"
		case o.input:
			what = "aliases_input"
		case h.kept && o.input:
			what = "stores_input_memory"
		}
		if h.kept && o.input {
			what = "stores_input_memory"
		}
		x.run.Violate(sig(port, what, h.typ, l.path),
			fmt.Sprintf("env %s/%s: value of holder %d (%s) obtained through %s shares memory with holder %d (%s) at %s (%s)",
				x.envName, x.variant, h.id, h.typ, port, o.id, o.typ, l.path, l.typ))
	}
}

// monitorChange reports holders whose value changed although they did not mutate it.
func (x *ctx) monitorChange(mutator *holder, newly []*holder) {
	for _, o := range newly {
		if o.id == mutator.id {
			continue
		}
		port := mutator.port
		if mutator.input || port == "" {
			port = o.port
		}
		x.run.Violate(sig(port, "mutation_visible", o.typ, ""),
			fmt.Sprintf("env %s/%s: holder %d mutated its own value (obtained through %q); the value of holder %d (%s, through %q) changed",
				x.envName, x.variant, mutator.id, mutator.port, o.id, o.typ, o.port))
	}
}

// do executes one op line on the real code, evaluates the monitors and records op + output.
func (x *ctx) do(line string) string {
	f := strings.Fields(line)
	out := "bad-op"
	rec := line
	switch {
	case len(f) == 2 && f[0] == "cfg":
		// tells the model which proposed fixes the tree under test has; nothing to do on this side
		if x.env != nil {
			x.env.close()
		}
		x.env = nil
		x.holders = map[int]*holder{}
		if f[1] == "asis" || (len(f[1]) == 5 && strings.Trim(f[1], "01") == "") {
			out = "ok"
		}
	case len(f) >= 3 && f[0] == "new":
		if x.env != nil {
			x.env.close()
		}
		x.env, x.envName, x.variant = nil, f[1], f[2]
		x.holders = map[int]*holder{}
		x.mutated = map[uintptr]bool{}
		x.lastMut, x.recvMut, x.wasNe = nil, false, map[string]bool{}
		if mk, ok := envs[f[1]]; ok {
			x.env = mk(f[2])
		}
		if x.env != nil {
			out = "ok"
			x.run.Count("env:" + f[1])
			x.run.Case("env:" + f[1] + "/" + f[2])
		}
	case x.env == nil:
		// no environment: every other op is malformed
	case len(f) >= 3 && f[0] == "alloc":
		id, err := strconv.Atoi(f[1])
		tag := ""
		if len(f) > 3 {
			tag = f[3]
		}
		if err != nil {
			break
		}
		roots, ok := x.env.alloc(x, tag)
		if !ok {
			break
		}
		h := x.bind(id, roots, false, false, true, "")
		rec = fmt.Sprintf("alloc %d %s", id, shapeOf(h.locs))
		if tag != "" {
			rec += " " + tag
		}
		ids, first := x.sharers(h)
		x.monitorShare("alloc", h, ids, first)
		out = "sh" + idList(ids)
		x.run.Count("op:alloc")
		x.run.Count(fmt.Sprintf("locs:%s", bucket(len(h.locs))))
		x.run.Case("type:" + h.typ)
	case len(f) >= 5 && f[0] == "pass":
		src, e1 := strconv.Atoi(f[2])
		dst, e2 := strconv.Atoi(f[3])
		sh, ok := x.holders[src]
		if e1 != nil || e2 != nil || !ok {
			break
		}
		var ref *holder
		if f[4] != "-" {
			r, err := strconv.Atoi(f[4])
			if err != nil || x.holders[r] == nil || x.holders[r].hidden {
				break
			}
			ref = x.holders[r]
		}
		roots, hidden, kept, ok := x.env.pass(x, f[1], sh, dst)
		if !ok {
			break
		}
		h := x.bind(dst, roots, hidden, kept, false, f[1])
		rec = fmt.Sprintf("pass %s %d %d %s", f[1], src, dst, f[4])
		x.run.Count("op:pass")
		x.run.Count("port:" + f[1])
		if hidden {
			rec += " h"
			out = "ok"
			break
		}
		x.run.Case("port:" + f[1] + ":" + h.typ)
		ids, first := x.sharers(h)
		x.monitorShare(f[1], h, ids, first)
		cmp := "-"
		if ref != nil {
			cmp = "eq"
			if !equalRoots(h.roots, ref.pristine) {
				cmp = "ne"
			}
			if cmp == "ne" && !sh.selfMut && !x.wasNe[f[1]] {
				what := "requery_changed"
				if x.lastMut != nil && !x.recvMut {
					what = "requery_changed_after_input_mutation" // only callers' own inputs were mutated since the last re-query
				} else if x.lastMut != nil {
					what = "requery_changed_after_receiver_mutation"
				}
				x.run.Violate(sig(f[1], what, h.typ, ""),
					fmt.Sprintf("env %s/%s: the value obtained through %s (holder %d) differs from the first answer (holder %d) although the component stored nothing new",
						x.envName, x.variant, f[1], h.id, ref.id))
			}
		}
		if ref != nil {
			x.lastMut, x.recvMut = nil, false // attribution window of the next re-query starts here
			x.wasNe[f[1]] = cmp == "ne"
		}
		out = "sh" + idList(ids) + " " + cmp
		if len(ids) > 0 {
			x.run.Count("observed:share")
		}
	case len(f) == 4 && f[0] == "passw":
		src, e1 := strconv.Atoi(f[2])
		dst, e2 := strconv.Atoi(f[3])
		sh, ok := x.holders[src]
		if e1 != nil || e2 != nil || !ok {
			break
		}
		roots, writer, ok := x.env.passw(x, f[1], sh, dst)
		if !ok {
			break
		}
		h := x.bind(dst, roots, false, false, false, f[1])
		x.lastMut, x.recvMut = h, true
		ids, first := x.sharers(h)
		x.monitorShare(f[1], h, ids, first)
		chg, newly := x.changedSet()
		for _, o := range newly {
			x.run.Violate(sig(writer, "writes_into_answer_of:"+f[1], o.typ, ""),
				fmt.Sprintf("env %s/%s: %s queried %s and wrote into the answer; the value of holder %d (%s, through %q) changed",
					x.envName, x.variant, writer, f[1], o.id, o.typ, o.port))
		}
		out = "sh" + idList(ids) + " chg" + idList(chg)
		x.run.Count("op:passw")
		x.run.Count("port:" + f[1])
	case (len(f) == 3 && f[0] == "mut") || (len(f) == 2 && f[0] == "mutall"):
		id, err := strconv.Atoi(f[1])
		h, ok := x.holders[id]
		if err != nil || !ok || h.hidden {
			break
		}
		if f[0] == "mut" {
			i, err := strconv.Atoi(f[2])
			if err != nil || len(h.locs) == 0 {
				break
			}
			l := h.locs[i%len(h.locs)]
			if w := mutateLoc(l); w != "" {
				x.mutated[l.lo] = true
				x.run.Count("mut:" + string(l.kind))
			} else {
				x.run.Count("mut:none")
			}
		} else {
			for _, l := range h.locs {
				if x.mutated[l.lo] {
					continue
				}
				if w := mutateLoc(l); w != "" {
					x.mutated[l.lo] = true
				}
			}
			x.run.Count("mut:all")
		}
		h.selfMut = true
		x.lastMut = h
		if !h.input {
			x.recvMut = true
		}
		chg, newly := x.changedSet()
		x.monitorChange(h, newly)
		out = "chg" + idList(chg)
		x.run.Count("op:" + f[0])
		if len(chg) > 1 {
			x.run.Count("observed:leak")
		}
	case len(f) == 2 && f[0] == "drop":
		id, err := strconv.Atoi(f[1])
		if err != nil {
			break
		}
		delete(x.holders, id)
		out = "ok"
	}
	if out == "bad-op" {
		x.run.Count("op:bad")
	}
	x.run.Op(rec, out)
	return out
}

func bucket(n int) string {
	switch {
	case n == 0:
		return "0"
	case n < 4:
		return "1-3"
	case n < 16:
		return "4-15"
	case n < 64:
		return "16-63"
	case n < 256:
		return "64-255"
	}
	return "256+"
}

// ---------------------------------------------------------------- generic generator helpers

// mutRounds performs random mutations of the given holders (each location at most once per episode)
// and calls after() after each of them.
func (x *ctx) mutRounds(cands []int, rounds int, after func()) {
	for r := 0; r < rounds; r++ {
		var hs []*holder
		for _, id := range cands {
			if h, ok := x.holders[id]; ok && !h.hidden && len(h.locs) > 0 {
				hs = append(hs, h)
			}
		}
		if len(hs) == 0 {
			return
		}
		h := hs[x.rng.Intn(len(hs))]
		// every location is mutated at most once per episode (a second write could restore the
		// pristine value): choose among the locations nobody wrote yet
		var free []int
		mutable := 0
		for i, l := range h.locs {
			if l.canMut {
				mutable++
				if !x.mutated[l.lo] {
					free = append(free, i)
				}
			}
		}
		if len(free) == 0 {
			continue
		}
		if len(free) == mutable && x.rng.Chance(1, 3) {
			x.do(fmt.Sprintf("mutall %d", h.id))
		} else {
			x.do(fmt.Sprintf("mut %d %d", h.id, free[x.rng.Intn(len(free))]))
		}
		if after != nil {
			after()
		}
	}
}

func main() {
	a := hx.ParseArgs()
	hx.Must(log.InitLogger(log.Config{Level: "error", Format: "console", Color: "disable"}))
	run := hx.NewRun(a.Dir)
	x := &ctx{run: run, rng: hx.NewRng(a.Seed), holders: map[int]*holder{}, mutated: map[uintptr]bool{}, wasNe: map[string]bool{}}
	defer func() {
		if x.env != nil {
			x.env.close()
		}
	}()
	if a.Mode == "exec" {
		for _, l := range hx.ReadOps(a.Ops) {
			x.do(l)
		}
		run.Close()
		return
	}
	// gen: sweep every (env, variant) pair round-robin, starting at a seed-dependent offset, until
	// at least a.N ops have been executed (always at least one full sweep of the small list in
	// quick mode is NOT forced: the seeds of a run cover different parts).
	// VERIF_C18_FIXES=<5 bits> when the tree under test has fixes/C18-*.diff applied (see Driver/Heap.lean)
	fixes := os.Getenv("VERIF_C18_FIXES")
	if fixes == "" {
		fixes = "asis"
	}
	if x.do("cfg "+fixes) != "ok" {
		fmt.Fprintln(os.Stderr, "bad VERIF_C18_FIXES")
		os.Exit(2)
	}
	plan := allPairs()
	off := int(a.Seed % uint64(len(plan)))
	for i := 0; run.NOps < a.N && !run.Enough(); i++ {
		p := plan[(off+i)%len(plan)]
		if x.do("new "+p[0]+" "+p[1]) != "ok" {
			fmt.Fprintln(os.Stderr, "cannot create env", p)
			os.Exit(2)
		}
		x.env.episode(x)
		if i >= 50*len(plan) {
			break
		}
	}
	run.Close()
}
