package main

import (
	"encoding/hex"
	"fmt"
	"math/big"
	"strconv"
	"strings"

	"verifharness/hx"
)

type genState struct {
	d    *driver
	rng  *hx.Rng
	junk int
	// current configuration (mirrors the last cfg op)
	peers []int
	this  int
	thr   int
	pidx  map[int]int
	sidx  map[int]int
}

func (g *genState) scalar() *big.Int {
	switch g.rng.Intn(10) {
	case 0:
		return big.NewInt(int64(1 + g.rng.Intn(20)))
	case 1:
		return new(big.Int).Sub(rOrder, big.NewInt(int64(1+g.rng.Intn(3))))
	}
	b := make([]byte, 32)
	for i := 0; i < 4; i++ {
		v := g.rng.U64()
		for j := 0; j < 8; j++ {
			b[i*8+j] = byte(v >> (8 * j))
		}
	}
	return new(big.Int).Mod(new(big.Int).SetBytes(b), rOrder)
}

func (g *genState) poly(t int) []*big.Int {
	cs := make([]*big.Int, t)
	for i := range cs {
		cs[i] = g.scalar()
	}
	if t > 0 && g.rng.Chance(1, 12) {
		cs[g.rng.Intn(t)] = big.NewInt(0) // a vanishing coefficient (top one included)
	}
	return cs
}

func eval(cs []*big.Int, x int) *big.Int {
	acc := big.NewInt(0)
	bx := big.NewInt(int64(x))
	for i := len(cs) - 1; i >= 0; i-- {
		acc.Mul(acc, bx)
		acc.Add(acc, cs[i])
		acc.Mod(acc, rOrder)
	}
	return acc
}

func pt(v *big.Int) string { return "p" + hexMin(v) }

func (g *genState) junkTok(n int) string {
	g.junk++
	return fmt.Sprintf("j%d.%d", g.junk, n)
}

// bad48 is a 48-byte string that is not a point: junk of length 48 or junk cut / padded to 48.
func (g *genState) bad48() string {
	g.junk++
	switch g.rng.Intn(3) {
	case 0:
		return fmt.Sprintf("j%d.48", g.junk)
	case 1:
		return fmt.Sprintf("c%d.%d", g.junk, 1+g.rng.Intn(47))
	}
	return fmt.Sprintf("c%d.%d", g.junk, 49+g.rng.Intn(40))
}

// anyJunk is a byte string of any length that is not a point.
func (g *genState) anyJunk() string {
	switch g.rng.Intn(5) {
	case 0:
		return "j0.0"
	case 1:
		return g.junkTok(48)
	case 2:
		return g.junkTok(1 + g.rng.Intn(47))
	case 3:
		return g.junkTok(49 + g.rng.Intn(60))
	}
	return g.junkTok(96)
}

func (g *genState) cfgOp() string {
	r := g.rng
	n := 1 + r.Intn(7)
	if r.Chance(1, 25) {
		n = 0
	}
	g.peers = nil
	g.pidx, g.sidx = map[int]int{}, map[int]int{}
	perm := r.Perm(n)
	var ents []string
	style := r.Intn(10)
	for k := 0; k < n; k++ {
		p := k
		pi := k
		switch {
		case style == 0: // gapped indices (a cluster that lost operators)
			pi = 2*k + r.Intn(2)
		case style == 1: // peer numbers and indices unrelated
			pi = perm[k]
		case style == 2 && k > 0 && r.Chance(1, 3): // configuration error: an index used twice
			pi = r.Intn(k)
		}
		si := pi + 1
		if style == 3 {
			si = perm[k] + 1 // share indices unrelated to peer indices
		}
		g.peers = append(g.peers, p)
		g.pidx[p], g.sidx[p] = pi, si
	}
	for _, k := range r.Perm(n) { // the op line order stands for a Go map order
		p := g.peers[k]
		ents = append(ents, fmt.Sprintf("%d:%d:%d", p, g.pidx[p], g.sidx[p]))
	}
	g.this = 0
	if n > 0 {
		g.this = g.peers[r.Intn(n)]
	}
	if r.Chance(1, 20) {
		g.this = n + 1 // this node is not in the peer map
	}
	switch r.Intn(8) {
	case 0:
		g.thr = 0
	case 1:
		g.thr = -1 - r.Intn(3)
	case 2:
		g.thr = n + 1 + r.Intn(2)
	default:
		g.thr = 1 + r.Intn(n+1)
		if g.thr > n && n > 0 {
			g.thr = n
		}
	}
	return fmt.Sprintf("cfg this=%d thr=%d map=%s", g.this, g.thr, commaOr(ents))
}

// collection builds a delivery sequence over `expected`: per peer a message (payload from mk), in a
// random order, with duplicates and unexpected peers mixed in; dropOne leaves a peer silent.
func (g *genState) collection(expected []int, mk func(p int, dup bool) string, dropOne bool) []string {
	r := g.rng
	var evs []string
	silent := -1
	if dropOne && len(expected) > 0 {
		silent = expected[r.Intn(len(expected))]
	}
	for _, k := range r.Perm(len(expected)) {
		p := expected[k]
		if p == silent {
			continue
		}
		evs = append(evs, mk(p, false))
	}
	extra := 0
	if r.Chance(2, 3) {
		extra = 1 + r.Intn(4)
	}
	for i := 0; i < extra; i++ {
		var e string
		if r.Chance(1, 2) && len(expected) > 0 {
			p := expected[r.Intn(len(expected))]
			if p == silent {
				continue
			}
			e = mk(p, true) // a second, different message of an expected peer
		} else {
			e = mk(len(expected)+10+r.Intn(3), true) // a peer nobody expects
		}
		pos := r.Intn(len(evs) + 1)
		evs = append(evs[:pos], append([]string{e}, evs[pos:]...)...)
	}
	return evs
}

func (g *genState) endIncomplete(evs []string) []string {
	if g.rng.Chance(1, 2) {
		return append(evs, "T")
	}
	return append(evs, "C")
}

func (g *genState) opRb() string {
	r := g.rng
	n := r.Intn(7)
	var expected []int
	for _, k := range r.Perm(n) {
		expected = append(expected, k)
	}
	tag := 0
	mk := func(p int, _ bool) string { tag++; return fmt.Sprintf("m%d.t%d", p, tag) }
	drop := n > 0 && r.Chance(1, 5)
	evs := g.collection(expected, mk, drop)
	if drop {
		evs = g.endIncomplete(evs)
	}
	var es []string
	for _, p := range expected {
		es = append(es, strconv.Itoa(p))
	}
	return strings.TrimSpace(fmt.Sprintf("rb %s %s", commaOr(es), strings.Join(evs, " ")))
}

func (g *genState) opMk() string {
	r := g.rng
	total := r.Intn(3)
	mk := func(p int, dup bool) string {
		pub := pt(g.scalar())
		if r.Chance(1, 30) {
			pub = g.anyJunk()
		}
		shares := "-"
		if r.Chance(1, 2) {
			var ss []string
			k := total
			if r.Chance(1, 6) {
				k = r.Intn(4)
			}
			for i := 0; i < k; i++ {
				if r.Chance(1, 10) {
					ss = append(ss, g.anyJunk())
				} else {
					ss = append(ss, pt(g.scalar()))
				}
			}
			if len(ss) > 0 {
				shares = strings.Join(ss, ";")
			}
		}
		return fmt.Sprintf("m%d/%s/%s", p, pub, shares)
	}
	drop := len(g.peers) > 0 && r.Chance(1, 8)
	evs := g.collection(g.peers, mk, drop)
	if drop {
		evs = g.endIncomplete(evs)
	}
	return strings.TrimSpace("mk " + strings.Join(evs, " "))
}

func (g *genState) opNonce() string {
	r := g.rng
	n := r.Intn(6)
	var ns []string
	for i := 0; i < n; i++ {
		idx := i
		if r.Chance(1, 6) {
			idx = int(r.U64() % (1 << 32))
		}
		ns = append(ns, fmt.Sprintf("%d:%s", idx, hex.EncodeToString(g.d.pointBytes(g.scalar()))))
	}
	iter := r.Intn(4)
	if r.Chance(1, 8) {
		iter = (1 << 32) + r.Intn(3) // uint32(iteration) wraps
	}
	return fmt.Sprintf("nonce %d %s", iter, commaOr(ns))
}

// sharesOf builds index -> token entries for the polynomial cs over the given node indices.
func (g *genState) sharesOf(cs []*big.Int, idxs []int, off int) []string {
	var out []string
	for _, i := range idxs {
		out = append(out, fmt.Sprintf("%d:%s", i+off, pt(eval(cs, i+1))))
	}
	return out
}

func (g *genState) pickThr() (t int) {
	r := g.rng
	switch r.Intn(12) {
	case 0:
		return 0
	case 1:
		return -1 - r.Intn(2)
	}
	return 1 + r.Intn(5)
}

func (g *genState) nodeIdxs(n int) []int {
	r := g.rng
	var idxs []int
	gap := r.Chance(1, 4)
	cur := 0
	for i := 0; i < n; i++ {
		if gap {
			cur += r.Intn(3)
		}
		idxs = append(idxs, cur)
		cur++
	}
	return idxs
}

func shuffle(r *hx.Rng, xs []string) []string {
	out := make([]string, len(xs))
	for i, k := range r.Perm(len(xs)) {
		out[i] = xs[k]
	}
	return out
}

func (g *genState) opRc() string {
	r := g.rng
	t := g.pickThr()
	deg := t
	if deg < 1 {
		deg = 1 + r.Intn(3)
	}
	cs := g.poly(deg)
	n := deg + r.Intn(4)
	if r.Chance(1, 8) && deg > 1 {
		n = r.Intn(deg) // not enough shares
	}
	ents := g.sharesOf(cs, g.nodeIdxs(n), 0)
	exp := "-"
	switch r.Intn(6) {
	case 0, 1:
		exp = pt(cs[0])
	case 2:
		exp = pt(g.scalar())
	case 3:
		if r.Chance(1, 3) {
			exp = g.bad48()
		}
	}
	if len(ents) > 0 {
		switch r.Intn(14) {
		case 0: // one byte string that is not a point
			k := r.Intn(len(ents))
			ents[k] = ents[k][:strings.Index(ents[k], ":")+1] + g.anyJunk()
		case 1: // one share that is not on the polynomial
			k := r.Intn(len(ents))
			ents[k] = ents[k][:strings.Index(ents[k], ":")+1] + pt(g.scalar())
		case 2: // a negative index
			ents = append(ents, fmt.Sprintf("-%d:%s", 1+r.Intn(3), pt(g.scalar())))
		case 3: // the point at infinity among the shares
			k := r.Intn(len(ents))
			ents[k] = ents[k][:strings.Index(ents[k], ":")+1] + "p0"
		}
	}
	return fmt.Sprintf("rc %d %s %s", t, exp, commaOr(shuffle(r, ents)))
}

func (g *genState) opRcs() string {
	r := g.rng
	t := g.pickThr()
	deg := t
	if deg < 1 {
		deg = 1 + r.Intn(2)
	}
	vals := 1 + r.Intn(3)
	polys := make([][]*big.Int, vals)
	for v := range polys {
		polys[v] = g.poly(deg)
	}
	n := deg + r.Intn(3)
	idxs := g.nodeIdxs(n)
	sn := r.Intn(vals)
	if r.Chance(1, 10) {
		sn = vals + r.Intn(2)
	}
	var ents []string
	for _, i := range idxs {
		k := vals
		if r.Chance(1, 12) {
			k = r.Intn(vals + 1) // a node that sent fewer shares
		}
		var ss []string
		for v := 0; v < k; v++ {
			if r.Chance(1, 25) {
				ss = append(ss, g.anyJunk())
			} else {
				ss = append(ss, pt(eval(polys[v], i+1)))
			}
		}
		s := "-"
		if len(ss) > 0 {
			s = strings.Join(ss, ";")
		}
		ents = append(ents, fmt.Sprintf("%d:%s", i, s))
	}
	exp := "-"
	if sn < vals {
		switch r.Intn(4) {
		case 0, 1:
			exp = pt(polys[sn][0])
		case 2:
			exp = pt(polys[(sn+1)%vals][0])
		}
	}
	return fmt.Sprintf("rcs %d %d %s %s", sn, t, exp, commaOr(shuffle(r, ents)))
}

func (g *genState) opRd() string {
	r := g.rng
	t := g.pickThr()
	deg := t
	if deg < 1 {
		deg = 1 + r.Intn(2)
	}
	cs := g.poly(deg)
	n := deg + r.Intn(3)
	if r.Chance(1, 10) && deg > 1 {
		n = r.Intn(deg)
	}
	idxs := g.nodeIdxs(n)
	ents := g.sharesOf(cs, idxs, 1) // share index = node index + 1
	nodeIdx := r.Intn(n + 1)
	sk := eval(cs, nodeIdx+1)
	switch r.Intn(12) {
	case 0:
		sk = g.scalar()
	case 1:
		sk = new(big.Int).Add(rOrder, big.NewInt(int64(r.Intn(3)))) // not canonical
	case 2:
		sk = new(big.Int).Sub(new(big.Int).Lsh(big.NewInt(1), 256), big.NewInt(1))
	case 3:
		sk = big.NewInt(0)
	}
	pub := pt(cs[0])
	switch r.Intn(12) {
	case 0:
		pub = pt(g.scalar())
	case 1:
		pub = g.bad48()
	}
	if len(ents) > 0 {
		switch r.Intn(12) {
		case 0:
			k := r.Intn(len(ents))
			ents[k] = ents[k][:strings.Index(ents[k], ":")+1] + g.bad48()
		case 1:
			k := r.Intn(len(ents))
			ents[k] = ents[k][:strings.Index(ents[k], ":")+1] + pt(g.scalar())
		case 2:
			ents = append(ents, "0:"+pt(g.scalar())) // share index 0 -> kyber index -1
		}
	}
	return fmt.Sprintf("rd %d %d %s %s %s", t, nodeIdx, pub, hexMin(sk), commaOr(shuffle(r, ents)))
}

func (g *genState) shareScalar() *big.Int {
	r := g.rng
	switch r.Intn(10) {
	case 0:
		return big.NewInt(0)
	case 1:
		return new(big.Int).Set(rOrder) // reduces to zero
	case 2:
		return new(big.Int).Add(rOrder, big.NewInt(int64(1+r.Intn(5))))
	}
	return g.scalar()
}

func (g *genState) opKs() string { return "ks " + hexMin(g.shareScalar()) }

func (g *genState) commitList() string {
	r := g.rng
	n := 1 + r.Intn(4)
	if r.Chance(1, 12) {
		n = 0
	}
	var cs []string
	for i := 0; i < n; i++ {
		cs = append(cs, hexMin(g.scalar()))
	}
	return commaOr(cs)
}

func (g *genState) opVpk() string { return "vpk " + g.commitList() }

// valCollection: the delivery sequence for processKey / broadcastNoneKey with the own broadcast `O`.
func (g *genState) valCollection(allowFail bool) []string {
	r := g.rng
	mk := func(p int, dup bool) string {
		if p == g.this && !dup {
			return "O"
		}
		key := pt(g.scalar())
		switch r.Intn(14) {
		case 0:
			key = "j0.0" // a leaving node
		case 1:
			key = g.anyJunk()
		}
		return fmt.Sprintf("m%d/%s", p, key)
	}
	inMap := false
	for _, p := range g.peers {
		if p == g.this {
			inMap = true
		}
	}
	drop := allowFail && len(g.peers) > 0 && r.Chance(1, 8)
	evs := g.collection(g.peers, mk, drop)
	hasOwn := false
	for _, e := range evs {
		if e == "O" {
			hasOwn = true
		}
	}
	if !hasOwn { // this node is silent in the peer map's eyes (not in the map, or the dropped one)
		pos := r.Intn(len(evs) + 1)
		evs = append(evs[:pos], append([]string{"O"}, evs[pos:]...)...)
		_ = inMap
	}
	// something must be queued ahead of the own broadcast when messages follow it (see feed)
	if evs[0] == "O" && len(evs) > 1 {
		evs = append([]string{fmt.Sprintf("m%d/%s", len(g.peers)+20, pt(g.scalar()))}, evs...)
	}
	if drop {
		// an incomplete collection ends in a time-out or a cancellation; nothing may follow the own
		// broadcast then (the feeder would race with the 30 ms timer): move it to the end
		var pre []string
		for _, e := range evs {
			if e != "O" {
				pre = append(pre, e)
			}
		}
		evs = g.endIncomplete(append(pre, "O"))
		// the dropped peer may be this node: then the own broadcast completes the collection
	}
	return evs
}

func (g *genState) completes(evs []string) bool {
	seen := map[int]bool{}
	exp := map[int]bool{}
	for _, p := range g.peers {
		exp[p] = true
	}
	for _, e := range evs {
		p := -1
		if e == "O" {
			p = g.this
		} else if strings.HasPrefix(e, "m") {
			p, _ = strconv.Atoi(e[1:strings.Index(e, "/")])
		}
		if exp[p] {
			seen[p] = true
		}
	}
	return len(seen) == len(exp)
}

func (g *genState) opPk() string {
	evs := g.valCollection(true)
	if last := evs[len(evs)-1]; (last == "T" || last == "C") && g.completes(evs) {
		evs = evs[:len(evs)-1] // complete after all: no racing terminator
	}
	return fmt.Sprintf("pk %s %s %s", hexMin(g.shareScalar()), g.commitList(), strings.Join(evs, " "))
}

func (g *genState) opBn() string {
	evs := g.valCollection(true)
	if last := evs[len(evs)-1]; (last == "T" || last == "C") && g.completes(evs) {
		evs = evs[:len(evs)-1]
	}
	return "bn " + strings.Join(evs, " ")
}

func (g *genState) opVps() string {
	r := g.rng
	total := r.Intn(4)
	n := r.Intn(5)
	bad := -1 // 0: wrong count somewhere, 1: wrong length somewhere (never both: the class follows the map order)
	if r.Chance(1, 3) {
		bad = r.Intn(2)
	}
	var ents []string
	for _, i := range g.nodeIdxs(n) {
		k := total
		if bad == 0 && r.Chance(1, 2) {
			k = r.Intn(total + 3)
		}
		var ss []string
		for v := 0; v < k; v++ {
			s := pt(g.scalar())
			if r.Chance(1, 5) {
				s = g.bad48()
			}
			if bad == 1 && r.Chance(1, 3) {
				s = g.junkTok([]int{0, 1, 47, 49, 96}[r.Intn(5)])
				if strings.HasSuffix(s, ".0") {
					s = "j0.0"
				}
			}
			ss = append(ss, s)
		}
		s := "-"
		if len(ss) > 0 {
			s = strings.Join(ss, ";")
		}
		ents = append(ents, fmt.Sprintf("%d:%s", i, s))
	}
	return fmt.Sprintf("vps %d %s", total, commaOr(shuffle(r, ents)))
}

func (g *genState) opVrc() string {
	r := g.rng
	old, nw := r.Intn(8), r.Intn(8)
	thr := r.Intn(9) - 1
	if r.Chance(1, 2) {
		thr = old + r.Intn(3) - 1 // around the boundary of the remove check
	}
	if r.Chance(1, 3) {
		nw = old + r.Intn(3) - 1 // around the boundary of the add check
		if nw < 0 {
			nw = 0
		}
	}
	na, nr := 0, 0
	switch r.Intn(4) {
	case 0:
		na = 1 + r.Intn(2)
	case 1:
		nr = 1 + r.Intn(2)
	case 2:
		na, nr = 1+r.Intn(2), 1+r.Intn(2)
	}
	return fmt.Sprintf("vrc %d %d %d %d %d", old, nw, thr, na, nr)
}

func (g *genState) opMsg() string {
	r := g.rng
	n := r.Intn(7)
	var ents []string
	used := map[int]bool{}
	for i := 0; i < n; i++ {
		k := r.Intn(12)
		if used[k] {
			continue
		}
		used[k] = true
		v := pt(g.scalar())
		if r.Chance(1, 5) {
			v = g.bad48()
		}
		ents = append(ents, fmt.Sprintf("%d:%s", k, v))
	}
	return "msg " + commaOr(ents)
}

func gen(d *driver, rng *hx.Rng, n int, do func(string)) {
	g := &genState{d: d, rng: rng}
	count := 0
	for count < n && !d.run.Enough() {
		do(g.cfgOp())
		count++
		for k := 0; k < 30 && count < n; k++ {
			var op string
			switch x := rng.Intn(100); {
			case x < 14:
				op = g.opRb()
			case x < 26:
				op = g.opMk()
			case x < 31:
				op = g.opNonce()
			case x < 45:
				op = g.opRc()
			case x < 52:
				op = g.opRcs()
			case x < 64:
				op = g.opRd()
			case x < 68:
				op = g.opKs()
			case x < 71:
				op = g.opVpk()
			case x < 83:
				op = g.opPk()
			case x < 86:
				op = g.opBn()
			case x < 90:
				op = g.opVps()
			case x < 93:
				op = g.opVrc()
			case x < 95:
				op = fmt.Sprintf("thr %d %d", rng.Intn(8), rng.Intn(11)-2)
			case x < 96:
				op = fmt.Sprintf("dthr %d", rng.Intn(40))
			default:
				op = g.opMsg()
			}
			do(op)
			count++
		}
	}
}
