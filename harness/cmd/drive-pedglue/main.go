// drive-pedglue: correspondence driver for the node-side glue of dkg/pedersen (C11): dkg.go
// (readBoardChannel, makeNodes, processKey, validateThreshold), reshare.go (restoreCommitsFromPubShares,
// restoreCommits, restoreDistKeyShare, generateNonce, validatePubKeyShares, validateReshareNodeCounts,
// broadcastNoneKey), utils.go (keyShareToBLS, distKeyShareToValidatorPubKey) and dkg/share/share.go
// (MsgFromShare), called DIRECTLY through the hook dkg/pedersen/verif_export_glue.go (build tag verif)
// with adversarial inputs. Whole ceremonies are the business of drive-pedersen, not of this driver.
//
// Every G1 point handed to the real code is s*G for a scalar s this driver knows (kyber); every point
// that comes back is mapped to a scalar the driver can justify: it is in the table of known points, or
// an independent computation (Gaussian elimination over the selected shares, math/big) proposes a
// scalar and s*G == the returned point is checked with kyber. Otherwise it is printed as `?<hex>`.
// The Lean model (lean/Driver/PedersenGlue.lean over Model/PedersenGlue.lean, Model/Fr.lean) computes
// the same scalars. Byte strings that are not points are junk of a given (id, length).
//
// tokens: PB = p<hex scalar> | j<id>.<len> | c<id>.<len>     (see lean/Driver/PedersenGlue.lean for the ops)
package main

import (
	"bytes"
	"context"
	"crypto/sha256"
	"encoding/binary"
	"encoding/hex"
	"fmt"
	"math/big"
	"sort"
	"strconv"
	"strings"
	"time"

	k1 "github.com/decred/dcrd/dcrec/secp256k1/v4"
	"github.com/drand/kyber"
	kbls "github.com/drand/kyber-bls12381"
	kshare "github.com/drand/kyber/share"
	kdkg "github.com/drand/kyber/share/dkg"
	libp2pcrypto "github.com/libp2p/go-libp2p/core/crypto"
	"github.com/libp2p/go-libp2p/core/host"
	"github.com/libp2p/go-libp2p/core/peer"
	mocknet "github.com/libp2p/go-libp2p/p2p/net/mock"

	"github.com/obolnetwork/charon/app/log"
	"github.com/obolnetwork/charon/cluster"
	"github.com/obolnetwork/charon/dkg/pedersen"
	"github.com/obolnetwork/charon/dkg/share"
	"github.com/obolnetwork/charon/tbls"

	"verifharness/hx"
)

var (
	g1     = kbls.NewBLS12381Suite().G1()
	rOrder = func() *big.Int {
		v, _ := new(big.Int).SetString("73eda753299d7d483339d80809a1d80553bda402fffe5bfeffffffff00000001", 16)
		return v
	}()
)

type driver struct {
	run   *hx.Run
	host  host.Host
	pts   map[string]*big.Int // compressed point -> scalar
	ptBy  map[string][]byte   // scalar hex -> compressed point
	rev   map[string]string   // non-point byte strings handed out -> token
	peers map[int]peer.ID
	pnum  map[peer.ID]int
	// current configuration
	this    int
	thr     int
	pmap    [][3]int // peer, peerIdx, shareIdx (op line order)
	nonces  map[string]string
	hasConf bool
}

/* ---------- scalars, points, junk ---------- */

func hexMin(v *big.Int) string { return v.Text(16) }

func scalarOf(v *big.Int) kyber.Scalar {
	b := make([]byte, 32)
	new(big.Int).Mod(v, rOrder).FillBytes(b)
	return g1.Scalar().SetBytes(b)
}

func (d *driver) pointBytes(v *big.Int) []byte {
	key := hexMin(v)
	if b, ok := d.ptBy[key]; ok {
		return b
	}
	b, err := g1.Point().Mul(scalarOf(v), nil).MarshalBinary()
	hx.Must(err)
	d.ptBy[key] = b
	d.pts[string(b)] = new(big.Int).Set(v)
	return b
}

func (d *driver) point(v *big.Int) kyber.Point {
	p := g1.Point()
	hx.Must(p.UnmarshalBinary(d.pointBytes(v)))
	return p
}

func junkBytes(id, n int) []byte {
	out := make([]byte, 0, n+32)
	for blk := 0; len(out) < n; blk++ {
		var in [24]byte
		binary.BigEndian.PutUint64(in[0:], uint64(id))
		binary.BigEndian.PutUint64(in[8:], uint64(n))
		binary.BigEndian.PutUint64(in[16:], uint64(blk))
		h := sha256.Sum256(in[:])
		out = append(out, h[:]...)
	}
	out = out[:n]
	if n > 0 {
		out[0] &= 0x7f // compression flag off: never a valid compressed G1 point
	}
	return out
}

func cut48(b []byte) []byte {
	var pk [48]byte
	copy(pk[:], b)
	return pk[:]
}

// pb turns a token into bytes.
func (d *driver) pb(tok string) ([]byte, bool) {
	if len(tok) < 2 {
		return nil, false
	}
	switch tok[0] {
	case 'p':
		v, ok := new(big.Int).SetString(tok[1:], 16)
		if !ok || v.Sign() < 0 || v.Cmp(rOrder) >= 0 {
			return nil, false
		}
		return d.pointBytes(v), true
	case 'j', 'c':
		parts := strings.Split(tok[1:], ".")
		if len(parts) != 2 {
			return nil, false
		}
		id, e1 := strconv.Atoi(parts[0])
		n, e2 := strconv.Atoi(parts[1])
		if e1 != nil || e2 != nil || id < 0 || n < 0 || n > 4096 {
			return nil, false
		}
		b := junkBytes(id, n)
		if tok[0] == 'c' {
			b = cut48(b)
		}
		d.rev[string(b)] = fmt.Sprintf("%c%d.%d", tok[0], id, n)
		if tok[0] == 'j' {
			c := cut48(b)
			if n != 48 {
				d.rev[string(c)] = fmt.Sprintf("c%d.%d", id, n)
			}
		}
		return b, true
	}
	return nil, false
}

func (d *driver) pbs(s string) ([][]byte, bool) {
	if s == "-" || s == "" {
		return nil, true
	}
	var out [][]byte
	for _, t := range strings.Split(s, ";") {
		b, ok := d.pb(t)
		if !ok {
			return nil, false
		}
		out = append(out, b)
	}
	return out, true
}

// tok turns bytes that came back from the real code into a token.
func (d *driver) tok(b []byte) string {
	if v, ok := d.pts[string(b)]; ok {
		return "p" + hexMin(v)
	}
	if t, ok := d.rev[string(b)]; ok {
		return t
	}
	if len(b) == 0 {
		return "j0.0"
	}
	return "?" + hex.EncodeToString(b)
}

func (d *driver) toks(bs [][]byte) string {
	if len(bs) == 0 {
		return "-"
	}
	var out []string
	for _, b := range bs {
		out = append(out, d.tok(b))
	}
	return strings.Join(out, ";")
}

// scalarTok prints a point that came back from the real code as the scalar it is the multiple of:
// known point, or one of the proposed candidates that checks out (cand*G == point).
func (d *driver) scalarTok(p kyber.Point, cand *big.Int) string {
	b, err := p.MarshalBinary()
	if err != nil {
		return "?marshal"
	}
	if v, ok := d.pts[string(b)]; ok {
		return hexMin(v)
	}
	if cand != nil {
		if bytes.Equal(d.pointBytes(cand), b) {
			return hexMin(cand)
		}
	}
	return "?" + hex.EncodeToString(b)
}

func commaOr(xs []string) string {
	if len(xs) == 0 {
		return "-"
	}
	return strings.Join(xs, ",")
}

/* ---------- independent interpolation (Gaussian elimination mod r) ---------- */

func modr(v *big.Int) *big.Int { return v.Mod(v, rOrder) }

// solve returns the coefficients c_0..c_{k-1} with sum_k c_k x_j^k = y_j for the k given points.
func solve(xs, ys []*big.Int) []*big.Int {
	k := len(xs)
	m := make([][]*big.Int, k)
	for j := 0; j < k; j++ {
		m[j] = make([]*big.Int, k+1)
		pw := big.NewInt(1)
		for c := 0; c < k; c++ {
			m[j][c] = new(big.Int).Set(pw)
			pw = modr(new(big.Int).Mul(pw, xs[j]))
		}
		m[j][k] = new(big.Int).Mod(ys[j], rOrder)
	}
	for c := 0; c < k; c++ {
		piv := -1
		for j := c; j < k; j++ {
			if m[j][c].Sign() != 0 {
				piv = j
				break
			}
		}
		if piv < 0 {
			return nil
		}
		m[c], m[piv] = m[piv], m[c]
		inv := new(big.Int).ModInverse(m[c][c], rOrder)
		for cc := c; cc <= k; cc++ {
			m[c][cc] = modr(new(big.Int).Mul(m[c][cc], inv))
		}
		for j := 0; j < k; j++ {
			if j == c || m[j][c].Sign() == 0 {
				continue
			}
			f := new(big.Int).Set(m[j][c])
			for cc := c; cc <= k; cc++ {
				m[j][cc] = modr(new(big.Int).Sub(m[j][cc], new(big.Int).Mul(f, m[c][cc])))
			}
		}
	}
	out := make([]*big.Int, k)
	for j := range out {
		out[j] = m[j][k]
	}
	return out
}

// candidates proposes the scalars of the commitments restored from the map idx -> point bytes: the
// polynomial through the shares with the `thr` smallest non-negative indices (all of them for thr <= 0).
func (d *driver) candidates(m map[int][]byte, thr int) ([]*big.Int, []int) {
	var idxs []int
	for i := range m {
		if i >= 0 {
			idxs = append(idxs, i)
		}
	}
	sort.Ints(idxs)
	if thr > 0 && len(idxs) > thr {
		idxs = idxs[:thr]
	}
	var xs, ys []*big.Int
	for _, i := range idxs {
		y, ok := d.pts[string(m[i])]
		if !ok {
			return nil, idxs
		}
		xs = append(xs, big.NewInt(int64(i+1)))
		ys = append(ys, y)
	}
	if len(xs) == 0 {
		return nil, idxs
	}
	return solve(xs, ys), idxs
}

// mustAccept: the monitor's own verdict that a restoration over the map idx -> bytes has to succeed:
// a positive threshold, every byte string a known point, at least thr non-negative indices, and (if a
// key is expected) the constant term of the polynomial through the selected shares is that key.
func (d *driver) mustAccept(m map[int][]byte, thr int, expected []byte) bool {
	if thr < 1 {
		return false
	}
	nonneg := 0
	for i, b := range m {
		if _, ok := d.pts[string(b)]; !ok {
			return false
		}
		if i >= 0 {
			nonneg++
		}
	}
	if nonneg < thr {
		return false
	}
	cand, _ := d.candidates(m, thr)
	if cand == nil {
		return false
	}
	return expected == nil || bytes.Equal(d.pointBytes(cand[0]), expected)
}

/* ---------- peers, configuration ---------- */

func (d *driver) peerID(i int) peer.ID {
	if p, ok := d.peers[i]; ok {
		return p
	}
	h := sha256.Sum256([]byte(fmt.Sprintf("pedglue-peer-%d", i)))
	key := k1.PrivKeyFromBytes(h[:])
	id, err := peer.IDFromPrivateKey(libp2pcrypto.PrivKey((*libp2pcrypto.Secp256k1PrivateKey)(key)))
	hx.Must(err)
	d.peers[i] = id
	d.pnum[id] = i
	return id
}

func (d *driver) config(phase time.Duration) *pedersen.Config {
	pm := map[peer.ID]cluster.NodeIdx{}
	for _, e := range d.pmap {
		pm[d.peerID(e[0])] = cluster.NodeIdx{PeerIdx: e[1], ShareIdx: e[2]}
	}
	return pedersen.NewConfig(d.peerID(d.this), pm, d.thr, []byte("pedglue-session"), phase, nil)
}

func (d *driver) nodeIdx(p int) (int, int, bool) {
	for _, e := range d.pmap {
		if e[0] == p {
			return e[1], e[2], true
		}
	}
	return 0, 0, false
}

func (d *driver) expectedPeers() []int {
	var out []int
	for _, e := range d.pmap {
		out = append(out, e[0])
	}
	return out
}

func kv(ws []string) map[string]string {
	m := map[string]string{}
	for _, w := range ws {
		if i := strings.Index(w, "="); i > 0 {
			m[w[:i]] = w[i+1:]
		}
	}
	return m
}

func errClass(err error) string {
	s := err.Error()
	for _, c := range [][2]string{
		{"timed out waiting for DKG messages", "read-timeout"},
		{"context done", "read-ctx"},
		{"unmarshal node pubkey", "unmarshal-node-pub"},
		{"threshold is too low", "threshold-low"},
		{"threshold exceeds node count", "threshold-high"},
		{"unmarshal pubshare", "unmarshal-pubshare"},
		{"recover pubpoly", "not-enough-shares"},
		{"no commits recovered", "no-commits"},
		{"recovered group public key does not match", "group-key-mismatch"},
		{"unmarshal secret share", "unmarshal-secret"},
		{"restored validator pubkey does not match", "restored-key-mismatch"},
		{"insufficient public key shares", "insufficient-shares"},
		{"unexpected number of public key shares", "share-count"},
		{"invalid public key share length", "share-length"},
		{"remove operation requires at least threshold", "remove-below-threshold"},
		{"add operation requires new nodes", "add-no-new-nodes"},
		{"derive pubkey from privkey", "priv-to-pub"},
	} {
		if strings.Contains(s, c[0]) {
			return "err:" + c[1]
		}
	}
	return "err:other:" + strings.ReplaceAll(s, " ", "_")
}

// guard runs f and maps a panic to err:panic.
func guard(f func() string) (out string) {
	defer func() {
		if r := recover(); r != nil {
			out = "err:panic"
		}
	}()
	return f()
}

// guardP is guard with the panic monitor: a panic of the real code is a violation unless the input
// is one of the two degenerate ones a caller never produces (a non-positive old threshold; a kyber
// result without commitments).
func (d *driver) guardP(excused bool, what string, f func() string) string {
	out := guard(f)
	if out == "err:panic" && !excused {
		d.run.Violate("pedglue:panic", what+" panicked")
	}
	return out
}

/* ---------- events ---------- */

type event struct {
	kind byte // 'm', 'O', 'T', 'C'
	peer int
	body string // payload text after "<peer>" + separator
}

func parseEvents(ws []string, sep string) ([]event, bool) {
	var out []event
	for _, w := range ws {
		switch {
		case w == "T" || w == "C" || w == "O":
			out = append(out, event{kind: w[0]})
		case strings.HasPrefix(w, "m"):
			i := strings.Index(w, sep)
			if i < 2 {
				return nil, false
			}
			p, err := strconv.Atoi(w[1:i])
			if err != nil || p < 0 {
				return nil, false
			}
			out = append(out, event{kind: 'm', peer: p, body: w[i+len(sep):]})
		default:
			return nil, false
		}
	}
	return out, true
}

// ending gives the collection time-out and the context for an event list: a trailing T makes the
// time-out short, a trailing C cancels the context beforehand; otherwise the time-out is a watchdog.
func ending(evs []event) (phase time.Duration, ctx context.Context, cancel context.CancelFunc) {
	phase = 20 * time.Second
	ctx, cancel = context.WithCancel(context.Background())
	for _, e := range evs {
		if e.kind == 'T' {
			phase = 5 * time.Millisecond
			break
		}
		if e.kind == 'C' {
			cancel()
			break
		}
	}
	return phase, ctx, cancel
}

// msgsBefore returns the message / own events before the first T or C.
func msgsBefore(evs []event) []event {
	var out []event
	for _, e := range evs {
		if e.kind == 'T' || e.kind == 'C' {
			break
		}
		out = append(out, e)
	}
	return out
}

// firstPerPeer: the monitor's own notion of what a collection over `expected` must return from the
// delivered messages: per expected peer its first message, in arrival order; complete = all present.
func firstPerPeer(evs []event, expected []int) (first []int, complete bool) {
	exp := map[int]bool{}
	for _, p := range expected {
		exp[p] = true
	}
	seen := map[int]bool{}
	for i, e := range evs {
		if !exp[e.peer] || seen[e.peer] {
			continue
		}
		seen[e.peer] = true
		first = append(first, i)
		if len(seen) == len(exp) {
			return first, true
		}
	}
	return first, len(exp) == 0
}

/* ---------- ops ---------- */

func (d *driver) exec(line string) string {
	ws := strings.Fields(line)
	if len(ws) == 0 {
		return "bad-op"
	}
	d.run.Count("op:" + ws[0])
	switch ws[0] {
	case "cfg":
		return d.opCfg(ws[1:])
	case "rb":
		return d.opRb(ws[1:])
	case "mk":
		return d.opMk(ws[1:])
	case "nonce":
		return d.opNonce(ws[1:])
	case "rc":
		return d.opRc(ws[1:])
	case "rcs":
		return d.opRcs(ws[1:])
	case "rd":
		return d.opRd(ws[1:])
	case "ks":
		return d.opKs(ws[1:])
	case "vpk":
		return d.opVpk(ws[1:])
	case "pk":
		return d.opPk(ws[1:])
	case "bn":
		return d.opBn(ws[1:])
	case "vps":
		return d.opVps(ws[1:])
	case "vrc":
		return d.opVrc(ws[1:])
	case "thr":
		return d.opThr(ws[1:])
	case "dthr":
		if len(ws) != 2 {
			return "bad-op"
		}
		n, err := strconv.Atoi(ws[1])
		if err != nil || n < 0 {
			return "bad-op"
		}
		return strconv.Itoa(cluster.Threshold(n))
	case "msg":
		return d.opMsg(ws[1:])
	}
	return "bad-op"
}

func (d *driver) opCfg(ws []string) string {
	f := kv(ws)
	this, e1 := strconv.Atoi(f["this"])
	thr, e2 := strconv.Atoi(f["thr"])
	if e1 != nil || e2 != nil || this < 0 {
		return "bad-op"
	}
	var pm [][3]int
	if f["map"] != "-" && f["map"] != "" {
		for _, t := range strings.Split(f["map"], ",") {
			parts := strings.Split(t, ":")
			if len(parts) != 3 {
				return "bad-op"
			}
			var e [3]int
			for i := range e {
				v, err := strconv.Atoi(parts[i])
				if err != nil || v < 0 {
					return "bad-op"
				}
				e[i] = v
			}
			pm = append(pm, e)
		}
	}
	d.this, d.thr, d.pmap, d.hasConf = this, thr, pm, true
	return "ok"
}

func (d *driver) opRb(ws []string) string {
	if len(ws) < 1 {
		return "bad-op"
	}
	var expected []int
	var exp []peer.ID
	if ws[0] != "-" {
		for _, t := range strings.Split(ws[0], ",") {
			p, err := strconv.Atoi(t)
			if err != nil || p < 0 {
				return "bad-op"
			}
			expected = append(expected, p)
			exp = append(exp, d.peerID(p))
		}
	}
	evs, ok := parseEvents(ws[1:], ".")
	if !ok {
		return "bad-op"
	}
	for _, e := range evs {
		if e.kind == 'O' {
			return "bad-op"
		}
	}
	phase, ctx, cancel := ending(evs)
	defer cancel()
	msgs := msgsBefore(evs)
	ch := make(chan pedersen.NodePubKeys, len(msgs)+1)
	for _, e := range msgs {
		ch <- pedersen.NodePubKeys{PeerID: d.peerID(e.peer), PubKey: []byte(e.body)}
	}
	got, err := pedersen.VerifReadBoardNodePubKeys(ctx, ch, exp, 6*phase)
	if err != nil {
		d.checkIncomplete(msgs, expected, "rb")
		return errClass(err)
	}
	var out []string
	var gotEv []event
	for _, g := range got {
		out = append(out, fmt.Sprintf("%d.%s", d.pnum[g.PeerID], string(g.PubKey)))
		gotEv = append(gotEv, event{kind: 'm', peer: d.pnum[g.PeerID], body: string(g.PubKey)})
	}
	d.checkCollected(msgs, expected, gotEv, "rb")
	return "ok " + commaOr(out)
}

// checkCollected: monitor for a successful collection (independent of the model).
func (d *driver) checkCollected(delivered []event, expected []int, got []event, op string) {
	exp := map[int]bool{}
	for _, p := range expected {
		exp[p] = true
	}
	first, complete := firstPerPeer(delivered, expected)
	if !complete {
		d.run.Violate("pedglue:collect_completed_without_all_peers",
			fmt.Sprintf("%s returned %d messages although not every expected peer had sent", op, len(got)))
		return
	}
	seen := map[int]bool{}
	for _, g := range got {
		if !exp[g.peer] {
			d.run.Violate("pedglue:collect_unexpected_peer", fmt.Sprintf("%s returned a message of unexpected peer %d", op, g.peer))
		}
		if seen[g.peer] {
			d.run.Violate("pedglue:collect_duplicate_peer", fmt.Sprintf("%s returned two messages of peer %d", op, g.peer))
		}
		seen[g.peer] = true
	}
	if len(seen) != len(exp) {
		d.run.Violate("pedglue:collect_not_one_per_peer", fmt.Sprintf("%s returned messages of %d peers, expected %d", op, len(seen), len(exp)))
		return
	}
	if len(got) != len(first) {
		return
	}
	for i, fi := range first {
		if got[i].peer != delivered[fi].peer || got[i].body != delivered[fi].body {
			d.run.Violate("pedglue:collect_not_first_message",
				fmt.Sprintf("%s: position %d holds %d/%s, the first message delivered by that peer is %d/%s", op, i, got[i].peer, got[i].body,
					delivered[fi].peer, delivered[fi].body))
			return
		}
	}
}

// checkIncomplete: a collection that failed although every expected peer had delivered before the
// time-out / cancellation could be noticed is only reported when nothing can excuse it.
func (d *driver) checkIncomplete(delivered []event, expected []int, op string) {
	if _, complete := firstPerPeer(delivered, expected); complete && len(expected) > 0 {
		d.run.Count("note:failed_although_complete:" + op)
	}
}

func (d *driver) opMk(ws []string) string {
	if !d.hasConf {
		return "bad-op"
	}
	evs, ok := parseEvents(ws, "/")
	if !ok {
		return "bad-op"
	}
	phase, ctx, cancel := ending(evs)
	defer cancel()
	cfg := d.config(phase)
	msgs := msgsBefore(evs)
	board := pedersen.VerifNewBoard(ctx, d.host, cfg, len(msgs)+2)
	var delivered []event
	for _, e := range msgs {
		if e.kind != 'm' {
			return "bad-op"
		}
		parts := strings.Split(e.body, "/")
		if len(parts) != 2 {
			return "bad-op"
		}
		pub, ok1 := d.pb(parts[0])
		shares, ok2 := d.pbs(parts[1])
		if !ok1 || !ok2 {
			return "bad-op"
		}
		board.VerifNodePubKeysCh() <- pedersen.NodePubKeys{PeerID: d.peerID(e.peer), PubKey: pub, PubKeyShares: shares}
		delivered = append(delivered, e)
	}
	return d.guardP(false, "makeNodes", func() string {
		nodes, pks, err := pedersen.VerifMakeNodes(ctx, cfg, board)
		if err != nil {
			return errClass(err)
		}
		var ns []string
		for _, n := range nodes {
			ns = append(ns, fmt.Sprintf("%d:%s", n.Index, d.scalarTok(n.Public, nil)))
		}
		var keys []int
		for k := range pks {
			keys = append(keys, k)
		}
		sort.Ints(keys)
		var ps []string
		for _, k := range keys {
			ps = append(ps, fmt.Sprintf("%d:%s", k, d.toks(pks[k])))
		}
		// monitor: one node per peer of the peer map, carrying that peer's index and its first key
		expected := d.expectedPeers()
		first, complete := firstPerPeer(delivered, expected)
		if !complete || len(first) != len(nodes) {
			d.run.Violate("pedglue:nodes_not_one_per_peer", fmt.Sprintf("makeNodes returned %d nodes for %d peers (complete=%v)", len(nodes), len(expected), complete))
		} else {
			for i, fi := range first {
				pi, _, _ := d.nodeIdx(delivered[fi].peer)
				want, _ := d.pb(strings.Split(delivered[fi].body, "/")[0])
				have, _ := nodes[i].Public.MarshalBinary()
				if int(nodes[i].Index) != pi || !bytes.Equal(want, have) {
					d.run.Violate("pedglue:node_wrong_index_or_key", fmt.Sprintf("node %d: index %d (peer map says %d) or key differs from the peer's first message", i, nodes[i].Index, pi))
				}
			}
		}
		// monitor: the public key shares a peer sent are filed under that peer's index (the later collected
		// message wins when a misconfigured peer map gives two peers one index), nothing else is filed
		if complete {
			want := map[int]string{}
			for _, fi := range first {
				parts := strings.Split(delivered[fi].body, "/")
				if parts[1] == "-" || parts[1] == "" {
					continue
				}
				pi, _, _ := d.nodeIdx(delivered[fi].peer)
				want[pi] = parts[1]
			}
			bad := len(want) != len(pks)
			for pi, w := range want {
				if d.toks(pks[pi]) != w {
					bad = true
				}
			}
			if bad {
				d.run.Violate("pedglue:pubkey_shares_misfiled", "makeNodes filed the exchanged public key shares under another index than the sender's")
			}
		}
		// what RunDKG does next with real pieces: sort by index, default threshold, validateThreshold
		sorted := append([]kdkg.Node(nil), nodes...)
		sort.SliceStable(sorted, func(i, j int) bool { return sorted[i].Index < sorted[j].Index })
		var ss []string
		for _, n := range sorted {
			ss = append(ss, strconv.Itoa(int(n.Index)))
		}
		t := cfg.Threshold
		if t <= 0 {
			t = cluster.Threshold(len(nodes))
		}
		ts := strconv.Itoa(t)
		if err := pedersen.VerifValidateThreshold(len(nodes), t); err != nil {
			ts = errClass(err)
		}
		return fmt.Sprintf("ok nodes=%s pks=%s sorted=%s t=%s", commaOr(ns), commaOr(ps), commaOr(ss), ts)
	})
}

func (d *driver) opNonce(ws []string) string {
	if len(ws) != 2 {
		return "bad-op"
	}
	iter, err := strconv.Atoi(ws[0])
	if err != nil || iter < 0 {
		return "bad-op"
	}
	var nodes []kdkg.Node
	if ws[1] != "-" {
		for _, t := range strings.Split(ws[1], ",") {
			parts := strings.Split(t, ":")
			if len(parts) != 2 {
				return "bad-op"
			}
			idx, e1 := strconv.ParseUint(parts[0], 10, 32)
			b, e2 := hex.DecodeString(parts[1])
			if e1 != nil || e2 != nil {
				return "bad-op"
			}
			p := g1.Point()
			if err := p.UnmarshalBinary(b); err != nil {
				return "bad-op"
			}
			nodes = append(nodes, kdkg.Node{Index: kdkg.Index(idx), Public: p})
		}
	}
	return guard(func() string {
		n, err := pedersen.VerifGenerateNonce(nodes, iter)
		if err != nil {
			return "err:other"
		}
		out := hex.EncodeToString(n)
		key := fmt.Sprintf("%d %s", uint32(iter), ws[1])
		if prev, ok := d.nonces[out]; ok && prev != key {
			d.run.Violate("pedglue:nonce_collision", fmt.Sprintf("inputs %q and %q give the same nonce", prev, key))
		}
		d.nonces[out] = key
		return out
	})
}

func (d *driver) optExpected(tok string) (*tbls.PublicKey, bool) {
	if tok == "-" {
		return nil, true
	}
	b, ok := d.pb(tok)
	if !ok || len(b) != 48 {
		return nil, false
	}
	pk := tbls.PublicKey(b)
	return &pk, true
}

// commitsOut prints restored commitments and runs the interpolation monitor: the restored public
// polynomial has exactly thr coefficients and passes through every selected share (checked in the
// group with kyber: sum_k x^k * C_k == Y), and its constant term is the expected key if one was given.
func (d *driver) commitsOut(commits []kyber.Point, m map[int][]byte, thr int, expected *tbls.PublicKey, op string) string {
	cand, sel := d.candidates(m, thr)
	var out []string
	for k, c := range commits {
		var cv *big.Int
		if k < len(cand) {
			cv = cand[k]
		}
		out = append(out, d.scalarTok(c, cv))
	}
	if thr > 0 && len(commits) != thr {
		d.run.Violate("pedglue:commits_wrong_degree", fmt.Sprintf("%s restored %d commitments for threshold %d", op, len(commits), thr))
	}
	pub := kshare.NewPubPoly(g1, g1.Point().Base(), commits)
	for _, i := range sel {
		y := g1.Point()
		if err := y.UnmarshalBinary(m[i]); err != nil {
			continue
		}
		if !pub.Eval(i).V.Equal(y) {
			d.run.Violate("pedglue:commits_not_through_share", fmt.Sprintf("%s: the restored polynomial does not pass through the share of index %d", op, i))
			break
		}
	}
	if expected != nil && len(commits) > 0 {
		b, _ := commits[0].MarshalBinary()
		if !bytes.Equal(b, expected[:]) {
			d.run.Violate("pedglue:group_key_not_checked", op+" accepted commitments whose constant term is not the expected validator key")
		}
	}
	return "ok " + commaOr(out)
}

func (d *driver) opRc(ws []string) string {
	if len(ws) != 3 {
		return "bad-op"
	}
	thr, err := strconv.Atoi(ws[0])
	expected, ok := d.optExpected(ws[1])
	if err != nil || !ok {
		return "bad-op"
	}
	m := map[int][]byte{}
	if ws[2] != "-" {
		for _, t := range strings.Split(ws[2], ",") {
			parts := strings.Split(t, ":")
			if len(parts) != 2 {
				return "bad-op"
			}
			i, e1 := strconv.Atoi(parts[0])
			b, ok := d.pb(parts[1])
			if e1 != nil || !ok {
				return "bad-op"
			}
			if _, dup := m[i]; dup {
				return "bad-op"
			}
			m[i] = b
		}
	}
	return d.guardP(thr <= 0, "restoreCommitsFromPubShares", func() string {
		commits, err := pedersen.VerifRestoreCommitsFromPubShares(m, thr, expected)
		if err != nil {
			var eb []byte
			if expected != nil {
				eb = expected[:]
			}
			if d.mustAccept(m, thr, eb) {
				d.run.Violate("pedglue:valid_shares_rejected", "restoreCommitsFromPubShares failed on threshold many shares of one polynomial: "+errClass(err))
			}
			return errClass(err)
		}
		return d.commitsOut(commits, m, thr, expected, "rc")
	})
}

func (d *driver) opRcs(ws []string) string {
	if len(ws) != 4 {
		return "bad-op"
	}
	sn, e1 := strconv.Atoi(ws[0])
	thr, e2 := strconv.Atoi(ws[1])
	expected, ok := d.optExpected(ws[2])
	if e1 != nil || e2 != nil || !ok || sn < 0 {
		return "bad-op"
	}
	m := map[int][][]byte{}
	if ws[3] != "-" {
		for _, t := range strings.Split(ws[3], ",") {
			parts := strings.Split(t, ":")
			if len(parts) != 2 {
				return "bad-op"
			}
			i, e1 := strconv.Atoi(parts[0])
			bs, ok := d.pbs(parts[1])
			if e1 != nil || !ok || i < 0 {
				return "bad-op"
			}
			if _, dup := m[i]; dup {
				return "bad-op"
			}
			m[i] = bs
		}
	}
	return d.guardP(thr <= 0, "restoreCommits", func() string {
		commits, err := pedersen.VerifRestoreCommits(m, sn, thr, expected)
		if err != nil {
			return errClass(err)
		}
		col := map[int][]byte{}
		for i, bs := range m {
			if sn >= len(bs) {
				d.run.Violate("pedglue:restore_commits_short_node", fmt.Sprintf("restoreCommits succeeded although node %d sent only %d shares (share %d wanted)", i, len(bs), sn))
				return "ok ?"
			}
			col[i] = bs[sn]
		}
		return d.commitsOut(commits, col, thr, expected, "rcs")
	})
}

func (d *driver) opRd(ws []string) string {
	if len(ws) != 5 {
		return "bad-op"
	}
	thr, e1 := strconv.Atoi(ws[0])
	idx, e2 := strconv.Atoi(ws[1])
	pub, ok1 := d.pb(ws[2])
	sk, ok2 := new(big.Int).SetString(ws[3], 16)
	if e1 != nil || e2 != nil || !ok1 || !ok2 || len(pub) != 48 || sk.Sign() < 0 || sk.BitLen() > 256 || idx < 0 {
		return "bad-op"
	}
	s := share.Share{PubKey: tbls.PublicKey(pub), PublicShares: map[int]tbls.PublicKey{}}
	sk.FillBytes(s.SecretShare[:])
	m := map[int][]byte{}
	if ws[4] != "-" {
		for _, t := range strings.Split(ws[4], ",") {
			parts := strings.Split(t, ":")
			if len(parts) != 2 {
				return "bad-op"
			}
			i, e1 := strconv.Atoi(parts[0])
			b, ok := d.pb(parts[1])
			if e1 != nil || !ok || len(b) != 48 || i < 0 {
				return "bad-op"
			}
			if _, dup := s.PublicShares[i]; dup {
				return "bad-op"
			}
			s.PublicShares[i] = tbls.PublicKey(b)
			m[i-1] = b
		}
	}
	return d.guardP(thr <= 0, "restoreDistKeyShare", func() string {
		dks, err := pedersen.VerifRestoreDistKeyShare(s, thr, idx)
		if err != nil {
			if sk.Cmp(rOrder) < 0 && d.mustAccept(m, thr, s.PubKey[:]) {
				d.run.Violate("pedglue:honest_share_rejected", "restoreDistKeyShare failed on a share whose public shares lie on a polynomial with the share's validator key: "+errClass(err))
			}
			return errClass(err)
		}
		vb, _ := dks.Share.V.MarshalBinary()
		v := new(big.Int).SetBytes(vb)
		if dks.Share.I != idx || v.Cmp(sk) != 0 {
			d.run.Violate("pedglue:restored_share_differs", fmt.Sprintf("restoreDistKeyShare returned index %d / another scalar (input index %d)", dks.Share.I, idx))
		}
		if len(dks.Commits) > 0 {
			b, _ := dks.Commits[0].MarshalBinary()
			if !bytes.Equal(b, s.PubKey[:]) {
				d.run.Violate("pedglue:restored_key_not_checked", "restoreDistKeyShare accepted commitments whose constant term is not the share's validator key")
			}
		}
		cs := d.commitsOut(dks.Commits, m, thr, nil, "rd")
		return fmt.Sprintf("ok i=%d v=%s commits=%s", dks.Share.I, hexMin(v), strings.TrimPrefix(cs, "ok "))
	})
}

func parseScalar256(s string) (*big.Int, bool) {
	v, ok := new(big.Int).SetString(s, 16)
	if !ok || v.Sign() < 0 || v.BitLen() > 256 {
		return nil, false
	}
	return v, true
}

func (d *driver) opKs(ws []string) string {
	if len(ws) != 1 {
		return "bad-op"
	}
	v, ok := parseScalar256(ws[0])
	if !ok {
		return "bad-op"
	}
	dks := &kdkg.DistKeyShare{Share: &kshare.PriShare{I: 0, V: scalarOf(v)}}
	return d.guardP(false, "keyShareToBLS", func() string {
		sk, pk, err := pedersen.VerifKeyShareToBLS(dks)
		if err != nil {
			return errClass(err)
		}
		skv := new(big.Int).SetBytes(sk[:])
		d.checkSharePub(skv, pk[:], "ks")
		return fmt.Sprintf("ok sk=%s pk=%s", hexMin(skv), d.tok(pk[:]))
	})
}

// checkSharePub: the public share published for a secret share is that share times G (kyber's
// arithmetic against herumi's inside tbls).
func (d *driver) checkSharePub(sk *big.Int, pk []byte, op string) {
	if sk.Sign() == 0 || sk.Cmp(rOrder) >= 0 {
		d.run.Violate("pedglue:degenerate_share_accepted", op+" returned the zero or a non-canonical secret share")
		return
	}
	if !bytes.Equal(d.pointBytes(sk), pk) {
		d.run.Violate("pedglue:share_pub_mismatch", op+": the public key share is not the secret share times the generator")
	}
}

func (d *driver) commitPoints(s string) ([]kyber.Point, bool) {
	var out []kyber.Point
	if s == "-" {
		return out, true
	}
	for _, t := range strings.Split(s, ",") {
		v, ok := new(big.Int).SetString(t, 16)
		if !ok || v.Sign() < 0 || v.Cmp(rOrder) >= 0 {
			return nil, false
		}
		out = append(out, d.point(v))
	}
	return out, true
}

func (d *driver) opVpk(ws []string) string {
	if len(ws) != 1 {
		return "bad-op"
	}
	cs, ok := d.commitPoints(ws[0])
	if !ok {
		return "bad-op"
	}
	dks := &kdkg.DistKeyShare{Commits: cs, Share: &kshare.PriShare{I: 0, V: g1.Scalar().Zero()}}
	return d.guardP(len(cs) == 0, "distKeyShareToValidatorPubKey", func() string {
		pk, err := pedersen.VerifDistKeyShareToValidatorPubKey(dks, pedersen.DefaultSuite)
		if err != nil {
			return "err:other"
		}
		return "ok " + d.tok(pk[:])
	})
}

// feed delivers the events around the node's own broadcast: `pre` is queued before the call; `post`
// is pushed once the queue length has moved away from len(pre) - reading only starts after the real
// code has queued its own message - or never if the call returns first.
func feed[T any](ch chan T, pre, post []T, call func()) {
	for _, m := range pre {
		ch <- m
	}
	done := make(chan struct{})
	fed := make(chan struct{})
	go func() {
		defer close(fed)
		if len(post) == 0 {
			return
		}
		if len(pre) == 0 {
			select {
			case <-time.After(150 * time.Millisecond):
			case <-done:
				return
			}
		} else {
			for len(ch) == len(pre) {
				select {
				case <-done:
					return
				default:
					time.Sleep(50 * time.Microsecond)
				}
			}
		}
		for _, m := range post {
			select {
			case ch <- m:
			case <-done:
				return
			}
		}
	}()
	call()
	close(done)
	<-fed
}

// valEvents parses the events of pk / bn; exactly one O is required.
func (d *driver) valEvents(ws []string) (all []event, pre, post []pedersen.ValidatorPubKeyShare, ok bool) {
	evs, ok := parseEvents(ws, "/")
	if !ok {
		return nil, nil, nil, false
	}
	owns := 0
	for _, e := range evs {
		if e.kind == 'O' {
			owns++
		}
	}
	if owns != 1 {
		return nil, nil, nil, false
	}
	seenOwn := false
	for _, e := range msgsBefore(evs) {
		if e.kind == 'O' {
			seenOwn = true
			continue
		}
		b, ok := d.pb(e.body)
		if !ok {
			return nil, nil, nil, false
		}
		m := pedersen.ValidatorPubKeyShare{PeerID: d.peerID(e.peer), ValidatorPubKey: b}
		if seenOwn {
			post = append(post, m)
		} else {
			pre = append(pre, m)
		}
	}
	return evs, pre, post, true
}

func (d *driver) opPk(ws []string) string {
	if !d.hasConf || len(ws) < 2 {
		return "bad-op"
	}
	v, ok1 := parseScalar256(ws[0])
	cs, ok2 := d.commitPoints(ws[1])
	evs, pre, post, ok3 := d.valEvents(ws[2:])
	if !ok1 || !ok2 || !ok3 {
		return "bad-op"
	}
	phase, ctx, cancel := ending(evs)
	defer cancel()
	cfg := d.config(phase)
	board := pedersen.VerifNewBoard(ctx, d.host, cfg, len(pre)+len(post)+4)
	dks := &kdkg.DistKeyShare{Commits: cs, Share: &kshare.PriShare{I: 0, V: scalarOf(v)}}
	var out string
	feed(board.VerifValPubKeySharesCh(), pre, post, func() {
		out = d.guardP(len(cs) == 0, "processKey", func() string {
			s, err := pedersen.VerifProcessKey(ctx, cfg, board, dks)
			if err != nil {
				return errClass(err)
			}
			return d.shareOut(s, evs, v)
		})
	})
	return out
}

func (d *driver) shareOut(s share.Share, evs []event, v *big.Int) string {
	skv := new(big.Int).SetBytes(s.SecretShare[:])
	ownPub := d.pointBytes(new(big.Int).Mod(v, rOrder)) // also makes the own public share a known point
	var keys []int
	for k := range s.PublicShares {
		keys = append(keys, k)
	}
	sort.Ints(keys)
	var ps []string
	for _, k := range keys {
		pk := s.PublicShares[k]
		ps = append(ps, fmt.Sprintf("%d:%s", k, d.tok(pk[:])))
	}
	msg := share.MsgFromShare(s)
	d.checkMsg(s, msg)
	// monitors on the share
	if skv.Cmp(new(big.Int).Mod(v, rOrder)) != 0 {
		d.run.Violate("pedglue:secret_share_changed", "processKey returned a secret share that is not kyber's share scalar")
	}
	// the delivered sequence as the monitor sees it: own broadcast = the share's public key
	var delivered []event
	for _, e := range msgsBefore(evs) {
		if e.kind == 'O' {
			delivered = append(delivered, event{kind: 'm', peer: d.this, body: "own"})
		} else {
			delivered = append(delivered, e)
		}
	}
	first, complete := firstPerPeer(delivered, d.expectedPeers())
	if !complete {
		d.run.Violate("pedglue:collect_completed_without_all_peers", "processKey succeeded although not every peer of the peer map had sent its public share")
	} else {
		// share index -> bytes of the LAST collected message of a peer with that share index (duplicate
		// share indices in a peer map are a configuration error; then later collected messages overwrite)
		want := map[int][]byte{}
		cnt := map[int]int{}
		for _, fi := range first {
			e := delivered[fi]
			var b []byte
			if e.body == "own" {
				b = ownPub
			} else {
				b, _ = d.pb(e.body)
			}
			if len(b) == 0 {
				continue
			}
			_, si, _ := d.nodeIdx(e.peer)
			want[si] = cut48(b)
			cnt[si]++
		}
		if len(want) != len(s.PublicShares) {
			d.run.Violate("pedglue:public_shares_wrong_set", fmt.Sprintf("processKey returned %d public shares, %d share indices sent a key", len(s.PublicShares), len(want)))
		}
		for si, b := range want {
			have, ok := s.PublicShares[si]
			if !ok || !bytes.Equal(have[:], b) {
				d.run.Violate("pedglue:public_share_misfiled", fmt.Sprintf("the public share filed under share index %d is not what its holder sent first", si))
				break
			}
		}
		_, mySi, inMap := d.nodeIdx(d.this)
		if inMap && cnt[mySi] == 1 {
			for _, fi := range first {
				if delivered[fi].peer == d.this && delivered[fi].body == "own" {
					have := s.PublicShares[mySi]
					if !bytes.Equal(have[:], d.pointBytes(skv)) {
						d.run.Violate("pedglue:own_public_share_mismatch", "the public share published for this node does not match its secret share")
					}
				}
			}
		}
	}
	return fmt.Sprintf("ok pub=%s sk=%s ps=%s msg=%s", d.tok(s.PubKey[:]), hexMin(skv), commaOr(ps), d.toks(msg.PubShares))
}

// checkMsg: MsgFromShare lists the public shares in ascending share index order, all of them.
func (d *driver) checkMsg(s share.Share, msg share.Msg) {
	var keys []int
	for k := range s.PublicShares {
		keys = append(keys, k)
	}
	sort.Ints(keys)
	if len(keys) != len(msg.PubShares) {
		d.run.Violate("pedglue:msg_pubshares_count", "MsgFromShare dropped or added public shares")
		return
	}
	for i, k := range keys {
		pk := s.PublicShares[k]
		if !bytes.Equal(pk[:], msg.PubShares[i]) {
			d.run.Violate("pedglue:msg_pubshares_order", fmt.Sprintf("MsgFromShare position %d is not the share of the %d-th smallest share index", i, i))
			return
		}
	}
}

func (d *driver) opBn(ws []string) string {
	if !d.hasConf {
		return "bad-op"
	}
	evs, pre, post, ok := d.valEvents(ws)
	if !ok {
		return "bad-op"
	}
	phase, ctx, cancel := ending(evs)
	defer cancel()
	cfg := d.config(phase)
	board := pedersen.VerifNewBoard(ctx, d.host, cfg, len(pre)+len(post)+4)
	var out string
	feed(board.VerifValPubKeySharesCh(), pre, post, func() {
		out = d.guardP(false, "broadcastNoneKey", func() string {
			if err := pedersen.VerifBroadcastNoneKey(ctx, cfg, board); err != nil {
				return errClass(err)
			}
			var delivered []event
			for _, e := range msgsBefore(evs) {
				if e.kind == 'O' {
					delivered = append(delivered, event{kind: 'm', peer: d.this})
				} else {
					delivered = append(delivered, e)
				}
			}
			if _, complete := firstPerPeer(delivered, d.expectedPeers()); !complete {
				d.run.Violate("pedglue:collect_completed_without_all_peers", "broadcastNoneKey returned although not every peer had sent")
			}
			return "ok"
		})
	})
	return out
}

func (d *driver) opVps(ws []string) string {
	if len(ws) != 2 {
		return "bad-op"
	}
	total, err := strconv.Atoi(ws[0])
	if err != nil || total < 0 {
		return "bad-op"
	}
	m := map[int][][]byte{}
	good := true
	if ws[1] != "-" {
		for _, t := range strings.Split(ws[1], ",") {
			parts := strings.Split(t, ":")
			if len(parts) != 2 {
				return "bad-op"
			}
			i, e1 := strconv.Atoi(parts[0])
			bs, ok := d.pbs(parts[1])
			if e1 != nil || !ok || i < 0 {
				return "bad-op"
			}
			if _, dup := m[i]; dup {
				return "bad-op"
			}
			m[i] = bs
			if len(bs) != total {
				good = false
			}
			for _, b := range bs {
				if len(b) != 48 {
					good = false
				}
			}
		}
	}
	return d.guardP(false, "validatePubKeyShares", func() string {
		err := pedersen.VerifValidatePubKeyShares(m, total)
		if (err == nil) != good {
			d.run.Violate("pedglue:validation_verdict", fmt.Sprintf("validatePubKeyShares: accepted=%v, every node sent exactly %d shares of 48 bytes=%v", err == nil, total, good))
		}
		if err != nil {
			return errClass(err)
		}
		return "ok"
	})
}

func (d *driver) opVrc(ws []string) string {
	if len(ws) != 5 {
		return "bad-op"
	}
	var v [5]int
	for i := range v {
		x, err := strconv.Atoi(ws[i])
		if err != nil || (i != 2 && x < 0) || (i >= 3 && x > 64) {
			return "bad-op"
		}
		v[i] = x
	}
	rs := &pedersen.ReshareConfig{AddedPeers: make([]peer.ID, v[3]), RemovedPeers: make([]peer.ID, v[4])}
	return guard(func() string {
		err := pedersen.VerifValidateReshareNodeCounts(v[0], v[1], v[2], rs)
		good := !(v[4] > 0 && v[0] < v[2]) && !(v[3] > 0 && v[1] <= v[0])
		if (err == nil) != good {
			d.run.Violate("pedglue:validation_verdict", fmt.Sprintf("validateReshareNodeCounts(%v): accepted=%v, expected %v", v, err == nil, good))
		}
		if err != nil {
			return errClass(err)
		}
		return "ok"
	})
}

func (d *driver) opThr(ws []string) string {
	if len(ws) != 2 {
		return "bad-op"
	}
	n, e1 := strconv.Atoi(ws[0])
	t, e2 := strconv.Atoi(ws[1])
	if e1 != nil || e2 != nil || n < 0 {
		return "bad-op"
	}
	err := pedersen.VerifValidateThreshold(n, t)
	if (err == nil) != (1 <= t && t <= n) {
		d.run.Violate("pedglue:validation_verdict", fmt.Sprintf("validateThreshold(%d, %d): accepted=%v", n, t, err == nil))
	}
	if err != nil {
		return errClass(err)
	}
	return "ok"
}

func (d *driver) opMsg(ws []string) string {
	if len(ws) != 1 {
		return "bad-op"
	}
	s := share.Share{PublicShares: map[int]tbls.PublicKey{}}
	if ws[0] != "-" {
		for _, t := range strings.Split(ws[0], ",") {
			parts := strings.Split(t, ":")
			if len(parts) != 2 {
				return "bad-op"
			}
			i, e1 := strconv.Atoi(parts[0])
			b, ok := d.pb(parts[1])
			if e1 != nil || !ok || len(b) != 48 || i < 0 {
				return "bad-op"
			}
			if _, dup := s.PublicShares[i]; dup {
				return "bad-op"
			}
			s.PublicShares[i] = tbls.PublicKey(b)
		}
	}
	msg := share.MsgFromShare(s)
	d.checkMsg(s, msg)
	return d.toks(msg.PubShares)
}

func main() {
	args := hx.ParseArgs()
	hx.Must(log.InitLogger(log.Config{Level: "fatal", Format: "console", Color: "disable"}))
	run := hx.NewRun(args.Dir)
	defer run.Close()
	mn := mocknet.New()
	defer mn.Close()
	h, err := mn.GenPeer()
	hx.Must(err)
	d := &driver{run: run, host: h, pts: map[string]*big.Int{}, ptBy: map[string][]byte{}, rev: map[string]string{},
		peers: map[int]peer.ID{}, pnum: map[peer.ID]int{}, nonces: map[string]string{}}
	do := func(op string) {
		run.Begin(op)
		out := d.exec(op)
		// distribution: outcome class per op kind; distinct cases by kind, class and size of the input
		kind, _, _ := strings.Cut(op, " ")
		class := out
		if i := strings.IndexAny(out, " "); i >= 0 {
			class = out[:i]
		}
		if kind == "nonce" || kind == "msg" || kind == "dthr" {
			class = "value"
		}
		run.Count("out:" + kind + ":" + class)
		if kind != "cfg" && kind != "dthr" && kind != "thr" {
			run.Case(fmt.Sprintf("%s|%s|%d|%d", kind, class, len(strings.Fields(op)), strings.Count(op, ",")))
		}
		run.Op(op, out)
	}
	if args.Mode == "exec" {
		for _, l := range hx.ReadOps(args.Ops) {
			do(strings.TrimSpace(l))
		}
		return
	}
	gen(d, hx.NewRng(args.Seed), args.N, do)
}
