// drive-bcast: correspondence driver for C13 (dkg/bcast: impl.go, server.go, client.go).
//
// n = 3..6 real bcast.Components with real secp256k1 keys and NO network: the harness is the
// transport. It calls the two server handlers directly (hook VerifHandleSigRequest /
// VerifHandleMessage) with a transport identity of its choosing, and it supplies the client's
// send functions (hook VerifNew), so it also plays the faulty members: equivocation, withholding,
// relaying another member's fully signed message, subsets / permutations / substitutions of the
// signature list, cross-id and cross-session replays, all request orders.
//
// Two "worlds" share keys and peer list but have their own session hash and own components
// (cross-session replay). Signatures returned by the real code go into a pool the scripted
// adversary draws from.
//
// ops (hex strings, "-" = empty):
//
//	new <n> <sessA> <sessB> <faultyMask> <app>   fresh episode; bit i of faultyMask: key i is the adversary's (bit n: an outsider); app: gen | pedersen
//	reg <w> <m> <id>                             RegisterMessageIDFuncs (app=pedersen: pedersen.NewBoard registers its node_pubkeys id)
//	sreq <w> <m> <from> <id> <pay>               -> ok s<k> d=<dedupLen> | unknown-id .. | check-fail .. | dup ..
//	sreq2 <w> <m> <from> <id> <payA> <payB> <ab|ba>  two CONCURRENT handleSigRequest calls for one (requester,id): request A is held inside the
//	                                             member's sign function (hook VerifWrapSign) until request B has either returned or reached signing too
//	                                             -> <classA>[ s<k>] <classB>[ s<k>] d=<dedupLen>; the last token is an oracle written by the driver: the
//	                                             sequential order the observed outcome corresponds to (the model's handler is atomic: it runs that order)
//	msg <w> <m> <from> <id> <pay> <sigs>         -> ok cb=1 | cb-err cb=0 | wrong-count | not-allowed | bad-len | bad-sig | bad-any
//	bc <w> <a> <id> <pay> <ov>                   -> <ok|sign-fail|req-fail|verify-fail> req=<per peer> msg=<per peer> pool=<size>
//	hash <sess> <id> <typeUrl> <value>           -> hex digest (real newHashAny vs SHA-256 of the model's encoding)
//
// pay = <typeUrlHex>:<valueHex>:<um><ck><bd>; the three flags are environment oracles for the model, computed by the harness
// without bcast code: um = Any.UnmarshalNew works, ck = the registered CheckMessage accepts, bd = whom the registered callback
// accepts the payload from ('*' anybody, 'x' nobody, digit = that peer index).
// sigs = "-" | list of p<k> (pool) | v<k> (pool, recovery id as 27/28) | g<k> (adversary key k signs this very message) | j | s
// ov   = per peer: h handler runs | e transport error | j faulty peer answers junk | g faulty peer answers a valid signature | . self
//
// Monitors (independent of the model):
//
//	bcast:delivered_without_all_signatures          callback invoked although some honest member never produced a signature over (session,id,payload)
//	bcast:signed_two_hashes_same_requester_id       a member signed two payloads for one (requester,id)
//	bcast:two_payloads_same_sender_id               (<=1 adversary identity, authentic transport, sender-binding callbacks) two honest members accepted different payloads for (sender,id)
//	bcast:two_payloads_same_sender_id:pedersen_node_pubkeys_relay   same, with the real pedersen board callback (which does not bind the sender)
//	bcast:callback_payload_differs                  the callback received a message different from the one sent
package main

import (
	"bytes"
	"context"
	"crypto/sha256"
	"encoding/hex"
	"errors"
	"fmt"
	"sort"
	"strconv"
	"strings"
	"sync"
	"sync/atomic"
	"time"

	k1 "github.com/decred/dcrd/dcrec/secp256k1/v4"
	"github.com/libp2p/go-libp2p/core/host"
	"github.com/libp2p/go-libp2p/core/peer"
	"github.com/libp2p/go-libp2p/core/protocol"
	"google.golang.org/protobuf/proto"
	"google.golang.org/protobuf/types/known/anypb"
	"google.golang.org/protobuf/types/known/timestamppb"
	"google.golang.org/protobuf/types/known/wrapperspb"

	"github.com/obolnetwork/charon/app/k1util"
	"github.com/obolnetwork/charon/cluster"
	"github.com/obolnetwork/charon/dkg/bcast"
	pb "github.com/obolnetwork/charon/dkg/dkgpb/v1"
	"github.com/obolnetwork/charon/dkg/pedersen"
	"github.com/obolnetwork/charon/p2p"

	"verifharness/hx"
)

const (
	maxN       = 6
	bvURL      = "type.googleapis.com/google.protobuf.BytesValue"
	tsURL      = "type.googleapis.com/google.protobuf.Timestamp"
	unkURL     = "type.googleapis.com/verif.Unknown"
	npkURL     = "type.googleapis.com/dkg.dkgpb.v1.NodePubKeyMessage"
	pedersenID = "/charon/dkg/pedersen/1.0.0/node_pubkeys"
)

var (
	keys []*k1.PrivateKey
	pids []peer.ID
)

func init() {
	for i := 0; i <= maxN; i++ {
		h := sha256.Sum256([]byte(fmt.Sprintf("verif-c13-key-%d", i)))
		k := k1.PrivKeyFromBytes(h[:])
		id, err := p2p.PeerIDFromKey(k.PubKey())
		hx.Must(err)
		keys = append(keys, k)
		pids = append(pids, id)
	}
}

func idxOf(p peer.ID) int {
	for i, q := range pids {
		if q == p {
			return i
		}
	}
	return -1
}

func hexs(b []byte) string {
	if len(b) == 0 {
		return "-"
	}
	return hex.EncodeToString(b)
}

func unhex(s string) []byte {
	if s == "-" {
		return nil
	}
	b, err := hex.DecodeString(s)
	hx.Must(err)
	return b
}

type payload struct {
	turl string
	val  []byte
}

func (p payload) key() string     { return hexs([]byte(p.turl)) + ":" + hexs(p.val) }
func (p payload) any() *anypb.Any { return &anypb.Any{TypeUrl: p.turl, Value: p.val} }

func payOfMsg(m proto.Message) payload {
	a, err := anypb.New(m)
	hx.Must(err)
	return payload{a.GetTypeUrl(), a.GetValue()}
}

type sigMeta struct {
	signer int
	sess   string
	id     string
	pay    string
}

type world struct {
	idx      int
	session  []byte
	comps    []*bcast.Component
	boards   []*pedersen.Board
	tainted  bool                      // hypotheses of the agreement theorem broken by the script (spoofed identity, equal sessions)
	unbound  bool                      // an honest member broadcast a payload that the callbacks accept from other senders too
	accepted map[string]map[int]string // sender|id -> honest receiver -> payload key
	signed   map[string]string         // member|from|id -> payload key (monitor 3)
	honestBc []bcRec                   // completed honest broadcasts (for relay scripts)
}

type bcRec struct {
	a   int
	id  string
	pay payload
}

// signGate holds every call of a member's server-side sign function until release is closed.
type signGate struct {
	arrive  chan struct{}
	release chan struct{}
}

type cbRec struct {
	w, m, from int
	id         string
	acc        bool
	same       bool
}

type episode struct {
	run      *hx.Run
	n        int
	faulty   uint
	app      string
	worlds   [2]*world
	pool     [][]byte
	poolMeta []sigMeta
	ledger   map[string]bool
	ctx      context.Context
	cancel   context.CancelFunc

	gates  [2][]atomic.Pointer[signGate] // per component: gate inside the server's sign function (sreq2)
	mu     sync.Mutex
	cbs    []cbRec
	curPay payload
	bc     *bcState
}

func (ep *episode) isFaulty(i int) bool { return ep.faulty&(1<<uint(i)) != 0 }

func (ep *episode) dishonestCount() int {
	c := 0
	for i := 0; i <= ep.n; i++ {
		if ep.isFaulty(i) {
			c++
		}
	}
	return c
}

// ---- application side: CheckMessage / callback / oracles --------------------------------------

// boundTo: whom the generic harness callback accepts msg from: -2 anybody, -1 nobody, k>=0 peer k.
func boundTo(m proto.Message) int {
	bv, ok := m.(*wrapperspb.BytesValue)
	if !ok || len(bv.GetValue()) == 0 {
		return -1
	}
	switch b := bv.GetValue()[0]; {
	case b == 0xFF:
		return -2
	case b < 16:
		return int(b)
	default:
		return -1
	}
}

// genCheck is the harness' CheckMessage: BytesValue payloads, plus one type URL no Go type is
// registered for (signed by everybody, then refused by UnmarshalNew in handleMessage).
func genCheck(_ context.Context, _ peer.ID, a *anypb.Any) error {
	if a.GetTypeUrl() == unkURL {
		return nil
	}
	var bv wrapperspb.BytesValue
	return a.UnmarshalTo(&bv)
}

// flags computes the oracle flags <um><ck><bd> of a payload in world w.
func (ep *episode) flags(w int, p payload) string {
	a := p.any()
	m, err := a.UnmarshalNew()
	um, ck, bd := "0", "0", "x"
	if err == nil {
		um = "1"
	}
	if ep.app == "pedersen" {
		var npk pb.NodePubKeyMessage
		if a.UnmarshalTo(&npk) == nil {
			ck = "1"
		}
		if n, ok := m.(*pb.NodePubKeyMessage); err == nil && ok && bytes.Equal(n.GetSessionId(), ep.worlds[w].session) {
			bd = "*"
		}
		return um + ck + bd
	}
	if genCheck(nil, "", a) == nil {
		ck = "1"
	}
	if err == nil {
		switch b := boundTo(m); {
		case b == -2:
			bd = "*"
		case b >= 0:
			bd = strconv.FormatInt(int64(b), 16)
		}
	}
	return um + ck + bd
}

func (ep *episode) payTok(w int, p payload) string { return p.key() + ":" + ep.flags(w, p) }

func (ep *episode) callback(w, m int) bcast.Callback {
	return func(_ context.Context, pID peer.ID, msgID string, msg proto.Message) error {
		from := idxOf(pID)
		b := boundTo(msg)
		acc := b == -2 || b == from
		want, err := ep.curPay.any().UnmarshalNew()
		same := err == nil && proto.Equal(want, msg)
		ep.mu.Lock()
		ep.cbs = append(ep.cbs, cbRec{w, m, from, msgID, acc, same})
		ep.mu.Unlock()
		if !acc {
			return errors.New("payload not bound to sender")
		}
		return nil
	}
}

// ---- monitors -----------------------------------------------------------------------------------

func ledgerKey(signer int, sess []byte, id string, pay string) string {
	return fmt.Sprintf("%d|%s|%s|%s", signer, hexs(sess), hexs([]byte(id)), pay)
}

// recordSig: the real code of member m in world w produced sig over (session_w, id, pay).
func (ep *episode) recordSig(w, m int, id string, pay payload, sig []byte) int {
	ep.ledger[ledgerKey(m, ep.worlds[w].session, id, pay.key())] = true
	ep.pool = append(ep.pool, sig)
	ep.poolMeta = append(ep.poolMeta, sigMeta{m, hexs(ep.worlds[w].session), id, pay.key()})
	return len(ep.pool) - 1
}

// monitor 3
func (ep *episode) signedFor(w, m, from int, id string, pay payload) {
	wd := ep.worlds[w]
	k := fmt.Sprintf("%d|%d|%s", m, from, id)
	if prev, ok := wd.signed[k]; ok && prev != pay.key() {
		ep.run.Violate("bcast:signed_two_hashes_same_requester_id",
			fmt.Sprintf("world %d member %d signed payloads %s and %s for requester %d id %q", w, m, prev, pay.key(), from, id))
	}
	wd.signed[k] = pay.key()
}

// delivered: the application callback of member m (world w) was invoked for (from,id,pay).
func (ep *episode) delivered(w, m, from int, id string, pay payload, acc bool) {
	wd := ep.worlds[w]
	if ep.isFaulty(m) {
		return
	}
	// monitor 1
	for k := 0; k < ep.n; k++ {
		if ep.isFaulty(k) {
			continue
		}
		if !ep.ledger[ledgerKey(k, wd.session, id, pay.key())] {
			ep.run.Violate("bcast:delivered_without_all_signatures",
				fmt.Sprintf("world %d member %d: callback for id %q payload %s from %d, but honest member %d never signed it in this session", w, m, id, pay.key(), from, k))
			break
		}
	}
	if !acc {
		return
	}
	// monitor 2
	key := fmt.Sprintf("%d|%s", from, id)
	if wd.accepted[key] == nil {
		wd.accepted[key] = map[int]string{}
	}
	rs := make([]int, 0, len(wd.accepted[key]))
	for r := range wd.accepted[key] {
		rs = append(rs, r)
	}
	sort.Ints(rs)
	for _, r := range rs {
		pk := wd.accepted[key][r]
		if pk == pay.key() {
			continue
		}
		switch {
		case wd.tainted || ep.dishonestCount() > 1:
			ep.run.Count("scoped:disagreement_outside_hypotheses")
		case ep.app == "pedersen":
			ep.run.Violate("bcast:two_payloads_same_sender_id:pedersen_node_pubkeys_relay",
				fmt.Sprintf("world %d: pedersen boards of honest members %d and %d recorded different node public keys (%s vs %s) for sender %d", w, r, m, pk, pay.key(), from))
		case wd.unbound:
			ep.run.Count("scoped:disagreement_unbound_generic_callback")
		default:
			ep.run.Violate("bcast:two_payloads_same_sender_id",
				fmt.Sprintf("world %d: honest members %d and %d accepted different payloads (%s vs %s) for sender %d id %q", w, r, m, pk, pay.key(), from, id))
		}
		break
	}
	wd.accepted[key][m] = pay.key()
}

// ---- episode construction -----------------------------------------------------------------------

func newEpisode(run *hx.Run, n int, sessA, sessB []byte, faulty uint, app string) *episode {
	ctx, cancel := context.WithCancel(context.Background())
	ep := &episode{run: run, n: n, faulty: faulty, app: app, ledger: map[string]bool{}, ctx: ctx, cancel: cancel}
	for w, s := range [][]byte{sessA, sessB} {
		wd := &world{idx: w, session: s, accepted: map[string]map[int]string{}, signed: map[string]string{},
			boards: make([]*pedersen.Board, n)}
		ep.gates[w] = make([]atomic.Pointer[signGate], n)
		for m := 0; m < n; m++ {
			c := bcast.VerifNew(pids[m], pids[:n], keys[m], s, ep.sendRecv(w, m), ep.send(w, m))
			gp := &ep.gates[w][m]
			c.VerifWrapSign(func(next func(string, []byte) ([]byte, error)) func(string, []byte) ([]byte, error) {
				return func(id string, h []byte) ([]byte, error) {
					if g := gp.Load(); g != nil {
						g.arrive <- struct{}{}
						<-g.release
					}
					return next(id, h)
				}
			})
			wd.comps = append(wd.comps, c)
		}
		if bytes.Equal(sessA, sessB) {
			wd.tainted = true // two instances of one session: outside the "sessions differ" hypothesis
		}
		ep.worlds[w] = wd
	}
	return ep
}

func (ep *episode) drainBoards() {
	for _, wd := range ep.worlds {
		for _, b := range wd.boards {
			if b == nil {
				continue
			}
			for {
				select {
				case <-b.IncomingNodePubKeys():
					continue
				default:
				}
				break
			}
		}
	}
}

func (ep *episode) doReg(w, m int, id string) string {
	wd := ep.worlds[w]
	if ep.app == "pedersen" {
		if id != pedersenID {
			panic("pedersen episodes register only " + pedersenID)
		}
		if wd.boards[m] == nil {
			peerMap := map[peer.ID]cluster.NodeIdx{}
			for i := 0; i < ep.n; i++ {
				peerMap[pids[i]] = cluster.NodeIdx{PeerIdx: i, ShareIdx: i + 1}
			}
			cfg := pedersen.NewConfig(pids[m], peerMap, ep.n-1, wd.session, time.Second, nil)
			wd.boards[m] = pedersen.NewBoard(ep.ctx, bcast.VerifStubHost(pids[m]), cfg, wd.comps[m])
		}
		return "ok"
	}
	wd.comps[m].RegisterMessageIDFuncs(id, ep.callback(w, m), genCheck)
	return "ok"
}

// ---- direct handler calls (the harness as transport / adversary) ------------------------------

func sigReqClass(err error) string {
	s := err.Error()
	switch {
	case strings.Contains(s, "unknown message id"):
		return "unknown-id"
	case strings.Contains(s, "signature request message check"):
		return "check-fail"
	case strings.Contains(s, "dedup"):
		return "dup"
	case strings.Contains(s, "sign hash"):
		return "sign-err"
	default:
		return "err:" + s
	}
}

func msgClass(err error) string {
	s := err.Error()
	switch {
	case strings.Contains(s, "invalid number of signatures"):
		return "wrong-count"
	case strings.Contains(s, "invalid message id"):
		return "not-allowed"
	case strings.Contains(s, "invalid signature length"):
		return "bad-len"
	case strings.Contains(s, "verify signatures"):
		return "bad-sig"
	case strings.Contains(s, "unmarshal any"):
		return "bad-any"
	case strings.Contains(s, "unknown message id"):
		return "unknown-id"
	case strings.Contains(s, "callback"):
		return "cb-err"
	default:
		return "err:" + s
	}
}

func (ep *episode) spoofCheck(w, from int) {
	if from > ep.n || !ep.isFaulty(from) {
		ep.worlds[w].tainted = true // transport identity of an honest member used by the script
		ep.run.Count("script:spoofed_honest_identity")
	}
}

// callSigReq runs the real handler of member m and does the bookkeeping shared by sreq and bc.
func (ep *episode) callSigReq(w, m, from int, id string, pay payload) (string, []byte) {
	ep.curPay = pay
	resp, ok, err := ep.worlds[w].comps[m].VerifHandleSigRequest(ep.ctx, pids[from], &pb.BCastSigRequest{Id: id, Message: pay.any()})
	return ep.finishSigReq(w, m, from, id, pay, resp, ok, err)
}

// finishSigReq classifies a handler answer, checks the signature and feeds monitors 1 and 3.
func (ep *episode) finishSigReq(w, m, from int, id string, pay payload, resp proto.Message, ok bool, err error) (string, []byte) {
	if err != nil {
		return sigReqClass(err), nil
	}
	r, isResp := resp.(*pb.BCastSigResponse)
	if !ok || !isResp || r.GetId() != id {
		return "bad-response", nil
	}
	h, err := bcast.VerifHash(ep.worlds[w].session, id, pay.any())
	hx.Must(err)
	pk := keys[m].PubKey()
	if good, err := k1util.Verify65(pk, h, r.GetSignature()); err != nil || !good {
		return "ok-but-invalid-signature", nil
	}
	ep.signedFor(w, m, from, id, pay)
	ep.ledger[ledgerKey(m, ep.worlds[w].session, id, pay.key())] = true
	return "ok", r.GetSignature()
}

// doSigReq2: two overlapping signature requests of one requester for one id. Request A runs until
// it returns or sits inside the member's sign function; only then request B starts and runs until it
// returns or reaches the sign function as well; then both are released. With an atomic
// check-and-record B never gets to sign a different hash.
func (ep *episode) doSigReq2(w, m, from int, id string, pa, pb2 payload) (string, string) {
	ep.spoofCheck(w, from)
	comp := ep.worlds[w].comps[m]
	g := &signGate{arrive: make(chan struct{}, 2), release: make(chan struct{})}
	ep.gates[w][m].Store(g)
	type res struct {
		resp proto.Message
		ok   bool
		err  error
	}
	call := func(p payload, out chan res) {
		r, ok, err := comp.VerifHandleSigRequest(ep.ctx, pids[from], &pb.BCastSigRequest{Id: id, Message: p.any()})
		out <- res{r, ok, err}
	}
	ca, cb := make(chan res, 1), make(chan res, 1)
	var ra, rb *res
	go call(pa, ca)
	select {
	case <-g.arrive:
	case r := <-ca:
		ra = &r
	}
	go call(pb2, cb)
	select {
	case <-g.arrive:
		ep.run.Count("sreq2:second_request_reached_signing")
	case r := <-cb:
		rb = &r
	}
	close(g.release)
	if ra == nil {
		r := <-ca
		ra = &r
	}
	if rb == nil {
		r := <-cb
		rb = &r
	}
	ep.gates[w][m].Store(nil)
	clsA, sigA := ep.finishSigReq(w, m, from, id, pa, ra.resp, ra.ok, ra.err)
	clsB, sigB := ep.finishSigReq(w, m, from, id, pb2, rb.resp, rb.ok, rb.err)
	outA, outB := clsA, clsB
	if clsA == "ok" {
		outA = fmt.Sprintf("ok s%d", ep.recordSig(w, m, id, pa, sigA))
	}
	if clsB == "ok" {
		outB = fmt.Sprintf("ok s%d", ep.recordSig(w, m, id, pb2, sigB))
	}
	order := "ab"
	if clsB == "ok" && clsA == "dup" {
		order = "ba"
	}
	ep.run.Count("sreq2:" + clsA + "+" + clsB)
	return fmt.Sprintf("%s %s d=%d", outA, outB, comp.VerifDedupLen()), order
}

func (ep *episode) doSigReq(w, m, from int, id string, pay payload) string {
	ep.spoofCheck(w, from)
	cls, sig := ep.callSigReq(w, m, from, id, pay)
	d := ep.worlds[w].comps[m].VerifDedupLen()
	ep.run.Count("sreq:" + cls)
	if cls == "ok" {
		k := ep.recordSig(w, m, id, pay, sig)
		return fmt.Sprintf("ok s%d d=%d", k, d)
	}
	return fmt.Sprintf("%s d=%d", cls, d)
}

// callMsg runs the real message handler of member m; returns the canonical class string.
func (ep *episode) callMsg(w, m, from int, id string, pay payload, sigs [][]byte) string {
	ep.curPay = pay
	ep.mu.Lock()
	ep.cbs = nil
	ep.mu.Unlock()
	_, _, err := ep.worlds[w].comps[m].VerifHandleMessage(ep.ctx, pids[from], &pb.BCastMessage{Id: id, Message: pay.any(), Signatures: sigs})
	cls := "ok"
	if err != nil {
		cls = msgClass(err)
	}
	ep.mu.Lock()
	cbs := ep.cbs
	ep.cbs = nil
	ep.mu.Unlock()
	if ep.app == "pedersen" {
		// real board callback: invocation is visible through the handler's result
		ep.drainBoards()
		if cls == "ok" || cls == "cb-err" {
			cbs = []cbRec{{w, m, from, id, cls == "ok", true}}
		}
	}
	out := cls
	for _, c := range cbs {
		if c.w != w || c.m != m || c.from != from || c.id != id {
			ep.run.Violate("bcast:callback_payload_differs", fmt.Sprintf("callback at (%d,%d) from %d id %q for a message addressed to (%d,%d) from %d id %q", c.w, c.m, c.from, c.id, w, m, from, id))
		}
		if !c.same {
			ep.run.Violate("bcast:callback_payload_differs", fmt.Sprintf("world %d member %d: callback payload differs from the sent one (id %q)", w, m, id))
		}
		ep.delivered(w, m, from, id, pay, c.acc)
		if c.acc {
			out += " cb=1"
		} else {
			out += " cb=0"
		}
	}
	return out
}

func junkSig(tag byte) []byte {
	s := make([]byte, 65)
	for i := range s {
		s[i] = tag + byte(i)*7
	}
	s[64] = 9 // invalid recovery id
	return s
}

func (ep *episode) advSign(w, k int, id string, pay payload) []byte {
	if k > ep.n || !ep.isFaulty(k) {
		panic(fmt.Sprintf("bad op: adversary signature requested for honest key %d", k))
	}
	h, err := bcast.VerifHash(ep.worlds[w].session, id, pay.any())
	hx.Must(err)
	s, err := k1util.Sign(keys[k], h)
	hx.Must(err)
	return s
}

func (ep *episode) parseSigs(w int, id string, pay payload, tok string) [][]byte {
	if tok == "-" {
		return nil
	}
	var out [][]byte
	for _, t := range strings.Split(tok, ",") {
		switch t[0] {
		case 'j':
			out = append(out, junkSig(1))
		case 's':
			out = append(out, make([]byte, 64))
		case 'p', 'v':
			k, err := strconv.Atoi(t[1:])
			hx.Must(err)
			s := append([]byte(nil), ep.pool[k]...)
			if t[0] == 'v' {
				s[64] += 27
			}
			out = append(out, s)
		case 'g':
			k, err := strconv.Atoi(t[1:])
			hx.Must(err)
			out = append(out, ep.advSign(w, k, id, pay))
		default:
			panic("bad sig token " + t)
		}
	}
	return out
}

func (ep *episode) doMsg(w, m, from int, id string, pay payload, sigTok string) string {
	ep.spoofCheck(w, from)
	out := ep.callMsg(w, m, from, id, pay, ep.parseSigs(w, id, pay, sigTok))
	ep.run.Count("msg:" + strings.Fields(out)[0])
	return out
}

// ---- client.Broadcast through the harness transport ---------------------------------------------

type bcState struct {
	w, a     int
	id       string
	pay      payload
	ov       string
	expected int
	arrived  int
	gate     chan struct{}
	wg       sync.WaitGroup
	serial   sync.Mutex
	reqCls   map[int]string
	reqSig   map[int][]byte
	msgCls   map[int]string
	selfSig  []byte
}

func (ep *episode) sendRecv(w, a int) p2p.SendReceiveFunc {
	return func(_ context.Context, _ host.Host, pID peer.ID, req, resp proto.Message, _ protocol.ID, _ ...p2p.SendRecvOption) error {
		st := ep.bc
		h := idxOf(pID)
		if st == nil || st.w != w || st.a != a {
			panic("transport used outside a bc op")
		}
		// All requests are in flight before any is answered (forkjoin fails fast otherwise and the
		// set of peers that saw the request would depend on goroutine scheduling).
		st.wg.Add(1)
		defer st.wg.Done()
		ep.mu.Lock()
		st.arrived++
		if st.arrived == st.expected {
			close(st.gate)
		}
		ep.mu.Unlock()
		if st.expected > 0 {
			<-st.gate
		}
		st.serial.Lock() // handlers of different peers are independent; serialised for the bookkeeping
		defer st.serial.Unlock()
		r := req.(*pb.BCastSigRequest)
		out := resp.(*pb.BCastSigResponse)
		switch st.ov[h] {
		case 'h':
			cls, sig := ep.callSigReq(w, h, a, r.GetId(), payload{r.GetMessage().GetTypeUrl(), r.GetMessage().GetValue()})
			st.reqCls[h] = cls
			if cls != "ok" {
				return errors.New("sig request refused: " + cls)
			}
			st.reqSig[h] = sig
			out.Id, out.Signature = r.GetId(), sig
		case 'e':
			st.reqCls[h] = "o"
			return errors.New("transport error")
		case 'j':
			st.reqCls[h] = "o"
			out.Id, out.Signature = r.GetId(), junkSig(3)
		case 'g':
			st.reqCls[h] = "o"
			out.Id, out.Signature = r.GetId(), ep.advSign(w, h, st.id, st.pay)
		default:
			panic("bad ov")
		}
		return nil
	}
}

func (ep *episode) send(w, a int) p2p.SendFunc {
	return func(_ context.Context, _ host.Host, _ protocol.ID, pID peer.ID, msg proto.Message, _ ...p2p.SendRecvOption) error {
		st := ep.bc
		h := idxOf(pID)
		m := msg.(*pb.BCastMessage)
		st.selfSig = m.GetSignatures()[a]
		if hh, err := bcast.VerifHash(ep.worlds[w].session, st.id, st.pay.any()); err == nil {
			if good, err := k1util.Verify65(keys[a].PubKey(), hh, st.selfSig); err == nil && good {
				ep.ledger[ledgerKey(a, ep.worlds[w].session, st.id, st.pay.key())] = true // the client's own signature left the process
			}
		}
		if st.ov[h] != 'h' {
			st.msgCls[h] = "o"
			return nil
		}
		// one-way send: the receiver's handler error is not reported to the sender
		st.msgCls[h] = ep.callMsg(w, h, a, m.GetId(), payload{m.GetMessage().GetTypeUrl(), m.GetMessage().GetValue()}, m.GetSignatures())
		return nil
	}
}

func (ep *episode) doBcast(w, a int, id string, pay payload, ov string, clientRegistered bool) string {
	if len(ov) != ep.n {
		panic("bad ov length")
	}
	for i := 0; i < ep.n; i++ {
		if i != a && (ov[i] == 'g' || ov[i] == 'j') && !ep.isFaulty(i) {
			panic("bad op: tampering with an honest peer's answer")
		}
	}
	msg, err := pay.any().UnmarshalNew()
	if err != nil {
		panic("bad op: bc needs a payload that unmarshals")
	}
	if payOfMsg(msg).key() != pay.key() {
		panic("bad op: bc needs a canonically encoded payload")
	}
	wd := ep.worlds[w]
	st := &bcState{w: w, a: a, id: id, pay: pay, ov: ov, gate: make(chan struct{}),
		reqCls: map[int]string{}, reqSig: map[int][]byte{}, msgCls: map[int]string{}}
	if clientRegistered {
		st.expected = ep.n - 1
	}
	// (unregistered client: the requests forked before the client's own slot race with the
	// cancellation on return; no gate, whatever got out is processed. The generator only uses a == 0.)
	ep.bc = st
	if !ep.isFaulty(a) {
		if b := ep.flags(w, pay)[2]; b != byte('0'+a) {
			wd.unbound = true
		}
	}
	berr := wd.comps[a].Broadcast(ep.ctx, id, msg)
	if !clientRegistered && a > 0 {
		time.Sleep(20 * time.Millisecond)
	}
	st.wg.Wait()
	ep.bc = nil

	res := "ok"
	if berr != nil {
		s := berr.Error()
		switch {
		case strings.Contains(s, "sign hash"):
			res = "sign-fail"
		case strings.Contains(s, "send sig request"):
			res = "req-fail"
		case strings.Contains(s, "verify signatures"):
			res = "verify-fail"
		default:
			res = "err:" + s
		}
	}
	var req, msgs []string
	for h := 0; h < ep.n; h++ {
		switch {
		case h == a:
			req = append(req, ".")
			msgs = append(msgs, ".")
		default:
			if c, ok := st.reqCls[h]; ok {
				req = append(req, c)
			} else {
				req = append(req, "-")
			}
			if c, ok := st.msgCls[h]; ok {
				msgs = append(msgs, c)
			} else {
				msgs = append(msgs, "-")
			}
		}
	}
	hs := make([]int, 0, len(st.reqSig))
	for h := range st.reqSig {
		hs = append(hs, h)
	}
	sort.Ints(hs)
	for _, h := range hs {
		ep.recordSig(w, h, id, pay, st.reqSig[h])
	}
	if res == "ok" {
		ep.recordSig(w, a, id, pay, st.selfSig)
		if !ep.isFaulty(a) {
			wd.honestBc = append(wd.honestBc, bcRec{a, id, pay})
		}
	}
	ep.run.Count("bc:" + res)
	return fmt.Sprintf("%s req=%s msg=%s pool=%d", res, strings.Join(req, ","), strings.Join(msgs, ","), len(ep.pool))
}

// ---- op execution -------------------------------------------------------------------------------

func parsePay(tok string) payload {
	f := strings.Split(tok, ":")
	if len(f) != 3 {
		panic("bad pay token " + tok)
	}
	return payload{string(unhex(f[0])), unhex(f[1])}
}

type driver struct {
	run *hx.Run
	ep  *episode
	reg map[string]bool // w|m|id registered (to know whether a client can self-sign)
	hashSeen map[string]string // signed hash (hex) -> input tuple
}

func atoi(s string) int {
	v, err := strconv.Atoi(s)
	hx.Must(err)
	return v
}

func (d *driver) exec(op string) string {
	f := strings.Fields(op)
	var out string
	switch f[0] {
	case "new":
		if d.ep != nil {
			d.ep.cancel()
		}
		mask, err := strconv.ParseUint(f[4], 10, 32)
		hx.Must(err)
		d.ep = newEpisode(d.run, atoi(f[1]), unhex(f[2]), unhex(f[3]), uint(mask), f[5])
		d.reg = map[string]bool{}
		out = "ok"
	case "reg":
		id := string(unhex(f[3]))
		out = d.ep.doReg(atoi(f[1]), atoi(f[2]), id)
		d.reg[f[1]+"|"+f[2]+"|"+id] = true
	case "sreq":
		out = d.ep.doSigReq(atoi(f[1]), atoi(f[2]), atoi(f[3]), string(unhex(f[4])), parsePay(f[5]))
	case "sreq2":
		var order string
		out, order = d.ep.doSigReq2(atoi(f[1]), atoi(f[2]), atoi(f[3]), string(unhex(f[4])), parsePay(f[5]), parsePay(f[6]))
		f[7] = order // oracle: which sequential order the implementation's outcome is
		op = strings.Join(f, " ")
	case "msg":
		out = d.ep.doMsg(atoi(f[1]), atoi(f[2]), atoi(f[3]), string(unhex(f[4])), parsePay(f[5]), f[6])
	case "bc":
		id := string(unhex(f[3]))
		out = d.ep.doBcast(atoi(f[1]), atoi(f[2]), id, parsePay(f[4]), f[5], d.reg[f[1]+"|"+f[2]+"|"+id])
	case "hash":
		h, err := bcast.VerifHash(unhex(f[1]), string(unhex(f[2])), &anypb.Any{TypeUrl: string(unhex(f[3])), Value: unhex(f[4])})
		hx.Must(err)
		out = hex.EncodeToString(h)
		// the signed hash must separate (session, id, type url, value): two different tuples with one
		// hash mean that signatures given for one payload verify for another
		tuple := strings.Join(f[1:5], " ")
		if d.hashSeen == nil {
			d.hashSeen = map[string]string{}
		}
		if prev, ok := d.hashSeen[out]; ok && prev != tuple {
			d.run.Violate("bcast:signed_hash_collision", fmt.Sprintf("hash %s is the signed hash of (session id typeurl value) = (%s) and of (%s)", out, prev, tuple))
		}
		d.hashSeen[out] = tuple
	default:
		panic("bad op " + op)
	}
	d.run.Op(op, out)
	return out
}

// ---- generator ------------------------------------------------------------------------------------

type gen struct {
	d   *driver
	rng *hx.Rng
	ids []string
}

func bvPay(data ...byte) payload { return payOfMsg(&wrapperspb.BytesValue{Value: data}) }

func (g *gen) ep() *episode { return g.d.ep }

func (g *gen) honestMembers() []int {
	var r []int
	for i := 0; i < g.ep().n; i++ {
		if !g.ep().isFaulty(i) {
			r = append(r, i)
		}
	}
	return r
}

func (g *gen) faultyIDs() []int { // adversary identities, outsider included
	var r []int
	for i := 0; i <= g.ep().n; i++ {
		if g.ep().isFaulty(i) {
			r = append(r, i)
		}
	}
	return r
}

func (g *gen) pick(xs []int) int { return xs[g.rng.Intn(len(xs))] }

// ownPay: a payload the callbacks accept from `owner` only (or, rarely, other kinds).
func (g *gen) ownPay(w, owner int) payload {
	ep := g.ep()
	if ep.app == "pedersen" {
		sess := ep.worlds[w].session
		if g.rng.Chance(1, 8) {
			sess = []byte("other-session")
		}
		return payOfMsg(&pb.NodePubKeyMessage{SessionId: sess, PublicKey: []byte{byte(owner), byte(g.rng.Intn(4)), 0xAA}})
	}
	switch c := g.rng.Intn(40); {
	case c == 0:
		return bvPay(0xFF, byte(g.rng.Intn(4))) // accepted from anybody (pedersen style)
	case c == 1:
		return payOfMsg(&timestamppb.Timestamp{Seconds: int64(1 + g.rng.Intn(3))}) // CheckMessage refuses
	case c == 2:
		return bvPay(byte((owner+1)%ep.n), byte(g.rng.Intn(4))) // names another peer
	case c == 3:
		return bvPay(0x77) // bound to nobody
	default:
		return bvPay(byte(owner), byte(g.rng.Intn(4)), byte(g.rng.Intn(2)))
	}
}

func (g *gen) weirdPay() payload {
	switch g.rng.Intn(4) {
	case 0:
		return payload{unkURL, []byte{1, 2, 3}}
	case 1:
		return payload{bvURL, []byte{0xff, 0xff, 0xff}} // does not unmarshal
	case 2:
		return payload{"", []byte{0x0a, 0x01, 0x00}}
	default:
		return payload{bvURL[:len(bvURL)-1], append([]byte("e"), 0x0a, 0x01, 0x00)} // bytes shifted across the field border
	}
}

// bestSig: a token for position i of the signature list for (w,id,pay).
func (g *gen) bestSig(w, i int, id string, pay payload, sloppy bool) string {
	ep := g.ep()
	if ep.isFaulty(i) {
		return fmt.Sprintf("g%d", i)
	}
	sess := hexs(ep.worlds[w].session)
	exact, near := -1, -1
	for k := len(ep.poolMeta) - 1; k >= 0; k-- {
		m := ep.poolMeta[k]
		if m.signer != i {
			continue
		}
		if m.sess == sess && m.id == id && m.pay == pay.key() {
			exact = k
			break
		}
		if near < 0 && (m.id == id || m.pay == pay.key()) {
			near = k
		}
	}
	tok := "j"
	switch {
	case exact >= 0:
		tok = fmt.Sprintf("p%d", exact)
		if g.rng.Chance(1, 12) {
			tok = fmt.Sprintf("v%d", exact)
		}
	case near >= 0 && sloppy:
		tok = fmt.Sprintf("p%d", near)
	case sloppy && len(ep.pool) > 0 && g.rng.Chance(1, 2):
		tok = fmt.Sprintf("p%d", g.rng.Intn(len(ep.pool)))
	}
	return tok
}

func (g *gen) sigList(w int, id string, pay payload) string {
	ep := g.ep()
	toks := make([]string, ep.n)
	for i := range toks {
		toks[i] = g.bestSig(w, i, id, pay, true)
	}
	fs := g.faultyIDs()
	switch c := g.rng.Intn(24); {
	case c == 0 && ep.n >= 2: // permutation
		i, j := g.rng.Intn(ep.n), g.rng.Intn(ep.n)
		toks[i], toks[j] = toks[j], toks[i]
	case c == 1: // one slot replaced by another member's signature
		toks[g.rng.Intn(ep.n)] = toks[g.rng.Intn(ep.n)]
	case c == 2 && len(fs) > 0 && fs[0] < ep.n: // all slots signed by the adversary
		for i := range toks {
			toks[i] = fmt.Sprintf("g%d", fs[0])
		}
	case c == 3: // subset
		toks = toks[:g.rng.Intn(ep.n)]
	case c == 4: // one extra
		toks = append(toks, toks[0])
	case c == 5:
		toks[g.rng.Intn(ep.n)] = "s"
	case c == 6:
		toks[g.rng.Intn(ep.n)] = "j"
	case c == 7 && len(ep.pool) > 0:
		toks[g.rng.Intn(ep.n)] = fmt.Sprintf("p%d", g.rng.Intn(len(ep.pool)))
	case c == 8: // full rotation
		toks = append(toks[1:], toks[0])
	case c == 9 && len(fs) > 0: // outsider / adversary signature in an honest slot
		hs := g.honestMembers()
		if len(hs) > 0 {
			toks[g.pick(hs)] = fmt.Sprintf("g%d", g.pick(fs))
		}
	}
	if len(toks) == 0 {
		return "-"
	}
	return strings.Join(toks, ",")
}

func (g *gen) caseKey(kind, out string) {
	f := strings.Fields(out)
	g.d.run.Case(fmt.Sprintf("%s/n%d/f%d/%s", kind, g.ep().n, g.ep().dishonestCount(), strings.Join(f[:min(len(f), 2)], " ")))
}

func (g *gen) sreq(kind string, w, m, from int, id string, pay payload) string {
	out := g.d.exec(fmt.Sprintf("sreq %d %d %d %s %s", w, m, from, hexs([]byte(id)), g.ep().payTok(w, pay)))
	g.caseKey(kind+"/sreq", strings.Fields(out)[0])
	return out
}

func (g *gen) sreq2(kind string, w, m, from int, id string, pa, pb2 payload) string {
	out := g.d.exec(fmt.Sprintf("sreq2 %d %d %d %s %s %s ab", w, m, from, hexs([]byte(id)), g.ep().payTok(w, pa), g.ep().payTok(w, pb2)))
	var cls []string
	for _, t := range strings.Fields(out) {
		if !strings.HasPrefix(t, "d=") && !(len(t) > 1 && t[0] == 's' && t[1] >= '0' && t[1] <= '9') {
			cls = append(cls, t)
		}
	}
	g.d.run.Case(fmt.Sprintf("%s/sreq2/n%d/%s", kind, g.ep().n, strings.Join(cls, "+")))
	return out
}

func (g *gen) msg(kind string, w, m, from int, id string, pay payload, sigs string) string {
	out := g.d.exec(fmt.Sprintf("msg %d %d %d %s %s %s", w, m, from, hexs([]byte(id)), g.ep().payTok(w, pay), sigs))
	g.caseKey(kind+"/msg", out)
	return out
}

func (g *gen) honestBcast(w int) {
	ep := g.ep()
	a := g.rng.Intn(ep.n)
	id := g.ids[g.rng.Intn(len(g.ids))]
	if !g.d.reg[fmt.Sprintf("%d|%d|%s", w, a, id)] && a != 0 {
		return // unregistered client: which forked requests get out is a scheduling race in Go unless a == 0
	}
	pay := g.ownPay(w, a)
	ov := make([]byte, ep.n)
	for i := range ov {
		switch {
		case i == a:
			ov[i] = '.'
		case ep.isFaulty(i):
			ov[i] = "ggggghjje"[g.rng.Intn(9)]
		case g.rng.Chance(1, 25):
			ov[i] = 'e'
		default:
			ov[i] = 'h'
		}
	}
	out := g.d.exec(fmt.Sprintf("bc %d %d %s %s %s", w, a, hexs([]byte(id)), ep.payTok(w, pay), string(ov)))
	g.caseKey("bcast", out)
}

// equivocate: adversary identity f asks the members (any order) to sign one of two payloads, then
// tries to deliver them with whatever signatures it could collect.
func (g *gen) equivocate(w int, withhold bool) {
	ep := g.ep()
	fs := g.faultyIDs()
	if len(fs) == 0 {
		return
	}
	f := g.pick(fs)
	id := g.ids[g.rng.Intn(len(g.ids))]
	pays := []payload{g.ownPay(w, f), g.ownPay(w, f)}
	switch g.rng.Intn(6) {
	case 0, 1:
		pays[1] = pays[0] // no equivocation: a (faulty) sender behaving well
	case 2:
		if ep.app != "pedersen" {
			pays[1] = payload{unkURL, []byte{byte(f), byte(g.rng.Intn(3))}} // signed by all, cannot be unmarshalled
		}
	}
	for _, m := range g.rng.Perm(ep.n) {
		if m == f || (withhold && g.rng.Chance(1, 3)) {
			continue
		}
		if g.rng.Chance(1, 3) { // both payloads at the same time
			i := g.rng.Intn(2)
			g.sreq2("equiv", w, m, f, id, pays[i], pays[1-i])
			continue
		}
		g.sreq("equiv", w, m, f, id, pays[g.rng.Intn(2)])
		if g.rng.Chance(1, 5) {
			g.sreq("equiv", w, m, f, id, pays[g.rng.Intn(2)]) // second request: same hash ok, other hash dup
		}
	}
	if len(fs) > 1 && g.rng.Chance(1, 2) { // second adversary identity lends its slot
		f2 := fs[(g.rng.Intn(len(fs)-1)+1+indexOf(fs, f))%len(fs)]
		for _, m := range g.rng.Perm(ep.n) {
			if m != f2 {
				g.sreq("collude", w, m, f2, id, pays[1])
			}
		}
	}
	for _, m := range g.rng.Perm(ep.n) {
		if m == f {
			continue
		}
		p := pays[g.rng.Intn(2)]
		g.msg("equiv", w, m, f, id, p, g.sigList(w, id, p))
	}
}

func indexOf(xs []int, x int) int {
	for i, y := range xs {
		if y == x {
			return i
		}
	}
	return 0
}

// relay: the adversary forwards an honest member's fully signed message under its own identity
// (or, in spoof episodes, under the honest sender's identity), also across ids and sessions.
func (g *gen) relay(w int, spoof bool) {
	ep := g.ep()
	wd := ep.worlds[w]
	fs := g.faultyIDs()
	if len(wd.honestBc) == 0 || len(fs) == 0 {
		return
	}
	rec := wd.honestBc[g.rng.Intn(len(wd.honestBc))]
	f := g.pick(fs)
	for _, m := range g.rng.Perm(ep.n) {
		if m == rec.a || g.rng.Chance(1, 4) {
			continue
		}
		from := f
		if spoof && g.rng.Chance(1, 2) {
			from = rec.a
		}
		tw, tid := w, rec.id
		switch g.rng.Intn(8) {
		case 0: // cross-session replay of the same list
			tw = 1 - w
		case 1: // cross-id replay
			tid = g.ids[g.rng.Intn(len(g.ids))]
		}
		// signature list assembled for (w, rec.id): replays keep it as is
		sigs := g.sigList(w, rec.id, rec.pay)
		out := g.d.exec(fmt.Sprintf("msg %d %d %d %s %s %s", tw, m, from, hexs([]byte(tid)), ep.payTok(tw, rec.pay), sigs))
		g.caseKey(fmt.Sprintf("relay/x%d%d", b2i(tw != w), b2i(tid != rec.id)), out)
	}
}

func b2i(b bool) int {
	if b {
		return 1
	}
	return 0
}

func (g *gen) noise(w int) {
	ep := g.ep()
	id := g.ids[g.rng.Intn(len(g.ids))]
	if g.rng.Chance(1, 6) {
		id = "zz" // never registered
	}
	from := g.rng.Intn(ep.n + 1)
	if fs := g.faultyIDs(); len(fs) > 0 && g.rng.Chance(4, 5) {
		from = g.pick(fs)
	}
	m := g.rng.Intn(ep.n)
	pay := g.ownPay(w, from)
	if g.rng.Chance(1, 3) {
		pay = g.weirdPay()
	}
	switch g.rng.Intn(4) {
	case 3:
		other := g.ownPay(w, from)
		if g.rng.Chance(1, 4) {
			other = g.weirdPay()
		}
		g.sreq2("noise", w, m, from, id, pay, other)
	case 0:
		g.sreq("noise", w, m, from, id, pay)
	case 1:
		g.msg("noise", w, m, from, id, pay, g.sigList(w, id, pay))
	default:
		// the same fields cut differently: must hash differently
		s := []byte("sess-A")
		i := []byte(id)
		t := []byte(pay.turl)
		v := pay.val
		g.d.exec(fmt.Sprintf("hash %s %s %s %s", hexs(s), hexs(i), hexs(t), hexs(v)))
		if len(i) > 0 {
			g.d.exec(fmt.Sprintf("hash %s %s %s %s", hexs(append(append([]byte{}, s...), i[0])), hexs(i[1:]), hexs(t), hexs(v)))
		}
		if len(t) > 0 {
			g.d.exec(fmt.Sprintf("hash %s %s %s %s", hexs(s), hexs(append(append([]byte{}, i...), t[0])), hexs(t[1:]), hexs(v)))
			g.d.exec(fmt.Sprintf("hash %s %s %s %s", hexs(s), hexs(i), hexs(t[:len(t)-1]), hexs(append([]byte{t[len(t)-1]}, v...))))
		}
		g.d.run.Count("hash:ambiguity_probe")
	}
}

func (g *gen) episode() {
	rng := g.rng
	n := 3 + rng.Intn(4)
	app := "gen"
	if rng.Chance(1, 20) {
		app = "pedersen"
	}
	// adversary identities: bit i < n a member, bit n the outsider
	var mask uint
	spoof := false
	switch c := rng.Intn(20); {
	case c < 2: // everybody honest
	case c < 13: // one faulty member
		mask = 1 << uint(rng.Intn(n))
	case c < 14: // only an outsider
		mask = 1 << uint(n)
	case c < 18: // two adversary identities (D-10 territory)
		a := rng.Intn(n)
		b := (a + 1 + rng.Intn(n)) % (n + 1)
		mask = 1<<uint(a) | 1<<uint(b)
	default: // one faulty member, and the script also spoofs honest identities
		mask = 1 << uint(rng.Intn(n))
		spoof = true
	}
	sessA := []byte("sess-A")
	sessB := []byte("sess-B")
	switch rng.Intn(12) {
	case 0:
		sessB = sessA
	case 1:
		sessB = []byte("sess-Ab") // sessA plus the first byte of id "b1": ambiguous without length prefixes
	case 2:
		sessA, sessB = nil, []byte{0}
	}
	if app == "pedersen" {
		g.ids = []string{pedersenID}
	} else {
		g.ids = [][]string{{"b1", "1"}, {"b1", "b2", "1"}, {"frost/round1", "frost/round2"}, {"b1"}}[rng.Intn(4)]
	}
	g.d.exec(fmt.Sprintf("new %d %s %s %d %s", n, hexs(sessA), hexs(sessB), mask, app))
	for w := 0; w < 2; w++ {
		for m := 0; m < n; m++ {
			for _, id := range g.ids {
				if rng.Chance(1, 25) {
					continue // this member does not know the id
				}
				g.d.exec(fmt.Sprintf("reg %d %d %s", w, m, hexs([]byte(id))))
			}
		}
	}
	steps := 4 + rng.Intn(8)
	for s := 0; s < steps; s++ {
		w := 0
		if rng.Chance(1, 4) {
			w = 1
		}
		switch c := rng.Intn(20); {
		case c < 6:
			g.honestBcast(w)
		case c < 11:
			g.equivocate(w, false)
		case c < 13:
			g.equivocate(w, true)
		case c < 17:
			g.relay(w, spoof)
		default:
			g.noise(w)
		}
	}
	if app == "pedersen" {
		g.pedersenRelay()
	}
}

// pedersenRelay: the scripted relay against the real pedersen board callback: honest member a
// broadcasts its node public key; faulty f gets its own key signed, sends it to one honest member
// and forwards a's message under its own identity to another.
func (g *gen) pedersenRelay() {
	ep := g.ep()
	fs := g.faultyIDs()
	hs := g.honestMembers()
	if len(fs) == 0 || fs[0] >= ep.n || len(hs) < 3 {
		return
	}
	f, a := fs[0], hs[0]
	w := 0
	if !g.d.reg[fmt.Sprintf("%d|%d|%s", w, a, pedersenID)] {
		return
	}
	mk := func(owner int) payload {
		return payOfMsg(&pb.NodePubKeyMessage{SessionId: ep.worlds[w].session, PublicKey: []byte{byte(owner), 0x55, 0x66}})
	}
	pa, pf := mk(a), mk(f)
	ov := make([]byte, ep.n)
	for i := range ov {
		ov[i] = 'h'
		if ep.isFaulty(i) {
			ov[i] = 'g'
		}
	}
	ov[a] = '.'
	idh := hexs([]byte(pedersenID))
	out := g.d.exec(fmt.Sprintf("bc %d %d %s %s %s", w, a, idh, ep.payTok(w, pa), string(ov)))
	if !strings.HasPrefix(out, "ok") {
		return
	}
	for _, m := range g.rng.Perm(ep.n) {
		if m != f {
			g.sreq("pedersen", w, m, f, pedersenID, pf)
		}
	}
	g.msg("pedersen-own", w, hs[1], f, pedersenID, pf, g.plainSigList(w, pedersenID, pf))
	g.msg("pedersen-relay", w, hs[2], f, pedersenID, pa, g.plainSigList(w, pedersenID, pa))
}

func (g *gen) plainSigList(w int, id string, pay payload) string {
	toks := make([]string, g.ep().n)
	for i := range toks {
		toks[i] = g.bestSig(w, i, id, pay, false)
	}
	return strings.Join(toks, ",")
}

func main() {
	a := hx.ParseArgs()
	run := hx.NewRun(a.Dir)
	defer run.Close()
	d := &driver{run: run}
	if a.Mode == "exec" {
		for _, op := range hx.ReadOps(a.Ops) {
			d.exec(op)
		}
		return
	}
	g := &gen{d: d, rng: hx.NewRng(a.Seed)}
	for run.NOps < a.N && !run.Enough() {
		g.episode()
	}
}
