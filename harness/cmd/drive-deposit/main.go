// drive-deposit: correspondence driver for deposit data and builder registration messages (stream
// `deposit`, C12: "deposit data and builder registrations verify for the lock's validator keys").
//
// Runs the REAL functions of eth2util/deposit (NewMessage, withdrawalCredsFromAddr, MaxDepositAmount,
// VerifyDepositAmounts, EthsToGweis, DedupAmounts, DefaultDepositAmounts, getDepositDomain,
// GetMessageSigningRoot, MarshalDepositData, MergeDepositDataSets), of eth2util/registration
// (NewMessage, executionAddressFromStr, getRegistrationDomain, GetMessageSigningRoot), go-eth2-client's
// DepositMessage / DepositData / ValidatorRegistration HashTreeRoot and cluster's
// Lock.verifyBuilderRegistrations (the check inside Lock.VerifySignatures) and compares roots,
// domains, credentials and verdicts BIT FOR BIT with the Lean model (lean/Driver/DepositReg.lean).
//
// Strings (addresses, network names, fork version strings, lock versions) travel as the hex of their
// bytes; "-" is the empty string / list.
//
//	cfg <name:forkhex;…|->                      AddTestNetwork for each (names are unique per episode)
//	                                            → name=fork,… of the six built-in networks
//	creds <addr> <0|1>                          withdrawalCredsFromAddr → <hex32> | err:addr
//	exaddr <addr>                               executionAddressFromStr → <hex20> | err:addr
//	dmsg <pk> <addr> <amount> <0|1>             deposit.NewMessage → ok <wc> <amount> | err:addr|min|max
//	maxamt <0|1>
//	ddom <fv> / rdom <fv>                       getDepositDomain / getRegistrationDomain
//	droot <net> <pk> <wc> <amount>              DepositMessage.HashTreeRoot, deposit.GetMessageSigningRoot
//	ddata <pk> <wc> <amount> <sig>              DepositData.HashTreeRoot
//	marshal <net> <pk:wc:amount:sig:signed;…>   MarshalDepositData; `signed` is the root the signature was made
//	                                            over by the key of pk (x: by nobody) – the model's symbolic verify
//	amounts <0|1> <a[*k],…|->                   VerifyDepositAmounts
//	dedup <a,…> / eths <i,…> / defaults <0|1>   DedupAmounts / EthsToGweis / DefaultDepositAmounts
//	merge <sets> <sets>                         MergeDepositDataSets (groups of the general case sorted by amount)
//	rmsg <pk> <addr> <gas> <unix> <nanos>       registration.NewMessage
//	rroot <fv> <fee> <gas> <unix> <nanos> <pk>  ValidatorRegistration.HashTreeRoot, registration.GetMessageSigningRoot
//	rverify <sk> <version> <fv> <valpk> <addr> <fee> <gas> <unix> <pk> <siglen> <signed|x>
//	                                            Lock.verifyBuilderRegistrations on a one-validator lock
//	dsign <sk> <pk> <net> <addr> <amount> <0|1> sign with a real key, MarshalDepositData accepts; then every field
//	                                            altered in turn must be rejected → ok <wc> <msg root> <signing root> rej=all
//	rsign <sk> <pk> <fv> <addr> <gas> <unix> <version>
//	                                            likewise through Lock.verifyBuilderRegistrations
//
// Monitors (independent of the model): deposit:tampered_accepted, registration:tampered_accepted,
// deposit:valid_rejected, registration:valid_rejected, deposit:amounts_verdict_differs_from_spec,
// deposit:amounts_sum_wraps_uint64, deposit:creds_layout, deposit:address_verdict,
// registration:address_verdict, deposit:root_mismatch_independent, registration:root_mismatch_independent,
// deposit:domain_type_prefix, registration:domain_type_prefix, deposit:new_message_range,
// deposit:dedup_mutated_argument, deposit:dedup_not_idempotent, deposit:dedup_wrong_set,
// deposit:merge_lost_or_duplicated, deposit:merge_group_not_uniform, deposit:marshal_roots,
// deposit:marshal_not_sorted, deposit:default_amounts_rejected, deposit:panic.
package main

import (
	"bytes"
	"crypto/sha256"
	"encoding/binary"
	"encoding/hex"
	"encoding/json"
	"fmt"
	"math/big"
	"slices"
	"sort"
	"strconv"
	"strings"
	"time"

	eth2v1 "github.com/attestantio/go-eth2-client/api/v1"
	eth2p0 "github.com/attestantio/go-eth2-client/spec/phase0"

	"github.com/obolnetwork/charon/app/log"
	"github.com/obolnetwork/charon/cluster"
	"github.com/obolnetwork/charon/eth2util"
	"github.com/obolnetwork/charon/eth2util/deposit"
	"github.com/obolnetwork/charon/eth2util/registration"
	"github.com/obolnetwork/charon/tbls"

	"verifharness/hx"
)

// ---------------------------------------------------------------------------------------------
// encoding helpers

func hx0(b []byte) string {
	if len(b) == 0 {
		return "-"
	}
	return hex.EncodeToString(b)
}

func unhex(s string) []byte {
	if s == "-" {
		return nil
	}
	b, err := hex.DecodeString(s)
	if err != nil {
		panic("bad hex in op: " + s)
	}
	return b
}

func str(s string) string { return hx0([]byte(s)) }

func b01(b bool) string {
	if b {
		return "1"
	}
	return "0"
}

func atoiU(s string) uint64 {
	v, err := strconv.ParseUint(s, 10, 64)
	hx.Must(err)
	return v
}

func atoiI(s string) int64 {
	v, err := strconv.ParseInt(s, 10, 64)
	hx.Must(err)
	return v
}

func gweiList(xs []eth2p0.Gwei) string {
	if len(xs) == 0 {
		return "-"
	}
	var ps []string
	for _, x := range xs {
		ps = append(ps, strconv.FormatUint(uint64(x), 10))
	}
	return strings.Join(ps, ",")
}

// parseAmounts reads `a` / `a*k` items.
func parseAmounts(s string) []eth2p0.Gwei {
	if s == "-" {
		return nil
	}
	var out []eth2p0.Gwei
	for _, t := range strings.Split(s, ",") {
		p := strings.Split(t, "*")
		a := eth2p0.Gwei(atoiU(p[0]))
		k := 1
		if len(p) == 2 {
			k = int(atoiU(p[1]))
		}
		for i := 0; i < k; i++ {
			out = append(out, a)
		}
	}
	return out
}

func pk48(b []byte) eth2p0.BLSPubKey {
	if len(b) != 48 {
		panic("pubkey must have 48 bytes")
	}
	return eth2p0.BLSPubKey(b)
}

func sig96(b []byte) eth2p0.BLSSignature {
	if len(b) != 96 {
		panic("signature must have 96 bytes")
	}
	return eth2p0.BLSSignature(b)
}

func errClass(err error) string {
	s := err.Error()
	switch {
	case strings.Contains(s, "invalid withdrawal address"), strings.Contains(s, "invalid address"):
		return "err:addr"
	case strings.Contains(s, "decode address"):
		return "err:decode"
	case strings.Contains(s, "address has wrong length"):
		return "err:addrlen"
	case strings.Contains(s, "minimum amount"), strings.Contains(s, "must be greater than 1ETH"):
		return "err:min"
	case strings.Contains(s, "maximum amount exceeded"), strings.Contains(s, "amount is too large"):
		return "err:max"
	case strings.Contains(s, "sum of partial deposit amounts"):
		return "err:sum"
	case strings.Contains(s, "invalid network name"):
		return "err:net"
	case strings.Contains(s, "decode fork version hex"):
		return "err:forkhex"
	case strings.Contains(s, "invalid deposit data signature"), strings.Contains(s, "verify builder registration signature"):
		return "err:sig"
	case strings.Contains(s, "unexpected validator registration"):
		return "err:unexpected"
	case strings.Contains(s, "missing validator registration"):
		return "err:missing"
	case strings.Contains(s, "builder registration message does not match"):
		return "err:mismatch"
	case strings.Contains(s, "tbls signature from bytes"):
		return "err:sigparse"
	case strings.Contains(s, "deposit message root"), strings.Contains(s, "deposit data hash root"),
		strings.Contains(s, "WithdrawalCredentials"), strings.Contains(s, "incorrect bytes length"):
		return "err:wclen"
	}
	return "err:other(" + strings.ReplaceAll(s, " ", "_") + ")"
}

// ---------------------------------------------------------------------------------------------
// the harness's own recomputation (crypto/sha256, written from the consensus / builder specs)

func h2(a, b [32]byte) [32]byte {
	var buf [64]byte
	copy(buf[:32], a[:])
	copy(buf[32:], b[:])
	return sha256.Sum256(buf[:])
}

func pad32(b []byte) [32]byte {
	var c [32]byte
	copy(c[:], b)
	return c
}

func u64c(x uint64) [32]byte {
	var c [32]byte
	binary.LittleEndian.PutUint64(c[:8], x)
	return c
}

func ownPkRoot(pk [48]byte) [32]byte { return h2(pad32(pk[:32]), pad32(pk[32:])) }

func ownSigRoot(s [96]byte) [32]byte {
	return h2(h2(pad32(s[:32]), pad32(s[32:64])), h2(pad32(s[64:]), [32]byte{}))
}

func ownDepositMessageRoot(pk [48]byte, wc []byte, amount uint64) [32]byte {
	return h2(h2(ownPkRoot(pk), pad32(wc)), h2(u64c(amount), [32]byte{}))
}

func ownDepositDataRoot(pk [48]byte, wc []byte, amount uint64, sig [96]byte) [32]byte {
	return h2(h2(ownPkRoot(pk), pad32(wc)), h2(u64c(amount), ownSigRoot(sig)))
}

func ownRegistrationRoot(fee [20]byte, gas, ts uint64, pk [48]byte) [32]byte {
	return h2(h2(pad32(fee[:]), u64c(gas)), h2(u64c(ts), ownPkRoot(pk)))
}

func ownDomain(ty [4]byte, fv [4]byte) [32]byte {
	r := h2(pad32(fv[:]), [32]byte{})
	var d [32]byte
	copy(d[:4], ty[:])
	copy(d[4:], r[:28])
	return d
}

var (
	tyDeposit = [4]byte{3, 0, 0, 0}
	tyBuilder = [4]byte{0, 0, 0, 1}
)

// ownAddress: the shape rule of the code as documented in the model: "0x", 42 bytes, 40 hex digits of any case.
func ownAddress(a string) ([]byte, bool) {
	if len(a) != 42 || a[0] != '0' || a[1] != 'x' {
		return nil, false
	}
	out := make([]byte, 20)
	for i := 0; i < 20; i++ {
		hi, ok1 := nib(a[2+2*i])
		lo, ok2 := nib(a[3+2*i])
		if !ok1 || !ok2 {
			return nil, false
		}
		out[i] = hi<<4 | lo
	}
	return out, true
}

func nib(c byte) (byte, bool) {
	switch {
	case c >= '0' && c <= '9':
		return c - '0', true
	case c >= 'a' && c <= 'f':
		return c - 'a' + 10, true
	case c >= 'A' && c <= 'F':
		return c - 'A' + 10, true
	}
	return 0, false
}

// ---------------------------------------------------------------------------------------------
// executor

type exec struct {
	run     *hx.Run
	netsFv  map[string]string // network name → fork version string as registered (first wins), incl. built-ins
	episode int
}

var builtins = []eth2util.Network{eth2util.Mainnet, eth2util.Goerli, eth2util.Gnosis, eth2util.Chiado, eth2util.Sepolia, eth2util.Hoodi}

func newExec(run *hx.Run) *exec {
	e := &exec{run: run, netsFv: map[string]string{}}
	for _, n := range builtins {
		e.netsFv[n.Name] = n.GenesisForkVersionHex
	}
	return e
}

func (e *exec) do(line string) {
	e.run.Begin(line)
	out := ""
	func() {
		defer func() {
			if r := recover(); r != nil {
				msg := fmt.Sprint(r)
				if strings.HasPrefix(msg, "bad hex in op") || strings.HasPrefix(msg, "pubkey must") || strings.HasPrefix(msg, "signature must") {
					panic(r)
				}
				e.run.Violate("deposit:panic", "op `"+short(line)+"` panicked: "+msg)
				out = "panic"
			}
		}()
		out = e.dispatch(strings.Fields(line))
	}()
	e.run.Op(line, out)
}

func short(s string) string {
	if len(s) > 300 {
		return s[:300] + "…"
	}
	return s
}

func (e *exec) dispatch(f []string) string {
	run := e.run
	run.Count("op:" + f[0])
	switch f[0] {
	case "cfg":
		if f[1] != "-" {
			for _, t := range strings.Split(f[1], ";") {
				p := strings.Split(t, ":")
				name, fv := string(unhex(p[0])), string(unhex(p[1]))
				eth2util.AddTestNetwork(eth2util.Network{Name: name, GenesisForkVersionHex: fv, ChainID: 99, GenesisTimestamp: 1})
				if _, ok := e.netsFv[name]; !ok {
					e.netsFv[name] = fv
				}
			}
		}
		var ps []string
		for _, n := range builtins {
			fv, err := eth2util.NetworkToForkVersion(n.Name)
			if err != nil {
				fv = "err"
			}
			ps = append(ps, n.Name+"="+fv)
		}
		return strings.Join(ps, ",")

	case "creds":
		addr, comp := string(unhex(f[1])), f[2] == "1"
		creds, err := deposit.VerifWithdrawalCredsFromAddr(addr, comp)
		ab, okShape := ownAddress(addr)
		if (err == nil) != okShape {
			run.Violate("deposit:address_verdict", fmt.Sprintf("withdrawalCredsFromAddr(%q) error=%v, shape rule says valid=%v", addr, err, okShape))
		}
		if err != nil {
			run.Count("creds:rejected")
			return errClass(err)
		}
		run.Count("creds:accepted")
		e.checkCreds(creds[:], ab, comp, "withdrawalCredsFromAddr")
		return hx0(creds[:])

	case "exaddr":
		addr := string(unhex(f[1]))
		a, err := registration.VerifExecutionAddressFromStr(addr)
		ab, okShape := ownAddress(addr)
		if (err == nil) != okShape || (err == nil && !bytes.Equal(a[:], ab)) {
			run.Violate("registration:address_verdict", fmt.Sprintf("executionAddressFromStr(%q) = %x, %v; shape rule says valid=%v %x", addr, a, err, okShape, ab))
		}
		if err != nil {
			return errClass(err)
		}
		return hx0(a[:])

	case "dmsg":
		pk, addr, amount, comp := pk48(unhex(f[1])), string(unhex(f[2])), atoiU(f[3]), f[4] == "1"
		m, err := deposit.NewMessage(pk, addr, eth2p0.Gwei(amount), comp)
		ab, okShape := ownAddress(addr)
		max := uint64(32000000000)
		if comp {
			max = 2048000000000
		}
		want := okShape && amount >= 1000000000 && amount <= max
		if (err == nil) != want {
			run.Violate("deposit:new_message_range", fmt.Sprintf("NewMessage(addr %q, amount %d, compounding %v) error=%v, expected accepted=%v", addr, amount, comp, err, want))
		}
		if err != nil {
			run.Count("dmsg:" + errClass(err))
			return errClass(err)
		}
		run.Count("dmsg:ok")
		e.checkCreds(m.WithdrawalCredentials, ab, comp, "NewMessage")
		if m.PublicKey != pk || uint64(m.Amount) != amount {
			run.Violate("deposit:new_message_range", "NewMessage changed pubkey or amount")
		}
		return fmt.Sprintf("ok %s %d", hx0(m.WithdrawalCredentials), uint64(m.Amount))

	case "maxamt":
		return strconv.FormatUint(uint64(deposit.MaxDepositAmount(f[1] == "1")), 10)

	case "ddom", "rdom":
		var fv eth2p0.Version
		b := unhex(f[1])
		if len(b) != 4 {
			panic("bad hex in op: fork version")
		}
		copy(fv[:], b)
		var d eth2p0.Domain
		var err error
		ty, pre := tyDeposit, "deposit"
		if f[0] == "ddom" {
			d, err = deposit.VerifGetDepositDomain(fv)
		} else {
			d, err = registration.VerifGetRegistrationDomain(fv)
			ty, pre = tyBuilder, "registration"
		}
		hx.Must(err)
		if !bytes.Equal(d[:4], ty[:]) {
			run.Violate(pre+":domain_type_prefix", fmt.Sprintf("domain %x does not start with the domain type %x", d, ty))
		}
		if own := ownDomain(ty, fv); own != [32]byte(d) {
			run.Violate(pre+":root_mismatch_independent", fmt.Sprintf("domain for fork version %x: code %x, compute_domain by the spec %x", fv, d, own))
		}
		return hx0(d[:])

	case "droot":
		net, pk, wc, amount := string(unhex(f[1])), pk48(unhex(f[2])), unhex(f[3]), atoiU(f[4])
		msg := eth2p0.DepositMessage{PublicKey: pk, WithdrawalCredentials: wc, Amount: eth2p0.Gwei(amount)}
		o1 := ""
		mr, err := msg.HashTreeRoot()
		if err != nil {
			o1 = "err:wclen"
			if len(wc) == 32 {
				run.Violate("deposit:root_mismatch_independent", "DepositMessage.HashTreeRoot failed on 32-byte credentials: "+err.Error())
			}
		} else {
			o1 = hx0(mr[:])
			if own := ownDepositMessageRoot(pk, wc, amount); own != mr || len(wc) != 32 {
				run.Violate("deposit:root_mismatch_independent", fmt.Sprintf("deposit message root: code %x, spec %x (credentials of %d bytes)", mr, own, len(wc)))
			}
		}
		sr, err := deposit.GetMessageSigningRoot(msg, net)
		if err != nil {
			run.Count("droot:" + errClass(err))
			return o1 + " " + errClass(err)
		}
		run.Count("droot:ok")
		run.Case("droot:net:" + net)
		if fvs, ok := e.netsFv[net]; ok {
			if fvb, err := hex.DecodeString(strings.TrimPrefix(fvs, "0x")); err == nil && len(fvb) == 4 {
				own := h2(ownDepositMessageRoot(pk, wc, amount), ownDomain(tyDeposit, [4]byte(fvb)))
				if own != sr {
					run.Violate("deposit:root_mismatch_independent", fmt.Sprintf("deposit signing root on %q: code %x, spec %x", net, sr, own))
				}
			}
		}
		return o1 + " " + hx0(sr[:])

	case "ddata":
		pk, wc, amount, sig := pk48(unhex(f[1])), unhex(f[2]), atoiU(f[3]), sig96(unhex(f[4]))
		dd := eth2p0.DepositData{PublicKey: pk, WithdrawalCredentials: wc, Amount: eth2p0.Gwei(amount), Signature: sig}
		r, err := dd.HashTreeRoot()
		if err != nil {
			return "err:wclen"
		}
		if own := ownDepositDataRoot(pk, wc, amount, sig); own != r || len(wc) != 32 {
			run.Violate("deposit:root_mismatch_independent", fmt.Sprintf("deposit data root: code %x, spec %x", r, own))
		}
		return hx0(r[:])

	case "marshal":
		net := string(unhex(f[1]))
		var dds []eth2p0.DepositData
		if f[2] != "-" {
			for _, t := range strings.Split(f[2], ";") {
				p := strings.Split(t, ":")
				dds = append(dds, eth2p0.DepositData{PublicKey: pk48(unhex(p[0])), WithdrawalCredentials: unhex(p[1]),
					Amount: eth2p0.Gwei(atoiU(p[2])), Signature: sig96(unhex(p[3]))})
			}
		}
		out, err := deposit.MarshalDepositData(dds, net)
		if err != nil {
			run.Count("marshal:" + errClass(err))
			return errClass(err)
		}
		run.Count("marshal:ok")
		return e.renderMarshal(out, dds, net)

	case "amounts":
		comp := f[1] == "1"
		amounts := parseAmounts(f[2])
		err := deposit.VerifyDepositAmounts(amounts, comp)
		e.checkAmounts(amounts, comp, err)
		if err != nil {
			run.Count("amounts:" + errClass(err))
			return errClass(err)
		}
		run.Count("amounts:ok")
		return "ok"

	case "dedup":
		in := parseAmounts(f[1])
		keep := slices.Clone(in)
		out := deposit.DedupAmounts(in)
		if !slices.Equal(in, keep) {
			run.Violate("deposit:dedup_mutated_argument", fmt.Sprintf("DedupAmounts changed its argument %v into %v", keep, in))
		}
		if again := deposit.DedupAmounts(out); !slices.Equal(again, out) {
			run.Violate("deposit:dedup_not_idempotent", fmt.Sprintf("DedupAmounts(%v) = %v, applied again = %v", keep, out, again))
		}
		set := map[eth2p0.Gwei]int{}
		for _, a := range keep {
			set[a] = 0
		}
		bad := len(out) != len(set)
		for i, a := range out {
			if _, ok := set[a]; !ok {
				bad = true
			}
			set[a]++
			if i > 0 && out[i-1] >= a {
				bad = true
			}
		}
		if bad {
			run.Violate("deposit:dedup_wrong_set", fmt.Sprintf("DedupAmounts(%v) = %v: not the distinct amounts in ascending order", keep, out))
		}
		if len(out) != len(keep) {
			run.Case(fmt.Sprintf("dedup:%d->%d", len(keep), len(out)))
		}
		return gweiList(out)

	case "eths":
		var in []int
		if f[1] != "-" {
			for _, t := range strings.Split(f[1], ",") {
				in = append(in, int(atoiI(t)))
			}
		}
		return gweiList(deposit.EthsToGweis(in))

	case "defaults":
		comp := f[1] == "1"
		d := deposit.DefaultDepositAmounts(comp)
		if err := deposit.VerifyDepositAmounts(d, comp); err != nil {
			run.Violate("deposit:default_amounts_rejected", fmt.Sprintf("DefaultDepositAmounts(%v) = %v rejected by VerifyDepositAmounts: %v", comp, d, err))
		}
		return gweiList(d)

	case "merge":
		a, b := parseSets(f[1]), parseSets(f[2])
		return e.doMerge(a, b)

	case "rmsg":
		pk, addr, gas, ts, ns := pk48(unhex(f[1])), string(unhex(f[2])), atoiU(f[3]), atoiI(f[4]), atoiI(f[5])
		m, err := registration.NewMessage(pk, addr, gas, time.Unix(ts, ns))
		ab, okShape := ownAddress(addr)
		if (err == nil) != okShape {
			run.Violate("registration:address_verdict", fmt.Sprintf("registration.NewMessage(%q) error=%v, shape rule says valid=%v", addr, err, okShape))
		}
		if err != nil {
			run.Count("rmsg:" + errClass(err))
			return errClass(err)
		}
		run.Count("rmsg:ok")
		if !bytes.Equal(m.FeeRecipient[:], ab) || m.Pubkey != pk || m.GasLimit != gas {
			run.Violate("registration:address_verdict", fmt.Sprintf("registration.NewMessage(%q): fee recipient %x, decoded address %x", addr, m.FeeRecipient, ab))
		}
		return fmt.Sprintf("ok %s %d %d", hx0(m.FeeRecipient[:]), m.GasLimit, m.Timestamp.Unix())

	case "rroot":
		fvb, fee, gas, ts, ns, pk := unhex(f[1]), unhex(f[2]), atoiU(f[3]), atoiI(f[4]), atoiI(f[5]), pk48(unhex(f[6]))
		if len(fvb) != 4 || len(fee) != 20 {
			panic("bad hex in op: rroot sizes")
		}
		m := &eth2v1.ValidatorRegistration{FeeRecipient: [20]byte(fee), GasLimit: gas, Timestamp: time.Unix(ts, ns), Pubkey: pk}
		mr, err := m.HashTreeRoot()
		hx.Must(err)
		sr, err := registration.GetMessageSigningRoot(m, eth2p0.Version(fvb))
		hx.Must(err)
		ownM := ownRegistrationRoot([20]byte(fee), gas, uint64(ts), pk)
		ownS := h2(ownM, ownDomain(tyBuilder, [4]byte(fvb)))
		if ownM != mr || ownS != sr {
			run.Violate("registration:root_mismatch_independent", fmt.Sprintf("registration roots: code %x / %x, spec %x / %x", mr, sr, ownM, ownS))
		}
		if ns != 0 {
			run.Count("observed:registration_subsecond_not_signed")
		}
		return hx0(mr[:]) + " " + hx0(sr[:])

	case "rverify":
		return e.doRverify(f)
	case "dsign":
		return e.doDsign(f)
	case "rsign":
		return e.doRsign(f)
	}
	panic("bad hex in op: unknown op " + f[0])
}

func (e *exec) checkCreds(creds, addr []byte, comp bool, who string) {
	want := make([]byte, 32)
	want[0] = 1
	if comp {
		want[0] = 2
	}
	copy(want[12:], addr)
	if len(addr) != 20 || !bytes.Equal(creds, want) {
		e.run.Violate("deposit:creds_layout", fmt.Sprintf("%s: credentials %x, expected prefix/11 zero bytes/address = %x", who, creds, want))
	}
}

// checkAmounts: the rule of the partial-deposit specification, evaluated with unbounded integers:
// empty list accepted; otherwise every amount within [1 ETH, 32 ETH or 2048 ETH with compounding] and the
// sum at least 32 ETH.
func (e *exec) checkAmounts(amounts []eth2p0.Gwei, comp bool, err error) {
	want := true
	if len(amounts) > 0 {
		max := uint64(32000000000)
		if comp {
			max = 2048000000000
		}
		sum := new(big.Int)
		for _, a := range amounts {
			if uint64(a) < 1000000000 || uint64(a) > max {
				want = false
			}
			sum.Add(sum, new(big.Int).SetUint64(uint64(a)))
		}
		if sum.Cmp(big.NewInt(32000000000)) < 0 {
			want = false
		}
		if want && err != nil && sum.BitLen() > 64 {
			e.run.Count("observed:amounts_sum_wraps_uint64") // a false rejection needing > 9 007 199 amounts: not a clause of C12, an observation (lead)
			return
		}
	}
	if want != (err == nil) {
		e.run.Violate("deposit:amounts_verdict_differs_from_spec", fmt.Sprintf("VerifyDepositAmounts(%s, compounding %v) error=%v, the rule says accepted=%v", short(gweiList(amounts)), comp, err, want))
	}
}

type ddJSON struct {
	PubKey                string `json:"pubkey"`
	WithdrawalCredentials string `json:"withdrawal_credentials"`
	Amount                uint64 `json:"amount"`
	Signature             string `json:"signature"`
	DepositMessageRoot    string `json:"deposit_message_root"`
	DepositDataRoot       string `json:"deposit_data_root"`
	ForkVersion           string `json:"fork_version"`
	NetworkName           string `json:"network_name"`
	DepositCliVersion     string `json:"deposit_cli_version"`
}

func (e *exec) renderMarshal(out []byte, dds []eth2p0.DepositData, net string) string {
	if strings.TrimSpace(string(out)) == "null" {
		return "null"
	}
	var list []ddJSON
	dec := json.NewDecoder(bytes.NewReader(out))
	dec.DisallowUnknownFields()
	hx.Must(dec.Decode(&list))
	if len(list) != len(dds) {
		e.run.Violate("deposit:marshal_roots", fmt.Sprintf("MarshalDepositData wrote %d entries for %d deposit datas", len(list), len(dds)))
	}
	var ps []string
	for i, j := range list {
		if i > 0 && list[i-1].PubKey > j.PubKey {
			e.run.Violate("deposit:marshal_not_sorted", "deposit data file entries are not sorted by pubkey")
		}
		// the entry's roots are those of its own fields
		pk, _ := hex.DecodeString(j.PubKey)
		wc, _ := hex.DecodeString(j.WithdrawalCredentials)
		sg, _ := hex.DecodeString(j.Signature)
		if len(pk) == 48 && len(sg) == 96 {
			mr := ownDepositMessageRoot([48]byte(pk), wc, j.Amount)
			dr := ownDepositDataRoot([48]byte(pk), wc, j.Amount, [96]byte(sg))
			if hex.EncodeToString(mr[:]) != j.DepositMessageRoot || hex.EncodeToString(dr[:]) != j.DepositDataRoot {
				e.run.Violate("deposit:marshal_roots", fmt.Sprintf("deposit data file entry %d: roots %s / %s, spec %x / %x", i, j.DepositMessageRoot, j.DepositDataRoot, mr, dr))
			}
		} else {
			e.run.Violate("deposit:marshal_roots", "deposit data file entry with malformed pubkey / signature")
		}
		if j.NetworkName != net || "0x"+j.ForkVersion != e.netsFv[net] && j.ForkVersion != e.netsFv[net] {
			e.run.Violate("deposit:marshal_roots", fmt.Sprintf("deposit data file entry %d: network %q fork version %q, expected %q %q", i, j.NetworkName, j.ForkVersion, net, e.netsFv[net]))
		}
		ps = append(ps, strings.Join([]string{j.PubKey, j.WithdrawalCredentials, strconv.FormatUint(j.Amount, 10), j.Signature,
			j.DepositMessageRoot, j.DepositDataRoot, str(j.ForkVersion), str(j.NetworkName), str(j.DepositCliVersion)}, ","))
	}
	return strings.Join(ps, ";")
}

// ---- merge ---------------------------------------------------------------------------------

func parseSets(s string) [][]eth2p0.DepositData {
	if s == "-" {
		return nil
	}
	out := [][]eth2p0.DepositData{}
	for _, t := range strings.Split(s, ";") {
		set := []eth2p0.DepositData{}
		if t != "e" {
			for _, el := range strings.Split(t, ",") {
				p := strings.Split(el, ".")
				var d eth2p0.DepositData
				d.PublicKey[0] = byte(atoiU(p[0]))
				d.Amount = eth2p0.Gwei(atoiU(p[1]))
				set = append(set, d)
			}
		}
		out = append(out, set)
	}
	return out
}

func setsStr(sets [][]eth2p0.DepositData) string {
	if len(sets) == 0 {
		return "-"
	}
	var sb strings.Builder
	for _, s := range sets {
		sb.WriteString("[")
		for i, d := range s {
			if i > 0 {
				sb.WriteString(",")
			}
			fmt.Fprintf(&sb, "%d.%d", d.PublicKey[0], uint64(d.Amount))
		}
		sb.WriteString("]")
	}
	return sb.String()
}

func (e *exec) doMerge(a, b [][]eth2p0.DepositData) string {
	ids := map[byte]int{}
	for _, s := range append(slices.Clone(a), b...) {
		for _, d := range s {
			ids[d.PublicKey[0]]++
		}
	}
	out := deposit.MergeDepositDataSets(a, b)
	got := map[byte]int{}
	for _, s := range out {
		for _, d := range s {
			got[d.PublicKey[0]]++
		}
	}
	same := len(ids) == len(got)
	for k, v := range ids {
		if got[k] != v {
			same = false
		}
	}
	if !same {
		e.run.Violate("deposit:merge_lost_or_duplicated", fmt.Sprintf("MergeDepositDataSets(%s, %s) = %s: not the same deposit datas", setsStr(a), setsStr(b), setsStr(out)))
	}
	if len(a) > 0 && len(b) > 0 {
		e.run.Count("merge:general")
		seen := map[eth2p0.Gwei]bool{}
		for _, s := range out {
			if len(s) == 0 || seen[s[0].Amount] {
				e.run.Violate("deposit:merge_group_not_uniform", fmt.Sprintf("MergeDepositDataSets(%s, %s) = %s: empty group or two groups of one amount", setsStr(a), setsStr(b), setsStr(out)))
				continue
			}
			seen[s[0].Amount] = true
			for _, d := range s {
				if d.Amount != s[0].Amount {
					e.run.Violate("deposit:merge_group_not_uniform", fmt.Sprintf("MergeDepositDataSets(%s, %s) = %s: a group mixes amounts", setsStr(a), setsStr(b), setsStr(out)))
				}
			}
		}
		// the groups come out of a Go map: canonical order = ascending amount (stable: groups are non-empty)
		out = slices.Clone(out)
		sort.SliceStable(out, func(i, j int) bool {
			if len(out[i]) == 0 || len(out[j]) == 0 {
				return len(out[i]) < len(out[j])
			}
			return out[i][0].Amount < out[j][0].Amount
		})
	} else {
		e.run.Count("merge:passthrough")
	}
	return setsStr(out)
}

// ---- real keys -----------------------------------------------------------------------------

func skOf(b []byte) tbls.PrivateKey {
	if len(b) != 32 {
		panic("bad hex in op: secret key")
	}
	return tbls.PrivateKey(b)
}

func pubOf(sk tbls.PrivateKey) tbls.PublicKey {
	pk, err := tbls.SecretToPublicKey(sk)
	hx.Must(err)
	return pk
}

// otherKey derives a second, unrelated secret key from sk (for wrong-key alterations).
func otherKey(sk tbls.PrivateKey) tbls.PrivateKey {
	h := sha256.Sum256(sk[:])
	h[0] &= 0x3f
	h[31] |= 1
	return tbls.PrivateKey(h)
}

func sign(sk tbls.PrivateKey, root []byte) tbls.Signature {
	s, err := tbls.Sign(sk, root)
	hx.Must(err)
	return s
}

func marshalOne(dd eth2p0.DepositData, net string) error {
	_, err := deposit.MarshalDepositData([]eth2p0.DepositData{dd}, net)
	return err
}

// doDsign: C12's clause on a real artifact: a deposit data signed for (pubkey, credentials, amount, network)
// passes the verification of MarshalDepositData (the path every deposit data written by create cluster / dkg goes
// through), and does not pass once any one field is altered.
func (e *exec) doDsign(f []string) string {
	run := e.run
	sk, pkb, net, addr, amount, comp := skOf(unhex(f[1])), unhex(f[2]), string(unhex(f[3])), string(unhex(f[4])), atoiU(f[5]), f[6] == "1"
	pub := pubOf(sk)
	if !bytes.Equal(pub[:], pkb) {
		panic("bad hex in op: pubkey does not belong to the secret key")
	}
	msg, err := deposit.NewMessage(eth2p0.BLSPubKey(pub), addr, eth2p0.Gwei(amount), comp)
	if err != nil {
		return errClass(err)
	}
	mr, err := msg.HashTreeRoot()
	hx.Must(err)
	sr, err := deposit.GetMessageSigningRoot(msg, net)
	if err != nil {
		return errClass(err)
	}
	sig := sign(sk, sr[:])
	dd := eth2p0.DepositData{PublicKey: msg.PublicKey, WithdrawalCredentials: msg.WithdrawalCredentials, Amount: msg.Amount, Signature: eth2p0.BLSSignature(sig)}
	if err := marshalOne(dd, net); err != nil {
		run.Violate("deposit:valid_rejected", fmt.Sprintf("deposit data signed for %q amount %d on %q is rejected by MarshalDepositData: %v", addr, amount, net, err))
		return "ok " + hx0(msg.WithdrawalCredentials) + " " + hx0(mr[:]) + " " + hx0(sr[:]) + " rej=valid-rejected"
	}
	type alt struct {
		name string
		dd   eth2p0.DepositData
		net  string
	}
	var alts []alt
	with := func(name string, fn func(d *eth2p0.DepositData)) {
		d := dd
		d.WithdrawalCredentials = slices.Clone(dd.WithdrawalCredentials)
		fn(&d)
		alts = append(alts, alt{name, d, net})
	}
	sk2 := otherKey(sk)
	pub2 := pubOf(sk2)
	with("pubkey:other-key", func(d *eth2p0.DepositData) { d.PublicKey = eth2p0.BLSPubKey(pub2) })
	with("credentials:prefix", func(d *eth2p0.DepositData) { d.WithdrawalCredentials[0] ^= 3 }) // 0x01 <-> 0x02
	with("credentials:padding", func(d *eth2p0.DepositData) { d.WithdrawalCredentials[5] = 1 })
	with("credentials:address-first", func(d *eth2p0.DepositData) { d.WithdrawalCredentials[12] ^= 0x80 })
	with("credentials:address-last", func(d *eth2p0.DepositData) { d.WithdrawalCredentials[31] ^= 1 })
	with("amount:+1", func(d *eth2p0.DepositData) { d.Amount++ })
	with("amount:-1gwei", func(d *eth2p0.DepositData) { d.Amount-- })
	with("amount:high-byte", func(d *eth2p0.DepositData) { d.Amount ^= 1 << 56 })
	with("signature:other-key", func(d *eth2p0.DepositData) { d.Signature = eth2p0.BLSSignature(sign(sk2, sr[:])) })
	with("signature:other-root", func(d *eth2p0.DepositData) { d.Signature = eth2p0.BLSSignature(sign(sk, mr[:])) })
	with("signature:bit", func(d *eth2p0.DepositData) { d.Signature[95] ^= 1 })
	// the same deposit presented for every other network with a different fork version
	names := make([]string, 0, len(e.netsFv))
	for n := range e.netsFv {
		names = append(names, n)
	}
	sort.Strings(names)
	for _, n := range names {
		fa, ea := eth2util.NetworkToForkVersionBytes(n)
		fb, eb := eth2util.NetworkToForkVersionBytes(net)
		if n == net || ea != nil || eb != nil {
			continue
		}
		var va, vb [4]byte
		copy(va[:], fa)
		copy(vb[:], fb)
		if va != vb {
			alts = append(alts, alt{"network:" + n, dd, n})
		}
	}
	// registration domain instead of deposit domain: a signature over the builder signing root of the same bytes
	if fb, err := eth2util.NetworkToForkVersionBytes(net); err == nil {
		var vb [4]byte
		copy(vb[:], fb)
		cross := h2(mr, ownDomain(tyBuilder, vb))
		with("signature:builder-domain", func(d *eth2p0.DepositData) { d.Signature = eth2p0.BLSSignature(sign(sk, cross[:])) })
	}
	rej := "all"
	for _, a := range alts {
		run.Count("dsign:alt")
		if err := marshalOne(a.dd, a.net); err == nil {
			run.Violate("deposit:tampered_accepted", fmt.Sprintf("deposit data signed for (%q, %d gwei, %q) passes MarshalDepositData after alteration %s", addr, amount, net, a.name))
			rej = "accepted:" + a.name
		}
	}
	run.Count("dsign:ok")
	run.Case("dsign:" + net + ":" + b01(comp))
	return "ok " + hx0(msg.WithdrawalCredentials) + " " + hx0(mr[:]) + " " + hx0(sr[:]) + " rej=" + rej
}

func lockFor(version string, fv []byte, valPK []byte, addr string, reg cluster.BuilderRegistration) cluster.Lock {
	return cluster.Lock{
		Definition: cluster.Definition{
			Version:            version,
			ForkVersion:        fv,
			NumValidators:      1,
			ValidatorAddresses: []cluster.ValidatorAddresses{{FeeRecipientAddress: addr, WithdrawalAddress: addr}},
		},
		Validators: []cluster.DistValidator{{PubKey: valPK, BuilderRegistration: reg}},
	}
}

// doRverify: Lock.verifyBuilderRegistrations on a one-validator lock whose signature is a real signature of the
// validator key over `signed` (or, for x, of another key), cut / padded to <siglen> bytes.
func (e *exec) doRverify(f []string) string {
	sk, version, fv, valpk, addr := skOf(unhex(f[1])), string(unhex(f[2])), unhex(f[3]), unhex(f[4]), string(unhex(f[5]))
	fee, gas, ts, pk, siglen, signed := unhex(f[6]), atoiI(f[7]), atoiI(f[8]), unhex(f[9]), int(atoiU(f[10])), f[11]
	pub := pubOf(sk)
	if !bytes.Equal(pub[:], valpk) || len(fv) != 4 {
		panic("bad hex in op: rverify key / fork version")
	}
	var sig []byte
	if signed == "x" {
		zero := make([]byte, 32)
		s := sign(otherKey(sk), zero)
		sig = s[:]
	} else {
		s := sign(sk, unhex(signed))
		sig = s[:]
	}
	for len(sig) < siglen {
		sig = append(sig, 1)
	}
	sig = sig[:siglen]
	reg := cluster.BuilderRegistration{Message: cluster.Registration{FeeRecipient: fee, GasLimit: int(gas), Timestamp: time.Unix(ts, 0), PubKey: pk}, Signature: sig}
	err := lockFor(version, fv, valpk, addr, reg).VerifVerifyBuilderRegistrations()
	if err != nil {
		e.run.Count("rverify:" + errClass(err))
		return errClass(err)
	}
	e.run.Count("rverify:ok")
	return "ok"
}

// doRsign: a registration signed with a real key for (pubkey, fee recipient, gas limit, timestamp, fork version)
// passes Lock.verifyBuilderRegistrations (the check of Lock.VerifySignatures), and does not once any field is altered.
func (e *exec) doRsign(f []string) string {
	run := e.run
	sk, pkb, fv, addr, gas, ts, version := skOf(unhex(f[1])), unhex(f[2]), unhex(f[3]), string(unhex(f[4])), atoiU(f[5]), atoiI(f[6]), string(unhex(f[7]))
	pub := pubOf(sk)
	if !bytes.Equal(pub[:], pkb) || len(fv) != 4 {
		panic("bad hex in op: rsign key / fork version")
	}
	m, err := registration.NewMessage(eth2p0.BLSPubKey(pub), addr, gas, time.Unix(ts, 0))
	if err != nil {
		return errClass(err)
	}
	mr, err := m.HashTreeRoot()
	hx.Must(err)
	sr, err := registration.GetMessageSigningRoot(m, eth2p0.Version(fv))
	hx.Must(err)
	sig := sign(sk, sr[:])
	mk := func() cluster.BuilderRegistration {
		return cluster.BuilderRegistration{
			Message:   cluster.Registration{FeeRecipient: slices.Clone(m.FeeRecipient[:]), GasLimit: int(gas), Timestamp: time.Unix(ts, 0), PubKey: slices.Clone(pub[:])},
			Signature: slices.Clone(sig[:]),
		}
	}
	res := "ok " + hx0(m.FeeRecipient[:]) + " " + hx0(mr[:]) + " " + hx0(sr[:])
	if err := lockFor(version, fv, pub[:], addr, mk()).VerifVerifyBuilderRegistrations(); err != nil {
		run.Violate("registration:valid_rejected", fmt.Sprintf("registration signed for (%q, gas %d, time %d, fork %x) is rejected: %v", addr, gas, ts, fv, err))
		return res + " rej=valid-rejected"
	}
	sk2 := otherKey(sk)
	pub2 := pubOf(sk2)
	type alt struct {
		name string
		lock cluster.Lock
	}
	var alts []alt
	add := func(name string, fn func(l *cluster.Lock)) {
		l := lockFor(version, slices.Clone(fv), slices.Clone(pub[:]), addr, mk())
		fn(&l)
		alts = append(alts, alt{name, l})
	}
	reg := func(l *cluster.Lock) *cluster.BuilderRegistration { return &l.Validators[0].BuilderRegistration }
	add("fee_recipient:bit", func(l *cluster.Lock) { reg(l).Message.FeeRecipient[0] ^= 1 })
	add("fee_recipient:last", func(l *cluster.Lock) { reg(l).Message.FeeRecipient[19] ^= 0x80 })
	add("fee_recipient:zero-padded", func(l *cluster.Lock) { reg(l).Message.FeeRecipient = append(reg(l).Message.FeeRecipient, 0) })
	add("fee_recipient:truncated", func(l *cluster.Lock) { reg(l).Message.FeeRecipient = reg(l).Message.FeeRecipient[:19] })
	add("gas_limit:+1", func(l *cluster.Lock) { reg(l).Message.GasLimit++ })
	add("gas_limit:-1", func(l *cluster.Lock) { reg(l).Message.GasLimit-- })
	add("timestamp:+1s", func(l *cluster.Lock) { reg(l).Message.Timestamp = time.Unix(ts+1, 0) })
	add("timestamp:-1s", func(l *cluster.Lock) { reg(l).Message.Timestamp = time.Unix(ts-1, 0) })
	add("message.pubkey:other-key", func(l *cluster.Lock) { reg(l).Message.PubKey = slices.Clone(pub2[:]) })
	add("message.pubkey:left-padded", func(l *cluster.Lock) { reg(l).Message.PubKey = append([]byte{0}, reg(l).Message.PubKey...) })
	add("validator.pubkey:other-key", func(l *cluster.Lock) { l.Validators[0].PubKey = slices.Clone(pub2[:]) })
	add("both pubkeys:other-key", func(l *cluster.Lock) {
		l.Validators[0].PubKey = slices.Clone(pub2[:])
		reg(l).Message.PubKey = slices.Clone(pub2[:])
	})
	add("signature:bit", func(l *cluster.Lock) { reg(l).Signature[95] ^= 1 })
	add("signature:other-key", func(l *cluster.Lock) { s := sign(sk2, sr[:]); reg(l).Signature = s[:] })
	add("signature:message-root", func(l *cluster.Lock) { s := sign(sk, mr[:]); reg(l).Signature = s[:] })
	add("signature:deposit-domain", func(l *cluster.Lock) {
		cross := h2(mr, ownDomain(tyDeposit, [4]byte(fv)))
		s := sign(sk, cross[:])
		reg(l).Signature = s[:]
	})
	add("fork_version:bit", func(l *cluster.Lock) { l.ForkVersion[3] ^= 1 })
	add("fork_version:first", func(l *cluster.Lock) { l.ForkVersion[0] ^= 0x10 })
	add("definition.fee_recipient_address:other", func(l *cluster.Lock) {
		b := []byte(addr)
		if b[41] == '0' {
			b[41] = '1'
		} else {
			b[41] = '0'
		}
		l.ValidatorAddresses[0].FeeRecipientAddress = string(b)
	})
	add("both fee recipients:other", func(l *cluster.Lock) {
		b := []byte(addr)
		if b[41] == '0' {
			b[41] = '1'
		} else {
			b[41] = '0'
		}
		l.ValidatorAddresses[0].FeeRecipientAddress = string(b)
		reg(l).Message.FeeRecipient[19] ^= 1
		if a, ok := ownAddress(string(b)); ok {
			reg(l).Message.FeeRecipient = a
		}
	})
	rej := "all"
	for _, a := range alts {
		run.Count("rsign:alt")
		if err := a.lock.VerifVerifyBuilderRegistrations(); err == nil {
			run.Violate("registration:tampered_accepted", fmt.Sprintf("registration signed for (%q, gas %d, time %d, fork %x) passes Lock.verifyBuilderRegistrations after alteration %s", addr, gas, ts, fv, a.name))
			rej = "accepted:" + a.name
		}
	}
	// sub-second part of the timestamp is not part of the SSZ message: an observation, not a violation
	l := lockFor(version, fv, pub[:], addr, mk())
	l.Validators[0].BuilderRegistration.Message.Timestamp = time.Unix(ts, 5)
	if l.VerifVerifyBuilderRegistrations() == nil {
		run.Count("observed:registration_subsecond_not_signed")
	}
	run.Count("rsign:ok")
	run.Case("rsign:" + hex.EncodeToString(fv))
	return res + " rej=" + rej
}

// ---------------------------------------------------------------------------------------------
// generator

type gen struct {
	r     *hx.Rng
	e     *exec
	keys  []tbls.PrivateKey
	nets  []string // names usable in this episode (built-in + this episode's test networks)
	tier  string
	wrapD bool
}

func (g *gen) bytesN(n int) []byte {
	b := make([]byte, n)
	for i := range b {
		b[i] = byte(g.r.U64())
	}
	return b
}

func (g *gen) key() tbls.PrivateKey { return g.keys[g.r.Intn(len(g.keys))] }

func (g *gen) pkAny() []byte {
	if g.r.Chance(1, 3) {
		p := pubOf(g.key())
		return p[:]
	}
	switch g.r.Intn(6) {
	case 0:
		return make([]byte, 48)
	case 1:
		return bytes.Repeat([]byte{0xff}, 48)
	}
	return g.bytesN(48)
}

var boundaryAmounts = []uint64{0, 1, 999999999, 1000000000, 1000000001, 8000000000, 16000000000, 31000000000, 31999999999, 32000000000,
	32000000001, 33000000000, 64000000000, 256000000000, 2047999999999, 2048000000000, 2048000000001, 1 << 32, 1 << 63, 1<<64 - 1, 1<<64 - 1000000000}

func (g *gen) amount() uint64 {
	switch g.r.Intn(10) {
	case 0, 1, 2:
		return boundaryAmounts[g.r.Intn(len(boundaryAmounts))]
	case 3:
		return g.r.U64()
	case 4:
		return g.r.U64() % 4000000000000
	case 5:
		return 1000000000 + g.r.U64()%31000000001
	}
	return uint64(1+g.r.Intn(64)) * 1000000000
}

func (g *gen) hex40() []byte {
	const digs = "0123456789abcdef"
	b := make([]byte, 40)
	for i := range b {
		b[i] = digs[g.r.Intn(16)]
	}
	return b
}

// address returns an address string of one of the shapes and whether the generator believes it is valid.
func (g *gen) address(validOnly bool) string {
	h := g.hex40()
	lower := "0x" + string(h)
	k := g.r.Intn(16)
	if validOnly {
		k = g.r.Intn(5)
	}
	switch k {
	case 0:
		g.e.run.Count("addr:lower")
		return lower
	case 1:
		g.e.run.Count("addr:eip55")
		c, err := eth2util.ChecksumAddress(lower)
		if err != nil {
			g.e.run.Violate("deposit:address_verdict", fmt.Sprintf("ChecksumAddress(%q): %v", lower, err))
			return lower
		}
		return c
	case 2:
		g.e.run.Count("addr:upper")
		return "0x" + strings.ToUpper(string(h))
	case 3: // mixed case that is (almost surely) not the EIP-55 form
		g.e.run.Count("addr:bad-checksum")
		c, err := eth2util.ChecksumAddress(lower)
		if err != nil {
			c = lower
		}
		b := []byte(c)
		for i := 2; i < len(b); i++ {
			if b[i] >= 'a' && b[i] <= 'f' {
				b[i] -= 32
				return string(b)
			} else if b[i] >= 'A' && b[i] <= 'F' {
				b[i] += 32
				return string(b)
			}
		}
		return string(b)
	case 4:
		g.e.run.Count("addr:zero-or-ff")
		if g.r.Chance(1, 2) {
			return "0x" + strings.Repeat("0", 40)
		}
		return "0x" + strings.Repeat("fF", 20)
	case 5:
		g.e.run.Count("addr:no-prefix")
		return string(h)
	case 6:
		g.e.run.Count("addr:0X-prefix")
		return "0X" + string(h)
	case 7:
		g.e.run.Count("addr:short")
		return lower[:len(lower)-1-g.r.Intn(3)]
	case 8:
		g.e.run.Count("addr:long")
		return lower + string(h[:1+g.r.Intn(3)])
	case 9:
		g.e.run.Count("addr:non-hex")
		b := []byte(lower)
		b[2+g.r.Intn(40)] = "gGzx -\x00\xc3"[g.r.Intn(8)]
		return string(b)
	case 10:
		g.e.run.Count("addr:empty")
		return ""
	case 11:
		g.e.run.Count("addr:no-prefix-42")
		return string(h) + "ab" // 42 hex digits, no 0x
	case 12:
		g.e.run.Count("addr:double-prefix")
		return "0x0x" + string(h[:38])
	case 13:
		g.e.run.Count("addr:prefix-only")
		return "0x"
	case 14:
		g.e.run.Count("addr:leading-space")
		return " " + lower[:41]
	}
	g.e.run.Count("addr:unicode")
	return "0x" + string(h[:37]) + "é" // 42 bytes, 41 runes
}

func (g *gen) netName() string {
	switch g.r.Intn(12) {
	case 0:
		return []string{"", "Mainnet", "mainnet ", "holesky", "prater", "0x00000000", "main\x00net"}[g.r.Intn(7)]
	}
	return g.nets[g.r.Intn(len(g.nets))]
}

func (g *gen) goodNet() string {
	for {
		n := g.nets[g.r.Intn(len(g.nets))]
		if _, err := eth2util.NetworkToForkVersionBytes(n); err == nil {
			return n
		}
	}
}

func (g *gen) fv() []byte {
	switch g.r.Intn(4) {
	case 0:
		n := builtins[g.r.Intn(len(builtins))]
		b, _ := hex.DecodeString(strings.TrimPrefix(n.GenesisForkVersionHex, "0x"))
		return b
	case 1:
		return []byte{0, 0, 0, byte(g.r.Intn(3))}
	}
	return g.bytesN(4)
}

func (g *gen) wc() []byte {
	switch g.r.Intn(12) {
	case 0:
		return nil
	case 1:
		return g.bytesN(31)
	case 2:
		return g.bytesN(33)
	case 3:
		return g.bytesN(64)
	case 4, 5, 6:
		a := g.address(true)
		c, err := deposit.VerifWithdrawalCredsFromAddr(a, g.r.Chance(1, 2))
		if err != nil {
			g.e.run.Violate("deposit:address_verdict", fmt.Sprintf("withdrawalCredsFromAddr(%q) rejected: %v", a, err))
			return g.bytesN(32)
		}
		return c[:]
	}
	return g.bytesN(32)
}

func (g *gen) cfgOp() string {
	g.e.episode++
	g.nets = nil
	for _, n := range builtins {
		g.nets = append(g.nets, n.Name)
	}
	var ps []string
	k := g.r.Intn(5)
	for i := 0; i < k; i++ {
		name := fmt.Sprintf("t%dn%d", g.e.episode, i)
		var fv string
		switch g.r.Intn(12) {
		case 0:
			fv = hex.EncodeToString(g.bytesN(4)) // no 0x
		case 1:
			fv = "0x" + strings.ToUpper(hex.EncodeToString(g.bytesN(4)))
		case 2:
			fv = "0x" + hex.EncodeToString(g.bytesN(3))
		case 3:
			fv = "0x" + hex.EncodeToString(g.bytesN(5))
		case 4:
			fv = []string{"0xzz000000", "0x123", "", "0x", "0x0x01020304", "0X01020304"}[g.r.Intn(6)]
		case 5: // the fork version of a built-in network under another name
			fv = builtins[g.r.Intn(len(builtins))].GenesisForkVersionHex
		default:
			fv = "0x" + hex.EncodeToString(g.bytesN(4))
		}
		switch g.r.Intn(10) {
		case 0: // a second entry under the name of a built-in network: shadowed
			name = builtins[g.r.Intn(len(builtins))].Name
		case 1:
			if i > 0 { // a second entry under a name of this episode: shadowed
				name = fmt.Sprintf("t%dn%d", g.e.episode, g.r.Intn(i))
			}
		}
		ps = append(ps, str(name)+":"+str(fv))
		if !slices.Contains(g.nets, name) {
			g.nets = append(g.nets, name)
		}
	}
	if len(ps) == 0 {
		return "cfg -"
	}
	return "cfg " + strings.Join(ps, ";")
}

func (g *gen) amountList() []uint64 {
	var out []uint64
	switch g.r.Intn(8) {
	case 0:
		return nil
	case 1: // sums around 32 ETH from whole ETH parts
		left := uint64(30 + g.r.Intn(5))
		for left > 0 {
			p := uint64(1 + g.r.Intn(int(left)))
			out = append(out, p*1000000000)
			left -= p
		}
		return out
	case 2: // exactly one gwei below / at / above 32 ETH in two parts
		a := 1000000000 + g.r.U64()%30000000000
		return []uint64{a, 32000000000 - a + uint64(g.r.Intn(3)) - 1}
	case 3:
		n := 1 + g.r.Intn(40)
		for i := 0; i < n; i++ {
			out = append(out, uint64(1+g.r.Intn(3))*1000000000)
		}
		return out
	}
	n := 1 + g.r.Intn(6)
	for i := 0; i < n; i++ {
		out = append(out, g.amount())
	}
	return out
}

func u64s(xs []uint64) string {
	if len(xs) == 0 {
		return "-"
	}
	var ps []string
	for _, x := range xs {
		ps = append(ps, strconv.FormatUint(x, 10))
	}
	return strings.Join(ps, ",")
}

func (g *gen) sets() string {
	switch g.r.Intn(8) {
	case 0:
		return "-"
	case 1:
		return "e"
	}
	n := 1 + g.r.Intn(4)
	var ss []string
	for i := 0; i < n; i++ {
		if g.r.Chance(1, 8) {
			ss = append(ss, "e")
			continue
		}
		k := 1 + g.r.Intn(4)
		amt := []uint64{1, 8, 32, 256, 0}[g.r.Intn(5)] * 1000000000
		var es []string
		for j := 0; j < k; j++ {
			if g.r.Chance(1, 6) { // a set that mixes amounts
				amt = []uint64{1, 8, 32, 256, 0}[g.r.Intn(5)] * 1000000000
			}
			es = append(es, fmt.Sprintf("%d.%d", g.r.Intn(250), amt))
		}
		ss = append(ss, strings.Join(es, ","))
	}
	return strings.Join(ss, ";")
}

// signedEntry builds one deposit data for a marshal op: really signed, then possibly altered.
func (g *gen) signedEntry(net string, usedPK map[string]bool) (string, bool) {
	var sk tbls.PrivateKey
	for tries := 0; ; tries++ {
		sk = g.key()
		p := pubOf(sk)
		if !usedPK[string(p[:])] {
			usedPK[string(p[:])] = true
			break
		}
		if tries > 20 {
			return "", false
		}
	}
	pub := pubOf(sk)
	comp := g.r.Chance(1, 2)
	amount := uint64(1+g.r.Intn(32)) * 1000000000
	addr := g.address(true)
	msg, err := deposit.NewMessage(eth2p0.BLSPubKey(pub), addr, eth2p0.Gwei(amount), comp)
	if err != nil {
		g.e.run.Violate("deposit:valid_rejected", fmt.Sprintf("NewMessage(%q, %d gwei, compounding %v) rejected: %v", addr, amount, comp, err))
		return "", false
	}
	signNet := net
	if _, err := eth2util.NetworkToForkVersionBytes(net); err != nil || g.r.Chance(1, 10) {
		signNet = g.goodNet()
	}
	root, err := deposit.GetMessageSigningRoot(msg, signNet)
	if err != nil {
		g.e.run.Violate("deposit:valid_rejected", fmt.Sprintf("GetMessageSigningRoot on %q rejected: %v", signNet, err))
		return "", false
	}
	sig := sign(sk, root[:])
	pkb, wc, signed := pub[:], msg.WithdrawalCredentials, hex.EncodeToString(root[:])
	sg := sig[:]
	switch g.r.Intn(14) {
	case 0:
		amount++
	case 1:
		wc = slices.Clone(wc)
		wc[g.r.Intn(32)] ^= 1 << uint(g.r.Intn(8))
	case 2:
		s := sign(otherKey(sk), root[:])
		sg, signed = s[:], "x"
	case 3:
		wc = wc[:31]
	case 4:
		wc = append(slices.Clone(wc), 0)
	case 5: // signed the message root instead of the signing root
		mr, _ := msg.HashTreeRoot()
		s := sign(sk, mr[:])
		sg, signed = s[:], hex.EncodeToString(mr[:])
	}
	return fmt.Sprintf("%s:%s:%d:%s:%s", hx0(pkb), hx0(wc), amount, hx0(sg), signed), true
}

func (g *gen) next(i int) string {
	r := g.r
	if !g.wrapD && i >= 1500 {
		g.wrapD = true
		// 9007199 × 2048 ETH + 521.709551616 ETH = 2^64 gwei: every amount within the limits, uint64 sum 0
		return "amounts 1 2048000000000*9007199,521709551616"
	}
	switch k := r.Intn(100); {
	case k < 12:
		return fmt.Sprintf("creds %s %s", str(g.address(false)), b01(r.Chance(1, 2)))
	case k < 17:
		return fmt.Sprintf("exaddr %s", str(g.address(false)))
	case k < 27:
		return fmt.Sprintf("dmsg %s %s %d %s", hx0(g.pkAny()), str(g.address(r.Chance(4, 5))), g.amount(), b01(r.Chance(1, 2)))
	case k < 28:
		return "maxamt " + b01(r.Chance(1, 2))
	case k < 31:
		return "ddom " + hx0(g.fv())
	case k < 34:
		return "rdom " + hx0(g.fv())
	case k < 44:
		return fmt.Sprintf("droot %s %s %s %d", str(g.netName()), hx0(g.pkAny()), hx0(g.wc()), g.amount())
	case k < 49:
		return fmt.Sprintf("ddata %s %s %d %s", hx0(g.pkAny()), hx0(g.wc()), g.amount(), hx0(g.bytesN(96)))
	case k < 53:
		net := g.netName()
		n := r.Intn(4)
		used := map[string]bool{}
		var es []string
		for j := 0; j < n; j++ {
			if s, ok := g.signedEntry(net, used); ok {
				es = append(es, s)
			}
		}
		if len(es) == 0 {
			return "marshal " + str(net) + " -"
		}
		return "marshal " + str(net) + " " + strings.Join(es, ";")
	case k < 63:
		return fmt.Sprintf("amounts %s %s", b01(r.Chance(1, 2)), u64s(g.amountList()))
	case k < 68:
		l := g.amountList()
		if r.Chance(1, 2) && len(l) > 0 { // repeat some
			for j := r.Intn(5); j > 0; j-- {
				l = append(l, l[r.Intn(len(l))])
			}
		}
		return "dedup " + u64s(l)
	case k < 71:
		n := r.Intn(5)
		var ps []string
		for j := 0; j < n; j++ {
			var v int64
			switch r.Intn(8) {
			case 0:
				v = -int64(r.Intn(40))
			case 1:
				v = []int64{0, 18446744073, 18446744074, 36028797018964000, 9223372036854775807, -9223372036854775808, 9223372036, 9223372037}[r.Intn(8)]
			case 2:
				v = int64(r.U64())
			default:
				v = int64(r.Intn(3000))
			}
			ps = append(ps, strconv.FormatInt(v, 10))
		}
		if len(ps) == 0 {
			return "eths -"
		}
		return "eths " + strings.Join(ps, ",")
	case k < 72:
		return "defaults " + b01(r.Chance(1, 2))
	case k < 78:
		return "merge " + g.sets() + " " + g.sets()
	case k < 83:
		ts, ns := g.ts()
		return fmt.Sprintf("rmsg %s %s %d %d %d", hx0(g.pkAny()), str(g.address(false)), g.gas(), ts, ns)
	case k < 90:
		ts, ns := g.ts()
		return fmt.Sprintf("rroot %s %s %d %d %d %s", hx0(g.fv()), hx0(g.bytesN(20)), g.gas(), ts, ns, hx0(g.pkAny()))
	case k < 97:
		return g.rverifyOp()
	case k == 97 || k == 98 && r.Chance(1, 2):
		sk := g.key()
		pub := pubOf(sk)
		net := g.goodNet()
		if r.Chance(1, 12) {
			net = g.netName()
		}
		return fmt.Sprintf("dsign %s %s %s %s %d %s", hx0(sk[:]), hx0(pub[:]), str(net), str(g.address(r.Chance(9, 10))), g.dsignAmount(), b01(r.Chance(1, 2)))
	case k == 99 || k == 98:
		sk := g.key()
		pub := pubOf(sk)
		ts, _ := g.ts()
		return fmt.Sprintf("rsign %s %s %s %s %d %d %s", hx0(sk[:]), hx0(pub[:]), hx0(g.fv()), str(g.address(r.Chance(9, 10))), g.gas(), ts, str(g.version(true)))
	}
	panic("unreachable")
}

func (g *gen) dsignAmount() uint64 {
	if g.r.Chance(1, 8) {
		return g.amount()
	}
	return []uint64{1, 8, 16, 31, 32}[g.r.Intn(5)]*1000000000 + uint64(g.r.Intn(2))
}

func (g *gen) gas() uint64 {
	switch g.r.Intn(6) {
	case 0:
		return 0
	case 1:
		return 1<<63 - 1
	case 2:
		return g.r.U64() >> 1
	}
	return 30000000 + uint64(g.r.Intn(3))
}

func (g *gen) ts() (int64, int64) {
	ns := int64(0)
	if g.r.Chance(1, 4) {
		ns = int64(g.r.Intn(1000000000))
	}
	switch g.r.Intn(10) {
	case 0:
		return 0, ns
	case 1:
		return -1 - int64(g.r.Intn(100000)), ns
	case 2:
		return []int64{1<<63 - 1, -1 << 63, 1 << 32, 253402300799, -62135596800, -62135596801}[g.r.Intn(6)], ns
	case 3:
		return int64(g.r.U64()), ns
	}
	return 1606824023 + int64(g.r.Intn(400000000)), ns
}

func (g *gen) version(newOnly bool) string {
	vs := []string{"v1.7.0", "v1.8.0", "v1.9.0", "v1.10.0", "v1.11.0"}
	if !newOnly && g.r.Chance(1, 3) {
		vs = []string{"v1.0.0", "v1.1.0", "v1.2.0", "v1.3.0", "v1.4.0", "v1.5.0", "v1.6.0", "v1.6", "v2.0.0", ""}
	}
	return vs[g.r.Intn(len(vs))]
}

func (g *gen) rverifyOp() string {
	r := g.r
	sk := g.key()
	pub := pubOf(sk)
	fv := g.fv()
	addr := g.address(r.Chance(9, 10))
	gas := int64(g.gas())
	if r.Chance(1, 10) {
		gas = -int64(r.Intn(5))
	}
	ts, _ := g.ts()
	version := g.version(false)
	fee, okAddr := ownAddress(addr)
	if !okAddr {
		fee = g.bytesN(20)
	}
	storedPK := pub[:]
	siglen := 96
	signed := "x"
	// the root a correct creator signs
	if okAddr {
		m, err := registration.NewMessage(eth2p0.BLSPubKey(pub), addr, uint64(gas), time.Unix(ts, 0))
		if err != nil {
			g.e.run.Violate("registration:valid_rejected", fmt.Sprintf("registration.NewMessage(%q) rejected: %v", addr, err))
			okAddr = false
		} else if sr, err := registration.GetMessageSigningRoot(m, eth2p0.Version(fv)); err == nil {
			signed = hex.EncodeToString(sr[:])
		}
	}
	switch r.Intn(16) {
	case 0:
		fee = append(slices.Clone(fee), 0)
	case 1:
		fee = fee[:19]
	case 2:
		fee = nil
	case 3:
		storedPK = nil
	case 4:
		storedPK = append([]byte{0}, storedPK...)
	case 5:
		p := pubOf(otherKey(sk))
		storedPK = p[:]
	case 6:
		siglen = 0
	case 7:
		siglen = []int{1, 95, 97, 192}[r.Intn(4)]
	case 8:
		signed = "x"
	case 9: // signed another gas limit
		if okAddr {
			if m, err := registration.NewMessage(eth2p0.BLSPubKey(pub), addr, uint64(gas)+1, time.Unix(ts, 0)); err == nil {
				sr, _ := registration.GetMessageSigningRoot(m, eth2p0.Version(fv))
				signed = hex.EncodeToString(sr[:])
			}
		}
	case 10: // signed for another fork version
		if okAddr {
			if m, err := registration.NewMessage(eth2p0.BLSPubKey(pub), addr, uint64(gas), time.Unix(ts, 0)); err == nil {
				fv2 := slices.Clone(fv)
				fv2[0] ^= 1
				sr, _ := registration.GetMessageSigningRoot(m, eth2p0.Version(fv2))
				signed = hex.EncodeToString(sr[:])
			}
		}
	case 11:
		fee = slices.Clone(fee)
		fee[r.Intn(len(fee))] ^= 1
	}
	return fmt.Sprintf("rverify %s %s %s %s %s %s %d %d %s %d %s", hx0(sk[:]), str(version), hx0(fv), hx0(pub[:]), str(addr), hx0(fee), gas, ts, hx0(storedPK), siglen, signed)
}

func generate(run *hx.Run, a hx.Args) {
	e := newExec(run)
	g := &gen{r: hx.NewRng(a.Seed), e: e, tier: a.Tier}
	for i := 0; i < 8; i++ {
		b := g.bytesN(32)
		b[0] &= 0x3f
		b[31] |= 1
		g.keys = append(g.keys, tbls.PrivateKey(b))
	}
	for i := 0; i < a.N && !run.Enough(); i++ {
		if i%400 == 0 {
			e.do(g.cfgOp())
			continue
		}
		e.do(g.next(i))
	}
}

func main() {
	a := hx.ParseArgs()
	hx.Must(log.InitLogger(log.Config{Level: "fatal", Format: "console", Color: "disable"}))
	run := hx.NewRun(a.Dir)
	defer run.Close()
	e := newExec(run)
	if a.Mode == "exec" {
		for _, l := range hx.ReadOps(a.Ops) {
			e.do(l)
		}
		return
	}
	generate(run, a)
}
