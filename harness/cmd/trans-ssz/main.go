// trans-ssz: translators T-ssz and T-fields for C12 (go/ast + go/types over $VERIF_REPO/cluster/*.go).
//
// T-ssz: a symbolic evaluator runs hashDefinition (configOnly = true/false) and hashLock of
// cluster/ssz.go for every supported format version with the version and configOnly known and the
// struct contents symbolic. Every hasher operation it meets becomes a node of a schema tree
// (field accessor path, encoder kind, limits; Index/Merkleize/MerkleizeWithMixin grouping; loops
// over lists). The helpers of cluster/helpers.go (putByteList, putBytesN, putHexBytes20,
// putK1SigList, leftPad, to0xHex, from0xHex) and Definition.LegacyValidatorAddresses,
// isAnyVersion, isV1x3 are primitives of the evaluator whose source text must equal the text the
// Lean model was written against. Output: lean/CharonV/Generated/ClusterSsz.lean.
//
// T-fields: for every version the JSON struct used by Definition/Lock MarshalJSON and UnmarshalJSON
// (both must agree) is walked; every leaf (json tag path, Go type kind) is emitted together with
// the tag path of the Definition/Lock Go struct field it is decoded into (equal to the leaf path
// unless listed in `aliases`). Output: lean/CharonV/Generated/ClusterFields.lean.
//
// Any Go the evaluator does not understand makes it exit 1 (fail closed).
package main

import (
	"bytes"
	"flag"
	"fmt"
	"go/ast"
	"go/constant"
	"go/parser"
	"go/printer"
	"go/token"
	"go/types"
	"os"
	"path/filepath"
	"reflect"
	"sort"
	"strconv"
	"strings"
)

func fail(f string, a ...any) {
	fmt.Fprintf(os.Stderr, "trans-ssz: "+f+"\n", a...)
	os.Exit(1)
}

// ---------------------------------------------------------------------------------------------
// loading

type stubImporter struct{ pkgs map[string]*types.Package }

func (s *stubImporter) Import(path string) (*types.Package, error) {
	if p, ok := s.pkgs[path]; ok {
		return p, nil
	}
	parts := strings.Split(path, "/")
	name := parts[len(parts)-1]
	if len(name) >= 2 && name[0] == 'v' && name[1] >= '0' && name[1] <= '9' && len(parts) > 1 {
		name = parts[len(parts)-2]
	}
	name = strings.TrimPrefix(name, "go-")
	p := types.NewPackage(path, name)
	p.MarkComplete()
	s.pkgs[path] = p
	return p, nil
}

type pkgInfo struct {
	fset  *token.FileSet
	files []*ast.File
	info  *types.Info
	pkg   *types.Package
	funcs map[string]*ast.FuncDecl // "Name" or "Recv.Name"
	typs  map[string]*ast.TypeSpec
}

func load(dir string) *pkgInfo {
	fset := token.NewFileSet()
	ents, err := os.ReadDir(dir)
	if err != nil {
		fail("read %s: %v", dir, err)
	}
	p := &pkgInfo{fset: fset, funcs: map[string]*ast.FuncDecl{}, typs: map[string]*ast.TypeSpec{}}
	for _, e := range ents {
		n := e.Name()
		if !strings.HasSuffix(n, ".go") || strings.HasSuffix(n, "_test.go") || n == "verif_export.go" {
			continue
		}
		f, err := parser.ParseFile(fset, filepath.Join(dir, n), nil, parser.SkipObjectResolution)
		if err != nil {
			fail("parse %s: %v", n, err)
		}
		p.files = append(p.files, f)
		for _, d := range f.Decls {
			switch d := d.(type) {
			case *ast.FuncDecl:
				name := d.Name.Name
				if d.Recv != nil && len(d.Recv.List) == 1 {
					t := d.Recv.List[0].Type
					if st, ok := t.(*ast.StarExpr); ok {
						t = st.X
					}
					if id, ok := t.(*ast.Ident); ok {
						name = id.Name + "." + name
					}
				}
				p.funcs[name] = d
			case *ast.GenDecl:
				for _, s := range d.Specs {
					if ts, ok := s.(*ast.TypeSpec); ok {
						p.typs[ts.Name.Name] = ts
					}
				}
			}
		}
	}
	p.info = &types.Info{
		Types:      map[ast.Expr]types.TypeAndValue{},
		Defs:       map[*ast.Ident]types.Object{},
		Uses:       map[*ast.Ident]types.Object{},
		Selections: map[*ast.SelectorExpr]*types.Selection{},
	}
	conf := types.Config{Importer: &stubImporter{map[string]*types.Package{}}, Error: func(error) {}}
	p.pkg, _ = conf.Check("cluster", fset, p.files, p.info)
	if p.pkg == nil {
		fail("type check produced no package")
	}
	return p
}

func (p *pkgInfo) text(n ast.Node) string {
	var b bytes.Buffer
	if err := printer.Fprint(&b, p.fset, n); err != nil {
		fail("print: %v", err)
	}
	return strings.Join(strings.Fields(b.String()), " ")
}

func (p *pkgInfo) pos(n ast.Node) string {
	ps := p.fset.Position(n.Pos())
	return fmt.Sprintf("%s:%d", filepath.Base(ps.Filename), ps.Line)
}

// primitives of the evaluator and the source text the Lean model (Model/SszSchema.lean) mirrors.
var primitiveText = map[string]string{
	"putByteList":                         `func putByteList(h ssz.HashWalker, b []byte, limit int, field string) error { elemIndx := h.Index() byteLen := len(b) if byteLen > limit { return errors.Wrap(ssz.ErrIncorrectListSize, "put byte list", z.Str("field", field)) } h.AppendBytes32(b) h.MerkleizeWithMixin(elemIndx, uint64(byteLen), uint64(limit+31)/32) return nil }`,
	"putK1SigList":                        `func putK1SigList(h ssz.HashWalker, sig []byte, maxAmountSigs int, field string) error { if len(sig)%sszLenK1Sig != 0 { return errors.New("signature not a multiple of 65 bytes", z.Str("field", field), z.Int("length", len(sig))) } num := uint64(len(sig) / sszLenK1Sig) if num > uint64(maxAmountSigs) { return errors.Wrap(ssz.ErrIncorrectListSize, "put k1 sig list", z.Str("field", field)) } elemIndx := h.Index() for i := 0; i < len(sig); i += sszLenK1Sig { h.PutBytes(sig[i : i+sszLenK1Sig]) } h.MerkleizeWithMixin(elemIndx, num, uint64(maxAmountSigs)) return nil }`,
	"putBytesN":                           `func putBytesN(h ssz.HashWalker, b []byte, n int) error { if len(b) > n { return errors.New("bytes too long", z.Int("n", n), z.Int("l", len(b))) } h.PutBytes(leftPad(b, n)) return nil }`,
	"putHexBytes20":                       `func putHexBytes20(h ssz.HashWalker, addr string) error { b, err := from0xHex(addr, addressLen) if err != nil { return err } h.PutBytes(leftPad(b, addressLen)) return nil }`,
	"leftPad":                             `func leftPad(b []byte, l int) []byte { for len(b) < l { b = append([]byte{0x00}, b...) } return b }`,
	"to0xHex":                             `func to0xHex(b []byte) string { if len(b) == 0 { return "" } return fmt.Sprintf("%#x", b) }`,
	"from0xHex":                           `func from0xHex(s string, length int) ([]byte, error) { if s == "" { return nil, nil } b, err := hex.DecodeString(strings.TrimPrefix(s, "0x")) if err != nil { return nil, errors.Wrap(err, "decode hex") } else if len(b) != length { return nil, errors.Wrap(err, "invalid hex length", z.Int("expect", length), z.Int("actual", len(b))) } return b, nil }`,
	"isAnyVersion":                        `func isAnyVersion(version string, versions ...string) bool { return slices.Contains(versions, version) }`,
	"isV1x3":                              `func isV1x3(version string) bool { return version == v1_3 }`,
	"Definition.LegacyValidatorAddresses": `func (d Definition) LegacyValidatorAddresses() (ValidatorAddresses, error) { var resp ValidatorAddresses for i, vaddrs := range d.ValidatorAddresses { if i == 0 { resp = vaddrs } else if resp != vaddrs { return ValidatorAddresses{}, errors.New("multiple withdrawal or fee recipient addresses found") } } return resp, nil }`,
}

func (p *pkgInfo) checkPrimitives() {
	for name, want := range primitiveText {
		fd, ok := p.funcs[name]
		if !ok {
			fail("primitive %s not found", name)
		}
		cp := *fd
		cp.Doc = nil
		got := p.text(&cp)
		if got != want {
			fail("primitive %s changed; the Lean model mirrors\n  %s\nbut the source is\n  %s", name, want, got)
		}
	}
	for _, c := range [][2]string{{"addressLen", "20"}, {"sszLenK1Sig", "65"}, {"zeroNonce", "0"}} {
		if v := p.constVal(c[0]); v == nil || v.ExactString() != c[1] {
			fail("constant %s is not %s", c[0], c[1])
		}
	}
}

func (p *pkgInfo) constVal(name string) constant.Value {
	o := p.pkg.Scope().Lookup(name)
	c, ok := o.(*types.Const)
	if !ok {
		return nil
	}
	return c.Val()
}

// ---------------------------------------------------------------------------------------------
// symbolic values

type step struct {
	kind string // f | first | legacy
	name string
}

type varRoot struct {
	name string
	loop bool
}

type pathSV struct {
	root     *varRoot
	steps    []step
	typ      types.Type // nil when not resolvable (imported type)
	json     []string   // json tag segments from the file root
	constStr *string
	xf       string // "" | toHex | fromHex
	xfN      int
	conv     string // "" | bytes | u64 | unix
	goText   string
}

func (p *pathSV) clone() *pathSV {
	q := *p
	q.steps = append([]step(nil), p.steps...)
	q.json = append([]string(nil), p.json...)
	return &q
}

type funcSV struct {
	decl *ast.FuncDecl
	lit  *ast.FuncLit
	env  *env
}
type funcListSV struct{ fs []*funcSV }
type constSV struct{ v constant.Value }
type hasherSV struct{}
type idxSV struct {
	fr  *frame
	pos int
}
type nilSV struct{}
type opaqueSV struct{ what string }
type lenSV struct{ of *pathSV }
type mapListSV struct{ of *pathSV }
type zeroSV struct{ typ types.Type }
type pkgSelSV struct{ text string }

type node struct {
	kind string // raw rawIfNonEmpty rawNil fixed blist u64 constU64 bool u64s sigs cont mix loop seq
	n    int
	lim  int // mix: -1 = num
	src  *pathSV
	kids []*node
	lv   *varRoot // loop: the loop variable
}

type frame struct{ items []*node }

type env struct {
	vars   map[types.Object]any
	parent *env
}

func newEnv(parent *env) *env { return &env{vars: map[types.Object]any{}, parent: parent} }

func (e *env) get(o types.Object) (any, bool) {
	for x := e; x != nil; x = x.parent {
		if v, ok := x.vars[o]; ok {
			return v, true
		}
	}
	return nil, false
}

func (e *env) set(o types.Object, v any) {
	for x := e; x != nil; x = x.parent {
		if _, ok := x.vars[o]; ok {
			x.vars[o] = v
			return
		}
	}
	e.vars[o] = v
}

type interp struct {
	p       *pkgInfo
	version string
	frames  []*frame
	loops   []*varRoot
	depth   int
}

type ctl int

const (
	ctlNone ctl = iota
	ctlReturn
	ctlContinue
)

func (it *interp) top() *frame  { return it.frames[len(it.frames)-1] }
func (it *interp) emit(n *node) { it.top().items = append(it.top().items, n) }

func (it *interp) bad(n ast.Node, f string, a ...any) {
	fail("%s (version %s): %s: %s", it.p.pos(n), it.version, fmt.Sprintf(f, a...), it.p.text(n))
}

// ---------------------------------------------------------------------------------------------
// expressions

func jsonName(tag string) string {
	j := reflect.StructTag(tag).Get("json")
	return strings.Split(j, ",")[0]
}

// field extends a data path by the (possibly promoted) field `name`.
func (it *interp) field(at ast.Node, b *pathSV, name string) *pathSV {
	if b.typ == nil {
		it.bad(at, "field %s of a value of unknown type", name)
	}
	obj, index, _ := types.LookupFieldOrMethod(b.typ, true, it.p.pkg, name)
	if _, ok := obj.(*types.Var); !ok || len(index) == 0 {
		it.bad(at, "no field %s", name)
	}
	r := b.clone()
	t := b.typ
	for _, i := range index {
		st, ok := t.Underlying().(*types.Struct)
		if !ok {
			it.bad(at, "field %s of non-struct", name)
		}
		f := st.Field(i)
		jn := jsonName(st.Tag(i))
		if jn == "" || jn == "-" {
			it.bad(at, "field %s has no json tag", f.Name())
		}
		r.steps = append(r.steps, step{"f", f.Name()})
		r.json = append(r.json, jn)
		t = f.Type()
	}
	if tb, ok := t.(*types.Basic); ok && tb.Kind() == types.Invalid {
		r.typ = nil
	} else if _, ok := t.(*types.Named); ok && t.Underlying() == types.Typ[types.Invalid] {
		r.typ = nil
	} else {
		r.typ = t
	}
	r.goText = b.goText + "." + name
	r.constStr = nil
	if name == "Version" && len(r.steps) > 0 {
		// the version being specialised for: Definition.Version of the hashed struct
		v := it.version
		r.constStr = &v
	}
	return r
}

func (it *interp) elem(at ast.Node, l *pathSV, v *varRoot) *pathSV {
	r := &pathSV{root: v, json: append([]string(nil), l.json...), goText: v.name}
	if len(r.json) == 0 {
		it.bad(at, "range over root")
	}
	r.json[len(r.json)-1] += "[]"
	if l.typ != nil {
		if sl, ok := l.typ.Underlying().(*types.Slice); ok {
			et := sl.Elem()
			if tb, ok := et.(*types.Basic); ok && tb.Kind() == types.Invalid {
				r.typ = nil
			} else {
				r.typ = et
			}
		} else {
			it.bad(at, "range over non-slice")
		}
	}
	return r
}

func (it *interp) eval1(e *env, x ast.Expr) any {
	vs := it.eval(e, x)
	if len(vs) != 1 {
		it.bad(x, "expected one value, got %d", len(vs))
	}
	return vs[0]
}

func (it *interp) constOf(x ast.Expr) (constant.Value, bool) {
	if tv, ok := it.p.info.Types[x]; ok && tv.Value != nil {
		return tv.Value, true
	}
	return nil, false
}

func (it *interp) asBool(at ast.Node, v any) bool {
	c, ok := v.(constSV)
	if !ok || c.v.Kind() != constant.Bool {
		it.bad(at, "condition is not a known boolean (%T)", v)
	}
	return constant.BoolVal(c.v)
}

func strOf(v any) (string, bool) {
	switch v := v.(type) {
	case constSV:
		if v.v.Kind() == constant.String {
			return constant.StringVal(v.v), true
		}
	case *pathSV:
		if v.constStr != nil && v.xf == "" {
			return *v.constStr, true
		}
	}
	return "", false
}

func (it *interp) eval(e *env, x ast.Expr) []any {
	if c, ok := it.constOf(x); ok {
		return []any{constSV{c}}
	}
	switch x := x.(type) {
	case *ast.ParenExpr:
		return it.eval(e, x.X)
	case *ast.BasicLit:
		it.bad(x, "literal without constant value")
	case *ast.Ident:
		if x.Name == "nil" {
			return []any{nilSV{}}
		}
		o := it.p.info.Uses[x]
		if o == nil {
			o = it.p.info.Defs[x]
		}
		if o == nil {
			it.bad(x, "unresolved identifier")
		}
		if v, ok := e.get(o); ok {
			return []any{v}
		}
		switch o := o.(type) {
		case *types.Func:
			fd, ok := it.p.funcs[o.Name()]
			if !ok {
				it.bad(x, "function without body")
			}
			return []any{&funcSV{decl: fd}}
		case *types.PkgName:
			return []any{pkgSelSV{x.Name}}
		case *types.Const:
			return []any{constSV{o.Val()}}
		}
		it.bad(x, "identifier has no symbolic value")
	case *ast.SelectorExpr:
		b := it.eval1(e, x.X)
		switch b := b.(type) {
		case *pathSV:
			if b.xf != "" || b.conv != "" {
				it.bad(x, "field of a converted value")
			}
			return []any{it.field(x, b, x.Sel.Name)}
		case pkgSelSV:
			return []any{pkgSelSV{b.text + "." + x.Sel.Name}}
		}
		it.bad(x, "selector on %T", b)
	case *ast.UnaryExpr:
		if x.Op == token.NOT {
			return []any{constSV{constant.MakeBool(!it.asBool(x, it.eval1(e, x.X)))}}
		}
		it.bad(x, "unary operator")
	case *ast.BinaryExpr:
		l, r := it.eval1(e, x.X), it.eval1(e, x.Y)
		switch x.Op {
		case token.EQL, token.NEQ:
			ls, ok1 := strOf(l)
			rs, ok2 := strOf(r)
			if ok1 && ok2 {
				return []any{constSV{constant.MakeBool((ls == rs) == (x.Op == token.EQL))}}
			}
		case token.LAND:
			return []any{constSV{constant.MakeBool(it.asBool(x, l) && it.asBool(x, r))}}
		case token.LOR:
			return []any{constSV{constant.MakeBool(it.asBool(x, l) || it.asBool(x, r))}}
		}
		it.bad(x, "binary expression on symbolic operands (%T, %T)", l, r)
	case *ast.FuncLit:
		return []any{&funcSV{lit: x, env: e}}
	case *ast.CompositeLit:
		// []hashExtraFields{ f, g }
		if at, ok := x.Type.(*ast.ArrayType); ok && at.Len == nil {
			if id, ok := at.Elt.(*ast.Ident); ok && id.Name == "hashExtraFields" {
				var fl funcListSV
				for _, el := range x.Elts {
					f, ok := it.eval1(e, el).(*funcSV)
					if !ok {
						it.bad(el, "not a function")
					}
					fl.fs = append(fl.fs, f)
				}
				return []any{fl}
			}
		}
		it.bad(x, "composite literal")
	case *ast.TypeAssertExpr:
		if _, ok := it.eval1(e, x.X).(hasherSV); ok && it.p.text(x.Type) == "*ssz.Hasher" {
			return []any{hasherSV{}, opaqueSV{"ok"}}
		}
		it.bad(x, "type assertion")
	case *ast.CallExpr:
		return it.call(e, x)
	}
	it.bad(x, "expression form %T not understood", x)
	return nil
}

func (it *interp) argPath(e *env, x ast.Expr) *pathSV {
	v := it.eval1(e, x)
	p, ok := v.(*pathSV)
	if !ok {
		it.bad(x, "argument is not a struct field (%T)", v)
	}
	return p
}

func (it *interp) argInt(e *env, x ast.Expr) int {
	v := it.eval1(e, x)
	c, ok := v.(constSV)
	if !ok || c.v.Kind() != constant.Int {
		it.bad(x, "argument is not a constant integer")
	}
	n, _ := constant.Int64Val(c.v)
	return int(n)
}

func (it *interp) needHasher(e *env, x ast.Expr) {
	if _, ok := it.eval1(e, x).(hasherSV); !ok {
		it.bad(x, "not the hasher")
	}
}

func (it *interp) call(e *env, c *ast.CallExpr) []any {
	// conversions
	switch f := c.Fun.(type) {
	case *ast.ArrayType:
		if it.p.text(f) == "[]byte" && len(c.Args) == 1 {
			p := it.argPath(e, c.Args[0]).clone()
			if p.conv != "" {
				it.bad(c, "double conversion")
			}
			p.conv = "bytes"
			return []any{p}
		}
		it.bad(c, "conversion")
	case *ast.Ident:
		switch f.Name {
		case "uint64", "int", "int64", "uint":
			if _, isType := it.p.info.Uses[f].(*types.TypeName); isType && len(c.Args) == 1 {
				v := it.eval1(e, c.Args[0])
				switch v := v.(type) {
				case *pathSV:
					if f.Name != "uint64" {
						it.bad(c, "conversion of a field to %s", f.Name)
					}
					p := v.clone()
					if p.conv != "" && p.conv != "unix" {
						it.bad(c, "double conversion")
					}
					if p.conv == "" {
						p.conv = "u64"
					} else {
						p.conv = "unix-u64"
					}
					return []any{p}
				case lenSV, constSV:
					return []any{v}
				}
				it.bad(c, "conversion of %T", v)
			}
		case "len":
			if _, isB := it.p.info.Uses[f].(*types.Builtin); isB && len(c.Args) == 1 {
				return []any{lenSV{it.argPath(e, c.Args[0])}}
			}
		}
	}

	// hasher methods and methods on data
	if sel, ok := c.Fun.(*ast.SelectorExpr); ok {
		recv := it.eval1(e, sel.X)
		switch recv := recv.(type) {
		case hasherSV:
			return it.hasherCall(e, c, sel.Sel.Name)
		case *pathSV:
			switch sel.Sel.Name {
			case "LegacyValidatorAddresses":
				if len(c.Args) != 0 || recv.typ == nil || recv.typ.String() != "cluster.Definition" {
					it.bad(c, "LegacyValidatorAddresses on %v", recv.typ)
				}
				l := it.field(c, recv, "ValidatorAddresses")
				sl, ok := l.typ.Underlying().(*types.Slice)
				if !ok {
					it.bad(c, "ValidatorAddresses is not a slice")
				}
				l.typ = sl.Elem()
				l.steps = append(l.steps, step{"legacy", ""})
				l.json[len(l.json)-1] += "[]"
				l.goText = recv.goText + ".LegacyValidatorAddresses()"
				return []any{l, opaqueSV{"err"}}
			case "Unix":
				if len(c.Args) == 0 && recv.typ == nil && recv.conv == "" {
					p := recv.clone()
					p.conv = "unix"
					p.goText += ".Unix()"
					return []any{p}
				}
			}
			it.bad(c, "method on data")
		case pkgSelSV:
			full := recv.text + "." + sel.Sel.Name
			switch {
			case full == "ssz.DefaultHasherPool.Get":
				return []any{hasherSV{}}
			case strings.HasPrefix(full, "errors.") || strings.HasPrefix(full, "z."):
				return []any{opaqueSV{"err"}}
			}
			it.bad(c, "call into package %s", full)
		}
		it.bad(c, "method call on %T", recv)
	}

	// package functions
	if id, ok := c.Fun.(*ast.Ident); ok {
		if _, isFunc := it.p.info.Uses[id].(*types.Func); isFunc {
			switch id.Name {
			case "putByteList":
				it.needHasher(e, c.Args[0])
				it.emit(&node{kind: "blist", src: it.leaf(c, it.argPath(e, c.Args[1]), "bytes"), n: it.argInt(e, c.Args[2])})
				return []any{nilSV{}}
			case "putK1SigList":
				it.needHasher(e, c.Args[0])
				it.emit(&node{kind: "sigs", src: it.leaf(c, it.argPath(e, c.Args[1]), "bytes"), n: it.argInt(e, c.Args[2])})
				return []any{nilSV{}}
			case "putBytesN":
				it.needHasher(e, c.Args[0])
				it.emit(&node{kind: "fixed", src: it.leaf(c, it.argPath(e, c.Args[1]), "bytes"), n: it.argInt(e, c.Args[2])})
				return []any{nilSV{}}
			case "putHexBytes20":
				it.needHasher(e, c.Args[0])
				p := it.argPath(e, c.Args[1]).clone()
				if p.xf != "" || p.conv != "" {
					it.bad(c, "converted address")
				}
				p.xf, p.xfN = "fromHex", 20
				it.emit(&node{kind: "fixed", src: it.leaf(c, p, "bytes"), n: 20})
				return []any{nilSV{}}
			case "to0xHex":
				p := it.argPath(e, c.Args[0]).clone()
				if p.xf != "" || p.conv != "" {
					it.bad(c, "to0xHex of converted value")
				}
				p.xf = "toHex"
				p.goText = "to0xHex(" + p.goText + ")"
				return []any{p}
			case "from0xHex":
				p := it.argPath(e, c.Args[0]).clone()
				if p.xf != "" || p.conv != "" {
					it.bad(c, "from0xHex of converted value")
				}
				p.xf, p.xfN = "fromHex", it.argInt(e, c.Args[1])
				p.goText = fmt.Sprintf("from0xHex(%s, %d)", p.goText, p.xfN)
				return []any{p, opaqueSV{"err"}}
			case "isAnyVersion":
				v, ok := strOf(it.eval1(e, c.Args[0]))
				if !ok {
					it.bad(c, "version is not known")
				}
				res := false
				for _, a := range c.Args[1:] {
					s, ok := strOf(it.eval1(e, a))
					if !ok {
						it.bad(a, "not a version constant")
					}
					res = res || s == v
				}
				return []any{constSV{constant.MakeBool(res)}}
			case "isV1x3":
				v, ok := strOf(it.eval1(e, c.Args[0]))
				if !ok {
					it.bad(c, "version is not known")
				}
				return []any{constSV{constant.MakeBool(v == "v1.3.0")}}
			}
			if _, prim := primitiveText[id.Name]; prim {
				it.bad(c, "primitive used in an unexpected way")
			}
		}
	}
	fv, ok := it.eval1(e, c.Fun).(*funcSV)
	if !ok {
		it.bad(c, "callee is not a known function")
	}
	var args []any
	for _, a := range c.Args {
		args = append(args, it.eval1(e, a))
	}
	return it.apply(c, fv, args)
}

// leaf checks that a data path is usable as a hashed leaf with the given expected conversion.
func (it *interp) leaf(at ast.Node, p *pathSV, conv string) *pathSV {
	if len(p.steps) == 0 && !p.root.loop {
		it.bad(at, "whole struct used as a leaf")
	}
	switch conv {
	case "bytes": // []byte(string) or a byte slice field
		if p.conv != "" && p.conv != "bytes" {
			it.bad(at, "unexpected conversion %s", p.conv)
		}
	case "u64":
		if p.conv != "u64" && p.conv != "unix-u64" {
			it.bad(at, "PutUint64 of a value that is not converted with uint64()")
		}
	case "bool":
		if p.conv != "" {
			it.bad(at, "unexpected conversion %s", p.conv)
		}
	}
	return p
}

func (it *interp) hasherCall(e *env, c *ast.CallExpr, m string) []any {
	switch m {
	case "Index":
		return []any{idxSV{it.top(), len(it.top().items)}}
	case "PutBytes":
		v := it.eval1(e, c.Args[0])
		switch v := v.(type) {
		case nilSV:
			it.emit(&node{kind: "rawNil"})
		case *pathSV:
			it.emit(&node{kind: "raw", src: it.leaf(c, v, "bytes")})
		default:
			it.bad(c, "PutBytes of %T", v)
		}
		return nil
	case "PutUint64":
		v := it.eval1(e, c.Args[0])
		switch v := v.(type) {
		case constSV:
			n, ok := constant.Int64Val(v.v)
			if !ok {
				it.bad(c, "constant")
			}
			it.emit(&node{kind: "constU64", n: int(n)})
		case *pathSV:
			it.emit(&node{kind: "u64", src: it.leaf(c, v, "u64")})
		default:
			it.bad(c, "PutUint64 of %T", v)
		}
		return nil
	case "PutBool":
		it.emit(&node{kind: "bool", src: it.leaf(c, it.argPath(e, c.Args[0]), "bool")})
		return nil
	case "PutUint64Array":
		ml, ok := it.eval1(e, c.Args[0]).(mapListSV)
		if !ok || len(c.Args) != 2 {
			it.bad(c, "PutUint64Array argument")
		}
		src := ml.of.clone()
		src.json[len(src.json)-1] += "[]"
		it.emit(&node{kind: "u64s", src: src, n: it.argInt(e, c.Args[1])})
		return nil
	case "Merkleize":
		ix, ok := it.eval1(e, c.Args[0]).(idxSV)
		if !ok || ix.fr != it.top() {
			it.bad(c, "Merkleize index from another group")
		}
		fr := it.top()
		kids := append([]*node(nil), fr.items[ix.pos:]...)
		fr.items = append(fr.items[:ix.pos], &node{kind: "cont", kids: kids})
		return nil
	case "MerkleizeWithMixin":
		ix, ok := it.eval1(e, c.Args[0]).(idxSV)
		if !ok || ix.fr != it.top() {
			it.bad(c, "MerkleizeWithMixin index from another group")
		}
		num, ok := it.eval1(e, c.Args[1]).(lenSV)
		if !ok {
			it.bad(c, "mixed-in number is not uint64(len(list))")
		}
		lim := -1
		switch l := it.eval1(e, c.Args[2]).(type) {
		case constSV:
			n, _ := constant.Int64Val(l.v)
			lim = int(n)
		case lenSV:
			if l.of.goText != num.of.goText {
				it.bad(c, "limit is the length of another list")
			}
		default:
			it.bad(c, "limit")
		}
		fr := it.top()
		kids := append([]*node(nil), fr.items[ix.pos:]...)
		fr.items = append(fr.items[:ix.pos], &node{kind: "mix", lim: lim, src: num.of, kids: kids})
		return nil
	case "HashRoot":
		return []any{opaqueSV{"root"}, opaqueSV{"err"}}
	}
	it.bad(c, "hasher method %s not modelled", m)
	return nil
}

func (it *interp) apply(at ast.Node, f *funcSV, args []any) []any {
	it.depth++
	if it.depth > 40 {
		it.bad(at, "call depth")
	}
	defer func() { it.depth-- }()
	var ft *ast.FuncType
	var body *ast.BlockStmt
	var e *env
	if f.decl != nil {
		if _, prim := primitiveText[f.decl.Name.Name]; prim {
			it.bad(at, "primitive %s called through a function value", f.decl.Name.Name)
		}
		ft, body, e = f.decl.Type, f.decl.Body, newEnv(nil)
	} else {
		ft, body, e = f.lit.Type, f.lit.Body, newEnv(f.env)
	}
	i := 0
	for _, fl := range ft.Params.List {
		if len(fl.Names) == 0 {
			i++ // unnamed parameter
			continue
		}
		for _, n := range fl.Names {
			if i >= len(args) {
				it.bad(at, "too few arguments")
			}
			if n.Name != "_" {
				e.vars[it.p.info.Defs[n]] = args[i]
			}
			i++
		}
	}
	if i != len(args) {
		it.bad(at, "argument count")
	}
	c, vals := it.block(e, body.List)
	if c != ctlReturn {
		if ft.Results != nil && len(ft.Results.List) > 0 {
			it.bad(at, "function ends without return")
		}
		return nil
	}
	return vals
}

// ---------------------------------------------------------------------------------------------
// statements

func (it *interp) block(e *env, list []ast.Stmt) (ctl, []any) {
	for i := 0; i < len(list); i++ {
		s := list[i]
		c, v := it.stmt(e, s)
		if c != ctlNone {
			return c, v
		}
	}
	return ctlNone, nil
}

func isNilCheck(p *pkgInfo, x ast.Expr) bool {
	b, ok := x.(*ast.BinaryExpr)
	if !ok || b.Op != token.NEQ {
		return false
	}
	id, ok1 := b.X.(*ast.Ident)
	nl, ok2 := b.Y.(*ast.Ident)
	return ok1 && ok2 && id.Name == "err" && nl.Name == "nil"
}

func onlyReturns(list []ast.Stmt) bool {
	for _, s := range list {
		if _, ok := s.(*ast.ReturnStmt); !ok {
			return false
		}
	}
	return len(list) > 0
}

func (it *interp) assign(e *env, lhs []ast.Expr, vals []any, at ast.Node) {
	if len(lhs) != len(vals) {
		it.bad(at, "assignment count %d vs %d", len(lhs), len(vals))
	}
	for i, l := range lhs {
		id, ok := l.(*ast.Ident)
		if !ok {
			it.bad(at, "assignment to a non-identifier")
		}
		if id.Name == "_" {
			continue
		}
		o := it.p.info.Defs[id]
		if o == nil {
			o = it.p.info.Uses[id]
		}
		if o == nil {
			it.bad(at, "unresolved assignment target")
		}
		e.set(o, vals[i])
	}
}

func (it *interp) stmt(e *env, s ast.Stmt) (ctl, []any) {
	switch s := s.(type) {
	case *ast.BlockStmt:
		return it.block(newEnv(e), s.List)
	case *ast.ExprStmt:
		it.eval(e, s.X)
		return ctlNone, nil
	case *ast.DeferStmt:
		if t := it.p.text(s.Call); t != "ssz.DefaultHasherPool.Put(hh)" {
			it.bad(s, "defer")
		}
		return ctlNone, nil
	case *ast.DeclStmt:
		gd, ok := s.Decl.(*ast.GenDecl)
		if !ok || gd.Tok != token.VAR {
			it.bad(s, "declaration")
		}
		for _, sp := range gd.Specs {
			vs := sp.(*ast.ValueSpec)
			if len(vs.Values) != 0 {
				var vals []any
				for _, v := range vs.Values {
					vals = append(vals, it.eval1(e, v))
				}
				var lhs []ast.Expr
				for _, n := range vs.Names {
					lhs = append(lhs, n)
				}
				it.assign(e, lhs, vals, s)
				continue
			}
			for _, n := range vs.Names {
				e.vars[it.p.info.Defs[n]] = zeroSV{it.p.info.Defs[n].Type()}
			}
		}
		return ctlNone, nil
	case *ast.AssignStmt:
		if s.Tok != token.DEFINE && s.Tok != token.ASSIGN {
			it.bad(s, "assignment operator")
		}
		var vals []any
		if len(s.Rhs) == 1 {
			vals = it.eval(e, s.Rhs[0])
		} else {
			for _, r := range s.Rhs {
				vals = append(vals, it.eval1(e, r))
			}
		}
		it.assign(e, s.Lhs, vals, s)
		return ctlNone, nil
	case *ast.ReturnStmt:
		var vals []any
		if len(s.Results) == 1 {
			vals = it.eval(e, s.Results[0])
		} else {
			for _, r := range s.Results {
				vals = append(vals, it.eval1(e, r))
			}
		}
		return ctlReturn, vals
	case *ast.BranchStmt:
		if s.Tok == token.CONTINUE && s.Label == nil {
			return ctlContinue, nil
		}
		it.bad(s, "branch")
	case *ast.IfStmt:
		return it.ifStmt(e, s)
	case *ast.SwitchStmt:
		if s.Init != nil || s.Tag != nil {
			it.bad(s, "switch with tag")
		}
		var def *ast.CaseClause
		for _, cc := range s.Body.List {
			cl := cc.(*ast.CaseClause)
			if cl.List == nil {
				def = cl
				continue
			}
			for _, cond := range cl.List {
				if it.asBool(cond, it.eval1(e, cond)) {
					return it.block(newEnv(e), cl.Body)
				}
			}
		}
		if def != nil {
			return it.block(newEnv(e), def.Body)
		}
		return ctlNone, nil
	case *ast.RangeStmt:
		return it.rangeStmt(e, s)
	}
	it.bad(s, "statement form %T not understood", s)
	return ctlNone, nil
}

func (it *interp) ifStmt(e *env, s *ast.IfStmt) (ctl, []any) {
	e = newEnv(e)
	if s.Init != nil {
		if c, v := it.stmt(e, s.Init); c != ctlNone {
			return c, v
		}
	}
	// error checks: the error-free path is followed
	if isNilCheck(it.p, s.Cond) {
		if !onlyReturns(s.Body.List) {
			it.bad(s, "error branch does more than return")
		}
		if s.Else != nil {
			return it.stmt(e, s.Else)
		}
		return ctlNone, nil
	}
	if u, ok := s.Cond.(*ast.UnaryExpr); ok && u.Op == token.NOT {
		if id, ok := u.X.(*ast.Ident); ok {
			if o := it.p.info.Uses[id]; o != nil {
				if v, ok := e.get(o); ok {
					if op, ok := v.(opaqueSV); ok && op.what == "ok" {
						if !onlyReturns(s.Body.List) || s.Else != nil {
							it.bad(s, "type assertion failure branch")
						}
						return ctlNone, nil
					}
				}
			}
		}
	}
	// `if x != "" { hh.PutBytes([]byte(x)) }`
	if b, ok := s.Cond.(*ast.BinaryExpr); ok && b.Op == token.NEQ && it.p.text(b.Y) == `""` && s.Else == nil {
		if p, ok := it.eval1(e, b.X).(*pathSV); ok && p.constStr == nil {
			want := fmt.Sprintf("{ hh.PutBytes([]byte(%s)) }", it.p.text(b.X))
			if it.p.text(s.Body) != want {
				it.bad(s, "data dependent branch")
			}
			q := p.clone()
			q.conv = "bytes"
			it.emit(&node{kind: "rawIfNonEmpty", src: q})
			return ctlNone, nil
		}
	}
	// `if len(xs) > 0 { x = xs[0] }` on a zero-initialised x
	if b, ok := s.Cond.(*ast.BinaryExpr); ok && b.Op == token.GTR && it.p.text(b.Y) == "0" && s.Else == nil {
		if l, ok := it.eval1(e, b.X).(lenSV); ok && len(s.Body.List) == 1 {
			if as, ok := s.Body.List[0].(*ast.AssignStmt); ok && as.Tok == token.ASSIGN && len(as.Lhs) == 1 && len(as.Rhs) == 1 {
				id, ok1 := as.Lhs[0].(*ast.Ident)
				ix, ok2 := as.Rhs[0].(*ast.IndexExpr)
				if ok1 && ok2 && it.p.text(ix.Index) == "0" && it.p.text(ix.X) == it.p.text(b.X.(*ast.CallExpr).Args[0]) {
					o := it.p.info.Uses[id]
					cur, _ := e.get(o)
					if _, isZero := cur.(zeroSV); isZero {
						sl, ok := l.of.typ.Underlying().(*types.Slice)
						if !ok {
							it.bad(s, "first element of a non-slice")
						}
						q := l.of.clone()
						q.steps = append(q.steps, step{"first", ""})
						q.json[len(q.json)-1] += "[]"
						q.typ = sl.Elem()
						q.goText = "first(" + l.of.goText + ")"
						e.set(o, q)
						return ctlNone, nil
					}
				}
			}
		}
	}
	if it.asBool(s.Cond, it.eval1(e, s.Cond)) {
		return it.block(newEnv(e), s.Body.List)
	}
	if s.Else != nil {
		return it.stmt(e, s.Else)
	}
	return ctlNone, nil
}

func (it *interp) rangeStmt(e *env, s *ast.RangeStmt) (ctl, []any) {
	if s.Key != nil {
		if id, ok := s.Key.(*ast.Ident); !ok || id.Name != "_" {
			it.bad(s, "range key used")
		}
	}
	coll := it.eval1(e, s.X)
	switch coll := coll.(type) {
	case funcListSV:
		id, ok := s.Value.(*ast.Ident)
		if !ok {
			it.bad(s, "range value")
		}
		for _, f := range coll.fs {
			le := newEnv(e)
			le.vars[it.p.info.Defs[id]] = f
			c, v := it.block(le, s.Body.List)
			if c == ctlReturn {
				return c, v
			}
		}
		return ctlNone, nil
	case nilSV: // `extra` passed as nil
		return ctlNone, nil
	case *pathSV:
		id, ok := s.Value.(*ast.Ident)
		if !ok || s.Tok != token.DEFINE {
			it.bad(s, "range value")
		}
		if coll.xf != "" || coll.conv != "" {
			it.bad(s, "range over converted value")
		}
		// amounts64 = append(amounts64, uint64(amount))
		if len(s.Body.List) == 1 {
			if as, ok := s.Body.List[0].(*ast.AssignStmt); ok && as.Tok == token.ASSIGN && len(as.Lhs) == 1 && len(as.Rhs) == 1 {
				if tid, ok := as.Lhs[0].(*ast.Ident); ok {
					want := fmt.Sprintf("append(%s, uint64(%s))", tid.Name, id.Name)
					if it.p.text(as.Rhs[0]) == want {
						o := it.p.info.Uses[tid]
						cur, _ := e.get(o)
						if _, isZero := cur.(zeroSV); !isZero {
							it.bad(s, "append to a non-empty slice")
						}
						e.set(o, mapListSV{coll})
						return ctlNone, nil
					}
				}
			}
		}
		v := &varRoot{name: id.Name, loop: true}
		le := newEnv(e)
		le.vars[it.p.info.Defs[id]] = it.elem(s, coll, v)
		it.frames = append(it.frames, &frame{})
		it.loops = append(it.loops, v)
		c, _ := it.block(le, s.Body.List)
		if c == ctlReturn {
			it.bad(s, "return inside a loop on the error-free path")
		}
		body := it.top().items
		it.frames = it.frames[:len(it.frames)-1]
		it.loops = it.loops[:len(it.loops)-1]
		it.emit(&node{kind: "loop", src: coll, kids: body, lv: v})
		return ctlNone, nil
	}
	it.bad(s, "range over %T", coll)
	return ctlNone, nil
}

// ---------------------------------------------------------------------------------------------
// running the three hash kinds

func (p *pkgInfo) namedType(name string) types.Type {
	o := p.pkg.Scope().Lookup(name)
	if o == nil {
		fail("type %s not found", name)
	}
	return o.Type()
}

func (p *pkgInfo) run(version, kind string) *node {
	it := &interp{p: p, version: version, frames: []*frame{{}}}
	var fn string
	var args []any
	switch kind {
	case "cfg", "def":
		fn = "hashDefinition"
		args = []any{&pathSV{root: &varRoot{name: "d"}, typ: p.namedType("Definition"), goText: "d"},
			constSV{constant.MakeBool(kind == "cfg")}}
	case "lock":
		fn = "hashLock"
		args = []any{&pathSV{root: &varRoot{name: "l"}, typ: p.namedType("Lock"), goText: "l"}}
	case "lcfg": // config hash of the definition embedded in a lock (Lock.VerifyHashes -> Definition.VerifyHashes)
		fn = "hashDefinition"
		l := &pathSV{root: &varRoot{name: "l"}, typ: p.namedType("Lock"), goText: "l"}
		args = []any{it.field(p.funcs["hashLock"], l, "Definition"), constSV{constant.MakeBool(true)}}
	}
	fd, ok := p.funcs[fn]
	if !ok {
		fail("%s not found", fn)
	}
	res := it.apply(fd, &funcSV{decl: fd}, args)
	if len(res) != 2 {
		fail("%s: unexpected results", fn)
	}
	if _, isErr := res[1].(nilSV); !isErr {
		fail("%s returns an error for supported version %s", fn, version)
	}
	if len(it.frames) != 1 || len(it.frames[0].items) != 1 {
		fail("%s (%s): the hasher holds %d items at HashRoot", fn, version, len(it.frames[0].items))
	}
	return it.frames[0].items[0]
}

// ---------------------------------------------------------------------------------------------
// Lean emission

func leanStr(s string) string { return strconv.Quote(s) }

// interned JSON paths: the Lean side compares ids (id 0 = "").
var (
	pathIDs   = map[string]int{"": 0}
	pathNames = []string{""}
)

func pathID(s string) int {
	if id, ok := pathIDs[s]; ok {
		return id
	}
	pathIDs[s] = len(pathNames)
	pathNames = append(pathNames, s)
	return pathIDs[s]
}

func (p *pkgInfo) srcLean(s *pathSV, loops []*varRoot) string {
	idx := -1
	if !s.root.loop {
		idx = len(loops)
	} else {
		for i := len(loops) - 1; i >= 0; i-- {
			if loops[i] == s.root {
				idx = len(loops) - 1 - i
			}
		}
	}
	if idx < 0 {
		fail("accessor %s refers to a loop variable that is out of scope", s.goText)
	}
	var st []string
	for _, x := range s.steps {
		switch x.kind {
		case "f":
			st = append(st, ".f "+leanStr(x.name))
		case "first":
			st = append(st, ".first")
		case "legacy":
			st = append(st, ".legacy")
		}
	}
	xf := ".id"
	switch s.xf {
	case "toHex":
		xf = ".toHex"
	case "fromHex":
		xf = fmt.Sprintf(".fromHex %d", s.xfN)
	}
	return fmt.Sprintf("⟨%d, [%s], %s, %d, %s⟩", idx, strings.Join(st, ", "), xf, pathID(strings.Join(s.json, ".")), leanStr(s.goText+" : "+strings.Join(s.json, ".")))
}

func (p *pkgInfo) nodeLean(n *node, loops []*varRoot, ind string) string {
	kids := func(ks []*node, lp []*varRoot) string {
		if len(ks) == 0 {
			return "[]"
		}
		var parts []string
		for _, k := range ks {
			parts = append(parts, ind+"  "+p.nodeLean(k, lp, ind+"  "))
		}
		return "[\n" + strings.Join(parts, ",\n") + "]"
	}
	switch n.kind {
	case "raw", "rawIfNonEmpty", "u64", "bool":
		return fmt.Sprintf(".%s %s", n.kind, p.srcLean(n.src, loops))
	case "rawNil":
		return ".rawNil"
	case "constU64":
		return fmt.Sprintf(".constU64 %d", n.n)
	case "fixed", "blist", "u64s", "sigs":
		return fmt.Sprintf(".%s %d %s", n.kind, n.n, p.srcLean(n.src, loops))
	case "cont", "seq":
		return fmt.Sprintf(".%s %s", n.kind, kids(n.kids, loops))
	case "mix":
		lim := ".num"
		if n.lim >= 0 {
			lim = fmt.Sprintf("(.const %d)", n.lim)
		}
		return fmt.Sprintf(".mix %s %s %s", lim, p.srcLean(n.src, loops), kids(n.kids, loops))
	case "loop":
		lv := n.lv
		return fmt.Sprintf(".loop %s %s", p.srcLean(n.src, loops), kids(n.kids, append(append([]*varRoot(nil), loops...), lv)))
	}
	fail("node kind %s", n.kind)
	return ""
}

func verIdent(v string) string {
	// v1.10.0 -> v1_10
	parts := strings.Split(strings.TrimPrefix(v, "v"), ".")
	if len(parts) != 3 || parts[2] != "0" {
		fail("unexpected version format %s", v)
	}
	return "v" + parts[0] + "_" + parts[1]
}

func (p *pkgInfo) versions() []string {
	var vs []string
	for _, f := range p.files {
		ast.Inspect(f, func(n ast.Node) bool {
			vs0, ok := n.(*ast.ValueSpec)
			if !ok || len(vs0.Names) != 1 || vs0.Names[0].Name != "supportedVersions" || len(vs0.Values) != 1 {
				return true
			}
			cl, ok := vs0.Values[0].(*ast.CompositeLit)
			if !ok {
				fail("supportedVersions is not a literal")
			}
			for _, el := range cl.Elts {
				kv := el.(*ast.KeyValueExpr)
				tv, ok := p.info.Types[kv.Key]
				if !ok || tv.Value == nil || p.text(kv.Value) != "true" {
					fail("supportedVersions entry %s", p.text(kv))
				}
				vs = append(vs, constant.StringVal(tv.Value))
			}
			return false
		})
	}
	if len(vs) == 0 {
		fail("supportedVersions not found")
	}
	sort.Slice(vs, func(i, j int) bool {
		a, _ := strconv.Atoi(strings.Split(vs[i], ".")[1])
		b, _ := strconv.Atoi(strings.Split(vs[j], ".")[1])
		return a < b
	})
	return vs
}

// ---------------------------------------------------------------------------------------------
// T-fields

type leaf struct{ path, kind, target string }

// JSON leaves whose per-version JSON struct field has no field of the same tag path in the Go
// structs Definition / Lock, with the tag path they are decoded into ("" = decode rejects every
// non-default value, nothing is stored).
var aliases = map[string]string{
	"fee_recipient_address":                                        "validators[].fee_recipient_address", // repeatVAddrs
	"withdrawal_address":                                           "validators[].withdrawal_address",
	"operators[].nonce":                                            "", // operatorsFromV1x1: must be 0
	"distributed_validators[].fee_recipient_address":               "", // unmarshalLockV1x0or1/V1x2to5: must be empty
	"distributed_validators[].deposit_data.pubkey":                 "distributed_validators[].partial_deposit_data[].pubkey",
	"distributed_validators[].deposit_data.withdrawal_credentials": "distributed_validators[].partial_deposit_data[].withdrawal_credentials",
	"distributed_validators[].deposit_data.amount":                 "distributed_validators[].partial_deposit_data[].amount",
	"distributed_validators[].deposit_data.signature":              "distributed_validators[].partial_deposit_data[].signature",
}

func (p *pkgInfo) structOf(name string) *ast.StructType {
	ts, ok := p.typs[name]
	if !ok {
		fail("type %s not found", name)
	}
	st, ok := ts.Type.(*ast.StructType)
	if !ok {
		fail("type %s is not a struct", name)
	}
	return st
}

// walk collects the JSON leaves of struct `name`; defJSON is the JSON struct to use for a nested
// `Definition` ("" = the Go struct itself).
func (p *pkgInfo) walk(name, prefix, defJSON string, out *[]leaf) {
	st := p.structOf(name)
	for _, f := range st.Fields.List {
		if f.Tag == nil {
			fail("%s: field without tag", name)
		}
		tag, _ := strconv.Unquote(f.Tag.Value)
		j := reflect.StructTag(tag).Get("json")
		jn := strings.Split(j, ",")[0]
		if jn == "" || jn == "-" {
			fail("%s: field without json name", name)
		}
		asString := strings.Contains(j, ",string")
		if len(f.Names) > 1 {
			fail("%s: multi-name field", name)
		}
		p.walkType(f.Type, prefix+jn, asString, defJSON, out, name)
	}
}

func (p *pkgInfo) walkType(t ast.Expr, path string, asString bool, defJSON string, out *[]leaf, in string) {
	switch tt := p.text(t); tt {
	case "string":
		*out = append(*out, leaf{path, "str", ""})
		return
	case "int":
		k := "int"
		if asString {
			k = "intstr"
		}
		*out = append(*out, leaf{path, k, ""})
		return
	case "uint":
		*out = append(*out, leaf{path, "uint", ""})
		return
	case "bool":
		*out = append(*out, leaf{path, "bool", ""})
		return
	case "ethHex":
		*out = append(*out, leaf{path, "hex", ""})
		return
	case "[]byte":
		*out = append(*out, leaf{path, "b64", ""})
		return
	case "eth2p0.Gwei":
		*out = append(*out, leaf{path, "gwei", ""})
		return
	case "time.Time":
		*out = append(*out, leaf{path, "time", ""})
		return
	case "Definition":
		if defJSON != "" {
			p.walk(defJSON, path+".", "", out)
		} else {
			p.walk("Definition", path+".", "", out)
		}
		return
	}
	switch t := t.(type) {
	case *ast.ArrayType:
		if t.Len != nil {
			fail("%s: array type", in)
		}
		p.walkType(t.Elt, path+"[]", false, defJSON, out, in)
		return
	case *ast.Ident:
		if _, ok := p.typs[t.Name]; ok {
			if _, isStruct := p.typs[t.Name].Type.(*ast.StructType); isStruct {
				p.walk(t.Name, path+".", defJSON, out)
				return
			}
		}
	}
	fail("%s: field type %s at %s not understood", in, p.text(t), path)
}

// jsonStructOf returns, per version, the JSON struct used by `recv`'s MarshalJSON / UnmarshalJSON.
func (p *pkgInfo) jsonStructs(recv string, versions []string) map[string]string {
	res := map[string]string{}
	for _, dir := range []string{"MarshalJSON", "UnmarshalJSON"} {
		fd, ok := p.funcs[recv+"."+dir]
		if !ok {
			fail("%s.%s not found", recv, dir)
		}
		var sw *ast.SwitchStmt
		ast.Inspect(fd.Body, func(n ast.Node) bool {
			if s, ok := n.(*ast.SwitchStmt); ok && sw == nil {
				sw = s
			}
			return true
		})
		if sw == nil || sw.Tag != nil {
			fail("%s.%s: version switch not found", recv, dir)
		}
		got := map[string]string{}
		for _, cc := range sw.Body.List {
			cl := cc.(*ast.CaseClause)
			if cl.List == nil {
				continue
			}
			if len(cl.List) != 1 {
				fail("%s.%s: case list", recv, dir)
			}
			call, ok := cl.List[0].(*ast.CallExpr)
			if !ok || p.text(call.Fun) != "isAnyVersion" {
				fail("%s.%s: case %s", recv, dir, p.text(cl.List[0]))
			}
			// the codec function called in the case body
			var codec string
			ast.Inspect(&ast.BlockStmt{List: cl.Body}, func(n ast.Node) bool {
				if c, ok := n.(*ast.CallExpr); ok {
					if id, ok := c.Fun.(*ast.Ident); ok && (strings.HasPrefix(id.Name, "marshal") || strings.HasPrefix(id.Name, "unmarshal")) && codec == "" {
						codec = id.Name
					}
				}
				return true
			})
			cfd, ok := p.funcs[codec]
			if !ok {
				fail("%s.%s: codec of case %s not found", recv, dir, p.text(cl.List[0]))
			}
			// its JSON struct: the composite literal passed to json.Marshal / the variable passed to json.Unmarshal
			var js string
			ast.Inspect(cfd.Body, func(n ast.Node) bool {
				c, ok := n.(*ast.CallExpr)
				if !ok {
					return true
				}
				switch p.text(c.Fun) {
				case "json.Marshal":
					if cl, ok := c.Args[0].(*ast.CompositeLit); ok {
						js = p.text(cl.Type)
					}
				case "json.Unmarshal":
					if u, ok := c.Args[1].(*ast.UnaryExpr); ok {
						if id, ok := u.X.(*ast.Ident); ok {
							if o := p.info.Uses[id]; o != nil {
								js = types.TypeString(o.Type(), func(*types.Package) string { return "" })
							}
						}
					}
				}
				return true
			})
			if _, ok := p.typs[js]; !ok {
				fail("%s: JSON struct of %s not found (%q)", dir, codec, js)
			}
			for _, a := range call.Args[1:] {
				tv, ok := p.info.Types[a]
				if !ok || tv.Value == nil {
					fail("%s.%s: case argument %s", recv, dir, p.text(a))
				}
				got[constant.StringVal(tv.Value)] = js
			}
		}
		for _, v := range versions {
			js, ok := got[v]
			if !ok {
				fail("%s.%s has no case for %s", recv, dir, v)
			}
			if prev, ok := res[v]; ok && prev != js {
				fail("%s: MarshalJSON uses %s but UnmarshalJSON uses %s for %s", recv, prev, js, v)
			}
			res[v] = js
		}
	}
	return res
}

func (p *pkgInfo) fields(versions []string) (map[string][]leaf, map[string][]leaf) {
	var mainDef, mainLock []leaf
	p.walk("Definition", "", "", &mainDef)
	p.walk("Lock", "", "", &mainLock)
	known := func(ls []leaf) map[string]bool {
		m := map[string]bool{}
		for _, l := range ls {
			m[l.path] = true
		}
		return m
	}
	kd, kl := known(mainDef), known(mainLock)
	defJS := p.jsonStructs("Definition", versions)
	lockJS := p.jsonStructs("Lock", versions)
	target := func(ls []leaf, known map[string]bool, prefixDef bool) []leaf {
		for i := range ls {
			path := ls[i].path
			rel := strings.TrimPrefix(path, "cluster_definition.")
			switch {
			case known[path]:
				ls[i].target = path
			default:
				key := path
				pre := ""
				if prefixDef && rel != path {
					key, pre = rel, "cluster_definition."
				}
				t, ok := aliases[key]
				if !ok {
					fail("JSON leaf %s has no field with the same tag path in the Go struct and no alias", path)
				}
				if t != "" {
					t = pre + t
					if !known[t] {
						fail("alias target %s is not a field of the Go struct", t)
					}
				}
				ls[i].target = t
			}
		}
		return ls
	}
	dres, lres := map[string][]leaf{}, map[string][]leaf{}
	for _, v := range versions {
		var d, l []leaf
		p.walk(defJS[v], "", "", &d)
		p.walk(lockJS[v], "", defJS[v], &l)
		dres[v] = target(d, kd, false)
		lres[v] = target(l, kl, true)
	}
	return dres, lres
}

// ---------------------------------------------------------------------------------------------

func write(path, content string) {
	old, err := os.ReadFile(path)
	if err == nil && string(old) == content {
		return
	}
	if err := os.MkdirAll(filepath.Dir(path), 0o755); err != nil {
		fail("%v", err)
	}
	tmp := path + ".tmp"
	if err := os.WriteFile(tmp, []byte(content), 0o644); err != nil {
		fail("%v", err)
	}
	if err := os.Rename(tmp, path); err != nil {
		fail("%v", err)
	}
}

func main() {
	repo := flag.String("repo", "", "repository root (default $VERIF_REPO or /repo)")
	outdir := flag.String("outdir", "/verif/lean/CharonV/Generated", "output directory")
	flag.Parse()
	if *repo == "" {
		*repo = os.Getenv("VERIF_REPO")
	}
	if *repo == "" {
		*repo = "/repo"
	}
	p := load(filepath.Join(*repo, "cluster"))
	p.checkPrimitives()
	versions := p.versions()

	var b strings.Builder
	b.WriteString("/- GENERATED by harness/cmd/trans-ssz (T-ssz) from cluster/ssz.go — do not edit, not committed. -/\n")
	b.WriteString("import CharonV.Model.SszSchema\nnamespace CharonV.Generated.ClusterSsz\nopen CharonV.Ssz\n\n")
	var qs []string
	for _, v := range versions {
		qs = append(qs, leanStr(v))
	}
	fmt.Fprintf(&b, "def versions : List String := [%s]\n\n", strings.Join(qs, ", "))
	var rows []string
	for _, v := range versions {
		for _, kind := range []string{"cfg", "def", "lock", "lcfg"} {
			n := p.run(v, kind)
			fmt.Fprintf(&b, "def %s_%s : Sch :=\n  %s\n\n", kind, verIdent(v), p.nodeLean(n, nil, "  "))
		}
		rows = append(rows, fmt.Sprintf("(%s, cfg_%s, def_%s, lock_%s, lcfg_%s)", leanStr(v), verIdent(v), verIdent(v), verIdent(v), verIdent(v)))
	}
	fmt.Fprintf(&b, "/-- (version, config hash, definition hash, lock hash, config hash of the definition embedded in a lock) -/\n")
	fmt.Fprintf(&b, "def schemas : List (String × Sch × Sch × Sch × Sch) := [\n  %s]\n\n", strings.Join(rows, ",\n  "))

	dl, ll := p.fields(versions)
	var c strings.Builder
	c.WriteString("/- GENERATED by harness/cmd/trans-ssz (T-fields) from the JSON structs of cluster/*.go — do not edit, not committed. -/\n")
	c.WriteString("import CharonV.Model.SszSchema\nnamespace CharonV.Generated.ClusterFields\nopen CharonV.Ssz\n\n")
	emit := func(name string, ls []leaf) {
		var parts []string
		for _, l := range ls {
			parts = append(parts, fmt.Sprintf("⟨%d, %s, %d⟩ /- %s -> %s -/", pathID(l.path), leanStr(l.kind), pathID(l.target), l.path, l.target))
		}
		fmt.Fprintf(&c, "def %s : List Leaf := [\n  %s]\n\n", name, strings.Join(parts, ",\n  "))
	}
	var frows []string
	for _, v := range versions {
		emit("defFields_"+verIdent(v), dl[v])
		emit("lockFields_"+verIdent(v), ll[v])
		frows = append(frows, fmt.Sprintf("(%s, defFields_%s, lockFields_%s)", leanStr(v), verIdent(v), verIdent(v)))
	}
	fmt.Fprintf(&c, "def fields : List (String × List Leaf × List Leaf) := [\n  %s]\n\n", strings.Join(frows, ",\n  "))
	c.WriteString("end CharonV.Generated.ClusterFields\n")
	write(filepath.Join(*outdir, "ClusterFields.lean"), c.String())

	// the interned JSON paths used by both files
	var names []string
	for _, n := range pathNames {
		names = append(names, leanStr(n))
	}
	fmt.Fprintf(&b, "/-- interned JSON leaf paths: `Src.jid`, `Leaf.pid`, `Leaf.tid` index this table. -/\n")
	fmt.Fprintf(&b, "def pathTable : List String := [\n  %s]\n\n", strings.Join(names, ",\n  "))
	b.WriteString("end CharonV.Generated.ClusterSsz\n")
	write(filepath.Join(*outdir, "ClusterSsz.lean"), b.String())
	fmt.Printf("trans-ssz: %d versions, schemas and fields written to %s\n", len(versions), *outdir)
}
