// drive-priority: correspondence driver + monitors for the priority protocol's pure calculation, its message
// admission and the generic libp2p request handler — property C14, model lean/CharonV/Model/Priority.lean, line
// driver lean/Driver/Priority.lean (`drv-priority`).
//
// Real code driven:
//   - core/priority/calculate.go  calculateResult (hook VerifCalculateResult) on generated message lists
//   - core/priority/prioritiser.go  the REAL Prioritiser built with NewForT (nil *testing.T is never touched): the
//     handler it registers is captured through registerHandlerFunc, Prioritise runs the real runInstance, the real
//     signature verifier (hook VerifNewMsgVerifier / VerifSignMsg, real secp256k1 keys and peer ids), a recording
//     consensus, a fake deadliner / gater. sendFunc always fails (the exchange's response arm is not driven).
//   - p2p/receive.go  the REAL RegisterHandler on a libp2p mocknet host; the client writes RAW bytes on the stream
//     (truncated / oversized / overlong varint / type-confused / valid frames), closes its write side and reads to EOF.
//
// ops (every line is answered by the Lean driver; formats in lean/Driver/Priority.lean):
//
//	calc m=<int> <msgs>                                   -> ok msgs=.. topics=.. | err <class>
//	inst n= m= slot= gate= exp= early= peers= own=        -> started | proposed .. | abort <class> | dropped   (reset op)
//	req from=<i> nil|wrongtype                            -> err nilmsg
//	req from=<i> claim=<j> sig=<..> duty=<..> topics=<..> -> own [proposed ..|abort <class>] | err <class>
//	recv limit=<L> dec=<b> nil=<b> h=<..> stream=<hex>    -> called=<b> written=<b>
package main

import (
	"bytes"
	"context"
	"crypto/sha256"
	"encoding/binary"
	"encoding/hex"
	"fmt"
	"io"
	"sort"
	"strconv"
	"strings"
	"sync"
	"time"

	k1 "github.com/decred/dcrd/dcrec/secp256k1/v4"
	"github.com/libp2p/go-libp2p/core/host"
	"github.com/libp2p/go-libp2p/core/peer"
	"github.com/libp2p/go-libp2p/core/protocol"
	mocknet "github.com/libp2p/go-libp2p/p2p/net/mock"
	"google.golang.org/protobuf/proto"
	"google.golang.org/protobuf/types/known/anypb"
	"google.golang.org/protobuf/types/known/structpb"

	"github.com/obolnetwork/charon/app/log"
	"github.com/obolnetwork/charon/app/protonil"
	"github.com/obolnetwork/charon/core"
	pbv1 "github.com/obolnetwork/charon/core/corepb/v1"
	"github.com/obolnetwork/charon/core/priority"
	"github.com/obolnetwork/charon/p2p"

	"verifharness/hx"
)

var run *hx.Run

// ---------- symbolic pools ----------

func prioAny(i int) *anypb.Any {
	switch i {
	case 0:
		return nil
	case 1:
		return &anypb.Any{TypeUrl: "x"}
	case 2:
		return &anypb.Any{TypeUrl: "type.googleapis.com/google.protobuf.Value", Value: []byte{0xff, 0xff}}
	case 3:
		a, err := anypb.New(&pbv1.Duty{Slot: 7, Type: 3})
		hx.Must(err)
		return a
	}
	a, err := anypb.New(structpb.NewStringValue("p" + strconv.Itoa(i)))
	hx.Must(err)
	return a
}

const nTopics = 24

var (
	topicPool  [nTopics]*anypb.Any
	topicHex   [nTopics]string
	topicByHex = map[string]int{}
	prioIDs    = map[[32]byte]int{} // hash -> id, filled lazily
)

func topicAny(j int) *anypb.Any {
	switch j {
	case 0:
		return nil
	case 1:
		a, err := anypb.New(&pbv1.Duty{Slot: 1, Type: 2})
		hx.Must(err)
		return a
	case 2:
		return &anypb.Any{TypeUrl: "t", Value: []byte{1, 2, 3}}
	}
	a, err := anypb.New(structpb.NewStringValue("topic" + strconv.Itoa(j)))
	hx.Must(err)
	return a
}

func hashOf(m proto.Message) [32]byte {
	h, err := priority.VerifHashProto(m)
	hx.Must(err)
	return h
}

func initPools() {
	for j := 0; j < nTopics; j++ {
		topicPool[j] = topicAny(j)
		h := hashOf(topicPool[j])
		topicHex[j] = hex.EncodeToString(h[:6])
		if _, dup := topicByHex[topicHex[j]]; dup {
			panic("topic pool hash prefix collision")
		}
		topicByHex[topicHex[j]] = j
	}
}

func prioID(a *anypb.Any) int {
	h := hashOf(a)
	if id, ok := prioIDs[h]; ok {
		return id
	}
	return -1
}

func regPrio(i int) *anypb.Any {
	a := prioAny(i)
	h := hashOf(a)
	if old, ok := prioIDs[h]; ok && old != i {
		panic("priority pool hash collision")
	}
	prioIDs[h] = i
	return a
}

// ---------- op text <-> protos ----------

type tSpec struct {
	hex   string
	prios []int
}
type mSpec struct {
	peer   string
	duty   int // -1 = nil
	topics []tSpec
}

func parsePrios(s string) []int {
	if s == "-" {
		return nil
	}
	var out []int
	for _, it := range strings.Split(s, ".") {
		if strings.HasPrefix(it, "r") || strings.HasPrefix(it, "R") {
			ab := strings.Split(it[1:], "x")
			st, err := strconv.Atoi(ab[0])
			hx.Must(err)
			cnt, err := strconv.Atoi(ab[1])
			hx.Must(err)
			for k := 0; k < cnt; k++ {
				if it[0] == 'R' { // descending
					out = append(out, st+cnt-1-k)
				} else {
					out = append(out, st+k)
				}
			}
			continue
		}
		x, err := strconv.Atoi(it)
		hx.Must(err)
		out = append(out, x)
	}
	return out
}

func parseTopics(s string) []tSpec {
	if s == "-" {
		return nil
	}
	var out []tSpec
	for _, t := range strings.Split(s, "|") {
		hp := strings.SplitN(t, ":", 2)
		out = append(out, tSpec{hex: hp[0], prios: parsePrios(hp[1])})
	}
	return out
}

func parseMsgs(s string) []mSpec {
	if s == "-" {
		return nil
	}
	var out []mSpec
	for _, m := range strings.Split(s, ";") {
		f := strings.SplitN(m, "/", 3)
		ms := mSpec{peer: f[0], duty: -1}
		if ms.peer == "~" {
			ms.peer = ""
		}
		if f[1] != "n" {
			d, err := strconv.Atoi(f[1])
			hx.Must(err)
			ms.duty = d
		}
		ms.topics = parseTopics(f[2])
		out = append(out, ms)
	}
	return out
}

func buildTopics(ts []tSpec) []*pbv1.PriorityTopicProposal {
	var out []*pbv1.PriorityTopicProposal
	for _, t := range ts {
		j, ok := topicByHex[t.hex]
		if !ok {
			panic("unknown topic " + t.hex)
		}
		tp := &pbv1.PriorityTopicProposal{Topic: topicPool[j]}
		for _, p := range t.prios {
			tp.Priorities = append(tp.Priorities, regPrio(p))
		}
		out = append(out, tp)
	}
	return out
}

func dutyProto(d int) *pbv1.Duty {
	if d < 0 {
		return nil
	}
	return core.DutyToProto(core.NewInfoSyncDuty(uint64(d)))
}

func buildMsg(m mSpec) *pbv1.PriorityMsg {
	return &pbv1.PriorityMsg{Duty: dutyProto(m.duty), PeerId: m.peer, Topics: buildTopics(m.topics)}
}

func showPeer(s string) string {
	if s == "" {
		return "~"
	}
	return s
}

func showResult(r *pbv1.PriorityResult) string {
	var ps []string
	for _, m := range r.GetMsgs() {
		ps = append(ps, showPeer(m.GetPeerId()))
	}
	var ts []string
	for _, t := range r.GetTopics() {
		h := hashOf(t.GetTopic())
		var es []string
		for _, sp := range t.GetPriorities() {
			es = append(es, fmt.Sprintf("%d=%d", prioID(sp.GetPriority()), sp.GetScore()))
		}
		e := "-"
		if len(es) > 0 {
			e = strings.Join(es, ",")
		}
		ts = append(ts, hex.EncodeToString(h[:6])+":"+e)
	}
	t := "-"
	if len(ts) > 0 {
		t = strings.Join(ts, "|")
	}
	return "msgs=" + strings.Join(ps, ",") + " topics=" + t
}

func calcErrClass(err error) string {
	s := err.Error()
	switch {
	case strings.Contains(s, "messages empty"):
		return "empty"
	case strings.Contains(s, "mismatching duties"):
		return "mismatch"
	case strings.Contains(s, "duplicate peer"):
		return "duppeer"
	case strings.Contains(s, "duplicate topic"):
		return "duptopic"
	case strings.Contains(s, "max priority reached"):
		return "maxprio"
	case strings.Contains(s, "duplicate priority"):
		return "dupprio"
	}
	return "other:" + s
}

// ---------- op calc ----------

func safeCalc(msgs []*pbv1.PriorityMsg, m int) (res *pbv1.PriorityResult, err error, pan any) {
	defer func() {
		if r := recover(); r != nil {
			pan = r
		}
	}()
	res, err = priority.VerifCalculateResult(msgs, m)
	return res, err, nil
}

func topicsBytes(r *pbv1.PriorityResult) []byte {
	b, err := proto.MarshalOptions{Deterministic: true}.Marshal(&pbv1.PriorityResult{Topics: r.GetTopics()})
	hx.Must(err)
	return b
}

func lineRng(line string) *hx.Rng {
	h := sha256.Sum256([]byte(line))
	return hx.NewRng(binary.LittleEndian.Uint64(h[:8]))
}

func execCalc(line string) string {
	f := strings.Fields(line)
	m, err := strconv.Atoi(strings.TrimPrefix(f[1], "m="))
	hx.Must(err)
	specs := parseMsgs(f[2])
	var msgs []*pbv1.PriorityMsg
	nilDuty := false
	for _, s := range specs {
		msgs = append(msgs, buildMsg(s))
		if s.duty < 0 {
			nilDuty = true
		}
	}
	res, cerr, pan := safeCalc(msgs, m)
	if pan != nil {
		run.Violate("priority:panic", fmt.Sprintf("calculateResult panicked: %v", pan))
		return "panic"
	}
	if cerr != nil {
		run.Count("calc:err:" + calcErrClass(cerr))
	} else {
		run.Count("calc:ok")
		monitorResult(msgs, m, res)
	}
	// monitor: the cluster-wide priorities (Topics) and the verdict do not depend on the arrival order
	if !nilDuty && len(msgs) > 1 {
		rng := lineRng(line)
		for k := 0; k < 3; k++ {
			perm := rng.Perm(len(msgs))
			pm := make([]*pbv1.PriorityMsg, len(msgs))
			for i, j := range perm {
				pm[i] = msgs[j]
			}
			r2, e2, p2 := safeCalc(pm, m)
			if p2 != nil {
				run.Violate("priority:panic", fmt.Sprintf("calculateResult panicked on a permutation: %v", p2))
				break
			}
			if (cerr == nil) != (e2 == nil) {
				run.Violate("priority:result_depends_on_order", fmt.Sprintf("verdict differs for permutation %v: %v vs %v", perm, cerr, e2))
				break
			}
			if cerr == nil && !bytes.Equal(topicsBytes(res), topicsBytes(r2)) {
				run.Violate("priority:result_depends_on_order", fmt.Sprintf("topics differ for permutation %v: %s vs %s", perm, showResult(res), showResult(r2)))
				break
			}
		}
	}
	if cerr != nil {
		return "err " + calcErrClass(cerr)
	}
	if len(res.GetTopics()) > 0 {
		run.Case("calc:" + showResult(res))
	}
	return "ok " + showResult(res)
}

// monitorResult: independent of the model, directly on the protos.
func monitorResult(msgs []*pbv1.PriorityMsg, m int, res *pbv1.PriorityResult) {
	var prev []byte
	for ti, t := range res.GetTopics() {
		th := hashOf(t.GetTopic())
		if ti > 0 && bytes.Compare(prev, th[:]) >= 0 {
			run.Violate("priority:topics_not_canonical", "topic results are not strictly ascending by hash")
		}
		prev = append([]byte(nil), th[:]...)
		var last int64
		seen := map[[32]byte]bool{}
		for pi, sp := range t.GetPriorities() {
			ph := hashOf(sp.GetPriority())
			if seen[ph] {
				run.Violate("priority:duplicate_priority_in_result", "a priority appears twice in one topic result")
			}
			seen[ph] = true
			if pi > 0 && sp.GetScore() > last {
				run.Violate("priority:scores_not_descending", fmt.Sprintf("score %d after %d", sp.GetScore(), last))
			}
			last = sp.GetScore()
			// supporters: peers (distinct ids) that list this priority under this topic
			sup := map[string]bool{}
			for _, msg := range msgs {
				for _, tp := range msg.GetTopics() {
					if hashOf(tp.GetTopic()) != th {
						continue
					}
					for _, p := range tp.GetPriorities() {
						if hashOf(p) == ph {
							sup[msg.GetPeerId()] = true
						}
					}
				}
			}
			if len(sup) < m {
				run.Violate("priority:unsupported_priority_in_result", fmt.Sprintf("priority %d of topic %x has %d supporters, minRequired %d", prioID(sp.GetPriority()), th[:6], len(sup), m))
			}
			if len(sup) == 0 {
				run.Violate("priority:unsupported_priority_in_result", "priority proposed by nobody in the result")
			}
		}
	}
	if len(res.GetMsgs()) != len(msgs) {
		run.Violate("priority:result_msgs_changed", "result.Msgs is not the input")
	}
}

// ---------- generator: calc ----------

var peerNames = []string{"a", "b", "ab", "B", "10", "9", "zz", "", "a0", "aZ", "16Uiu2HAmA", "16Uiu2HAmB", "16Uiu2HAm", "Z"}

func showPrios(ps []int) string {
	if len(ps) == 0 {
		return "-"
	}
	var out []string
	for _, p := range ps {
		out = append(out, strconv.Itoa(p))
	}
	return strings.Join(out, ".")
}

func genPrios(r *hx.Rng) string {
	if r.Chance(1, 60) { // around maxPriorities
		cnt := []int{998, 999, 1000, 1001}[r.Intn(4)]
		s := fmt.Sprintf("r%dx%d", 100+r.Intn(3), cnt)
		if r.Chance(1, 2) {
			s = strconv.Itoa(4+r.Intn(6)) + "." + s
		}
		return s
	}
	n := 1 + r.Intn(5)
	if r.Chance(1, 12) {
		n = 0
	}
	var ps []int
	for _, k := range r.Perm(7)[:n] {
		ps = append(ps, k)
	}
	if n > 0 && r.Chance(1, 60) { // duplicate priority
		ps = append(ps, ps[r.Intn(n)])
	}
	return showPrios(ps)
}

func genTopics(r *hx.Rng, pool int) string {
	n := r.Intn(4)
	if n == 0 {
		return "-"
	}
	var ts []string
	var used []int
	for _, j := range r.Perm(pool)[:min(n, pool)] {
		used = append(used, j)
		ts = append(ts, topicHex[j]+":"+genPrios(r))
	}
	if r.Chance(1, 50) { // duplicate topic
		ts = append(ts, topicHex[used[r.Intn(len(used))]]+":"+genPrios(r))
	}
	return strings.Join(ts, "|")
}

// genTies: two or three peers list the same 14..40 priorities, some ascending and some descending: with one of each
// every score is equal, and only the stability of the sort (first-seen order of the smallest peer id) decides the order.
func genTies(r *hx.Rng) string {
	cnt := 14 + r.Intn(27)
	t := topicHex[3+r.Intn(4)]
	k := 2 + r.Intn(2)
	perm := r.Perm(len(peerNames))
	var ms []string
	for i := 0; i < k; i++ {
		dir := "r"
		if i%2 == 1 || r.Chance(1, 4) {
			dir = "R"
		}
		ms = append(ms, fmt.Sprintf("%s/1/%s:%s20x%d", showPeer(peerNames[perm[i]]), t, dir, cnt))
	}
	if r.Chance(2, 3) { // one more peer lists a random part in random order: groups of equal scores between distinct ones
		var ps []int
		for _, x := range r.Perm(cnt)[:cnt/3+r.Intn(cnt/3)] {
			ps = append(ps, 20+x)
		}
		ms = append(ms, fmt.Sprintf("%s/1/%s:%s", showPeer(peerNames[perm[k]]), t, showPrios(ps)))
		k++
	}
	return fmt.Sprintf("calc m=%d %s", 1+r.Intn(k), strings.Join(ms, ";"))
}

func genCalc(r *hx.Rng) string {
	if r.Chance(1, 25) {
		return genTies(r)
	}
	k := 1 + r.Intn(7)
	if r.Chance(1, 40) {
		k = 0
	}
	pool := 1 + r.Intn(4)
	duty := 1 + r.Intn(3)
	perm := r.Perm(len(peerNames))
	var ms []string
	for i := 0; i < k; i++ {
		p := peerNames[perm[i]]
		if i > 0 && r.Chance(1, 80) {
			p = peerNames[perm[r.Intn(i)]]
		}
		d := strconv.Itoa(duty)
		if r.Chance(1, 80) {
			d = strconv.Itoa(duty + 1)
		} else if r.Chance(1, 80) {
			d = "n"
		}
		ms = append(ms, showPeer(p)+"/"+d+"/"+genTopics(r, pool))
	}
	m := (2*k + 2) / 3 // quorum-like
	switch r.Intn(8) {
	case 0:
		m = r.Intn(k + 2)
	case 1:
		m = 1
	case 2:
		m = -r.Intn(3)
	}
	s := "-"
	if len(ms) > 0 {
		s = strings.Join(ms, ";")
	}
	return fmt.Sprintf("calc m=%d %s", m, s)
}

// ---------- prioritiser episodes ----------

const nKeys = 10

var (
	keys    [nKeys]*k1.PrivateKey
	peerIDs [nKeys]peer.ID
)

func initKeys() {
	for i := range keys {
		h := sha256.Sum256([]byte("verif-priority-key-" + strconv.Itoa(i)))
		keys[i] = k1.PrivKeyFromBytes(h[:])
		id, err := p2p.PeerIDFromKey(keys[i].PubKey())
		hx.Must(err)
		peerIDs[i] = id
	}
}

type fakeHost struct {
	host.Host
	id peer.ID
}

func (f fakeHost) ID() peer.ID { return f.id }

type fakeDeadliner struct{ expBelow uint64 }

func (d fakeDeadliner) Add(duty core.Duty) core.DeadlineStatus {
	if duty.Slot < d.expBelow {
		return core.DeadlineExpired
	}
	return core.DeadlineScheduled
}
func (fakeDeadliner) C() <-chan core.Duty { return nil }

type recConsensus struct{ ch chan *pbv1.PriorityResult }

func (c recConsensus) ProposePriority(_ context.Context, _ core.Duty, r *pbv1.PriorityResult) error {
	c.ch <- r
	return nil
}
func (recConsensus) SubscribePriority(func(context.Context, core.Duty, *pbv1.PriorityResult) error) {}

type episode struct {
	n        int
	slot     int
	names    []string
	handler  p2p.HandlerFunc
	cancel   context.CancelFunc
	proposed chan *pbv1.PriorityResult
	done     chan error
	// bookkeeping for synchronisation and monitors only
	nmsgs    int
	dedup    map[string]bool
	started  bool
	aborted  bool
	wellForm []*pbv1.PriorityMsg // own + every request the driver itself classifies as admissible
	malform  bool                // an admitted message has duplicate topics / priorities / >= 1000 priorities
}

var ep *episode

func kvs(line string) map[string]string {
	m := map[string]string{}
	for _, f := range strings.Fields(line)[1:] {
		if i := strings.IndexByte(f, '='); i >= 0 {
			m[f[:i]] = f[i+1:]
		} else {
			m[f] = ""
		}
	}
	return m
}

func atoi(s string) int {
	x, err := strconv.Atoi(s)
	hx.Must(err)
	return x
}

func structurallyBad(ts []tSpec) bool {
	seenT := map[string]bool{}
	for _, t := range ts {
		if seenT[t.hex] || len(t.prios) >= 1000 {
			return true
		}
		seenT[t.hex] = true
		seenP := map[int]bool{}
		for _, p := range t.prios {
			if seenP[p] {
				return true
			}
			seenP[p] = true
		}
	}
	return false
}

// waitOutcome blocks (watchdog 20 s) until the instance proposed or returned.
func (e *episode) waitOutcome() string {
	select {
	case r := <-e.proposed:
		e.started = true
		e.checkProposal(r)
		return "proposed " + showResult(r)
	case err := <-e.done:
		e.started = true
		e.aborted = true
		if err == nil {
			return "returned"
		}
		cls := calcErrClass(err)
		if e.malform {
			// NOT a violation of C14: the message is handled without a crash and without a wrong result (the instance ends
			// with an error and proposes nothing). Counted as an observation about the code as it is; witness theorem
			// malformed_msg_aborts_instance_witness, candidate hardening fixes/C14-priority-validate-on-admission.diff.
			run.Count("observed:malformed_msg_aborts_instance:" + cls)
		}
		return "abort " + cls
	case <-time.After(20 * time.Second):
		return "stuck"
	}
}

func (e *episode) checkProposal(r *pbv1.PriorityResult) {
	for _, m := range r.GetMsgs() {
		ok := false
		for _, w := range e.wellForm {
			if proto.Equal(m, w) {
				ok = true
			}
		}
		if !ok {
			run.Violate("priority:invalid_msg_accepted", "the proposed result contains a message of "+m.GetPeerId()+" that is not an admissible request")
		}
	}
	monitorResult(r.GetMsgs(), 0, r)
}

func execInst(line string) string {
	if ep != nil {
		ep.cancel()
		ep = nil
	}
	kv := kvs(line)
	n, m, slot, gate, exp := atoi(kv["n"]), atoi(kv["m"]), atoi(kv["slot"]), atoi(kv["gate"]), atoi(kv["exp"])
	early := kv["early"] == "1"
	names := strings.Split(kv["peers"], ",")
	for i, nm := range names {
		if peerIDs[i].String() != nm {
			panic("peer id table changed: " + nm)
		}
	}
	e := &episode{n: n, slot: slot, names: names, proposed: make(chan *pbv1.PriorityResult, 4), done: make(chan error, 1), dedup: map[string]bool{}}
	cluster := append([]peer.ID(nil), peerIDs[:n]...)
	verifier, err := priority.VerifNewMsgVerifier(cluster)
	hx.Must(err)
	reg := func(_ string, _ host.Host, _ protocol.ID, _ func() proto.Message, h p2p.HandlerFunc, _ ...p2p.SendRecvOption) {
		e.handler = h
	}
	send := func(context.Context, host.Host, peer.ID, proto.Message, proto.Message, protocol.ID, ...p2p.SendRecvOption) error {
		return io.ErrClosedPipe
	}
	timeout := time.Hour
	if early {
		timeout = time.Millisecond
	}
	prio := priority.NewForT(nil, fakeHost{id: peerIDs[0]}, cluster, m, send, reg, recConsensus{e.proposed}, verifier, timeout,
		fakeDeadliner{uint64(exp)}, func(d core.Duty) bool { return d.Slot <= uint64(gate) })
	own := &pbv1.PriorityMsg{Duty: dutyProto(slot), PeerId: names[0], Topics: buildTopics(parseTopics(kv["own"]))}
	own, err = priority.VerifSignMsg(own, keys[0])
	hx.Must(err)
	e.wellForm = append(e.wellForm, own)
	e.malform = structurallyBad(parseTopics(kv["own"]))
	e.nmsgs = 1
	ctx, cancel := context.WithCancel(context.Background())
	e.cancel = cancel
	ep = e
	run.Count("inst")
	if slot < exp {
		hx.Must(prio.Prioritise(ctx, own))
		ep = nil
		return "dropped"
	}
	go func() {
		defer func() {
			if r := recover(); r != nil {
				e.done <- fmt.Errorf("panic: %v", r)
			}
		}()
		err := prio.Prioritise(ctx, own)
		if ctx.Err() == nil {
			e.done <- err
		}
	}()
	if early {
		return e.waitOutcome()
	}
	return "started"
}

func handlerErrClass(err error) string {
	s := err.Error()
	switch {
	case strings.Contains(s, "invalid priority message peer id"):
		return "peerid"
	case strings.Contains(s, "invalid priority msg proto fields"):
		return "fields"
	case strings.Contains(s, "unknown peer id"):
		return "unknownpeer"
	case strings.Contains(s, "empty signature"):
		return "nosig"
	case strings.Contains(s, "sig to pub"):
		return "sigrecover"
	case strings.Contains(s, "invalid signature"):
		return "badsig"
	case strings.Contains(s, "invalid duty"):
		return "gated"
	case strings.Contains(s, "duty expired or exempt"):
		return "expired"
	case strings.Contains(s, "timeout waiting for proposed priorities"), strings.Contains(s, "timeout enqueuing request"):
		return "timeout"
	case strings.Contains(s, "invalid priority message"):
		return "nilmsg"
	}
	return "other:" + s
}

func execReq(line string) string {
	e := ep
	if e == nil {
		return "bad-op"
	}
	kv := kvs(line)
	from := atoi(kv["from"])
	var req proto.Message
	admissible := false
	var pm *pbv1.PriorityMsg
	var ts []tSpec
	expectBlock := false
	if _, ok := kv["nil"]; ok {
		req = (*pbv1.PriorityMsg)(nil)
	} else if _, ok := kv["wrongtype"]; ok {
		req = &pbv1.Duty{Slot: 1}
	} else {
		claim := atoi(kv["claim"])
		duty := -1
		if kv["duty"] != "n" {
			duty = atoi(kv["duty"])
		}
		ts = parseTopics(kv["topics"])
		pm = &pbv1.PriorityMsg{Duty: dutyProto(duty), PeerId: e.names[claim], Topics: buildTopics(ts)}
		var err error
		switch kv["sig"] {
		case "none":
		case "mal":
			pm.Signature = []byte{1, 2, 3, 4, 5, 6, 7, 8, 9, 10}
		case "other":
			pm, err = priority.VerifSignMsg(pm, keys[nKeys-1])
			hx.Must(err)
		default:
			pm, err = priority.VerifSignMsg(pm, keys[atoi(kv["sig"])])
			hx.Must(err)
		}
		req = pm
		admissible = from == claim && claim < e.n && kv["sig"] == strconv.Itoa(claim) && duty == e.slot
		expectBlock = duty != e.slot || e.aborted
	}
	ctx, cancel := context.WithTimeout(context.Background(), 3*time.Second) // watchdog only
	if expectBlock {
		cancel()
		ctx, cancel = context.WithTimeout(context.Background(), 25*time.Millisecond)
	}
	defer cancel()
	var resp proto.Message
	var ok bool
	var herr error
	var pan any
	func() {
		defer func() {
			if r := recover(); r != nil {
				pan = r
			}
		}()
		resp, ok, herr = e.handler(ctx, peerIDs[from], req)
	}()
	if pan != nil {
		run.Violate("priority:panic", fmt.Sprintf("priority handler panicked: %v", pan))
		return "panic"
	}
	if herr != nil {
		cls := handlerErrClass(herr)
		run.Count("req:err:" + cls)
		if cls == "timeout" && !expectBlock {
			e.aborted = true // the instance is gone although nothing announced it: shows up as a difference; do not wait again
		}
		return "err " + cls
	}
	run.Count("req:own")
	if !ok || !proto.Equal(resp, e.wellForm[0]) {
		run.Violate("priority:wrong_response", "the handler answered without error but not with the instance's own message")
	}
	if !admissible {
		run.Violate("priority:invalid_msg_accepted", "the handler answered a request that is not admissible: "+line)
	}
	out := "own"
	if pm != nil && !e.dedup[pm.GetPeerId()] {
		e.dedup[pm.GetPeerId()] = true
		e.nmsgs++
		e.wellForm = append(e.wellForm, pm)
		if structurallyBad(ts) {
			e.malform = true
		}
		if !e.started && e.nmsgs == e.n {
			out += " " + e.waitOutcome()
		}
	}
	// an outcome nobody expects shows up as a difference
	select {
	case r := <-e.proposed:
		out += " unexpected-proposed " + showResult(r)
	default:
	}
	return out
}

var topicPoolInst = 3

func genTopicsValid(r *hx.Rng) string {
	n := r.Intn(3)
	if n == 0 {
		return "-"
	}
	var ts []string
	for _, j := range r.Perm(topicPoolInst)[:n] {
		k := r.Intn(5)
		var ps []int
		for _, p := range r.Perm(5)[:k] {
			ps = append(ps, 4+p)
		}
		ts = append(ts, topicHex[3+j]+":"+showPrios(ps))
	}
	return strings.Join(ts, "|")
}

func genInst(r *hx.Rng) string {
	n := 1 + r.Intn(6)
	m := (2*n + 2) / 3
	if r.Chance(1, 6) {
		m = 1 + r.Intn(n)
	}
	slot := 10 + r.Intn(5)
	gate := slot + r.Intn(3)
	exp := slot - r.Intn(3)
	if r.Chance(1, 60) {
		exp = slot + 1
	}
	early := 0
	if r.Chance(1, 8) {
		early = 1
	}
	var names []string
	for i := 0; i < n+2; i++ {
		names = append(names, peerIDs[i].String())
	}
	own := genTopicsValid(r)
	if r.Chance(1, 40) {
		own = genTopics(r, 4)
	}
	return fmt.Sprintf("inst n=%d m=%d slot=%d gate=%d exp=%d early=%d peers=%s own=%s", n, m, slot, gate, exp, early, strings.Join(names, ","), own)
}

func genReq(r *hx.Rng, e *episode, gate, exp int) string {
	tot := e.n + 2
	if r.Chance(1, 30) {
		return fmt.Sprintf("req from=%d %s", r.Intn(tot), []string{"nil", "wrongtype"}[r.Intn(2)])
	}
	from := 1 + r.Intn(max(e.n-1, 1))
	if e.n == 1 || r.Chance(1, 30) {
		from = r.Intn(tot)
	}
	claim, sig, duty := from, strconv.Itoa(from), strconv.Itoa(e.slot)
	topics := genTopicsValid(r)
	switch r.Intn(16) {
	case 0:
		claim = r.Intn(tot)
		sig = strconv.Itoa(claim)
	case 1:
		sig = []string{"none", "mal", "other", strconv.Itoa(r.Intn(tot))}[r.Intn(4)]
	case 2:
		duty = []string{"n", strconv.Itoa(gate + 1), strconv.Itoa(max(exp-1, 0)), strconv.Itoa(e.slot + 1), strconv.Itoa(max(e.slot-1, 0))}[r.Intn(5)]
	case 3:
		if r.Chance(1, 2) { // structurally invalid content under a valid signature
			t := topicHex[3+r.Intn(topicPoolInst)]
			topics = []string{t + ":4.5.4", t + ":4|" + t + ":5", t + ":r100x1000", "-|" + t + ":6"}[r.Intn(3)]
		}
	}
	return fmt.Sprintf("req from=%d claim=%d sig=%s duty=%s topics=%s", from, claim, sig, duty, topics)
}

// ---------- p2p/receive.go over mocknet ----------

type recvEnv struct {
	client  host.Host
	server  peer.ID
	mu      sync.Mutex
	calls   int
	lastReq proto.Message
	mode    string
}

var (
	renv       *recvEnv
	recvLimits = []int{48, 300, 128 << 20}
)

func recvProto(limit int) protocol.ID { return protocol.ID(fmt.Sprintf("/verif/recv/%d", limit)) }

func initRecv() {
	mn, err := mocknet.FullMeshConnected(2)
	hx.Must(err)
	hs := mn.Hosts()
	renv = &recvEnv{client: hs[0], server: hs[1].ID()}
	h := func(_ context.Context, _ peer.ID, req proto.Message) (proto.Message, bool, error) {
		renv.mu.Lock()
		renv.calls++
		renv.lastReq = req
		mode := renv.mode
		renv.mu.Unlock()
		switch mode {
		case "err":
			return nil, false, io.ErrNoProgress
		case "nores":
			return nil, false, nil
		}
		return &pbv1.PriorityMsg{PeerId: "response"}, true, nil
	}
	zero := func() proto.Message { return new(pbv1.PriorityMsg) }
	for _, l := range recvLimits {
		if l == 128<<20 {
			p2p.RegisterHandler("verif", hs[1], recvProto(l), zero, h)
		} else {
			p2p.RegisterHandler("verif", hs[1], recvProto(l), zero, h, p2p.WithReadLimit(l))
		}
	}
}

// refFrame: the driver's own reading of a delimited frame (encoding/binary, not go-varint).
func refFrame(limit int, stream []byte) (payload []byte, ok bool) {
	v, n := binary.Uvarint(stream)
	if n <= 0 || n > 9 || v >= 1<<63 {
		return nil, false
	}
	if n > 1 && stream[n-1] == 0 { // not minimal
		return nil, false
	}
	if v > uint64(limit) || uint64(len(stream)-n) < v {
		return nil, false
	}
	return stream[n : n+int(v)], true
}

func execRecv(line string) string {
	kv := kvs(line)
	limit := atoi(kv["limit"])
	stream := []byte{}
	if kv["stream"] != "-" {
		var err error
		stream, err = hex.DecodeString(kv["stream"])
		hx.Must(err)
	}
	renv.mu.Lock()
	renv.mode = kv["h"]
	before := renv.calls
	renv.lastReq = nil
	renv.mu.Unlock()

	ctx, cancel := context.WithTimeout(context.Background(), 20*time.Second)
	defer cancel()
	s, err := renv.client.NewStream(ctx, renv.server, recvProto(limit))
	hx.Must(err)
	_, err = s.Write(stream)
	hx.Must(err)
	hx.Must(s.CloseWrite())
	respBytes, _ := io.ReadAll(s)
	_ = s.Close()

	renv.mu.Lock()
	called := renv.calls - before
	got := renv.lastReq
	renv.mu.Unlock()

	// monitor (independent of the model): the handler is called only with the fully decoded message of a good frame
	payload, frameOK := refFrame(limit, stream)
	want := new(pbv1.PriorityMsg)
	good := frameOK && proto.Unmarshal(payload, want) == nil && protonil.Check(want) == nil
	if called > 0 && !good {
		run.Violate("p2precv:handler_called_on_bad_frame", "handler called for stream "+kv["stream"])
	}
	if called > 0 && good && !proto.Equal(got, want) {
		run.Violate("p2precv:handler_called_on_bad_frame", "handler called with a message that is not the decoded frame")
	}
	if called > 1 {
		run.Violate("p2precv:handler_called_twice", "handler called more than once for one stream")
	}
	if called == 0 && good {
		run.Violate("p2precv:good_frame_dropped", "a well-formed frame did not reach the handler")
	}
	written := len(respBytes) > 0
	if written {
		rp, ok := refFrame(128<<20, respBytes)
		resp := new(pbv1.PriorityMsg)
		if !ok || proto.Unmarshal(rp, resp) != nil || resp.GetPeerId() != "response" {
			run.Violate("p2precv:garbled_response", "the response frame is not the handler's response")
		}
		if kv["h"] != "resp" || called == 0 {
			run.Violate("p2precv:response_without_handler", "a response was written although the handler gave none")
		}
	}
	run.Count("recv:called=" + b01(called > 0))
	return "called=" + b01(called > 0) + " written=" + b01(written)
}

func b01(b bool) string {
	if b {
		return "1"
	}
	return "0"
}

func uvarint(v uint64) []byte {
	buf := make([]byte, 10)
	return buf[:binary.PutUvarint(buf, v)]
}

func genRecv(r *hx.Rng) string {
	limit := recvLimits[r.Intn(2)]
	if r.Chance(1, 6) {
		limit = recvLimits[2]
	}
	// payload
	var payload []byte
	kind := r.Intn(10)
	switch {
	case kind < 5: // a real PriorityMsg
		msg := &pbv1.PriorityMsg{Duty: dutyProto(r.Intn(100)), PeerId: strings.Repeat("p", r.Intn(30))}
		if r.Chance(1, 2) {
			msg.Topics = buildTopics(parseTopics(genTopicsValid(r)))
		}
		if r.Chance(1, 3) {
			msg.Signature = bytes.Repeat([]byte{7}, r.Intn(70))
		}
		var err error
		payload, err = proto.Marshal(msg)
		hx.Must(err)
	case kind == 5: // empty message
	case kind == 6: // another message type (type confusion): QBFTMsg-like bytes / a Duty
		var err error
		payload, err = proto.Marshal(&pbv1.PriorityResult{Msgs: []*pbv1.PriorityMsg{{PeerId: "x"}}, Topics: []*pbv1.PriorityTopicResult{{}}})
		hx.Must(err)
	case kind == 7: // junk
		payload = make([]byte, r.Intn(40))
		for i := range payload {
			payload[i] = byte(r.Intn(256))
		}
	case kind == 8: // group end / bad wire types
		payload = []byte{0x0c, 0xff, 0xff, 0xff}
	default: // padded towards the limit
		msg := &pbv1.PriorityMsg{PeerId: strings.Repeat("q", max(limit-4+r.Intn(8), 0)%400)}
		var err error
		payload, err = proto.Marshal(msg)
		hx.Must(err)
	}
	declared := uint64(len(payload))
	var stream []byte
	switch r.Intn(12) {
	case 0: // truncated payload
		if len(payload) > 0 {
			stream = append(uvarint(declared), payload[:r.Intn(len(payload))]...)
		} else {
			stream = uvarint(declared + 1)
		}
	case 1: // declared longer than sent
		stream = append(uvarint(declared+uint64(1+r.Intn(300))), payload...)
	case 2: // trailing bytes after the frame
		stream = append(append(uvarint(declared), payload...), byte(r.Intn(256)), 1, 2)
	case 3: // huge declared length
		stream = append(uvarint([]uint64{1 << 20, 128<<20 + 1, 1 << 40, 1<<63 - 1}[r.Intn(4)]), payload...)
	case 4: // malformed varint
		stream = [][]byte{{}, {0x80}, {0x80, 0x00}, {0xff, 0xff, 0xff, 0xff, 0xff, 0xff, 0xff, 0xff, 0xff, 0x01}, {0xff, 0xff, 0xff, 0xff, 0xff, 0xff, 0xff, 0xff, 0x7f}, {0x81, 0x80, 0x00}}[r.Intn(6)]
		if r.Chance(1, 2) {
			stream = append(append([]byte(nil), stream...), payload...)
		}
	default:
		stream = append(uvarint(declared), payload...)
	}
	// symbolic inputs of the model: does the payload the reader would extract decode, and pass protonil?
	dec, nl := false, false
	if p, ok := refFramePayloadOnly(stream); ok {
		m := new(pbv1.PriorityMsg)
		dec = proto.Unmarshal(p, m) == nil
		nl = dec && protonil.Check(m) == nil
	}
	h := []string{"resp", "resp", "nores", "err"}[r.Intn(4)]
	sx := "-"
	if len(stream) > 0 {
		sx = hex.EncodeToString(stream)
	}
	return fmt.Sprintf("recv limit=%d dec=%s nil=%s h=%s stream=%s", limit, b01(dec), b01(nl), h, sx)
}

// refFramePayloadOnly: the bytes following a syntactically valid length prefix, cut to the declared length if there.
func refFramePayloadOnly(stream []byte) ([]byte, bool) {
	v, n := binary.Uvarint(stream)
	if n <= 0 || uint64(len(stream)-n) < v {
		return nil, false
	}
	return stream[n : n+int(v)], true
}

// ---------- main ----------

func execOp(line string) string {
	switch strings.Fields(line)[0] {
	case "calc":
		return execCalc(line)
	case "inst":
		return execInst(line)
	case "req":
		return execReq(line)
	case "recv":
		return execRecv(line)
	}
	return "bad-op"
}

func main() {
	a := hx.ParseArgs()
	hx.Must(log.InitLogger(log.Config{Level: "fatal", Format: "console", Color: "disable"}))
	initPools()
	initKeys()
	initRecv()
	run = hx.NewRun(a.Dir)
	defer run.Close()

	do := func(line string) string {
		run.Begin(line)
		out := execOp(line)
		run.Op(line, out)
		return out
	}
	if a.Mode == "exec" {
		for _, l := range hx.ReadOps(a.Ops) {
			do(l)
		}
		return
	}
	r := hx.NewRng(a.Seed)
	for run.NOps < a.N && !run.Enough() {
		switch x := r.Intn(100); {
		case x < 55:
			run.Count("op:calc")
			do(genCalc(r))
		case x < 75:
			line := genInst(r)
			out := do(line)
			if ep == nil || out == "dropped" {
				continue
			}
			kv := kvs(line)
			gate, exp := atoi(kv["gate"]), atoi(kv["exp"])
			k := ep.n + r.Intn(ep.n+3)
			after := 0
			for i := 0; i < k && run.NOps < a.N; i++ {
				do(genReq(r, ep, gate, exp))
				if ep.aborted {
					after++
					if after > 1 {
						break
					}
				}
			}
		default:
			run.Count("op:recv")
			do(genRecv(r))
		}
	}
	if ep != nil {
		ep.cancel()
	}
	keysSorted := make([]string, 0)
	for k := range run.Counts {
		keysSorted = append(keysSorted, k)
	}
	sort.Strings(keysSorted)
}
