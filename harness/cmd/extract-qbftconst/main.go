// extract-qbftconst: translator T-const for C05 (go/ast, fails closed).
//
// Reads the sources of /repo and emits lean/CharonV/Generated/QbftConst.lean with
//   - the factors of verifyMsgLimits (core/consensus/qbft/qbft.go), after checking that the
//     function body has exactly the expected shape (`n > maxJust`, `n > maxValues`),
//   - the ordered list of reject conditions of verifyMsg, printed from the AST after canonical
//     alpha-renaming of its parameters and locals (p0, p1, v0, v1, …: see alphaRename),
//   - instance.RecvBufferSize, maxConsensusMsgSize, core.defaultAllowedFutureEpochs,
//   - the bounds of qbft.MsgType.Valid and core.DutyType.Valid (after a shape check).
//
// Any Go it does not understand makes it exit 1 (the obligation is then reported as not shown).
package main

import (
	"bytes"
	"flag"
	"fmt"
	"go/ast"
	"go/constant"
	"go/parser"
	"go/printer"
	"go/token"
	"os"
	"path/filepath"
	"regexp"
	"strconv"
	"strings"
)

func fail(f string, a ...any) {
	fmt.Fprintf(os.Stderr, "extract-qbftconst: "+f+"\n", a...)
	os.Exit(1)
}

type src struct {
	fset *token.FileSet
	file *ast.File
	path string
}

func load(path string) *src {
	fset := token.NewFileSet()
	f, err := parser.ParseFile(fset, path, nil, 0) // with object resolution: alphaRename needs Ident.Obj
	if err != nil {
		fail("parse %s: %v", path, err)
	}
	return &src{fset, f, path}
}

func (s *src) print(n ast.Node) string {
	var b bytes.Buffer
	if err := printer.Fprint(&b, s.fset, n); err != nil {
		fail("print: %v", err)
	}
	return strings.Join(strings.Fields(b.String()), " ")
}

// constExpr returns the expression of the package-level constant `name`.
func (s *src) constExpr(name string) ast.Expr {
	for _, d := range s.file.Decls {
		gd, ok := d.(*ast.GenDecl)
		if !ok || gd.Tok != token.CONST {
			continue
		}
		for _, sp := range gd.Specs {
			vs := sp.(*ast.ValueSpec)
			for i, n := range vs.Names {
				if n.Name == name {
					if i >= len(vs.Values) {
						fail("%s: constant %s has no explicit value (iota?)", s.path, name)
					}
					return vs.Values[i]
				}
			}
		}
	}
	fail("%s: constant %s not found", s.path, name)
	return nil
}

// evalInt evaluates an integer constant expression made of literals, + - * and parentheses.
func (s *src) evalInt(e ast.Expr) int64 {
	var ev func(e ast.Expr) constant.Value
	ev = func(e ast.Expr) constant.Value {
		switch x := e.(type) {
		case *ast.BasicLit:
			if x.Kind != token.INT {
				fail("%s: non-integer literal %s", s.path, x.Value)
			}
			return constant.MakeFromLiteral(x.Value, token.INT, 0)
		case *ast.ParenExpr:
			return ev(x.X)
		case *ast.BinaryExpr:
			switch x.Op {
			case token.ADD, token.SUB, token.MUL:
				return constant.BinaryOp(ev(x.X), x.Op, ev(x.Y))
			}
		}
		fail("%s: unsupported constant expression %s", s.path, s.print(e))
		return nil
	}
	v, ok := constant.Int64Val(ev(e))
	if !ok {
		fail("%s: constant out of range", s.path)
	}
	return v
}

func (s *src) constInt(name string) int64 { return s.evalInt(s.constExpr(name)) }

// funcDecl finds a function (recv == "") or a method with the given receiver type name.
func (s *src) funcDecl(recv, name string) *ast.FuncDecl {
	for _, d := range s.file.Decls {
		fd, ok := d.(*ast.FuncDecl)
		if !ok || fd.Name.Name != name {
			continue
		}
		r := ""
		if fd.Recv != nil && len(fd.Recv.List) == 1 {
			switch t := fd.Recv.List[0].Type.(type) {
			case *ast.Ident:
				r = t.Name
			case *ast.StarExpr:
				if id, ok := t.X.(*ast.Ident); ok {
					r = id.Name
				}
			}
		}
		if r == recv {
			return fd
		}
	}
	fail("%s: func %s.%s not found", s.path, recv, name)
	return nil
}

var canonName = regexp.MustCompile(`^[rpov][0-9]+$`)

// alphaRename renames, IN PLACE, every variable / constant declared inside fd to a canonical name:
// receiver r0, parameters p0, p1, … by position, named results o0, …, locals v0, v1, … in the order of
// their declaration in the source (every scope counts: two `typ :=` in two if-headers are v0 and v1).
// Everything printed from fd afterwards is therefore independent of the names the author chose, while
// two bodies that differ by more than a renaming still print differently (the renaming is injective;
// an identifier that is not declared in fd and already looks canonical makes the tool fail closed).
func (s *src) alphaRename(fd *ast.FuncDecl) {
	names := map[*ast.Object]string{}
	fields := func(fl *ast.FieldList, prefix string) {
		if fl == nil {
			return
		}
		i := 0
		for _, f := range fl.List {
			if len(f.Names) == 0 {
				i++
			}
			for _, id := range f.Names {
				if id.Name != "_" && id.Obj != nil {
					names[id.Obj] = fmt.Sprintf("%s%d", prefix, i)
				}
				i++
			}
		}
	}
	fields(fd.Recv, "r")
	fields(fd.Type.Params, "p")
	fields(fd.Type.Results, "o")
	nv := 0
	ast.Inspect(fd.Body, func(n ast.Node) bool {
		id, ok := n.(*ast.Ident)
		if !ok || id.Obj == nil || id.Name == "_" {
			return true
		}
		if id.Obj.Kind != ast.Var && id.Obj.Kind != ast.Con {
			return true
		}
		if p := id.Obj.Pos(); p < fd.Pos() || p >= fd.End() {
			return true // package-level object
		}
		if _, ok := names[id.Obj]; !ok {
			names[id.Obj] = fmt.Sprintf("v%d", nv)
			nv++
		}
		return true
	})
	ast.Inspect(fd, func(n ast.Node) bool {
		id, ok := n.(*ast.Ident)
		if !ok {
			return true
		}
		if nn, ok := names[id.Obj]; ok && id.Obj != nil {
			id.Name = nn
		} else if canonName.MatchString(id.Name) {
			fail("%s: %s: identifier `%s` clashes with the canonical names", s.path, fd.Name.Name, id.Name)
		}
		return true
	})
}

// singleReturn returns the printed expression of a body consisting of one return statement.
func (s *src) singleReturn(fd *ast.FuncDecl) string {
	if len(fd.Body.List) != 1 {
		fail("%s: %s: body is not a single return", s.path, fd.Name.Name)
	}
	rs, ok := fd.Body.List[0].(*ast.ReturnStmt)
	if !ok || len(rs.Results) != 1 {
		fail("%s: %s: body is not a single return", s.path, fd.Name.Name)
	}
	return s.print(rs.Results[0])
}

// ifHeader prints "init; cond" of an if statement whose body ends in a return and has no else.
func (s *src) ifHeader(is *ast.IfStmt, what string) string {
	h := s.print(is.Cond)
	if is.Init != nil {
		h = s.print(is.Init) + "; " + h
	}
	return h
}

func endsInReturn(b *ast.BlockStmt) bool {
	if len(b.List) == 0 {
		return false
	}
	_, ok := b.List[len(b.List)-1].(*ast.ReturnStmt)
	return ok
}

func leanStr(x string) string {
	return "\"" + strings.ReplaceAll(strings.ReplaceAll(x, "\\", "\\\\"), "\"", "\\\"") + "\""
}

func main() {
	repo := flag.String("repo", "/repo", "repository root")
	out := flag.String("out", "", "output .lean file")
	flag.Parse()
	if *out == "" {
		fail("-out required")
	}

	// ---- verifyMsgLimits -------------------------------------------------------------------
	q := load(filepath.Join(*repo, "core/consensus/qbft/qbft.go"))
	lim := q.funcDecl("", "verifyMsgLimits")
	q.alphaRename(lim)
	if got := q.print(lim.Type); got != "func(p0 *pbv1.QBFTConsensusMsg, p1 int) error" {
		fail("verifyMsgLimits: unexpected signature %s", got)
	}
	var shape []string
	for _, st := range lim.Body.List {
		switch x := st.(type) {
		case *ast.AssignStmt:
			shape = append(shape, q.print(x))
		case *ast.IfStmt:
			if x.Else != nil || !endsInReturn(x.Body) || len(x.Body.List) != 1 {
				fail("verifyMsgLimits: unexpected if body")
			}
			shape = append(shape, "if "+q.ifHeader(x, "verifyMsgLimits")+" { return err }")
		case *ast.ReturnStmt:
			shape = append(shape, q.print(x))
		default:
			fail("verifyMsgLimits: unexpected statement %s", q.print(st))
		}
	}
	re := []*regexp.Regexp{
		// canonical names: p0 = the message, p1 = the node count, v0 = maxJust, v1 / v3 = n, v2 = maxValues
		regexp.MustCompile(`^v0 := (\d+) \* p1$`),
		regexp.MustCompile(`^if v1 := len\(p0\.GetJustification\(\)\); v1 > v0 \{ return err \}$`),
		regexp.MustCompile(`^v2 := (\d+) \* \(len\(p0\.GetJustification\(\)\) \+ (\d+)\)$`),
		regexp.MustCompile(`^if v3 := len\(p0\.GetValues\(\)\); v3 > v2 \{ return err \}$`),
		regexp.MustCompile(`^return nil$`),
	}
	if len(shape) != len(re) {
		fail("verifyMsgLimits: %d statements, expected %d: %q", len(shape), len(re), shape)
	}
	var nums []string
	for i, r := range re {
		m := r.FindStringSubmatch(shape[i])
		if m == nil {
			fail("verifyMsgLimits: statement %d `%s` does not match %s", i, shape[i], r)
		}
		nums = append(nums, m[1:]...)
	}
	atoi := func(x string) int64 {
		v, err := strconv.ParseInt(x, 10, 64)
		if err != nil {
			fail("%v", err)
		}
		return v
	}
	maxJustFactor, maxValuesFactor, maxValuesOffset := atoi(nums[0]), atoi(nums[1]), atoi(nums[2])

	// ---- verifyMsg: ordered reject conditions ------------------------------------------------
	vm := q.funcDecl("", "verifyMsg")
	q.alphaRename(vm)
	var conds []string
	for i, st := range vm.Body.List {
		switch x := st.(type) {
		case *ast.IfStmt:
			conds = append(conds, q.ifHeader(x, "verifyMsg"))
			if !endsInReturn(x.Body) {
				fail("verifyMsg: if %d does not end in return", i)
			}
			if x.Else != nil {
				ei, ok := x.Else.(*ast.IfStmt)
				if !ok || ei.Else != nil || !endsInReturn(ei.Body) {
					fail("verifyMsg: unexpected else")
				}
				conds = append(conds, "else "+q.ifHeader(ei, "verifyMsg"))
			}
		case *ast.AssignStmt:
			conds = append(conds, q.print(x))
		case *ast.ReturnStmt:
			conds = append(conds, q.print(x))
		default:
			fail("verifyMsg: unexpected statement %s", q.print(st))
		}
	}

	maxSize := q.constInt("maxConsensusMsgSize")

	// ---- MsgType.Valid / DutyType.Valid ------------------------------------------------------
	cq := load(filepath.Join(*repo, "core/qbft/qbft.go"))
	mv := cq.funcDecl("MsgType", "Valid")
	cq.alphaRename(mv)
	if got := cq.singleReturn(mv); got != "r0 > MsgUnknown && r0 < msgSentinel" {
		fail("MsgType.Valid: unexpected body %s", got)
	}
	msgUnknown, msgSentinel := cq.constInt("MsgUnknown"), cq.constInt("msgSentinel")

	ct := load(filepath.Join(*repo, "core/types.go"))
	dv := ct.funcDecl("DutyType", "Valid")
	ct.alphaRename(dv)
	if got := ct.singleReturn(dv); got != "r0 > DutyUnknown && r0 < dutySentinel" {
		fail("DutyType.Valid: unexpected body %s", got)
	}
	dutyUnknown, dutySentinel := ct.constInt("DutyUnknown"), ct.constInt("dutySentinel")

	io := load(filepath.Join(*repo, "core/consensus/instance/instance_io.go"))
	recvBuf := io.constInt("RecvBufferSize")
	g := load(filepath.Join(*repo, "core/gater.go"))
	allowed := g.constInt("defaultAllowedFutureEpochs")

	// ---- emit ----------------------------------------------------------------------------------
	var b strings.Builder
	b.WriteString("/- GENERATED by harness/cmd/extract-qbftconst (translator T-const, C05). Do not edit, not committed.\n")
	b.WriteString("Sources: core/consensus/qbft/qbft.go, core/qbft/qbft.go, core/types.go, core/gater.go,\ncore/consensus/instance/instance_io.go -/\n")
	b.WriteString("namespace CharonV.Generated.QbftConst\n\n")
	fmt.Fprintf(&b, "/-- `maxJust := %d * nodes`, rejected when `n > maxJust`. -/\ndef maxJustFactor : Nat := %d\n", maxJustFactor, maxJustFactor)
	fmt.Fprintf(&b, "/-- `maxValues := %d * (len(justification) + %d)`, rejected when `n > maxValues`. -/\ndef maxValuesFactor : Nat := %d\ndef maxValuesOffset : Nat := %d\n", maxValuesFactor, maxValuesOffset, maxValuesFactor, maxValuesOffset)
	fmt.Fprintf(&b, "/-- `instance.RecvBufferSize` -/\ndef recvBufferSize : Nat := %d\n", recvBuf)
	fmt.Fprintf(&b, "/-- `maxConsensusMsgSize` (libp2p read limit of the handler) -/\ndef maxConsensusMsgSize : Nat := %d\n", maxSize)
	fmt.Fprintf(&b, "/-- `core.defaultAllowedFutureEpochs` -/\ndef allowedFutureEpochs : Nat := %d\n", allowed)
	fmt.Fprintf(&b, "/-- `MsgType.Valid`: `t > %d && t < %d` -/\ndef msgTypeLo : Int := %d\ndef msgTypeHi : Int := %d\n", msgUnknown, msgSentinel, msgUnknown, msgSentinel)
	fmt.Fprintf(&b, "/-- `DutyType.Valid`: `d > %d && d < %d` -/\ndef dutyTypeLo : Int := %d\ndef dutyTypeHi : Int := %d\n", dutyUnknown, dutySentinel, dutyUnknown, dutySentinel)
	b.WriteString("/-- the statements of `verifyMsg` in source order (if-headers, assignments, final return), parameters\nrenamed p0, p1 by position and locals v0, v1, … in order of declaration. -/\ndef verifyMsgShape : List String := [\n")
	for i, c := range conds {
		sep := ","
		if i == len(conds)-1 {
			sep = ""
		}
		fmt.Fprintf(&b, "  %s%s\n", leanStr(c), sep)
	}
	b.WriteString("]\n\nend CharonV.Generated.QbftConst\n")

	old, err := os.ReadFile(*out)
	if err == nil && string(old) == b.String() {
		fmt.Println("unchanged", *out)
		return
	}
	tmp := *out + fmt.Sprintf(".tmp%d", os.Getpid())
	if err := os.WriteFile(tmp, []byte(b.String()), 0o644); err != nil {
		fail("write: %v", err)
	}
	if err := os.Rename(tmp, *out); err != nil {
		fail("rename: %v", err)
	}
	fmt.Println("wrote", *out)
}
