// drive-sigagg: correspondence driver for C09 (core/sigagg/sigagg.go).
//
// Runs the real sigagg.Aggregator, wired as app.go wires it (sigagg.New(threshold,
// sigagg.NewVerifier(eth2Cl))) over a beacon mock with a seven-fork schedule and REAL t-of-n tbls
// keys. Every op builds, per validator, one signed object of some duty type and data version with
// the repo's own testutil generators, has `count` shares sign it, applies the corruptions named in
// the op and calls Aggregate. The model (lean/Driver/SigAgg.lean) gets an abstract view computed
// INDEPENDENTLY of the aggregator: content identity (object with the signature blanked), the
// object's own epoch / message root / domain from a hand-written table, `combs` = the result of a
// direct tbls.ThresholdAggregate call on the share-index map, and `facts` = the tuples on which a
// direct tbls.Verify call (our own compute_domain over our own fork table) said yes.
//
// ops (recipe before " | ", abstract view after it; exec mode reads only the recipe):
//
//	cfg ks=<id> n=<n> t=<t> m=<validators> | …
//	agg nsub=<k> fail=<k|-> seed=<u64> vals=<val;val;…> | …
//	     val  := <validator>/<kind>/<version>/<epoch>/<shares>/<keying>/<corr,corr,…>
//	     shares := list of share indices that sign, in order, e.g. 2.1.4   (repeats allowed)
//	     keying := own | other | bad        (map key: the validator's pubkey, another validator's, garbage)
//	     corr := none | <pos>:wrongshare.<j> | <pos>:idx.<i> | <pos>:othermsg | <pos>:otherobj
//	           | <pos>:zero | <pos>:inf | <pos>:rand | <pos>:trunc | <pos>:field.<leaf>.<bit> | <pos>:validx
//
// outcome := <class> <calls|->   (see Driver/SigAgg.lean)
//
//go:debug randseednop=0
package main

import (
	"context"
	"crypto/sha256"
	"encoding/binary"
	"encoding/json"
	"fmt"
	"math/big"
	"math/rand"
	"reflect"
	"sort"
	"strconv"
	"strings"
	"testing"
	"time"

	"github.com/OffchainLabs/go-bitfield"
	eth2api "github.com/attestantio/go-eth2-client/api"
	eth2v1 "github.com/attestantio/go-eth2-client/api/v1"
	eth2bellatrix "github.com/attestantio/go-eth2-client/api/v1/bellatrix"
	eth2capella "github.com/attestantio/go-eth2-client/api/v1/capella"
	eth2deneb "github.com/attestantio/go-eth2-client/api/v1/deneb"
	eth2electra "github.com/attestantio/go-eth2-client/api/v1/electra"
	eth2fulu "github.com/attestantio/go-eth2-client/api/v1/fulu"
	eth2spec "github.com/attestantio/go-eth2-client/spec"
	"github.com/attestantio/go-eth2-client/spec/altair"
	"github.com/attestantio/go-eth2-client/spec/bellatrix"
	"github.com/attestantio/go-eth2-client/spec/capella"
	"github.com/attestantio/go-eth2-client/spec/deneb"
	"github.com/attestantio/go-eth2-client/spec/electra"
	eth2p0 "github.com/attestantio/go-eth2-client/spec/phase0"

	"github.com/obolnetwork/charon/app/eth2wrap"
	"github.com/obolnetwork/charon/app/log"
	"github.com/obolnetwork/charon/core"
	"github.com/obolnetwork/charon/core/sigagg"
	"github.com/obolnetwork/charon/eth2util/signing"
	"github.com/obolnetwork/charon/tbls"
	"github.com/obolnetwork/charon/testutil"
	"github.com/obolnetwork/charon/testutil/beaconmock"

	"verifharness/hx"
)

// The sections "chain configuration" … "reflection walk" and the signing helpers are the same code
// as in cmd/drive-admit (each driver is a self-contained main package).

// =============================================================================================
// chain configuration: our own fork table and domain computation (independent of eth2util/signing)

const spe = 16 // SLOTS_PER_EPOCH of the beacon mock

var (
	forkEpochs = []uint64{0, 4, 8, 12, 16, 20, 24}
	genesisVR  = [32]byte{0x21, 0x2f, 0x13, 0xfc, 0x4d, 0xf0, 0x78, 0xb6, 0x01, 0x02, 0x03}
	genesisT   = time.Date(2022, 3, 1, 0, 0, 0, 0, time.UTC)
)

func forkVersion(i int) [4]byte { return [4]byte{byte(0x10 * (i + 1)), 0x00, 0x09, 0x10} }

func forkIndexAt(epoch uint64) int {
	idx := 0
	for i, e := range forkEpochs {
		if e <= epoch {
			idx = i
		}
	}
	return idx
}

func forkScheduleJSON() string {
	var parts []string
	for i, e := range forkEpochs {
		prev := forkVersion(i)
		if i > 0 {
			prev = forkVersion(i - 1)
		}
		parts = append(parts, fmt.Sprintf(`{"previous_version":"%#x","current_version":"%#x","epoch":"%d"}`, prev, forkVersion(i), e))
	}
	return `{"data":[` + strings.Join(parts, ",") + `]}`
}

// domain indices = order of CharonV.Admit.Domain
const (
	domProposer = iota
	domAttester
	domExit
	domBuilder
	domRandao
	domSelection
	domAggAndProof
	domSyncComm
	domContribAndProof
	domSyncSelection
	numDomains
)

// domain type constants of the consensus spec (phase0/altair beacon-chain.md, builder-specs)
var domainTypes = [numDomains][4]byte{
	domProposer:        {0x00, 0, 0, 0},
	domAttester:        {0x01, 0, 0, 0},
	domRandao:          {0x02, 0, 0, 0},
	domExit:            {0x04, 0, 0, 0},
	domSelection:       {0x05, 0, 0, 0},
	domAggAndProof:     {0x06, 0, 0, 0},
	domSyncComm:        {0x07, 0, 0, 0},
	domSyncSelection:   {0x08, 0, 0, 0},
	domContribAndProof: {0x09, 0, 0, 0},
	domBuilder:         {0x00, 0, 0, 0x01},
}

var domainNames = [numDomains]signing.DomainName{
	domProposer: signing.DomainBeaconProposer, domAttester: signing.DomainBeaconAttester,
	domRandao: signing.DomainRandao, domExit: signing.DomainExit, domSelection: signing.DomainSelectionProof,
	domAggAndProof: signing.DomainAggregateAndProof, domSyncComm: signing.DomainSyncCommittee,
	domSyncSelection: signing.DomainSyncCommitteeSelectionProof, domContribAndProof: signing.DomainContributionAndProof,
	domBuilder: signing.DomainApplicationBuilder,
}

// computeDomain is compute_domain of the consensus spec.
func computeDomain(domType [4]byte, version [4]byte, gvr [32]byte) [32]byte {
	fd := &eth2p0.ForkData{CurrentVersion: version, GenesisValidatorsRoot: gvr}
	root, err := fd.HashTreeRoot()
	hx.Must(err)
	var d [32]byte
	copy(d[:4], domType[:])
	copy(d[4:], root[:28])
	return d
}

// signingRootWith is compute_signing_root with an explicitly chosen fork epoch and genesis root
// (used both for honest signing and for domain/fork/gvr substitutions).
func signingRootWith(dom int, forkEpoch uint64, gvr [32]byte, root [32]byte) [32]byte {
	var d [32]byte
	if dom == domBuilder {
		d = computeDomain(domainTypes[dom], forkVersion(0), [32]byte{})
	} else {
		d = computeDomain(domainTypes[dom], forkVersion(forkIndexAt(forkEpoch)), gvr)
	}
	sd := &eth2p0.SigningData{ObjectRoot: root, Domain: d}
	r, err := sd.HashTreeRoot()
	hx.Must(err)
	return r
}

func signingRoot(dom int, epoch uint64, root [32]byte) [32]byte {
	return signingRootWith(dom, epoch, genesisVR, root)
}

func u64Root(x uint64) [32]byte {
	var r [32]byte
	binary.LittleEndian.PutUint64(r[:8], x)
	return r
}

// =============================================================================================
// beacon mock (one per process)

var bmockBase beaconmock.Mock

func initMock(ctx context.Context) {
	m, err := beaconmock.New(ctx,
		beaconmock.WithEndpoint("/eth/v1/config/fork_schedule", forkScheduleJSON()),
		beaconmock.WithGenesisValidatorsRoot(genesisVR),
		beaconmock.WithGenesisTime(genesisT),
		beaconmock.WithSlotsPerEpoch(spe),
	)
	hx.Must(err)
	bmockBase = m
	// sanity: our domain computation agrees with eth2util/signing over the mock on an honest input
	for d := 0; d < numDomains; d++ {
		for _, e := range []uint64{0, 3, 4, 13, 24, 1000} {
			root := [32]byte{byte(d), byte(e)}
			want, err := signing.GetDataRoot(ctx, m, domainNames[d], eth2p0.Epoch(e), root)
			hx.Must(err)
			if got := signingRoot(d, e, root); got != want {
				panic(fmt.Sprintf("harness domain computation disagrees with signing.GetDataRoot: dom %d epoch %d", d, e))
			}
		}
	}
}

// =============================================================================================
// clusters: real t-of-n keys, deterministic per key-set id

type rngReader struct{ r *hx.Rng }

func (r rngReader) Read(p []byte) (int, error) {
	for i := range p {
		p[i] = byte(r.r.U64())
	}
	return len(p), nil
}

type cluster struct {
	ks, n, t, m int
	secrets     []tbls.PrivateKey
	pubkeys     []tbls.PublicKey
	corePks     []core.PubKey
	shares      []map[int]tbls.PrivateKey
	pubshares   map[core.PubKey]map[int]tbls.PublicKey
	// one extra validator that is active on the beacon node but not part of the lock
	xSecret tbls.PrivateKey
	xPub    tbls.PublicKey
	active  eth2wrap.ActiveValidators
	mock    beaconmock.Mock
	allKeys []tbls.PublicKey // every pubshare, every group key, the extra key
}

const valIdxBase = 100 // beacon validator index of cluster validator i is valIdxBase+i
const xValIdx = 900

var clusters = map[string]*cluster{}

func getCluster(ks, n, t, m int) *cluster {
	key := fmt.Sprintf("%d/%d/%d/%d", ks, n, t, m)
	if c, ok := clusters[key]; ok {
		return c
	}
	r := hx.NewRng(uint64(ks)*7919 + uint64(n)*131 + uint64(t)*17 + uint64(m))
	c := &cluster{ks: ks, n: n, t: t, m: m, pubshares: map[core.PubKey]map[int]tbls.PublicKey{}, active: eth2wrap.ActiveValidators{}}
	newSecret := func() tbls.PrivateKey {
		s, err := tbls.GenerateInsecureKey(new(testing.T), rngReader{r})
		hx.Must(err)
		return s
	}
	for i := 0; i < m; i++ {
		sec := newSecret()
		pub, err := tbls.SecretToPublicKey(sec)
		hx.Must(err)
		sh, err := tbls.ThresholdSplitInsecure(new(testing.T), sec, uint(n), uint(t), rngReader{r})
		hx.Must(err)
		cpk, err := core.PubKeyFromBytes(pub[:])
		hx.Must(err)
		ps := map[int]tbls.PublicKey{}
		for idx := 1; idx <= n; idx++ {
			s := sh[idx]
			p, err := tbls.SecretToPublicKey(s)
			hx.Must(err)
			ps[idx] = p
			c.allKeys = append(c.allKeys, p)
		}
		c.secrets = append(c.secrets, sec)
		c.pubkeys = append(c.pubkeys, pub)
		c.corePks = append(c.corePks, cpk)
		c.shares = append(c.shares, sh)
		c.pubshares[cpk] = ps
		c.allKeys = append(c.allKeys, pub)
		c.active[eth2p0.ValidatorIndex(valIdxBase+i)] = eth2p0.BLSPubKey(pub)
	}
	c.xSecret = newSecret()
	xp, err := tbls.SecretToPublicKey(c.xSecret)
	hx.Must(err)
	c.xPub = xp
	c.allKeys = append(c.allKeys, xp)
	c.active[eth2p0.ValidatorIndex(xValIdx)] = eth2p0.BLSPubKey(xp)
	c.mock = bmockBase
	act := c.active
	c.mock.CachedValidatorsFunc = func(context.Context) (eth2wrap.ActiveValidators, eth2wrap.CompleteValidators, error) {
		return act, nil, nil
	}
	clusters[key] = c
	return c
}

// validator index (beacon) -> position in cluster (-1: the extra validator, -2: nobody)
func (c *cluster) posOfValIdx(v uint64) int {
	if v >= valIdxBase && v < uint64(valIdxBase+c.m) {
		return int(v - valIdxBase)
	}
	if v == xValIdx {
		return -1
	}
	return -2
}

// =============================================================================================
// samples: one signed object of some type, built from testutil generators

const (
	kAtt = iota
	kRandao
	kProp
	kBProp
	kExit
	kBcSel
	kAgg
	kSyncMsg
	kContrib
	kSyncSel
	kReg
	kOldAgg
	kRaw
	numKinds
)

var kindNames = [numKinds]string{"att", "randao", "prop", "bprop", "exit", "bcsel", "agg", "syncmsg", "contrib", "syncsel", "reg", "oldagg", "raw"}

// SigType indices = order of Driver.Admit.sigTypes
const (
	tyProposal = iota
	tyAttestation
	tyExit
	tyRegistration
	tyRandao
	tyBcSelection
	tyAggProof
	tyVAggProof
	tySyncMessage
	tyContribution
	tySyncSelection
	tyRawSig
)

type randaoS struct {
	Slot      eth2p0.Slot  // VC door: ProposalOpts.Slot (the signed epoch is Slot / SLOTS_PER_EPOCH)
	Epoch     eth2p0.Epoch // peer door: SignedEpoch.Epoch
	Signature eth2p0.BLSSignature
	vc        bool
}

func (r *randaoS) epoch() eth2p0.Epoch {
	if r.vc {
		return eth2p0.Epoch(uint64(r.Slot) / spe)
	}
	return r.Epoch
}

type sample struct {
	kind int
	obj  any // pointer to the submitted object
}

var versions = []eth2spec.DataVersion{eth2spec.DataVersionPhase0, eth2spec.DataVersionAltair, eth2spec.DataVersionBellatrix,
	eth2spec.DataVersionCapella, eth2spec.DataVersionDeneb, eth2spec.DataVersionElectra, eth2spec.DataVersionFulu}

func numVersions(kind int) int {
	switch kind {
	case kAtt, kProp, kAgg:
		return 7
	case kBProp:
		return 5
	}
	return 1
}

type buildArgs struct {
	valIdx  uint64 // beacon validator index written into the object
	ver     int
	blinded bool
	epoch   uint64 // the object's own epoch
	slotOff uint64 // slot offset inside the epoch (where the object has a slot)
	subcomm uint64
	commIdx uint64
	vci     uint64 // validator committee index (pre-electra attestations)
	commLen uint64
	vcDoor  bool
}

func attData(a buildArgs) *eth2p0.AttestationData {
	d := testutil.RandomAttestationDataPhase0()
	d.Slot = eth2p0.Slot(a.epoch*spe + a.slotOff)
	d.Index = eth2p0.CommitteeIndex(a.commIdx)
	d.Target.Epoch = eth2p0.Epoch(a.epoch)
	if a.epoch > 0 {
		d.Source.Epoch = eth2p0.Epoch(a.epoch - 1)
	} else {
		d.Source.Epoch = 0
	}
	return d
}

func oneBit(n, at uint64) bitfield.Bitlist {
	b := bitfield.NewBitlist(n)
	b.SetBitAt(at, true)
	return b
}

func buildSample(kind int, a buildArgs) *sample {
	slot := eth2p0.Slot(a.epoch*spe + a.slotOff)
	vidx := eth2p0.ValidatorIndex(a.valIdx)
	switch kind {
	case kAtt:
		v := &eth2spec.VersionedAttestation{Version: versions[a.ver]}
		if a.ver <= 4 {
			att := &eth2p0.Attestation{AggregationBits: oneBit(a.commLen, a.vci), Data: attData(a)}
			switch a.ver {
			case 0:
				v.Phase0 = att
			case 1:
				v.Altair = att
			case 2:
				v.Bellatrix = att
			case 3:
				v.Capella = att
			case 4:
				v.Deneb = att
			}
		} else {
			d := attData(a)
			d.Index = 0
			cb := bitfield.NewBitvector64()
			cb.SetBitAt(a.commIdx, true)
			att := &electra.Attestation{AggregationBits: oneBit(a.commLen, a.vci), Data: d, CommitteeBits: cb}
			vi := vidx
			v.ValidatorIndex = &vi
			if a.ver == 5 {
				v.Electra = att
			} else {
				v.Fulu = att
			}
		}
		return &sample{kind, v}
	case kRandao:
		return &sample{kind, &randaoS{Slot: slot, Epoch: eth2p0.Epoch(a.epoch), vc: a.vcDoor}}
	case kProp, kBProp:
		p := &eth2api.VersionedSignedProposal{Version: versions[a.ver], Blinded: a.blinded}
		switch {
		case a.ver == 0:
			b := testutil.RandomPhase0BeaconBlock()
			b.Slot, b.ProposerIndex = slot, vidx
			p.Phase0 = &eth2p0.SignedBeaconBlock{Message: b}
		case a.ver == 1:
			b := testutil.RandomAltairBeaconBlock()
			b.Slot, b.ProposerIndex = slot, vidx
			p.Altair = &altair.SignedBeaconBlock{Message: b}
		case a.ver == 2 && !a.blinded:
			b := testutil.RandomBellatrixBeaconBlock()
			b.Slot, b.ProposerIndex = slot, vidx
			p.Bellatrix = &bellatrix.SignedBeaconBlock{Message: b}
		case a.ver == 2:
			b := testutil.RandomBellatrixBlindedBeaconBlock()
			b.Slot, b.ProposerIndex = slot, vidx
			p.BellatrixBlinded = &eth2bellatrix.SignedBlindedBeaconBlock{Message: b}
		case a.ver == 3 && !a.blinded:
			b := testutil.RandomCapellaBeaconBlock()
			b.Slot, b.ProposerIndex = slot, vidx
			p.Capella = &capella.SignedBeaconBlock{Message: b}
		case a.ver == 3:
			b := testutil.RandomCapellaBlindedBeaconBlock()
			b.Slot, b.ProposerIndex = slot, vidx
			p.CapellaBlinded = &eth2capella.SignedBlindedBeaconBlock{Message: b}
		case a.ver == 4 && !a.blinded:
			b := testutil.RandomDenebBeaconBlock()
			b.Slot, b.ProposerIndex = slot, vidx
			p.Deneb = &eth2deneb.SignedBlockContents{SignedBlock: &deneb.SignedBeaconBlock{Message: b}, KZGProofs: []deneb.KZGProof{}, Blobs: []deneb.Blob{}}
		case a.ver == 4:
			b := testutil.RandomDenebBlindedBeaconBlock()
			b.Slot, b.ProposerIndex = slot, vidx
			p.DenebBlinded = &eth2deneb.SignedBlindedBeaconBlock{Message: b}
		case a.ver == 5 && !a.blinded:
			b := testutil.RandomElectraBeaconBlock()
			b.Slot, b.ProposerIndex = slot, vidx
			p.Electra = &eth2electra.SignedBlockContents{SignedBlock: &electra.SignedBeaconBlock{Message: b}, KZGProofs: []deneb.KZGProof{}, Blobs: []deneb.Blob{}}
		case a.ver == 5:
			b := testutil.RandomElectraBlindedBeaconBlock()
			b.Slot, b.ProposerIndex = slot, vidx
			p.ElectraBlinded = &eth2electra.SignedBlindedBeaconBlock{Message: b}
		case a.ver == 6 && !a.blinded:
			b := testutil.RandomElectraBeaconBlock()
			b.Slot, b.ProposerIndex = slot, vidx
			p.Fulu = &eth2fulu.SignedBlockContents{SignedBlock: &electra.SignedBeaconBlock{Message: b}, KZGProofs: []deneb.KZGProof{}, Blobs: []deneb.Blob{}}
		default:
			b := testutil.RandomElectraBlindedBeaconBlock()
			b.Slot, b.ProposerIndex = slot, vidx
			p.FuluBlinded = &eth2electra.SignedBlindedBeaconBlock{Message: b}
		}
		if kind == kBProp {
			return &sample{kind, &eth2api.VersionedSignedBlindedProposal{Version: p.Version, Bellatrix: p.BellatrixBlinded,
				Capella: p.CapellaBlinded, Deneb: p.DenebBlinded, Electra: p.ElectraBlinded, Fulu: p.FuluBlinded}}
		}
		return &sample{kind, p}
	case kExit:
		return &sample{kind, &eth2p0.SignedVoluntaryExit{Message: &eth2p0.VoluntaryExit{Epoch: eth2p0.Epoch(a.epoch), ValidatorIndex: vidx}}}
	case kBcSel:
		return &sample{kind, &eth2v1.BeaconCommitteeSelection{ValidatorIndex: vidx, Slot: slot}}
	case kAgg, kOldAgg:
		agg := testutil.RandomAggregateAttestation()
		agg.Data.Slot = slot
		if kind == kOldAgg {
			return &sample{kind, &eth2p0.SignedAggregateAndProof{Message: &eth2p0.AggregateAndProof{AggregatorIndex: vidx, Aggregate: agg}}}
		}
		v := &eth2spec.VersionedSignedAggregateAndProof{Version: versions[a.ver]}
		if a.ver <= 4 {
			s := &eth2p0.SignedAggregateAndProof{Message: &eth2p0.AggregateAndProof{AggregatorIndex: vidx, Aggregate: agg}}
			switch a.ver {
			case 0:
				v.Phase0 = s
			case 1:
				v.Altair = s
			case 2:
				v.Bellatrix = s
			case 3:
				v.Capella = s
			case 4:
				v.Deneb = s
			}
		} else {
			ea := testutil.RandomElectraAttestation()
			ea.Data.Slot = slot
			s := &electra.SignedAggregateAndProof{Message: &electra.AggregateAndProof{AggregatorIndex: vidx, Aggregate: ea}}
			if a.ver == 5 {
				v.Electra = s
			} else {
				v.Fulu = s
			}
		}
		return &sample{kind, v}
	case kSyncMsg:
		return &sample{kind, &altair.SyncCommitteeMessage{Slot: slot, BeaconBlockRoot: testutil.RandomRoot(), ValidatorIndex: vidx}}
	case kContrib:
		c := testutil.RandomSignedSyncContributionAndProof()
		c.Message.AggregatorIndex = vidx
		c.Message.Contribution.Slot = slot
		c.Message.Contribution.SubcommitteeIndex = a.subcomm
		c.Message.SelectionProof = eth2p0.BLSSignature{}
		c.Signature = eth2p0.BLSSignature{}
		return &sample{kind, c}
	case kSyncSel:
		return &sample{kind, &eth2v1.SyncCommitteeSelection{ValidatorIndex: vidx, Slot: slot, SubcommitteeIndex: a.subcomm}}
	case kReg:
		r := testutil.RandomVersionedSignedValidatorRegistration(new(testing.T))
		r.V1.Signature = eth2p0.BLSSignature{}
		// the generator uses crypto/rand and time.Now: overwrite with values from the seeded source
		_, _ = rand.Read(r.V1.Message.FeeRecipient[:])
		r.V1.Message.Timestamp = time.Unix(1700000000+int64(rand.Intn(1000000)), 0)
		return &sample{kind, r}
	case kRaw:
		s := core.Signature(make([]byte, 96))
		return &sample{kind, &s}
	}
	panic("bad kind")
}

// view is what the harness itself reads off an object: type, domain, own epoch, own message root,
// signature, slot / subcommittee / validator index the object names. Written by hand per type; it
// does not call core's Eth2SignedData methods.
type view struct {
	ty      int
	dom     int // -1: not an eth2 signed object
	epoch   *uint64
	root    *[32]byte
	sig     [96]byte
	slot    uint64
	subcomm uint64
	valIdx  *uint64
}

func p0AttOf(v *eth2spec.VersionedAttestation) (*eth2p0.AttestationData, *eth2p0.BLSSignature, bool) {
	var a *eth2p0.Attestation
	switch v.Version {
	case eth2spec.DataVersionPhase0:
		a = v.Phase0
	case eth2spec.DataVersionAltair:
		a = v.Altair
	case eth2spec.DataVersionBellatrix:
		a = v.Bellatrix
	case eth2spec.DataVersionCapella:
		a = v.Capella
	case eth2spec.DataVersionDeneb:
		a = v.Deneb
	case eth2spec.DataVersionElectra:
		if v.Electra == nil {
			return nil, nil, false
		}
		return v.Electra.Data, &v.Electra.Signature, true
	case eth2spec.DataVersionFulu:
		if v.Fulu == nil {
			return nil, nil, false
		}
		return v.Fulu.Data, &v.Fulu.Signature, true
	default:
		return nil, nil, false
	}
	if a == nil {
		return nil, nil, false
	}
	return a.Data, &a.Signature, true
}

type htr interface{ HashTreeRoot() ([32]byte, error) }

// propParts returns the block message, its slot, proposer index and a pointer to the signature.
func propParts(p *eth2api.VersionedSignedProposal) (htr, uint64, uint64, *eth2p0.BLSSignature, bool) {
	switch p.Version {
	case eth2spec.DataVersionPhase0:
		if p.Phase0 != nil {
			return p.Phase0.Message, uint64(p.Phase0.Message.Slot), uint64(p.Phase0.Message.ProposerIndex), &p.Phase0.Signature, true
		}
	case eth2spec.DataVersionAltair:
		if p.Altair != nil {
			return p.Altair.Message, uint64(p.Altair.Message.Slot), uint64(p.Altair.Message.ProposerIndex), &p.Altair.Signature, true
		}
	case eth2spec.DataVersionBellatrix:
		if p.Blinded && p.BellatrixBlinded != nil {
			return p.BellatrixBlinded.Message, uint64(p.BellatrixBlinded.Message.Slot), uint64(p.BellatrixBlinded.Message.ProposerIndex), &p.BellatrixBlinded.Signature, true
		}
		if !p.Blinded && p.Bellatrix != nil {
			return p.Bellatrix.Message, uint64(p.Bellatrix.Message.Slot), uint64(p.Bellatrix.Message.ProposerIndex), &p.Bellatrix.Signature, true
		}
	case eth2spec.DataVersionCapella:
		if p.Blinded && p.CapellaBlinded != nil {
			return p.CapellaBlinded.Message, uint64(p.CapellaBlinded.Message.Slot), uint64(p.CapellaBlinded.Message.ProposerIndex), &p.CapellaBlinded.Signature, true
		}
		if !p.Blinded && p.Capella != nil {
			return p.Capella.Message, uint64(p.Capella.Message.Slot), uint64(p.Capella.Message.ProposerIndex), &p.Capella.Signature, true
		}
	case eth2spec.DataVersionDeneb:
		if p.Blinded && p.DenebBlinded != nil {
			return p.DenebBlinded.Message, uint64(p.DenebBlinded.Message.Slot), uint64(p.DenebBlinded.Message.ProposerIndex), &p.DenebBlinded.Signature, true
		}
		if !p.Blinded && p.Deneb != nil {
			return p.Deneb.SignedBlock.Message, uint64(p.Deneb.SignedBlock.Message.Slot), uint64(p.Deneb.SignedBlock.Message.ProposerIndex), &p.Deneb.SignedBlock.Signature, true
		}
	case eth2spec.DataVersionElectra:
		if p.Blinded && p.ElectraBlinded != nil {
			return p.ElectraBlinded.Message, uint64(p.ElectraBlinded.Message.Slot), uint64(p.ElectraBlinded.Message.ProposerIndex), &p.ElectraBlinded.Signature, true
		}
		if !p.Blinded && p.Electra != nil {
			return p.Electra.SignedBlock.Message, uint64(p.Electra.SignedBlock.Message.Slot), uint64(p.Electra.SignedBlock.Message.ProposerIndex), &p.Electra.SignedBlock.Signature, true
		}
	case eth2spec.DataVersionFulu:
		if p.Blinded && p.FuluBlinded != nil {
			return p.FuluBlinded.Message, uint64(p.FuluBlinded.Message.Slot), uint64(p.FuluBlinded.Message.ProposerIndex), &p.FuluBlinded.Signature, true
		}
		if !p.Blinded && p.Fulu != nil {
			return p.Fulu.SignedBlock.Message, uint64(p.Fulu.SignedBlock.Message.Slot), uint64(p.Fulu.SignedBlock.Message.ProposerIndex), &p.Fulu.SignedBlock.Signature, true
		}
	}
	return nil, 0, 0, nil, false
}

func asProposal(s *sample) *eth2api.VersionedSignedProposal {
	if s.kind == kProp {
		return s.obj.(*eth2api.VersionedSignedProposal)
	}
	bp := s.obj.(*eth2api.VersionedSignedBlindedProposal)
	return &eth2api.VersionedSignedProposal{Version: bp.Version, Blinded: true, BellatrixBlinded: bp.Bellatrix,
		CapellaBlinded: bp.Capella, DenebBlinded: bp.Deneb, ElectraBlinded: bp.Electra, FuluBlinded: bp.Fulu}
}

// aggParts: message, slot, aggregator index, inner selection proof, signature pointer.
func aggParts(v *eth2spec.VersionedSignedAggregateAndProof) (htr, uint64, uint64, eth2p0.BLSSignature, *eth2p0.BLSSignature, bool) {
	var a *eth2p0.SignedAggregateAndProof
	switch v.Version {
	case eth2spec.DataVersionPhase0:
		a = v.Phase0
	case eth2spec.DataVersionAltair:
		a = v.Altair
	case eth2spec.DataVersionBellatrix:
		a = v.Bellatrix
	case eth2spec.DataVersionCapella:
		a = v.Capella
	case eth2spec.DataVersionDeneb:
		a = v.Deneb
	case eth2spec.DataVersionElectra, eth2spec.DataVersionFulu:
		e := v.Electra
		if v.Version == eth2spec.DataVersionFulu {
			e = v.Fulu
		}
		if e == nil {
			return nil, 0, 0, eth2p0.BLSSignature{}, nil, false
		}
		return e.Message, uint64(e.Message.Aggregate.Data.Slot), uint64(e.Message.AggregatorIndex), e.Message.SelectionProof, &e.Signature, true
	default:
		return nil, 0, 0, eth2p0.BLSSignature{}, nil, false
	}
	if a == nil {
		return nil, 0, 0, eth2p0.BLSSignature{}, nil, false
	}
	return a.Message, uint64(a.Message.Aggregate.Data.Slot), uint64(a.Message.AggregatorIndex), a.Message.SelectionProof, &a.Signature, true
}

func mustRoot(h htr) *[32]byte {
	r, err := h.HashTreeRoot()
	if err != nil {
		return nil
	}
	return &r
}

func up(x uint64) *uint64 { return &x }

// sigPtr returns a pointer to the object's signature bytes (nil if the shape is broken).
func (s *sample) sigPtr() *eth2p0.BLSSignature {
	switch s.kind {
	case kAtt:
		_, sp, _ := p0AttOf(s.obj.(*eth2spec.VersionedAttestation))
		return sp
	case kRandao:
		return &s.obj.(*randaoS).Signature
	case kProp, kBProp:
		_, _, _, sp, _ := propParts(asProposal(s))
		return sp
	case kExit:
		return &s.obj.(*eth2p0.SignedVoluntaryExit).Signature
	case kBcSel:
		return &s.obj.(*eth2v1.BeaconCommitteeSelection).SelectionProof
	case kAgg:
		_, _, _, _, sp, _ := aggParts(s.obj.(*eth2spec.VersionedSignedAggregateAndProof))
		return sp
	case kOldAgg:
		return &s.obj.(*eth2p0.SignedAggregateAndProof).Signature
	case kSyncMsg:
		return &s.obj.(*altair.SyncCommitteeMessage).Signature
	case kContrib:
		return &s.obj.(*altair.SignedContributionAndProof).Signature
	case kSyncSel:
		return &s.obj.(*eth2v1.SyncCommitteeSelection).SelectionProof
	case kReg:
		return &s.obj.(*eth2api.VersionedSignedValidatorRegistration).V1.Signature
	}
	return nil
}

func (s *sample) view() view {
	v := view{dom: -1}
	if sp := s.sigPtr(); sp != nil {
		v.sig = *sp
	}
	switch s.kind {
	case kAtt:
		v.ty, v.dom = tyAttestation, domAttester
		va := s.obj.(*eth2spec.VersionedAttestation)
		v.valIdx = nil
		if va.ValidatorIndex != nil {
			v.valIdx = up(uint64(*va.ValidatorIndex))
		}
		if d, _, ok := p0AttOf(va); ok && d != nil && d.Target != nil && d.Source != nil {
			v.epoch, v.root, v.slot = up(uint64(d.Target.Epoch)), mustRoot(d), uint64(d.Slot)
		}
	case kRandao:
		r := s.obj.(*randaoS)
		v.ty, v.dom = tyRandao, domRandao
		v.epoch, v.slot = up(uint64(r.epoch())), uint64(r.Slot)
		rt := u64Root(uint64(r.epoch()))
		v.root = &rt
	case kProp, kBProp:
		v.ty, v.dom = tyProposal, domProposer
		if m, slot, pi, _, ok := propParts(asProposal(s)); ok {
			v.root, v.slot, v.valIdx = mustRoot(m), slot, up(pi)
			// the object's epoch comes from the Slot accessor of the go-eth2-client type, which (in the
			// fork the repo pins) knows no pre-merge block versions: such proposals have no epoch
			if _, err := asProposal(s).Slot(); err == nil {
				v.epoch = up(slot / spe)
			}
		}
	case kExit:
		e := s.obj.(*eth2p0.SignedVoluntaryExit)
		v.ty, v.dom = tyExit, domExit
		v.epoch, v.root, v.slot, v.valIdx = up(uint64(e.Message.Epoch)), mustRoot(e.Message), uint64(e.Message.Epoch)*spe, up(uint64(e.Message.ValidatorIndex))
	case kBcSel:
		b := s.obj.(*eth2v1.BeaconCommitteeSelection)
		v.ty, v.dom = tyBcSelection, domSelection
		rt := u64Root(uint64(b.Slot))
		v.epoch, v.root, v.slot, v.valIdx = up(uint64(b.Slot)/spe), &rt, uint64(b.Slot), up(uint64(b.ValidatorIndex))
	case kAgg:
		v.ty, v.dom = tyVAggProof, domAggAndProof
		if m, slot, ai, _, _, ok := aggParts(s.obj.(*eth2spec.VersionedSignedAggregateAndProof)); ok {
			v.epoch, v.root, v.slot, v.valIdx = up(slot/spe), mustRoot(m), slot, up(ai)
		}
	case kOldAgg:
		a := s.obj.(*eth2p0.SignedAggregateAndProof)
		v.ty, v.dom = tyAggProof, domAggAndProof
		slot := uint64(a.Message.Aggregate.Data.Slot)
		v.epoch, v.root, v.slot, v.valIdx = up(slot/spe), mustRoot(a.Message), slot, up(uint64(a.Message.AggregatorIndex))
	case kSyncMsg:
		m := s.obj.(*altair.SyncCommitteeMessage)
		v.ty, v.dom = tySyncMessage, domSyncComm
		rt := [32]byte(m.BeaconBlockRoot)
		v.epoch, v.root, v.slot, v.valIdx = up(uint64(m.Slot)/spe), &rt, uint64(m.Slot), up(uint64(m.ValidatorIndex))
	case kContrib:
		c := s.obj.(*altair.SignedContributionAndProof)
		v.ty, v.dom = tyContribution, domContribAndProof
		slot := uint64(c.Message.Contribution.Slot)
		v.epoch, v.root, v.slot, v.subcomm, v.valIdx = up(slot/spe), mustRoot(c.Message), slot, c.Message.Contribution.SubcommitteeIndex, up(uint64(c.Message.AggregatorIndex))
	case kSyncSel:
		x := s.obj.(*eth2v1.SyncCommitteeSelection)
		v.ty, v.dom = tySyncSelection, domSyncSelection
		d := &altair.SyncAggregatorSelectionData{Slot: x.Slot, SubcommitteeIndex: x.SubcommitteeIndex}
		v.epoch, v.root, v.slot, v.subcomm, v.valIdx = up(uint64(x.Slot)/spe), mustRoot(d), uint64(x.Slot), x.SubcommitteeIndex, up(uint64(x.ValidatorIndex))
	case kReg:
		r := s.obj.(*eth2api.VersionedSignedValidatorRegistration)
		v.ty, v.dom = tyRegistration, domBuilder
		v.epoch, v.root = up(0), mustRoot(r.V1.Message)
	case kRaw:
		v.ty = tyRawSig
		copy(v.sig[:], *s.obj.(*core.Signature))
	}
	return v
}

func (s *sample) setSig(sig [96]byte) {
	if s.kind == kRaw {
		b := core.Signature(append([]byte(nil), sig[:]...))
		*s.obj.(*core.Signature) = b
		return
	}
	if sp := s.sigPtr(); sp != nil {
		*sp = sig
	}
}

// toCore wraps (a deep copy of) the object with the repo's own constructors.
func (s *sample) toCore(shareIdx int) (core.ParSignedData, error) {
	switch s.kind {
	case kAtt:
		return core.NewPartialVersionedAttestation(s.obj.(*eth2spec.VersionedAttestation), shareIdx)
	case kRandao:
		r := s.obj.(*randaoS)
		return core.NewPartialSignedRandao(r.epoch(), r.Signature, shareIdx), nil
	case kProp:
		return core.NewPartialVersionedSignedProposal(s.obj.(*eth2api.VersionedSignedProposal), shareIdx)
	case kBProp:
		return core.NewPartialVersionedSignedBlindedProposal(s.obj.(*eth2api.VersionedSignedBlindedProposal), shareIdx)
	case kExit:
		return core.NewPartialSignedVoluntaryExit(s.obj.(*eth2p0.SignedVoluntaryExit), shareIdx), nil
	case kBcSel:
		return core.NewPartialSignedBeaconCommitteeSelection(s.obj.(*eth2v1.BeaconCommitteeSelection), shareIdx), nil
	case kAgg:
		return core.NewPartialVersionedSignedAggregateAndProof(s.obj.(*eth2spec.VersionedSignedAggregateAndProof), shareIdx), nil
	case kOldAgg:
		return core.NewPartialSignedAggregateAndProof(s.obj.(*eth2p0.SignedAggregateAndProof), shareIdx), nil
	case kSyncMsg:
		return core.NewPartialSignedSyncMessage(s.obj.(*altair.SyncCommitteeMessage), shareIdx), nil
	case kContrib:
		return core.NewPartialSignedSyncContributionAndProof(s.obj.(*altair.SignedContributionAndProof), shareIdx), nil
	case kSyncSel:
		return core.NewPartialSignedSyncCommitteeSelection(s.obj.(*eth2v1.SyncCommitteeSelection), shareIdx), nil
	case kReg:
		return core.NewPartialVersionedSignedValidatorRegistration(s.obj.(*eth2api.VersionedSignedValidatorRegistration), shareIdx)
	case kRaw:
		return core.NewPartialSignature(*s.obj.(*core.Signature), shareIdx), nil
	}
	panic("bad kind")
}

// =============================================================================================
// reflection walk: every leaf field of the submitted object

type leaf struct {
	v    reflect.Value
	path string
}

var bigIntT = reflect.TypeOf(big.Int{})
var timeT = reflect.TypeOf(time.Time{})

func walk(v reflect.Value, path string, out *[]leaf) {
	switch v.Kind() {
	case reflect.Ptr:
		if !v.IsNil() {
			walk(v.Elem(), path, out)
		}
	case reflect.Struct:
		if v.Type() == bigIntT {
			return
		}
		if v.Type() == timeT {
			*out = append(*out, leaf{v, path})
			return
		}
		for i := 0; i < v.NumField(); i++ {
			if v.Type().Field(i).IsExported() {
				walk(v.Field(i), path+"."+v.Type().Field(i).Name, out)
			}
		}
	case reflect.Array, reflect.Slice:
		if v.Type().Elem().Kind() == reflect.Uint8 {
			if v.Len() > 0 {
				*out = append(*out, leaf{v, path})
			}
			return
		}
		for i := 0; i < v.Len(); i++ {
			walk(v.Index(i), fmt.Sprintf("%s[%d]", path, i), out)
		}
	case reflect.Uint8, reflect.Uint16, reflect.Uint32, reflect.Uint64, reflect.Uint, reflect.Int, reflect.Int32, reflect.Int64, reflect.Bool:
		*out = append(*out, leaf{v, path})
	}
}

func leavesOf(obj any) []leaf {
	var out []leaf
	walk(reflect.ValueOf(obj), "", &out)
	return out
}

// mutate changes the leaf (flips one bit chosen by `bit`); returns a short description.
func mutate(l leaf, bit uint64) {
	v := l.v
	switch v.Kind() {
	case reflect.Bool:
		v.SetBool(!v.Bool())
	case reflect.Uint8, reflect.Uint16, reflect.Uint32, reflect.Uint64, reflect.Uint:
		v.SetUint(v.Uint() ^ (1 << (bit % uint64(v.Type().Bits()))))
	case reflect.Int, reflect.Int32, reflect.Int64:
		v.SetInt(v.Int() ^ (1 << (bit % uint64(v.Type().Bits()-1))))
	case reflect.Array, reflect.Slice:
		i := int(bit/8) % v.Len()
		e := v.Index(i)
		e.SetUint(e.Uint() ^ (1 << (bit % 8)))
	case reflect.Struct: // time.Time
		t := v.Interface().(time.Time)
		v.Set(reflect.ValueOf(t.Add(time.Second)))
	}
}

// =============================================================================================
// signing

type signPlan struct {
	secret    tbls.PrivateKey
	dom       int   // -1: the object's own
	forkEpoch int64 // -1: the object's own epoch
	otherGVR  bool
}

func signView(v view, p signPlan) ([96]byte, bool) {
	if v.dom < 0 || v.epoch == nil || v.root == nil {
		return [96]byte{}, false
	}
	dom, fe, gvr := v.dom, *v.epoch, genesisVR
	if p.dom >= 0 {
		dom = p.dom
	}
	if p.forkEpoch >= 0 {
		fe = uint64(p.forkEpoch)
	}
	if p.otherGVR {
		gvr[5] ^= 0x40
	}
	sr := signingRootWith(dom, fe, gvr, *v.root)
	sig, err := tbls.Sign(p.secret, sr[:])
	hx.Must(err)
	return [96]byte(sig), true
}

// secretFor picks the signing key of an item: validator position `val` (-1 the extra validator,
// -2 nobody: the extra key again), share index `share` (0: the group secret).
func (c *cluster) secretFor(val, share int) tbls.PrivateKey {
	if val < 0 || val >= c.m {
		return c.xSecret
	}
	if share == 0 {
		return c.secrets[val]
	}
	if s, ok := c.shares[val][share]; ok {
		return s
	}
	return c.xSecret
}

// setInnerProof fills the group-signed inner selection proof of aggregate / contribution objects.
func setInnerProof(c *cluster, s *sample, val int, how string) {
	sec := c.secretFor(val, 0)
	if how == "innershare" {
		sec = c.secretFor(val, 1)
	}
	var sr [32]byte
	var dst *eth2p0.BLSSignature
	switch s.kind {
	case kAgg:
		v := s.obj.(*eth2spec.VersionedSignedAggregateAndProof)
		_, slot, _, _, _, ok := aggParts(v)
		if !ok {
			return
		}
		sr = signingRoot(domSelection, slot/spe, u64Root(slot))
		switch {
		case v.Electra != nil:
			dst = &v.Electra.Message.SelectionProof
		case v.Fulu != nil:
			dst = &v.Fulu.Message.SelectionProof
		default:
			for _, a := range []*eth2p0.SignedAggregateAndProof{v.Phase0, v.Altair, v.Bellatrix, v.Capella, v.Deneb} {
				if a != nil {
					dst = &a.Message.SelectionProof
				}
			}
		}
	case kOldAgg:
		a := s.obj.(*eth2p0.SignedAggregateAndProof)
		slot := uint64(a.Message.Aggregate.Data.Slot)
		sr = signingRoot(domSelection, slot/spe, u64Root(slot))
		dst = &a.Message.SelectionProof
	case kContrib:
		cp := s.obj.(*altair.SignedContributionAndProof)
		d := &altair.SyncAggregatorSelectionData{Slot: cp.Message.Contribution.Slot, SubcommitteeIndex: cp.Message.Contribution.SubcommitteeIndex}
		rt, err := d.HashTreeRoot()
		hx.Must(err)
		sr = signingRoot(domSyncSelection, uint64(cp.Message.Contribution.Slot)/spe, rt)
		dst = &cp.Message.SelectionProof
	default:
		return
	}
	sig, err := tbls.Sign(sec, sr[:])
	hx.Must(err)
	*dst = eth2p0.BLSSignature(sig)
	switch how {
	case "innerzero":
		*dst = eth2p0.BLSSignature{}
	case "innerbad":
		dst[40] ^= 1
	}
}

// payloadView re-derives a sample from a delivered payload so that the monitors can judge it with
// the harness's own view.
func sampleOfCore(sd core.SignedData) *sample {
	switch d := sd.(type) {
	case core.VersionedAttestation:
		return &sample{kAtt, &d.VersionedAttestation}
	case core.VersionedSignedProposal:
		return &sample{kProp, &d.VersionedSignedProposal}
	case core.SignedVoluntaryExit:
		return &sample{kExit, &d.SignedVoluntaryExit}
	case core.VersionedSignedValidatorRegistration:
		return &sample{kReg, &d.VersionedSignedValidatorRegistration}
	case core.SignedRandao:
		return &sample{kRandao, &randaoS{Epoch: d.SignedEpoch.Epoch, Signature: d.SignedEpoch.Signature}}
	case core.BeaconCommitteeSelection:
		return &sample{kBcSel, &d.BeaconCommitteeSelection}
	case core.SignedAggregateAndProof:
		return &sample{kOldAgg, &d.SignedAggregateAndProof}
	case core.VersionedSignedAggregateAndProof:
		return &sample{kAgg, &d.VersionedSignedAggregateAndProof}
	case core.SignedSyncMessage:
		return &sample{kSyncMsg, &d.SyncCommitteeMessage}
	case core.SignedSyncContributionAndProof:
		return &sample{kContrib, &d.SignedContributionAndProof}
	case core.SyncCommitteeSelection:
		return &sample{kSyncSel, &d.SyncCommitteeSelection}
	case core.Signature:
		return &sample{kRaw, &d}
	}
	return nil
}

// =============================================================================================
// episode state and interning

type episode struct {
	cl     *cluster
	agg    map[int]*sigagg.Aggregator
	roots  map[[32]byte]int
	sigs   map[string]int
	conts  map[[32]byte]int
	vals   map[string]int
	keyIDs map[tbls.PublicKey]int
}

func (e *episode) rootID(r [32]byte) int {
	if id, ok := e.roots[r]; ok {
		return id
	}
	e.roots[r] = len(e.roots) + 1
	return len(e.roots)
}

// sigID interns signature bytes of any length (0: the all-zero 96-byte signature).
func (e *episode) sigID(s []byte) int {
	if len(s) == 96 && [96]byte(s) == ([96]byte{}) {
		return 0
	}
	if id, ok := e.sigs[string(s)]; ok {
		return id
	}
	e.sigs[string(s)] = len(e.sigs) + 1
	return len(e.sigs)
}

// contentID: identity of a signed object with its signature blanked.
func (e *episode) contentID(sd core.SignedData) int {
	var b []byte
	cl, err := sd.Clone()
	if err == nil {
		if s := sampleOfCore(cl); s != nil {
			s.setSig([96]byte{})
			if par, err2 := s.toCore(0); err2 == nil {
				b, err = json.Marshal(par.SignedData)
			} else {
				err = err2
			}
		}
	}
	if err != nil || b == nil {
		b = []byte(fmt.Sprintf("unclonable:%T:%v", sd, err))
	}
	h := sha256.Sum256(b)
	if id, ok := e.conts[h]; ok {
		return id
	}
	e.conts[h] = len(e.conts) + 1
	return len(e.conts)
}

func (e *episode) valID(pk core.PubKey) int {
	for i, c := range e.cl.corePks {
		if c == pk {
			return i + 1
		}
	}
	if x, err := core.PubKeyFromBytes(e.cl.xPub[:]); err == nil && x == pk {
		return 90
	}
	if id, ok := e.vals[string(pk)]; ok {
		return id
	}
	e.vals[string(pk)] = 100 + len(e.vals)
	return e.vals[string(pk)]
}

func optU(p *uint64) string {
	if p == nil {
		return "x"
	}
	return strconv.FormatUint(*p, 10)
}

func b01(b bool) string {
	if b {
		return "1"
	}
	return "0"
}

func dashIfEmpty(s string) string {
	if s == "" {
		return "-"
	}
	return s
}

func sortedKeys(m map[string]bool) string {
	var ks []string
	for k := range m {
		ks = append(ks, k)
	}
	sort.Strings(ks)
	return strings.Join(ks, ",")
}

// =============================================================================================
// ops

type corr struct {
	pos  int
	kind string
	a, b uint64
}

func (c corr) String() string {
	switch c.kind {
	case "field", "altcontent":
		return fmt.Sprintf("%d:%s.%d.%d", c.pos, c.kind, c.a, c.b)
	case "wrongshare", "idx", "crossval", "fork":
		return fmt.Sprintf("%d:%s.%d", c.pos, c.kind, c.a)
	}
	return fmt.Sprintf("%d:%s", c.pos, c.kind)
}

func parseCorr(s string) corr {
	p := strings.SplitN(s, ":", 2)
	var c corr
	c.pos, _ = strconv.Atoi(p[0])
	q := strings.Split(p[1], ".")
	c.kind = q[0]
	if len(q) > 1 {
		c.a, _ = strconv.ParseUint(q[1], 10, 64)
	}
	if len(q) > 2 {
		c.b, _ = strconv.ParseUint(q[2], 10, 64)
	}
	return c
}

type valSpec struct {
	val     int
	kind    int
	ver     int
	blinded bool
	epoch   uint64
	shares  []int
	keying  string
	corrs   []corr
}

func (v valSpec) String() string {
	b := ""
	if v.blinded {
		b = "b"
	}
	var sh, cs []string
	for _, x := range v.shares {
		sh = append(sh, strconv.Itoa(x))
	}
	for _, c := range v.corrs {
		cs = append(cs, c.String())
	}
	if len(cs) == 0 {
		cs = []string{"none"}
	}
	return fmt.Sprintf("%d/%s/%d%s/%d/%s/%s/%s", v.val, kindNames[v.kind], v.ver, b, v.epoch, dashIfEmpty(strings.Join(sh, ".")), v.keying, strings.Join(cs, ","))
}

func parseValSpec(s string) valSpec {
	p := strings.Split(s, "/")
	if len(p) != 7 {
		panic("bad val spec " + s)
	}
	var v valSpec
	v.val, _ = strconv.Atoi(p[0])
	v.kind = -1
	for i, n := range kindNames {
		if n == p[1] {
			v.kind = i
		}
	}
	if v.kind < 0 {
		panic("bad kind " + p[1])
	}
	if strings.HasSuffix(p[2], "b") {
		v.blinded = true
		p[2] = strings.TrimSuffix(p[2], "b")
	}
	v.ver, _ = strconv.Atoi(p[2])
	v.epoch, _ = strconv.ParseUint(p[3], 10, 64)
	if p[4] != "-" {
		for _, x := range strings.Split(p[4], ".") {
			i, _ := strconv.Atoi(x)
			v.shares = append(v.shares, i)
		}
	}
	v.keying = p[5]
	if p[6] != "none" {
		for _, c := range strings.Split(p[6], ",") {
			v.corrs = append(v.corrs, parseCorr(c))
		}
	}
	return v
}

type aggOp struct {
	nsub int
	fail int
	seed uint64
	vals []valSpec
}

func (o aggOp) recipe() string {
	var vs []string
	for _, v := range o.vals {
		vs = append(vs, v.String())
	}
	f := "-"
	if o.fail >= 0 {
		f = strconv.Itoa(o.fail)
	}
	return fmt.Sprintf("agg nsub=%d fail=%s seed=%d vals=%s", o.nsub, f, o.seed, dashIfEmpty(strings.Join(vs, ";")))
}

func kv(tok, key string) string {
	if !strings.HasPrefix(tok, key+"=") {
		panic("expected " + key + "= in " + tok)
	}
	return strings.TrimPrefix(tok, key+"=")
}

func parseAggOp(f []string) aggOp {
	if len(f) != 5 {
		panic("bad agg op")
	}
	o := aggOp{fail: -1}
	o.nsub, _ = strconv.Atoi(kv(f[1], "nsub"))
	if x := kv(f[2], "fail"); x != "-" {
		o.fail, _ = strconv.Atoi(x)
	}
	o.seed, _ = strconv.ParseUint(kv(f[3], "seed"), 10, 64)
	if x := kv(f[4], "vals"); x != "-" {
		for _, s := range strings.Split(x, ";") {
			o.vals = append(o.vals, parseValSpec(s))
		}
	}
	return o
}

type cfgOp struct{ ks, n, t, m int }

func (c cfgOp) recipe() string { return fmt.Sprintf("cfg ks=%d n=%d t=%d m=%d", c.ks, c.n, c.t, c.m) }

func parseCfgOp(f []string) cfgOp {
	if len(f) != 5 {
		panic("bad cfg op")
	}
	var c cfgOp
	c.ks, _ = strconv.Atoi(kv(f[1], "ks"))
	c.n, _ = strconv.Atoi(kv(f[2], "n"))
	c.t, _ = strconv.Atoi(kv(f[3], "t"))
	c.m, _ = strconv.Atoi(kv(f[4], "m"))
	return c
}

func newEpisode(run *hx.Run, c cfgOp) *episode {
	cl := getCluster(c.ks, c.n, c.t, c.m)
	e := &episode{cl: cl, agg: map[int]*sigagg.Aggregator{}, roots: map[[32]byte]int{}, sigs: map[string]int{}, conts: map[[32]byte]int{},
		vals: map[string]int{}, keyIDs: map[tbls.PublicKey]int{}}
	for i, k := range cl.allKeys {
		e.keyIDs[k] = i + 1
	}
	var gks []string
	for i, pk := range cl.pubkeys {
		gks = append(gks, fmt.Sprintf("%d.%d", i+1, e.keyIDs[pk]))
	}
	gks = append(gks, fmt.Sprintf("90.%d", e.keyIDs[cl.xPub]))
	run.Op(c.recipe()+fmt.Sprintf(" | %d %s", c.t, strings.Join(gks, ",")), "ok")
	return e
}

// =============================================================================================
// the aggregator under test, wired as in app.go

type obsCall struct {
	sub int
	set core.SignedDataSet
}

type aggState struct {
	calls    []obsCall
	subCalls int
	failAt   int
}

var ast *aggState

var errSubFail = fmt.Errorf("harness-sub-fail")

func (e *episode) aggregator(nsub int) *sigagg.Aggregator {
	if a, ok := e.agg[nsub]; ok {
		return a
	}
	a, err := sigagg.New(e.cl.t, sigagg.NewVerifier(e.cl.mock))
	hx.Must(err)
	for s := 0; s < nsub; s++ {
		s := s
		a.Subscribe(func(_ context.Context, _ core.Duty, set core.SignedDataSet) error {
			ast.calls = append(ast.calls, obsCall{s, set})
			if ast.failAt >= 0 && s == ast.failAt {
				return errSubFail
			}
			return nil
		})
	}
	e.agg[nsub] = a
	return a
}

func classify(err error) string {
	if err == nil {
		return "ok"
	}
	s := err.Error()
	has := func(x string) bool { return strings.Contains(s, x) }
	switch {
	case has("harness-sub-fail"):
		return "suberr"
	case has("empty partial signed data set"):
		return "empty"
	case has("require threshold signatures"):
		return "toofew"
	case has("signature from core"):
		return "sigbytes"
	case has("number of partial signatures less than threshold"):
		return "toofewdistinct"
	case has("pubkey from core"):
		return "badkey"
	case has("invalid eth2 signed data"):
		return "noteth2"
	case has("no signature found"):
		return "zerosig"
	case has("verify aggregate signature"):
		if has("signature not verified") || has("unmarshal signature into Herumi") || has("set compressed public key") {
			return "badsig"
		}
		return "objerr"
	case has("unmarshal signature into Herumi"), has("signature id isn't a number"), has("combine signatures"):
		return "combine"
	}
	return "setsig"
}

var kindDuty = [numKinds]core.DutyType{kAtt: core.DutyAttester, kRandao: core.DutyRandao, kProp: core.DutyProposer, kBProp: core.DutyProposer,
	kExit: core.DutyExit, kBcSel: core.DutyPrepareAggregator, kAgg: core.DutyAggregator, kSyncMsg: core.DutySyncMessage,
	kContrib: core.DutySyncContribution, kSyncSel: core.DutyPrepareSyncContribution, kReg: core.DutyBuilderRegistration,
	kOldAgg: core.DutyAggregator, kRaw: core.DutySignature}

func (e *episode) execAgg(run *hx.Run, o aggOp) {
	ctx := context.Background()
	cl := e.cl
	r := hx.NewRng(o.seed)
	set := map[core.PubKey][]core.ParSignedData{}
	facts := map[string]bool{}
	combs := map[string]bool{}
	var absVals []string
	allHonest := len(o.vals) > 0
	type supplied struct {
		contents map[int]bool
		parts    []core.ParSignedData
		views    []view
	}
	sup := map[core.PubKey]*supplied{}
	var dutyType core.DutyType

	for vi, vs := range o.vals {
		kind := vs.kind
		ba := buildArgs{valIdx: cl.valIdxOf(vs.val), ver: vs.ver % numVersions(kind), blinded: vs.blinded, epoch: vs.epoch, slotOff: uint64(vi) % spe,
			subcomm: uint64(vi % 4), commIdx: uint64(1 + vs.val%8), vci: uint64(vs.val % 8), commLen: 8}
		if kind == kBProp {
			kind, ba.blinded, ba.ver = kProp, true, 2+vs.ver%5
		}
		if kind == kProp && ba.ver < 2 {
			ba.blinded = false
		}
		dutyType = kindDuty[kind]
		mk := func(variant int64) *sample {
			rand.Seed(int64(o.seed>>1) + int64(vi)*1000003 + variant*7919)
			s := buildSample(kind, ba)
			if kind == kAtt { // partials received from peers carry no validator index
				s.obj.(*eth2spec.VersionedAttestation).ValidatorIndex = nil
			}
			setInnerProof(cl, s, vs.val, "ok")
			return s
		}
		honest := vs.keying == "own" && len(vs.corrs) == 0
		var parts []core.ParSignedData
		var views []view
		for pos, sh := range vs.shares {
			s := mk(0)
			idx := sh
			signer := sh
			signVal := vs.val
			signFork := int64(-1)
			var posCorrs []corr
			for _, c := range vs.corrs {
				if c.pos == pos {
					posCorrs = append(posCorrs, c)
				}
			}
			for _, c := range posCorrs {
				switch c.kind {
				case "otherobj":
					s = mk(1)
				case "wrongshare":
					signer = int(c.a)
				case "fork":
					signFork = int64(c.a) // signed under the fork version of ANOTHER epoch (a peer that has not crossed a fork boundary)
				case "crossval":
					signVal = int(c.a) // the same share index of ANOTHER validator of the call signs (errors of two such swaps cancel in a sum)
				case "validx":
					if kind == kAtt {
						vi := eth2p0.ValidatorIndex(ba.valIdx)
						s.obj.(*eth2spec.VersionedAttestation).ValidatorIndex = &vi
					}
				}
			}
			v := s.view()
			signV := v
			for _, c := range posCorrs {
				if c.kind == "othermsg" {
					signV = mk(1).view()
				}
			}
			if signV.epoch == nil && kind == kProp {
				signV.epoch = up(vs.epoch) // pre-merge block: the accessor knows no epoch, the signer does
			}
			if kind == kRaw {
				signV = view{dom: domAttester, epoch: up(vs.epoch), root: &[32]byte{byte(vi), 7}}
			}
			if sig, ok := signView(signV, signPlan{secret: cl.secretFor(signVal, signer), dom: -1, forkEpoch: signFork}); ok {
				s.setSig(sig)
			}
			for _, c := range posCorrs {
				switch c.kind {
				case "zero":
					s.setSig([96]byte{})
				case "inf":
					s.setSig([96]byte{0xc0})
				case "rand":
					var g [96]byte
					for i := range g {
						g[i] = byte(r.U64())
					}
					s.setSig(g)
				case "trunc":
					if kind == kRaw {
						raw := s.obj.(*core.Signature)
						*raw = (*raw)[:95]
					}
				case "idx":
					idx = int(int32(uint32(c.a)))
				case "altcontent":
					// alter the SIGNED content after signing: the signature stays a valid share signature
					// over the common content, the object's own message root becomes another one
					before := s.view()
					if ls := leavesOf(s.obj); len(ls) > 0 && before.root != nil {
						for k := 0; k < len(ls); k++ {
							l := ls[(int(c.a)+k)%len(ls)]
							if l.v.Kind() == reflect.Struct {
								continue
							}
							mutate(l, c.b)
							after := s.view()
							good := after.root != nil && *after.root != *before.root && after.sig == before.sig &&
								after.epoch != nil && before.epoch != nil && *after.epoch == *before.epoch
							if good {
								if par, err := s.toCore(idx); err != nil {
									good = false
								} else if _, err := par.Clone(); err != nil {
									good = false
								}
							}
							if good {
								run.Case(fmt.Sprintf("%s/v%d/altcontent%s", kindNames[vs.kind], ba.ver, l.path))
								break
							}
							mutate(l, c.b)
						}
					}
				case "field":
					if ls := leavesOf(s.obj); len(ls) > 0 {
						l := ls[int(c.a)%len(ls)]
						mutate(l, c.b)
						if par, err := s.toCore(idx); err == nil {
							if _, err := par.Clone(); err != nil && l.v.Kind() != reflect.Struct {
								mutate(l, c.b) // does not survive its own codec: not a storable object
							}
						}
						run.Case(fmt.Sprintf("%s/v%d/field%s", kindNames[vs.kind], ba.ver, l.path))
					}
				}
				if c.kind != "field" && c.kind != "altcontent" {
					run.Case(fmt.Sprintf("%s/v%d%v/%s/n%d", kindNames[vs.kind], ba.ver, ba.blinded, c.kind, len(vs.shares)))
				}
			}
			par, err := s.toCore(idx)
			if err != nil {
				run.Count("unbuildable-partial")
				continue
			}
			parts = append(parts, par)
			views = append(views, s.view())
		}
		if len(vs.corrs) == 0 {
			run.Case(fmt.Sprintf("%s/v%d%v/honest/%v/%s", kindNames[vs.kind], ba.ver, ba.blinded, vs.shares, vs.keying))
		}
		// map key
		pk, _ := cl.corePkOf(vs.val)
		switch vs.keying {
		case "other":
			pk = cl.corePks[(vs.val+1)%cl.m]
		case "extra":
			pk, _ = cl.corePkOf(-1)
		case "bad":
			pk = core.PubKey(fmt.Sprintf("0x12%02d", vi))
		}
		set[pk] = parts
		sp := &supplied{contents: map[int]bool{}, parts: parts, views: views}
		sup[pk] = sp

		// ---- the harness's own view of this validator's partials --------------------------------
		var absParts []string
		sigMap := map[int]tbls.Signature{}
		lenOK := true
		distinctValid := map[int]bool{}
		roots := map[[32]byte]bool{}
		for i, par := range parts {
			v := views[i]
			raw := []byte(par.Signature())
			sigLen := len(raw) == 96
			if !sigLen {
				lenOK = false
			} else {
				sigMap[par.ShareIdx] = tbls.Signature(raw)
			}
			_, isAtt := par.SignedData.(core.VersionedAttestation)
			hasVI := false
			if isAtt {
				hasVI = par.SignedData.(core.VersionedAttestation).ValidatorIndex != nil
			}
			_, serr := par.SignedData.SetSignature(make(core.Signature, 96))
			cid := e.contentID(par.SignedData)
			sp.contents[cid] = true
			root := "x"
			if v.root != nil {
				root = strconv.Itoa(e.rootID(*v.root))
				roots[*v.root] = true
			}
			absParts = append(absParts, fmt.Sprintf("%d,%s,%s,%s,%s,%d:%d:%s:%s:%d", par.ShareIdx, b01(sigLen), b01(isAtt), b01(hasVI), b01(serr == nil),
				cid, v.ty, optU(v.epoch), root, e.sigID(raw)))
			// is this partial individually valid (what C10 guarantees for everything in parsigdb)?
			if key, ok := cl.pubshares[pk][par.ShareIdx]; ok && sigLen && v.dom >= 0 && v.epoch != nil && v.root != nil {
				sr := signingRoot(v.dom, *v.epoch, *v.root)
				if tbls.Verify(key, sr[:], tbls.Signature(raw)) == nil {
					distinctValid[par.ShareIdx] = true
				} else {
					honest = false
				}
			} else {
				honest = false
			}
		}
		if len(roots) != 1 || len(distinctValid) < cl.t || vs.kind == kRaw {
			honest = false
		}
		if vs.kind == kProp && ba.ver < 2 {
			honest = false // pre-merge proposals have no Slot accessor in the pinned go-eth2-client fork
		}
		allHonest = allHonest && honest
		if lenOK && len(sigMap) > 0 {
			var idxs []int
			for i := range sigMap {
				idxs = append(idxs, i)
			}
			sort.Ints(idxs)
			var ks []string
			for _, i := range idxs {
				s := sigMap[i]
				ks = append(ks, fmt.Sprintf("%d.%d", i, e.sigID(s[:])))
			}
			res := "x"
			var aggSig tbls.Signature
			func() {
				defer func() { _ = recover() }()
				if a, err := tbls.ThresholdAggregate(sigMap); err == nil {
					aggSig = a
					res = strconv.Itoa(e.sigID(a[:]))
				}
			}()
			combs[strings.Join(ks, "+")+"="+res] = true
			if res != "x" && aggSig != (tbls.Signature{}) {
				seen := map[string]bool{}
				for _, v := range views {
					if v.dom < 0 || v.epoch == nil || v.root == nil {
						continue
					}
					k := fmt.Sprintf("%d.%d.%x", v.dom, *v.epoch, *v.root)
					if seen[k] {
						continue
					}
					seen[k] = true
					sr := signingRoot(v.dom, *v.epoch, *v.root)
					for _, key := range append(append([]tbls.PublicKey(nil), cl.pubkeys...), cl.xPub) {
						if tbls.Verify(key, sr[:], aggSig) == nil {
							facts[fmt.Sprintf("%d.%d.%d.%d.%d", e.keyIDs[key], v.dom, *v.epoch, e.rootID(*v.root), e.sigID(aggSig[:]))] = true
							break
						}
					}
				}
			}
		}
		absVals = append(absVals, fmt.Sprintf("%d=%s", e.valID(pk), dashIfEmpty(strings.Join(absParts, "/"))))
	}

	// ---- the real call -----------------------------------------------------------------------
	ast = &aggState{failAt: o.fail}
	a := e.aggregator(o.nsub)
	var err error
	func() {
		defer func() {
			if p := recover(); p != nil {
				err = fmt.Errorf("harness: panic: %v", p)
				run.Count("panic")
			}
		}()
		err = a.Aggregate(ctx, core.Duty{Slot: 1, Type: dutyType}, set)
	}()
	class := classify(err)
	calls := ast.calls

	// ---- monitors ----------------------------------------------------------------------------
	if class != "ok" && class != "suberr" && len(calls) > 0 {
		run.Violate("sigagg:partial_publish_on_error", fmt.Sprintf("Aggregate returned %q but a subscriber was called", class))
	}
	for _, c := range calls {
		if len(c.set) != len(set) {
			run.Violate("sigagg:partial_publish_on_error", fmt.Sprintf("subscriber got %d of %d validators", len(c.set), len(set)))
		}
		for pk, sd := range c.set {
			s := sampleOfCore(sd)
			sp := sup[pk]
			if s == nil || sp == nil {
				run.Violate("sigagg:published_other_content", "published object of unknown type / for a validator that was not in the call")
				continue
			}
			v := s.view()
			ok := false
			if pub, perr := core.PubKey(pk).Bytes(); perr == nil && len(pub) == 48 && v.dom >= 0 && v.epoch != nil && v.root != nil && v.sig != ([96]byte{}) {
				sr := signingRoot(v.dom, *v.epoch, *v.root)
				ok = tbls.Verify(tbls.PublicKey(pub), sr[:], tbls.Signature(v.sig)) == nil
			}
			if !ok {
				run.Violate("sigagg:published_invalid_signature", fmt.Sprintf("published %s for validator %d does not verify under its group key", kindNames[s.kind], e.valID(pk)))
			}
			if !sp.contents[e.contentID(sd)] {
				run.Violate("sigagg:published_other_content", fmt.Sprintf("published %s for validator %d is none of the supplied objects", kindNames[s.kind], e.valID(pk)))
			}
			// every contributing signature (the last one per share index) was made, by the share of its
			// index, over the published object's own signing root
			last := map[int]int{}
			for i, p := range sp.parts {
				last[p.ShareIdx] = i
			}
			for _, i := range last {
				good := false
				if key, okk := cl.pubshares[pk][sp.parts[i].ShareIdx]; okk && v.dom >= 0 && v.epoch != nil && v.root != nil {
					sr := signingRoot(v.dom, *v.epoch, *v.root)
					raw := []byte(sp.parts[i].Signature())
					good = len(raw) == 96 && tbls.Verify(key, sr[:], tbls.Signature(raw)) == nil
				}
				if !good {
					run.Violate("sigagg:published_other_content", fmt.Sprintf("published %s for validator %d although the contributing signature of share %d was not made over the published content", kindNames[s.kind], e.valID(pk), sp.parts[i].ShareIdx))
				}
			}
		}
	}
	if allHonest && class != "ok" && class != "suberr" {
		run.Violate("sigagg:valid_not_published", fmt.Sprintf("threshold valid partials over one object for every validator, but Aggregate failed: %v", err))
	}

	// ---- record ------------------------------------------------------------------------------
	var cs []string
	for _, c := range calls {
		type ent struct {
			v   int
			str string
		}
		var es []ent
		for pk, sd := range c.set {
			es = append(es, ent{e.valID(pk), fmt.Sprintf("%d=%d/%d", e.valID(pk), e.contentID(sd), e.sigID(sd.Signature()))})
		}
		sort.Slice(es, func(i, j int) bool { return es[i].v < es[j].v })
		var ss []string
		for _, x := range es {
			ss = append(ss, x.str)
		}
		cs = append(cs, fmt.Sprintf("s%d:{%s}", c.sub, strings.Join(ss, ",")))
	}
	f := "-"
	if o.fail >= 0 {
		f = strconv.Itoa(o.fail)
	}
	sort.Strings(absVals)
	abs := fmt.Sprintf("%d %s %s %s %s %s", o.nsub, f, class, dashIfEmpty(sortedKeys(facts)), dashIfEmpty(sortedKeys(combs)), dashIfEmpty(strings.Join(absVals, ";")))
	run.Count("class:" + class)
	run.Count(fmt.Sprintf("validators:%d", len(o.vals)))
	run.Op(o.recipe()+" | "+abs, class+" "+dashIfEmpty(strings.Join(cs, ";")))
}

func (c *cluster) valIdxOf(pos int) uint64 {
	switch {
	case pos >= 0 && pos < c.m:
		return uint64(valIdxBase + pos)
	case pos == -1:
		return xValIdx
	}
	return 777
}

func (c *cluster) corePkOf(pos int) (core.PubKey, bool) {
	switch {
	case pos >= 0 && pos < c.m:
		return c.corePks[pos], true
	case pos == -1:
		pk, err := core.PubKeyFromBytes(c.xPub[:])
		hx.Must(err)
		return pk, true
	}
	return "", false
}

// =============================================================================================
// generator

type gen struct {
	run  *hx.Run
	r    *hx.Rng
	ep   *episode
	cfg  cfgOp
	left int
	capF int
}

func (g *gen) newEpisode() {
	shapes := [][2]int{{4, 3}, {3, 2}, {5, 4}, {4, 3}, {5, 3}}
	sh := shapes[g.r.Intn(len(shapes))]
	g.cfg = cfgOp{ks: g.r.Intn(3), n: sh[0], t: sh[1], m: 3}
	g.ep = newEpisode(g.run, g.cfg)
	g.left--
}

func (g *gen) seed() uint64 { return g.r.U64() >> 1 }

func (g *gen) agg(o aggOp) {
	g.ep.execAgg(g.run, o)
	g.left--
}

type combo struct {
	ver     int
	blinded bool
}

func combosOf(kind int) []combo {
	var out []combo
	switch kind {
	case kProp:
		for v := 0; v < 7; v++ {
			out = append(out, combo{v, false})
			if v >= 2 {
				out = append(out, combo{v, true})
			}
		}
	default:
		for v := 0; v < numVersions(kind); v++ {
			out = append(out, combo{v, false})
		}
	}
	return out
}

// subsets of size k of 1..n
func subsets(n, k int) [][]int {
	var out [][]int
	var rec func(start int, cur []int)
	rec = func(start int, cur []int) {
		if len(cur) == k {
			out = append(out, append([]int(nil), cur...))
			return
		}
		for i := start; i <= n; i++ {
			rec(i+1, append(cur, i))
		}
	}
	rec(1, nil)
	return out
}

func (g *gen) shuffled(xs []int) []int {
	out := make([]int, len(xs))
	for i, p := range g.r.Perm(len(xs)) {
		out[i] = xs[p]
	}
	return out
}

func (g *gen) randSubset(k int) []int {
	p := g.r.Perm(g.cfg.n)
	var out []int
	for i := 0; i < k && i < len(p); i++ {
		out = append(out, p[i]+1)
	}
	return out
}

var corrKinds = []string{"wrongshare", "idx", "othermsg", "otherobj", "zero", "inf", "rand", "field", "altcontent", "validx"}

func (g *gen) mkCorr(kind string, pos int, shares []int) corr {
	c := corr{pos: pos, kind: kind}
	switch kind {
	case "wrongshare":
		j := 1 + g.r.Intn(g.cfg.n)
		if j == shares[pos] {
			j = 1 + j%g.cfg.n
		}
		c.a = uint64(j)
	case "idx":
		c.a = []uint64{0, uint64(g.cfg.n + 1), uint64(1 + g.r.Intn(g.cfg.n)), 0xFFFFFFFF, 77}[g.r.Intn(5)]
	case "field", "altcontent":
		c.a, c.b = uint64(g.r.Intn(100000)), uint64(g.r.Intn(64))
	}
	return c
}

// forkBoundary: the SAME content (same op seed) aggregated by the same Aggregator / verifier on both sides of a
// fork boundary - valid in the last epoch of the old fork, then in the first epoch of the new fork with every
// partial signed under the OLD fork version (must be refused: nothing published), then honestly under the new one
// (must be published). Objects whose message root does not contain their epoch (sync committee messages: the
// block root) have the same message root in all three calls.
func (g *gen) forkBoundary(kind int) {
	if kind == kRaw || g.left <= 0 {
		return
	}
	cbs := combosOf(kind)
	cb := cbs[g.r.Intn(len(cbs))]
	b := forkEpochs[1+g.r.Intn(len(forkEpochs)-1)]
	seed, nsub, val := g.seed(), 1+g.r.Intn(2), g.r.Intn(g.cfg.m)
	shares := g.randSubset(g.cfg.t)
	mk := func(epoch uint64, stale bool) valSpec {
		v := valSpec{val: val, kind: kind, ver: cb.ver, blinded: cb.blinded, epoch: epoch, shares: shares, keying: "own"}
		if stale {
			for pos := range shares {
				v.corrs = append(v.corrs, corr{pos: pos, kind: "fork", a: b - 1})
			}
		}
		return v
	}
	g.agg(aggOp{nsub: nsub, fail: -1, seed: seed, vals: []valSpec{mk(b-1, false)}})
	g.agg(aggOp{nsub: nsub, fail: -1, seed: seed, vals: []valSpec{mk(b, true)}})
	g.agg(aggOp{nsub: nsub, fail: -1, seed: seed, vals: []valSpec{mk(b, false)}})
}

func (g *gen) systematic(kind int) {
	for _, cb := range combosOf(kind) {
		if g.left <= 0 {
			return
		}
		base := func(shares []int) valSpec {
			return valSpec{val: g.r.Intn(g.cfg.m), kind: kind, ver: cb.ver, blinded: cb.blinded, epoch: uint64(g.r.Intn(27)), shares: shares, keying: "own"}
		}
		one := func(v valSpec) {
			g.agg(aggOp{nsub: 1 + g.r.Intn(2), fail: -1, seed: g.seed(), vals: []valSpec{v}})
		}
		// every threshold subset, in a random order of arrival; all shares; threshold+1
		for _, ss := range subsets(g.cfg.n, g.cfg.t) {
			one(base(g.shuffled(ss)))
		}
		all := g.randSubset(g.cfg.n)
		one(base(all))
		// too few, repeated share (exactly threshold entries / one more than threshold)
		one(base(g.randSubset(g.cfg.t - 1)))
		one(base(nil))
		ss := g.randSubset(g.cfg.t)
		dup := append(append([]int(nil), ss[:g.cfg.t-1]...), ss[0])
		one(base(dup))
		one(base(append(append([]int(nil), ss...), ss[g.r.Intn(len(ss))])))
		// every corruption of one partial, at a random position, with exactly threshold and with all shares
		for _, ck := range corrKinds {
			if ck == "validx" && kind != kAtt {
				continue
			}
			for _, shares := range [][]int{g.randSubset(g.cfg.t), g.randSubset(g.cfg.n)} {
				v := base(shares)
				v.corrs = []corr{g.mkCorr(ck, g.r.Intn(len(shares)), shares)}
				one(v)
			}
		}
		if kind == kRaw {
			v := base(g.randSubset(g.cfg.t))
			v.corrs = []corr{{pos: g.r.Intn(g.cfg.t), kind: "trunc"}}
			one(v)
		}
		// carrier scenarios: the object the aggregate is injected into (and that is published) must be the
		// object that is verified. Attestations: the partial carrying a validator index (the local VC's
		// copy) at the head, in the middle, at the end, its signed content consistent with the others or
		// altered after signing (its share signature stays valid over the common content); with exactly
		// threshold and with more partials, in random arrival order. Other kinds: the head is the carrier.
		for _, cnt := range []int{g.cfg.t, g.cfg.n} {
			if kind == kAtt {
				for _, pos := range []int{0, cnt / 2, cnt - 1} {
					for _, altered := range []bool{false, true} {
						v := base(g.randSubset(cnt))
						v.corrs = []corr{{pos: pos, kind: "validx"}}
						if altered {
							v.corrs = append(v.corrs, g.mkCorr("altcontent", pos, v.shares))
						}
						one(v)
					}
				}
				// two partials carry a validator index, the first of them altered / the second of them altered
				for _, firstAltered := range []bool{true, false} {
					v := base(g.randSubset(cnt))
					v.corrs = []corr{{pos: 1, kind: "validx"}, {pos: cnt - 1, kind: "validx"}}
					p := cnt - 1
					if firstAltered {
						p = 1
					}
					v.corrs = append(v.corrs, g.mkCorr("altcontent", p, v.shares))
					one(v)
				}
			} else if kind != kRaw {
				for _, pos := range []int{0, cnt - 1} {
					v := base(g.randSubset(cnt))
					v.corrs = []corr{g.mkCorr("altcontent", pos, v.shares)}
					one(v)
				}
			}
		}
		// field alterations spread over the object
		for k := 0; k < g.capF; k++ {
			shares := g.randSubset(g.cfg.t)
			v := base(shares)
			v.corrs = []corr{g.mkCorr("field", g.r.Intn(len(shares)), shares)}
			one(v)
		}
		// two corrupted partials
		{
			shares := g.randSubset(g.cfg.n)
			v := base(shares)
			v.corrs = []corr{g.mkCorr(corrKinds[g.r.Intn(7)], 0, shares), g.mkCorr(corrKinds[g.r.Intn(7)], 1, shares)}
			one(v)
		}
		// filed under another validator's key / a key outside the cluster / garbage
		for _, k := range []string{"other", "extra", "bad"} {
			v := base(g.randSubset(g.cfg.t))
			v.keying = k
			one(v)
		}
		// multi-validator calls: all fine; one validator corrupted / too few / repeated share
		for variant := 0; variant < 6; variant++ {
			nv := 2 + g.r.Intn(2)
			if nv > g.cfg.m {
				nv = g.cfg.m
			}
			perm := g.r.Perm(g.cfg.m)
			var vals []valSpec
			for i := 0; i < nv; i++ {
				v := base(g.randSubset(g.cfg.t + g.r.Intn(g.cfg.n-g.cfg.t+1)))
				v.val = perm[i]
				vals = append(vals, v)
			}
			bad := g.r.Intn(nv)
			switch variant {
			case 5:
				// two validators over the same epoch and the same share set (for randao: the very same signed content); the
				// partial of one share index is swapped between them: each aggregate is invalid, their sum is not
				if nv < 2 {
					continue
				}
				vals[1].epoch, vals[1].shares = vals[0].epoch, append([]int(nil), vals[0].shares...)
				pos := g.r.Intn(len(vals[0].shares))
				vals[0].corrs = []corr{{pos: pos, kind: "crossval", a: uint64(vals[1].val)}}
				vals[1].corrs = []corr{{pos: pos, kind: "crossval", a: uint64(vals[0].val)}}
			case 1:
				ck := corrKinds[g.r.Intn(8)]
				vals[bad].corrs = []corr{g.mkCorr(ck, g.r.Intn(len(vals[bad].shares)), vals[bad].shares)}
			case 2:
				vals[bad].shares = g.randSubset(g.cfg.t - 1)
			case 3:
				s := g.randSubset(g.cfg.t)
				s[len(s)-1] = s[0]
				vals[bad].shares = s
			case 4:
				vals[bad].corrs = []corr{g.mkCorr("othermsg", 0, vals[bad].shares)}
				other := (bad + 1) % nv
				vals[other].shares = g.randSubset(g.cfg.t - 1)
			}
			fail := -1
			if variant == 0 && g.r.Chance(1, 2) {
				fail = g.r.Intn(2)
			}
			g.agg(aggOp{nsub: 1 + g.r.Intn(2), fail: fail, seed: g.seed(), vals: vals})
		}
	}
}

func (g *gen) random() {
	nv := 1 + g.r.Intn(g.cfg.m)
	perm := g.r.Perm(g.cfg.m)
	kind := g.r.Intn(numKinds)
	if kind == kBProp {
		kind = kProp
	}
	var vals []valSpec
	for i := 0; i < nv; i++ {
		cbs := combosOf(kind)
		cb := cbs[g.r.Intn(len(cbs))]
		k := g.cfg.t + g.r.Intn(g.cfg.n-g.cfg.t+1)
		if g.r.Chance(1, 10) {
			k = g.r.Intn(g.cfg.t)
		}
		shares := g.randSubset(k)
		if len(shares) > 1 && g.r.Chance(1, 8) {
			shares[len(shares)-1] = shares[0]
		}
		v := valSpec{val: perm[i], kind: kind, ver: cb.ver, blinded: cb.blinded, epoch: uint64(g.r.Intn(27)), shares: shares, keying: "own"}
		if len(shares) > 0 && g.r.Chance(1, 3) {
			nc := 1 + g.r.Intn(2)
			for j := 0; j < nc; j++ {
				v.corrs = append(v.corrs, g.mkCorr(corrKinds[g.r.Intn(len(corrKinds))], g.r.Intn(len(shares)), shares))
			}
		}
		if kind == kAtt && len(shares) > 0 && g.r.Chance(1, 3) {
			p := g.r.Intn(len(shares))
			v.corrs = append(v.corrs, corr{pos: p, kind: "validx"})
			if g.r.Chance(1, 2) {
				v.corrs = append(v.corrs, g.mkCorr("altcontent", p, shares))
			}
		} else if len(shares) > 0 && g.r.Chance(1, 8) {
			v.corrs = append(v.corrs, g.mkCorr("altcontent", 0, shares))
		}
		if g.r.Chance(1, 25) {
			v.keying = []string{"extra", "bad"}[g.r.Intn(2)]
		}
		vals = append(vals, v)
	}
	if g.r.Chance(1, 60) {
		vals = nil
	}
	fail := -1
	if g.r.Chance(1, 8) {
		fail = g.r.Intn(3)
	}
	g.agg(aggOp{nsub: 1 + g.r.Intn(3), fail: fail, seed: g.seed(), vals: vals})
}

func generate(run *hx.Run, a hx.Args) {
	g := &gen{run: run, r: hx.NewRng(a.Seed), left: a.N, capF: 4}
	if a.Tier == "thorough" {
		g.capF = 24
	}
	g.newEpisode()
	// fork-boundary triples for every kind first (three calls each): a small budget must see them all
	for k := 0; k < numKinds; k++ {
		if k != kBProp {
			g.forkBoundary(k)
		}
	}
	g.newEpisode()
	for _, k := range g.r.Perm(numKinds) {
		if g.left <= 0 {
			break
		}
		if k == kBProp {
			continue // the aggregator sees blinded proposals as VersionedSignedProposal{Blinded: true}
		}
		g.systematic(k)
		g.forkBoundary(k)
		g.newEpisode()
	}
	for g.left > 0 {
		if g.r.Chance(1, 40) {
			g.newEpisode()
			continue
		}
		g.random()
	}
}

func execute(run *hx.Run, ops []string) {
	var ep *episode
	for _, line := range ops {
		recipe := strings.SplitN(line, " | ", 2)[0]
		f := strings.Fields(recipe)
		if len(f) == 0 {
			continue
		}
		switch f[0] {
		case "cfg":
			ep = newEpisode(run, parseCfgOp(f))
		case "agg":
			if ep == nil {
				panic("agg before cfg")
			}
			ep.execAgg(run, parseAggOp(f))
		default:
			panic("unknown op " + f[0])
		}
	}
}

var (
	_ = binary.LittleEndian
	_ = big.NewInt
	_ = time.Now
	_ = testing.Short
	_ = signing.DomainExit
	_ = eth2wrap.ActiveValidators{}
	_ = testutil.RandomRoot
	_ = bitfield.NewBitlist
	_ = eth2api.VersionedProposal{}
	_ = eth2v1.Validator{}
	_ = eth2bellatrix.SignedBlindedBeaconBlock{}
	_ = eth2capella.SignedBlindedBeaconBlock{}
	_ = eth2deneb.SignedBlockContents{}
	_ = eth2electra.SignedBlockContents{}
	_ = eth2fulu.SignedBlockContents{}
	_ = altair.SyncCommitteeMessage{}
	_ = bellatrix.SignedBeaconBlock{}
	_ = capella.SignedBeaconBlock{}
	_ = deneb.SignedBeaconBlock{}
	_ = electra.SignedBeaconBlock{}
	_ = beaconmock.Mock{}
)

func main() {
	a := hx.ParseArgs()
	hx.Must(log.InitLogger(log.Config{Level: "fatal", Format: "console", Color: "disable"}))
	ctx, cancel := context.WithCancel(context.Background())
	defer cancel()
	initMock(ctx)
	run := hx.NewRun(a.Dir)
	defer run.Close()
	if a.Mode == "exec" {
		execute(run, hx.ReadOps(a.Ops))
		return
	}
	generate(run, a)
}
