// drive-signeddata: correspondence driver and monitors for C14 (extension `signeddata`): the accessor laws of
// EVERY implementation of core.SignedData (core/signeddata.go) in every fork version — Signature(),
// SetSignature(), MessageRoot(), Clone(), MarshalJSON/UnmarshalJSON.
//
// The Lean side (lean/Driver/SignedData.lean) replays the ops on the generic model CharonV/Model/SignedData.lean,
// instantiated with the row the translator T-signeddata extracted from the Go source for the handle's
// (type, version); this driver executes them on the real methods with values from testutil's random
// constructors. Canonical facts only: signatures and roots are interned as small ids in order of first
// appearance (per episode), equality as bits.
//
// ops:
//
//	cfg                          new episode                                 -> ok kinds=<size of the catalog>
//	new <h> <type> <version|->   a random value                              -> ok
//	setsig <h> <h2> <hex|->      h2 := h.SetSignature(bytes)                 -> ok sig=<id> len=<n> root=<id|none> recv=same|changed
//	copysig <hs> <h> <h2>        h2 := h.SetSignature(hs.Signature())        -> (as setsig)
//	getsig <h> | root <h>        Signature() / MessageRoot()
//	clone <h> <h2>               h2 := h.Clone()                             -> ok eq=<bit>
//	json <h> <h2>                h2 := UnmarshalJSON(MarshalJSON(h)) into a fresh value -> ok sig=<id> root=<id|none> eq=<bit>
//	eq <h1> <h2>                 same kind and same JSON encoding            -> eq=<bit>
//	mut <h>                      overwrite everything reachable from h (hx.Scribble); h is dead afterwards
//	                                                                         -> ok changed=<other handles whose value changed|->
//
// Monitors (independent of the model, on the real values): signeddata:root_changed_by_setsig,
// signeddata:sig_not_roundtripped, signeddata:receiver_mutated_by_setsig, signeddata:setsig_changes_type,
// signeddata:setsig_result_shares_memory, signeddata:clone_differs, signeddata:clone_shares_memory,
// signeddata:json_roundtrip_changes_root, signeddata:json_roundtrip_changes_sig, signeddata:json_result_shares_memory,
// signeddata:equal_content_different_root, signeddata:panic.
package main

import (
	"bytes"
	"encoding/hex"
	"encoding/json"
	"fmt"
	"reflect"
	"sort"
	"strconv"
	"strings"

	"github.com/obolnetwork/charon/core"

	"verifharness/hx"
)

type ent struct {
	k      *kind
	v      core.SignedData
	alive  bool
	parent int    // handle it was derived from (-1: new)
	how    string // new | setsig | clone | json
}

type driver struct {
	run   *hx.Run
	kinds []kind
	ents  map[int]*ent
	sigs  map[string]int
	roots map[string]int
}

func (d *driver) reset() {
	d.ents = map[int]*ent{}
	d.sigs = map[string]int{}
	d.roots = map[string]int{}
}

func (d *driver) sigID(s core.Signature) int {
	k := hex.EncodeToString(s)
	if id, ok := d.sigs[k]; ok {
		return id
	}
	id := len(d.sigs)
	d.sigs[k] = id
	return id
}

func (d *driver) rootID(v core.SignedData) (string, [32]byte, bool) {
	r, err := v.MessageRoot()
	if err != nil {
		return "none", r, false
	}
	k := hex.EncodeToString(r[:])
	id, ok := d.roots[k]
	if !ok {
		id = len(d.roots)
		d.roots[k] = id
	}
	return strconv.Itoa(id), r, true
}

func jsonOf(v core.SignedData) string {
	b, err := json.Marshal(v)
	if err != nil {
		return "jsonerr:" + err.Error()
	}
	return string(b)
}

// fp is everything the workflow can observe of a value: its encoding, signature and signing root.
func fp(v core.SignedData) (s string) {
	defer func() {
		if r := recover(); r != nil {
			s = fmt.Sprintf("panic:%v", r)
		}
	}()
	root, err := v.MessageRoot()
	return jsonOf(v) + "|" + hex.EncodeToString(v.Signature()) + "|" + hex.EncodeToString(root[:]) + "|" + fmt.Sprint(err != nil)
}

// scribble overwrites everything reachable from v through pointers, slices and maps (the struct copy held in
// the interface is private to the holder; what it points to may not be).
func scribble(v core.SignedData) {
	c := reflect.New(reflect.TypeOf(v)).Elem()
	c.Set(reflect.ValueOf(v))
	hx.Scribble(c.Addr().Interface())
}

func bit(b bool) string {
	if b {
		return "1"
	}
	return "0"
}

func (d *driver) get(s string) (*ent, int, bool) {
	h, err := strconv.Atoi(s)
	if err != nil {
		return nil, 0, false
	}
	e, ok := d.ents[h]
	if !ok || !e.alive {
		return nil, h, false
	}
	return e, h, true
}

func (d *driver) doSet(x *ent, h, h2 int, sig core.Signature) string {
	arg := append(core.Signature{}, sig...)
	before := fp(x.v)
	_, rootB, okB := d.rootID(x.v)
	y, err := x.v.SetSignature(arg)
	if err != nil {
		return "err"
	}
	recv := "same"
	if fp(x.v) != before {
		recv = "changed"
		d.run.Violate("signeddata:receiver_mutated_by_setsig", fmt.Sprintf("%s/%s: SetSignature changed its receiver", x.k.typ, x.k.variant))
	}
	// a throw-away second result: does writing into a result reach the receiver?
	if t, err := x.v.SetSignature(append(core.Signature{}, sig...)); err == nil {
		mid := fp(x.v)
		scribble(t)
		if fp(x.v) != mid {
			d.run.Violate("signeddata:setsig_result_shares_memory", fmt.Sprintf("%s/%s: overwriting the result of SetSignature changed the receiver", x.k.typ, x.k.variant))
		}
	}
	if reflect.TypeOf(y) != reflect.TypeOf(x.v) {
		d.run.Violate("signeddata:setsig_changes_type", fmt.Sprintf("%s/%s: SetSignature returned a %T", x.k.typ, x.k.variant, y))
	}
	ys := y.Signature()
	if len(sig) == 96 && !bytes.Equal(ys, sig) {
		d.run.Violate("signeddata:sig_not_roundtripped", fmt.Sprintf("%s/%s: Signature() of SetSignature(s) is not s", x.k.typ, x.k.variant))
	}
	rid, rootA, okA := d.rootID(y)
	if okA != okB || rootA != rootB {
		d.run.Violate("signeddata:root_changed_by_setsig", fmt.Sprintf("%s/%s: MessageRoot changed under SetSignature", x.k.typ, x.k.variant))
	}
	d.ents[h2] = &ent{k: x.k, v: y, alive: true, parent: h, how: "setsig"}
	d.run.Case("setsig:" + x.k.typ + "/" + x.k.variant + ":" + strconv.Itoa(len(sig)))
	return fmt.Sprintf("ok sig=%d len=%d root=%s recv=%s", d.sigID(ys), len(ys), rid, recv)
}

func (d *driver) exec(op string) (out string) {
	defer func() {
		if r := recover(); r != nil {
			d.run.Violate("signeddata:panic", fmt.Sprintf("%s: %v", op, r))
			out = "panic"
		}
	}()
	f := strings.Fields(op)
	if len(f) == 0 {
		return "bad-op"
	}
	d.run.Count("op:" + f[0])
	switch {
	case f[0] == "cfg" && len(f) == 1:
		d.reset()
		return fmt.Sprintf("ok kinds=%d", len(d.kinds))
	case f[0] == "new" && len(f) == 4:
		h, err := strconv.Atoi(f[1])
		if err != nil {
			return "bad-op"
		}
		v := f[3]
		if v == "-" {
			v = ""
		}
		for i := range d.kinds {
			if k := &d.kinds[i]; k.typ == f[2] && k.variant == v {
				d.ents[h] = &ent{k: k, v: k.mk(), alive: true, parent: -1, how: "new"}
				d.run.Case("new:" + k.typ + "/" + k.variant)
				return "ok"
			}
		}
		return "nokind"
	case f[0] == "setsig" && len(f) == 4:
		x, h, ok := d.get(f[1])
		h2, err := strconv.Atoi(f[2])
		if err != nil {
			return "bad-op"
		}
		var sig []byte
		if f[3] != "-" {
			if sig, err = hex.DecodeString(f[3]); err != nil {
				return "bad-op"
			}
		}
		if !ok {
			return "nohandle"
		}
		return d.doSet(x, h, h2, sig)
	case f[0] == "copysig" && len(f) == 4:
		src, _, ok0 := d.get(f[1])
		x, h, ok1 := d.get(f[2])
		h2, err := strconv.Atoi(f[3])
		if err != nil {
			return "bad-op"
		}
		if !ok0 || !ok1 {
			return "nohandle"
		}
		return d.doSet(x, h, h2, src.v.Signature())
	case f[0] == "getsig" && len(f) == 2:
		x, _, ok := d.get(f[1])
		if !ok {
			return "nohandle"
		}
		s := x.v.Signature()
		return fmt.Sprintf("sig=%d len=%d", d.sigID(s), len(s))
	case f[0] == "root" && len(f) == 2:
		x, _, ok := d.get(f[1])
		if !ok {
			return "nohandle"
		}
		rid, _, _ := d.rootID(x.v)
		return "root=" + rid
	case f[0] == "clone" && len(f) == 3:
		x, h, ok := d.get(f[1])
		h2, err := strconv.Atoi(f[2])
		if err != nil {
			return "bad-op"
		}
		if !ok {
			return "nohandle"
		}
		before := fp(x.v)
		if t, err := x.v.Clone(); err == nil {
			scribble(t)
			if fp(x.v) != before {
				d.run.Violate("signeddata:clone_shares_memory", fmt.Sprintf("%s/%s: overwriting a clone changed the original", x.k.typ, x.k.variant))
			}
		}
		y, err := x.v.Clone()
		if err != nil {
			return "err"
		}
		eq := fp(y) == before && reflect.TypeOf(y) == reflect.TypeOf(x.v)
		if !eq {
			d.run.Violate("signeddata:clone_differs", fmt.Sprintf("%s/%s: a clone differs from its original", x.k.typ, x.k.variant))
		}
		d.ents[h2] = &ent{k: x.k, v: y, alive: true, parent: h, how: "clone"}
		d.run.Case("clone:" + x.k.typ + "/" + x.k.variant)
		return "ok eq=" + bit(eq)
	case f[0] == "json" && len(f) == 3:
		x, h, ok := d.get(f[1])
		h2, err := strconv.Atoi(f[2])
		if err != nil {
			return "bad-op"
		}
		if !ok {
			return "nohandle"
		}
		b, err := json.Marshal(x.v)
		if err != nil {
			return "err-encode"
		}
		p := x.k.zero()
		if err := json.Unmarshal(b, p); err != nil {
			return "err-decode"
		}
		y := reflect.ValueOf(p).Elem().Interface().(core.SignedData)
		_, rootB, okB := d.rootID(x.v)
		rid, rootA, okA := d.rootID(y)
		if okA != okB || rootA != rootB {
			d.run.Violate("signeddata:json_roundtrip_changes_root", fmt.Sprintf("%s/%s: MessageRoot changed under the JSON round trip", x.k.typ, x.k.variant))
		}
		ys := y.Signature()
		if !bytes.Equal(ys, x.v.Signature()) {
			d.run.Violate("signeddata:json_roundtrip_changes_sig", fmt.Sprintf("%s/%s: Signature changed under the JSON round trip", x.k.typ, x.k.variant))
		}
		d.ents[h2] = &ent{k: x.k, v: y, alive: true, parent: h, how: "json"}
		d.run.Case("json:" + x.k.typ + "/" + x.k.variant)
		return fmt.Sprintf("ok sig=%d root=%s eq=%s", d.sigID(ys), rid, bit(jsonOf(y) == jsonOf(x.v)))
	case f[0] == "eq" && len(f) == 3:
		a, _, ok0 := d.get(f[1])
		b, _, ok1 := d.get(f[2])
		if !ok0 || !ok1 {
			return "nohandle"
		}
		eq := a.k == b.k && jsonOf(a.v) == jsonOf(b.v)
		if a.k == b.k {
			// equal content (the encoding with the signature field replaced by one value) must mean equal roots
			sa, ea := a.v.SetSignature(make(core.Signature, 96))
			sb, eb := b.v.SetSignature(make(core.Signature, 96))
			if ea == nil && eb == nil && jsonOf(sa) == jsonOf(sb) {
				ra, erra := a.v.MessageRoot()
				rb, errb := b.v.MessageRoot()
				if (erra == nil) != (errb == nil) || ra != rb {
					d.run.Violate("signeddata:equal_content_different_root", fmt.Sprintf("%s/%s: two values that differ only in their signature have different roots", a.k.typ, a.k.variant))
				}
				d.run.Case("eqcontent:" + a.k.typ + "/" + a.k.variant + ":" + bit(eq))
			}
		}
		return "eq=" + bit(eq)
	case f[0] == "mut" && len(f) == 2:
		x, h, ok := d.get(f[1])
		if !ok {
			return "nohandle"
		}
		before := map[int]string{}
		for i, e := range d.ents {
			if i != h && e.alive {
				before[i] = fp(e.v)
			}
		}
		scribble(x.v)
		x.alive = false
		var changed []int
		for i, s := range before {
			if fp(d.ents[i].v) != s {
				changed = append(changed, i)
			}
		}
		sort.Ints(changed)
		var cs []string
		for _, i := range changed {
			e := d.ents[i]
			e.alive = false
			how := "shares_memory"
			if e.parent == h {
				how = e.how + "_result_shares_memory"
			} else if x.parent == i {
				how = x.how + "_result_shares_memory"
			}
			if strings.HasPrefix(how, "clone_") {
				how = "clone_shares_memory"
			}
			d.run.Violate("signeddata:"+how, fmt.Sprintf("%s/%s: overwriting handle %d changed handle %d", x.k.typ, x.k.variant, h, i))
			cs = append(cs, strconv.Itoa(i))
		}
		d.run.Case("mut:" + x.k.typ + "/" + x.k.variant + ":" + x.how)
		if len(cs) == 0 {
			return "ok changed=-"
		}
		return "ok changed=" + strings.Join(cs, ",")
	}
	return "bad-op"
}

// ---- generator -----------------------------------------------------------------------------------

func gen(d *driver, rng *hx.Rng, n int, do func(string)) {
	nk := len(d.kinds)
	order := rng.Perm(nk)
	pos := 0
	for d.run.NOps < n && !d.run.Enough() {
		do("cfg")
		next := 0
		var alive []int
		fresh := func() int { next++; return next - 1 }
		pick := func() int { return alive[rng.Intn(len(alive))] }
		kindOf := map[int]int{}
		for i, m := 0, 3+rng.Intn(4); i < m; i++ {
			ki := order[pos%nk]
			pos++
			if pos%nk == 0 {
				order = rng.Perm(nk)
			}
			if i > 0 && rng.Chance(1, 4) { // a second value of a kind already present
				ki = kindOf[pick()]
			}
			k := d.kinds[ki]
			h := fresh()
			v := k.variant
			if v == "" {
				v = "-"
			}
			do(fmt.Sprintf("new %d %s %s", h, k.typ, v))
			alive = append(alive, h)
			kindOf[h] = ki
		}
		for i, m := 0, 20+rng.Intn(30); i < m && len(alive) > 0 && d.run.NOps < n; i++ {
			if len(alive) >= 16 {
				h := pick()
				do(fmt.Sprintf("mut %d", h))
				alive = aliveNow(d)
				continue
			}
			switch c := rng.Intn(100); {
			case c < 28:
				h, h2 := pick(), fresh()
				ln := 96
				if rng.Chance(1, 6) {
					ln = []int{0, 1, 48, 95, 97, 192}[rng.Intn(6)]
				}
				b := make([]byte, ln)
				for j := range b {
					b[j] = byte(rng.U64())
				}
				if ln == 96 && rng.Chance(1, 10) {
					b = make([]byte, 96) // the zero signature
				}
				hs := "-"
				if ln > 0 {
					hs = hex.EncodeToString(b)
				}
				do(fmt.Sprintf("setsig %d %d %s", h, h2, hs))
				kindOf[h2] = kindOf[h]
			case c < 38:
				hs, h, h2 := pick(), pick(), fresh()
				do(fmt.Sprintf("copysig %d %d %d", hs, h, h2))
				kindOf[h2] = kindOf[h]
			case c < 48:
				do(fmt.Sprintf("getsig %d", pick()))
			case c < 58:
				do(fmt.Sprintf("root %d", pick()))
			case c < 68:
				h, h2 := pick(), fresh()
				do(fmt.Sprintf("clone %d %d", h, h2))
				kindOf[h2] = kindOf[h]
			case c < 78:
				h, h2 := pick(), fresh()
				do(fmt.Sprintf("json %d %d", h, h2))
				kindOf[h2] = kindOf[h]
			case c < 93:
				a := pick()
				// prefer a partner of the same kind
				b := pick()
				for t := 0; t < 4 && kindOf[b] != kindOf[a]; t++ {
					b = pick()
				}
				do(fmt.Sprintf("eq %d %d", a, b))
			default:
				do(fmt.Sprintf("mut %d", pick()))
			}
			alive = aliveNow(d)
		}
	}
}

func aliveNow(d *driver) []int {
	var a []int
	for i, e := range d.ents {
		if e.alive {
			a = append(a, i)
		}
	}
	sort.Ints(a)
	return a
}

func main() {
	args := hx.ParseArgs()
	run := hx.NewRun(args.Dir)
	defer run.Close()
	d := &driver{run: run, kinds: catalog()}
	d.reset()
	do := func(op string) {
		run.Begin(op)
		out := d.exec(op)
		run.Op(op, out)
	}
	if args.Mode == "exec" {
		for _, l := range hx.ReadOps(args.Ops) {
			do(strings.TrimSpace(l))
		}
		return
	}
	gen(d, hx.NewRng(args.Seed), args.N, do)
}
