package main

// Catalog: one constructor per (implementation of core.SignedData, fork version[, blinded]) — the keys are
// the (type, version) pairs of the table the translator T-signeddata emits; the Lean driver answers `norow`
// for a kind the table does not have and reports the number of rows on `cfg`, so catalog and table are tied
// in both directions. Values come from the repository's own random generators (testutil).

import (
	"testing"

	eth2api "github.com/attestantio/go-eth2-client/api"
	eth2spec "github.com/attestantio/go-eth2-client/spec"
	"github.com/attestantio/go-eth2-client/spec/altair"
	"github.com/attestantio/go-eth2-client/spec/electra"
	eth2p0 "github.com/attestantio/go-eth2-client/spec/phase0"

	"github.com/obolnetwork/charon/core"
	"github.com/obolnetwork/charon/testutil"
)

// tt is only used for the t.Helper() calls of testutil generators.
var tt = &testing.T{}

type kind struct {
	typ, variant string
	mk           func() core.SignedData
	zero         func() any // pointer to a fresh zero value of the Go type (JSON decoding target)
}

func must[T any](v T, err error) T {
	if err != nil {
		panic(err)
	}
	return v
}

var versionOrder = []string{"phase0", "altair", "bellatrix", "capella", "deneb", "electra", "fulu"}

var dataVersion = map[string]eth2spec.DataVersion{"phase0": eth2spec.DataVersionPhase0, "altair": eth2spec.DataVersionAltair,
	"bellatrix": eth2spec.DataVersionBellatrix, "capella": eth2spec.DataVersionCapella, "deneb": eth2spec.DataVersionDeneb,
	"electra": eth2spec.DataVersionElectra, "fulu": eth2spec.DataVersionFulu}

func mkAttestation(v string) func() core.SignedData {
	return func() core.SignedData {
		var a *eth2spec.VersionedAttestation
		switch v {
		case "electra":
			a = testutil.RandomElectraVersionedAttestation()
		case "fulu":
			a = testutil.RandomFuluVersionedAttestation()
		default:
			a = &eth2spec.VersionedAttestation{Version: dataVersion[v]}
			att := testutil.RandomPhase0Attestation()
			switch v {
			case "phase0":
				a.Phase0 = att
			case "altair":
				a.Altair = att
			case "bellatrix":
				a.Bellatrix = att
			case "capella":
				a.Capella = att
			case "deneb":
				a.Deneb = att
			}
		}
		if v == "electra" || v == "fulu" {
			idx := testutil.RandomVIdx()
			a.ValidatorIndex = &idx
		}
		return must(core.NewVersionedAttestation(a))
	}
}

func mkAggAndProof(v string) func() core.SignedData {
	return func() core.SignedData {
		a := &eth2spec.VersionedSignedAggregateAndProof{Version: dataVersion[v]}
		if v == "electra" || v == "fulu" {
			x := &electra.SignedAggregateAndProof{
				Message: &electra.AggregateAndProof{
					AggregatorIndex: testutil.RandomVIdx(),
					Aggregate:       testutil.RandomElectraAttestation(),
					SelectionProof:  testutil.RandomEth2Signature(),
				},
				Signature: testutil.RandomEth2Signature(),
			}
			if v == "electra" {
				a.Electra = x
			} else {
				a.Fulu = x
			}
			return core.NewVersionedSignedAggregateAndProof(a)
		}
		x := testutil.RandomSignedAggregateAndProof()
		switch v {
		case "phase0":
			a.Phase0 = x
		case "altair":
			a.Altair = x
		case "bellatrix":
			a.Bellatrix = x
		case "capella":
			a.Capella = x
		case "deneb":
			a.Deneb = x
		}
		return core.NewVersionedSignedAggregateAndProof(a)
	}
}

func catalog() []kind {
	var ks []kind
	add := func(typ, variant string, mk func() core.SignedData, zero func() any) {
		ks = append(ks, kind{typ, variant, mk, zero})
	}
	add("BeaconCommitteeSelection", "", func() core.SignedData { return testutil.RandomCoreBeaconCommitteeSelection() }, func() any { return new(core.BeaconCommitteeSelection) })
	add("Signature", "", func() core.SignedData { return testutil.RandomCoreSignature() }, func() any { return new(core.Signature) })
	add("SignedAggregateAndProof", "", func() core.SignedData {
		return core.NewSignedAggregateAndProof(testutil.RandomSignedAggregateAndProof())
	}, func() any { return new(core.SignedAggregateAndProof) })
	add("SignedRandao", "", func() core.SignedData { return testutil.RandomCoreSignedRandao() }, func() any { return new(core.SignedRandao) })
	add("SignedSyncContributionAndProof", "", func() core.SignedData { return testutil.RandomCoreSignedSyncContributionAndProof() }, func() any { return new(core.SignedSyncContributionAndProof) })
	add("SignedSyncMessage", "", func() core.SignedData { return core.NewSignedSyncMessage(testutil.RandomSyncCommitteeMessage()) }, func() any { return new(core.SignedSyncMessage) })
	add("SignedVoluntaryExit", "", func() core.SignedData { return core.NewSignedVoluntaryExit(testutil.RandomExit()) }, func() any { return new(core.SignedVoluntaryExit) })
	add("SyncCommitteeSelection", "", func() core.SignedData { return testutil.RandomCoreSyncCommitteeSelection() }, func() any { return new(core.SyncCommitteeSelection) })
	add("SyncContributionAndProof", "", func() core.SignedData {
		return core.NewSyncContributionAndProof(testutil.RandomSyncContributionAndProof())
	}, func() any { return new(core.SyncContributionAndProof) })
	for _, v := range versionOrder {
		add("VersionedAttestation", v, mkAttestation(v), func() any { return new(core.VersionedAttestation) })
	}
	for _, v := range versionOrder {
		add("VersionedSignedAggregateAndProof", v, mkAggAndProof(v), func() any { return new(core.VersionedSignedAggregateAndProof) })
	}
	zp := func() any { return new(core.VersionedSignedProposal) }
	add("VersionedSignedProposal", "phase0", func() core.SignedData {
		return must(core.NewVersionedSignedProposal(&eth2api.VersionedSignedProposal{Version: eth2spec.DataVersionPhase0,
			Phase0: &eth2p0.SignedBeaconBlock{Message: testutil.RandomPhase0BeaconBlock(), Signature: testutil.RandomEth2Signature()}}))
	}, zp)
	add("VersionedSignedProposal", "altair", func() core.SignedData {
		return must(core.NewVersionedSignedProposal(&eth2api.VersionedSignedProposal{Version: eth2spec.DataVersionAltair,
			Altair: &altair.SignedBeaconBlock{Message: testutil.RandomAltairBeaconBlock(), Signature: testutil.RandomEth2Signature()}}))
	}, zp)
	add("VersionedSignedProposal", "bellatrix", func() core.SignedData { return testutil.RandomBellatrixCoreVersionedSignedProposal() }, zp)
	add("VersionedSignedProposal", "bellatrix+blinded", func() core.SignedData { return testutil.RandomBellatrixVersionedSignedBlindedProposal() }, zp)
	add("VersionedSignedProposal", "capella", func() core.SignedData { return testutil.RandomCapellaCoreVersionedSignedProposal() }, zp)
	add("VersionedSignedProposal", "capella+blinded", func() core.SignedData { return testutil.RandomCapellaVersionedSignedBlindedProposal() }, zp)
	add("VersionedSignedProposal", "deneb", func() core.SignedData { return testutil.RandomDenebCoreVersionedSignedProposal() }, zp)
	add("VersionedSignedProposal", "deneb+blinded", func() core.SignedData { return testutil.RandomDenebVersionedSignedBlindedProposal() }, zp)
	add("VersionedSignedProposal", "electra", func() core.SignedData { return testutil.RandomElectraCoreVersionedSignedProposal() }, zp)
	add("VersionedSignedProposal", "electra+blinded", func() core.SignedData { return testutil.RandomElectraVersionedSignedBlindedProposal() }, zp)
	add("VersionedSignedProposal", "fulu", func() core.SignedData { return testutil.RandomFuluCoreVersionedSignedProposal() }, zp)
	add("VersionedSignedProposal", "fulu+blinded", func() core.SignedData { return testutil.RandomFuluVersionedSignedBlindedProposal() }, zp)
	add("VersionedSignedValidatorRegistration", "v1", func() core.SignedData { return testutil.RandomCoreVersionedSignedValidatorRegistration(tt) }, func() any { return new(core.VersionedSignedValidatorRegistration) })
	return ks
}
