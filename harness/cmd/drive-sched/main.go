// drive-sched: correspondence driver for C15 (core/scheduler/scheduler.go, offset.go).
//
// Runs the real Scheduler (hook scheduler.NewVerif: fake clock, recording delay function) and the
// real newSlotTicker over a scripted beacon node in strict lock-step: the fake clock is advanced,
// every slot the real ticker emits is handed to the real scheduleSlot (hook HandleSlotVerif = the
// body of Run's loop), and the duties delivered to a SubscribeDuties callback are recorded together
// with the not-before instant the scheduler handed to its delay function.
//
// ops (time unit ns since genesis):
//
//	cfg <spe> <durMs> <startNs> <reorg 0|1>    new episode: fresh scheduler, clock at genesis+startNs
//	val <idx> <pk> <status> <actEpoch>         beacon node validator entry (status = eth2v1.ValidatorState)
//	val <idx> nil | val <idx> del              nil entry / remove entry
//	att <epoch> <vidx:pk:slot:tag|nil,...|->   beacon node answer for attester duties of an epoch
//	pro <epoch> <vidx:pk:slot|nil,...|->       ... proposer duties
//	syn <epoch> <vidx:pk:tag|nil,...|->        ... sync committee duties
//	fail <v|a|p|s> <bits>                      the next calls to validators/attester/proposer/sync
//	                                           endpoint fail where the bit is 1
//	adv <ns>                                   advance the clock (first adv creates the ticker first)
//	reorg <epoch>                              HandleChainReorgEvent
//
// head-event path (cfg takes a fifth field <flags>: 1 FetchAttOnBlock, 2 FetchAttOnBlockWithDelay, 4 no fetch-only
// function registered). With a flag on the scheduler is given a clock whose After (only called by
// waitForEarlyFetchOrTimeout) parks the attester trigger goroutine under the harness' control; the deadline is
// reconstructed from the duration (the code computes it with the wall clock: time.Until).
//
//	advl <ns>                                  advance the clock; attester triggers that become due stay parked
//	fire <slot>                                the parked attester trigger of the slot proceeds (if due)
//	head <slot> <root> <addr>                  HandleHeadEvent; output F<slot>@<root>/<addr>{defs} per FetchOnly call
//	headrace <nval> <k>                        self-contained (own scheduler, FetchAttOnBlock on, run in a CHILD process: a
//	                                           Go "fatal error" cannot be recovered): the first slot of headraceEpochs epochs is
//	                                           handled (each resolves its epoch: nval validators attesting in its slots) while
//	                                           k goroutines deliver head events for the slots of the epoch being resolved.
//	                                           Output "ok" whatever the interleaving; a child killed by the runtime's
//	                                           concurrent-map check is the violation sched:head_event_races_resolve_fatal
//	getdef <slot> <type>                       GetDutyDefinition
//	probe <slot> <type> [<k>]                  GetDutyDefinition is called from inside the (k+1)-th attester-duties call from now
//	                                           (while resolveDuties runs); its outcome follows that tick as P[...]
//
// adv output: "t<slot>[<type>@<notBefore>{<pk>=<def>;...},...] ... | re=<resolvedEpoch> nd=<duties>/<pairs> ne=<byEpoch entries>"
package main

import (
	"bytes"
	"os"
	"os/exec"
	"sync/atomic"
	"context"
	"encoding/binary"
	"errors"
	"fmt"
	"reflect"
	"runtime"
	"sort"
	"strconv"
	"strings"
	"sync"
	"time"

	eth2v1 "github.com/attestantio/go-eth2-client/api/v1"
	eth2p0 "github.com/attestantio/go-eth2-client/spec/phase0"
	"github.com/jonboulle/clockwork"

	"github.com/obolnetwork/charon/app/eth2wrap"
	"github.com/obolnetwork/charon/app/featureset"
	"github.com/obolnetwork/charon/app/log"
	"github.com/obolnetwork/charon/core"
	"github.com/obolnetwork/charon/core/scheduler"
	"github.com/obolnetwork/charon/testutil/beaconmock"

	"verifharness/hx"
)

const maxInt64 = uint64(1<<63 - 1)

// ---------- scripted beacon node ----------

type valEntry struct {
	isNil    bool
	pk       uint64
	status   int
	actEpoch uint64
}

func (v valEntry) active() bool { return v.status == 3 || v.status == 4 || v.status == 5 }

type item struct {
	isNil bool
	vidx  uint64
	pk    uint64
	slot  uint64 // att, pro
	tag   uint64 // att, syn
}

type script struct {
	vals                       map[uint64]valEntry
	att, pro, syn              map[uint64][]item
	failV, failA, failP, failS []bool
}

func newScript() *script {
	return &script{vals: map[uint64]valEntry{}, att: map[uint64][]item{}, pro: map[uint64][]item{}, syn: map[uint64][]item{}}
}

func pop(bits *[]bool) bool {
	if len(*bits) == 0 {
		return false
	}
	b := (*bits)[0]
	*bits = (*bits)[1:]
	return b
}

func pkBytes(id uint64) eth2p0.BLSPubKey {
	var pk eth2p0.BLSPubKey
	pk[0] = 0xa5
	binary.BigEndian.PutUint64(pk[40:], id)
	return pk
}

func pkID(pk eth2p0.BLSPubKey) uint64 { return binary.BigEndian.Uint64(pk[40:]) }

func corePkID(pk core.PubKey) uint64 {
	b, err := pk.Bytes()
	hx.Must(err)
	var a eth2p0.BLSPubKey
	copy(a[:], b)
	return pkID(a)
}

func attDuty(it item, spe uint64) *eth2v1.AttesterDuty {
	return &eth2v1.AttesterDuty{PubKey: pkBytes(it.pk), Slot: eth2p0.Slot(it.slot), ValidatorIndex: eth2p0.ValidatorIndex(it.vidx),
		CommitteeIndex: eth2p0.CommitteeIndex(it.tag), CommitteeLength: it.tag + 1, CommitteesAtSlot: spe, ValidatorCommitteeIndex: it.tag}
}

func proDuty(it item) *eth2v1.ProposerDuty {
	return &eth2v1.ProposerDuty{PubKey: pkBytes(it.pk), Slot: eth2p0.Slot(it.slot), ValidatorIndex: eth2p0.ValidatorIndex(it.vidx)}
}

func synDuty(it item) *eth2v1.SyncCommitteeDuty {
	return &eth2v1.SyncCommitteeDuty{PubKey: pkBytes(it.pk), ValidatorIndex: eth2p0.ValidatorIndex(it.vidx),
		ValidatorSyncCommitteeIndices: []eth2p0.CommitteeIndex{eth2p0.CommitteeIndex(it.tag)}}
}

// ---------- monitor bookkeeping (independent of the Lean model) ----------

// session is one resolveDuties invocation as seen by the beacon node: a validators call followed by
// the duties calls for one epoch.
type session struct {
	tick     uint64 // slot being handled when the calls were made
	epoch    uint64
	hasEpoch bool
	vals     map[uint64]valEntry // successful validators answer (nil: failed)
	att      []item
	pro      []item
	syn      []item
	attOK    bool
	proOK    bool
	synOK    bool
}

func (s *session) activeVal(vidx uint64) (valEntry, bool) {
	v, ok := s.vals[vidx]
	if !ok || v.isNil {
		return valEntry{}, false
	}
	if !v.active() && v.actEpoch != s.epoch {
		return valEntry{}, false
	}
	return v, true
}

func hasNil(its []item) bool {
	for _, it := range its {
		if it.isNil {
			return true
		}
	}
	return false
}

// complete: by the beacon node's own record this invocation obtained every answer, none of them
// malformed (nil entries, a duty whose pubkey differs from the validator's) — so the scheduler has
// everything it needs for the epoch.
func (s *session) complete() bool {
	if s.vals == nil || !s.hasEpoch || !s.attOK || !s.proOK || !s.synOK {
		return false
	}
	for _, v := range s.vals {
		if v.isNil {
			return false
		}
	}
	for _, l := range [][]item{s.att, s.pro, s.syn} {
		if hasNil(l) {
			return false
		}
		for _, it := range l {
			if v, ok := s.activeVal(it.vidx); ok && v.pk != it.pk {
				return false
			}
		}
	}
	return true
}

type resolved struct {
	from uint64 // first slot covered
	ses  *session
}

type trig struct {
	duty core.Duty
	defs core.DutyDefinitionSet
	nb   int64 // ns since genesis
}

// parkedTrig is an attester trigger goroutine waiting in waitForEarlyFetchOrTimeout.
type parkedTrig struct {
	slot  uint64
	dl    int64 // reconstructed deadline, ns since genesis
	ch    chan time.Time
	exp   map[uint64][]item // completeness expectation recorded at the tick
	expOK bool
}

// note is something seen on a scheduler goroutine, reported by the harness goroutine afterwards.
type note struct{ sig, descr, count string }

// fetchRec is one call of the registered fetch-only function.
type fetchRec struct {
	duty core.Duty
	defs core.DutyDefinitionSet
	addr string
	root eth2p0.Root
}

// probeState is a GetDutyDefinition call made from inside a beacon node callback.
type probeState struct {
	duty     core.Duty
	resolved uint64 // resolvedEpoch when the call was made
	goid     int64
	cancel context.CancelFunc
	res    chan string
	out    string
	done   bool
}

// wclock is the scheduler's clock with a flag on: the fake clock, except that After parks the caller.
type wclock struct {
	clockwork.Clock
	e *episode
}

func (w wclock) After(d time.Duration) <-chan time.Time { return w.e.parkAfter(d) }

// ---------- episode ----------

type episode struct {
	cancel  context.CancelFunc
	ctx     context.Context
	clock   *clockwork.FakeClock
	genesis time.Time
	sched   *scheduler.Scheduler
	mock    beaconmock.Mock
	ticker  <-chan core.Slot
	spe     uint64
	dur     time.Duration
	reorgOn bool
	sc      *script

	// head-event path
	flA, flD, noReg bool
	pend            []*parkedTrig
	tBefore         time.Time
	curFire         *parkedTrig
	fetches         []fetchRec
	base0           int
	probeArmed      *core.Duty
	probeSkip       int
	probe           *probeState
	probeOut        string
	notes           []note
	fetched         map[uint64]bool // slots with an early fetch since the last effective reorg
	deliveredAtt    map[uint64]bool // slots whose attester duty went through the wait and was delivered

	mu     sync.Mutex
	trigs  []trig
	delays map[core.Duty]time.Time

	// monitor state
	curTick   uint64
	inTick    bool
	sessions  []*session
	cur       *session
	seen      map[core.Duty]bool
	res       map[uint64]*resolved // epoch -> completely resolved (by the BN's record)
	unstable  map[uint64]bool      // epoch whose answers differed between invocations
	malformed bool                 // some answer carried a duty outside the requested epoch
	lastTick  int64
	prevDefs  map[core.Duty]map[uint64]string // stored definitions after the previous tick / reorg
}

type mockKey struct {
	spe   int
	durMs int64
}

var (
	mocks   = map[mockKey]beaconmock.Mock{}
	genesis = time.Date(2024, 1, 1, 0, 0, 0, 0, time.UTC)
	errFail = errors.New("scripted beacon node failure")
)

func baseMock(spe int, durMs int64) beaconmock.Mock {
	k := mockKey{spe, durMs}
	if m, ok := mocks[k]; ok {
		return m
	}
	m, err := beaconmock.New(context.Background(),
		beaconmock.WithGenesisTime(genesis),
		beaconmock.WithSlotDuration(time.Duration(durMs)*time.Millisecond),
		beaconmock.WithSlotsPerEpoch(spe))
	hx.Must(err)
	mocks[k] = m
	return m
}

func newEpisode(spe int, durMs int64, startNs int64, reorgOn bool, flags int) *episode {
	ctx, cancel := context.WithCancel(context.Background())
	e := &episode{cancel: cancel, genesis: genesis, spe: uint64(spe), dur: time.Duration(durMs) * time.Millisecond,
		reorgOn: reorgOn, sc: newScript(), delays: map[core.Duty]time.Time{}, seen: map[core.Duty]bool{},
		res: map[uint64]*resolved{}, unstable: map[uint64]bool{}, lastTick: -1,
		flA: flags&1 != 0, flD: flags&2 != 0, noReg: flags&4 != 0, fetched: map[uint64]bool{}, deliveredAtt: map[uint64]bool{}}
	e.clock = clockwork.NewFakeClockAt(genesis.Add(time.Duration(startNs)))
	cfg := featureset.Config{MinStatus: "stable"}
	// featureset keeps what an earlier Init enabled: every feature the driver touches is named each time
	for f, on := range map[featureset.Feature]bool{featureset.SSEReorgDuties: reorgOn, featureset.FetchAttOnBlock: e.flA,
		featureset.FetchAttOnBlockWithDelay: e.flD} {
		if on {
			cfg.Enabled = append(cfg.Enabled, string(f))
		} else {
			cfg.Disabled = append(cfg.Disabled, string(f))
		}
	}
	hx.Must(featureset.Init(ctx, cfg))

	m := baseMock(spe, durMs)
	m.CachedValidatorsFunc = e.bnValidators
	m.CachedAttesterDutiesFunc = e.bnAttester
	m.CachedProposerDutiesFunc = e.bnProposer
	m.CachedSyncCommDutiesFunc = e.bnSync
	e.mock = m

	var sclock clockwork.Clock = e.clock
	if e.flagsOn() {
		sclock = wclock{Clock: e.clock, e: e}
	}
	s, err := scheduler.NewVerif(sclock, e.delay, nil, m, false)
	hx.Must(err)
	s.SubscribeDuties(e.onDuty)
	if !e.noReg {
		s.RegisterFetcherFetchOnly(e.onFetchOnly)
	}
	e.sched = s
	e.ctx = ctx
	return e
}

// delay is the scheduler's delayFunc: records the not-before instant, never sleeps.
func (e *episode) delay(duty core.Duty, deadline time.Time) <-chan time.Time {
	e.mu.Lock()
	e.delays[duty] = deadline
	e.mu.Unlock()
	ch := make(chan time.Time, 1)
	ch <- deadline
	return ch
}

func (e *episode) flagsOn() bool { return e.flA || e.flD }

// close ends the episode: the ticker goroutine and the parked attester triggers return on the cancelled
// context; wait for them, so that the next episode counts goroutines from a quiet state.
func (e *episode) close() {
	n0 := runtime.NumGoroutine()
	expect := len(e.pend)
	if e.ticker != nil {
		expect++
	}
	e.cancel()
	deadline := time.Now().Add(2 * time.Second)
	for runtime.NumGoroutine() > n0-expect && time.Now().Before(deadline) {
		runtime.Gosched()
		time.Sleep(20 * time.Microsecond)
	}
}

func (e *episode) nowNs() int64 { return e.clock.Now().Sub(e.genesis).Nanoseconds() }

// parkAfter is the scheduler clock's After with a flag on. The scheduler calls it with
// time.Until(slot start + offset): the wall clock is subtracted from an instant of the fake clock's time
// line, so the deadline is recovered by adding the wall clock again. The true deadline lies between
// (wall clock when the tick started) + d and (wall clock now) + d; inside that window the value is
// snapped to the lattice 1/3 slot + k ms (the specified deadline itself if it lies in the window).
func (e *episode) parkAfter(d time.Duration) <-chan time.Time {
	t1 := time.Now()
	e.mu.Lock()
	defer e.mu.Unlock()
	p := &parkedTrig{slot: e.curTick, ch: make(chan time.Time, 1)}
	if !e.inTick {
		e.notes = append(e.notes, note{sig: "sched:clock_wait_outside_slot_handling", descr: fmt.Sprintf("clock.After(%v) called while no slot is being handled", d)})
	}
	slotStart := int64(e.curTick) * e.dur.Nanoseconds()
	hi := t1.Add(d).Sub(e.genesis).Nanoseconds() - slotStart
	lo := e.tBefore.Add(d).Sub(e.genesis).Nanoseconds() - slotStart
	p.dl = slotStart + e.snap(lo, hi)
	e.pend = append(e.pend, p)
	return p.ch
}

func (e *episode) snap(lo, hi int64) int64 {
	third := specOffset(core.DutyAttester, e.dur)
	spec := third
	if e.flD {
		spec += 300 * int64(time.Millisecond)
	}
	if hi-lo > int64(time.Millisecond) {
		e.notes = append(e.notes, note{count: "wait:window_wider_than_1ms"})
	}
	if lo <= spec && spec <= hi {
		return spec
	}
	const ms = int64(time.Millisecond)
	k := (lo - third) / ms
	if (lo-third)%ms > 0 {
		k++
	}
	if c := third + k*ms; c >= lo && c <= hi {
		return c
	}
	e.notes = append(e.notes, note{count: "wait:off_lattice"})
	return hi
}

// settle waits until every goroutine spawned by the scheduler has finished or is parked under the harness' control.
func (e *episode) settle() {
	deadline := time.Now().Add(10 * time.Second)
	stable := 0
	for {
		e.mu.Lock()
		np := len(e.pend)
		e.mu.Unlock()
		if e.probe != nil && !e.probe.done {
			np++
		}
		if runtime.NumGoroutine() <= e.base0+np {
			stable++
			if stable >= 3 {
				return
			}
		} else {
			stable = 0
		}
		if time.Now().After(deadline) {
			panic("scheduler goroutines did not finish")
		}
		runtime.Gosched()
		if stable == 0 {
			time.Sleep(20 * time.Microsecond)
		}
	}
}

func (e *episode) flushNotes(run *hx.Run) {
	e.mu.Lock()
	notes := e.notes
	e.notes = nil
	e.mu.Unlock()
	for _, n := range notes {
		if n.count != "" {
			run.Count(n.count)
		} else {
			run.Violate(n.sig, n.descr)
		}
	}
}

// setBase records the number of goroutines that are not the scheduler's (call while nothing is running).
func (e *episode) setBase() {
	n := runtime.NumGoroutine() - len(e.pend)
	if e.probe != nil && !e.probe.done {
		n--
	}
	e.base0 = n
}

func (e *episode) onFetchOnly(_ context.Context, duty core.Duty, set core.DutyDefinitionSet, addr string, root eth2p0.Root) error {
	e.mu.Lock()
	defer e.mu.Unlock()
	e.fetches = append(e.fetches, fetchRec{duty: duty, defs: set, addr: addr, root: root})
	return nil
}

func (e *episode) onDuty(_ context.Context, duty core.Duty, set core.DutyDefinitionSet) error {
	e.mu.Lock()
	defer e.mu.Unlock()
	nb := int64(-1)
	if t, ok := e.delays[duty]; ok {
		nb = t.Sub(e.genesis).Nanoseconds()
	} else if p := e.curFire; p != nil && duty.Slot == p.slot && duty.Type == core.DutyAttester {
		nb = p.dl
	}
	e.trigs = append(e.trigs, trig{duty: duty, defs: set, nb: nb})
	return nil
}

// --- beacon node endpoints (called synchronously from scheduleSlot) ---

func (e *episode) bnValidators(context.Context) (eth2wrap.ActiveValidators, eth2wrap.CompleteValidators, error) {
	e.closeProbe() // a new resolveDuties invocation starts: the one a probe was made in has ended
	ses := &session{tick: e.curTick}
	e.cur = ses
	e.sessions = append(e.sessions, ses)
	if pop(&e.sc.failV) {
		return nil, nil, errFail
	}
	ses.vals = map[uint64]valEntry{}
	active := make(eth2wrap.ActiveValidators)
	complete := make(eth2wrap.CompleteValidators)
	for idx, v := range e.sc.vals {
		ses.vals[idx] = v
		if v.isNil {
			complete[eth2p0.ValidatorIndex(idx)] = nil
			continue
		}
		complete[eth2p0.ValidatorIndex(idx)] = &eth2v1.Validator{
			Index: eth2p0.ValidatorIndex(idx), Balance: 32000000000, Status: eth2v1.ValidatorState(v.status),
			Validator: &eth2p0.Validator{PublicKey: pkBytes(v.pk), ActivationEpoch: eth2p0.Epoch(v.actEpoch),
				ExitEpoch: 1 << 62, WithdrawableEpoch: 1 << 62, EffectiveBalance: 32000000000},
		}
		if v.active() {
			active[eth2p0.ValidatorIndex(idx)] = pkBytes(v.pk)
		}
	}
	return active, complete, nil
}

func (e *episode) sessionFor(epoch uint64) *session {
	ses := e.cur
	if ses == nil || (ses.hasEpoch && ses.epoch != epoch) {
		ses = &session{tick: e.curTick}
		e.cur = ses
		e.sessions = append(e.sessions, ses)
	}
	ses.epoch, ses.hasEpoch = epoch, true
	return ses
}

func (e *episode) noteItems(epoch uint64, its []item, slotted bool) {
	if !slotted {
		return
	}
	for _, it := range its {
		if !it.isNil && it.slot/e.spe != epoch {
			e.malformed = true
		}
	}
}

func (e *episode) bnAttester(_ context.Context, epoch eth2p0.Epoch, _ []eth2p0.ValidatorIndex) (eth2wrap.AttesterDutyWithMeta, error) {
	ses := e.sessionFor(uint64(epoch))
	if e.probeArmed != nil && e.probeSkip > 0 {
		e.probeSkip--
	} else if e.probeArmed != nil {
		d := *e.probeArmed
		e.probeArmed = nil
		e.probe = e.startGetDef(d)
	}
	if pop(&e.sc.failA) {
		return eth2wrap.AttesterDutyWithMeta{}, errFail
	}
	its := append([]item(nil), e.sc.att[uint64(epoch)]...)
	ses.att, ses.attOK = its, true
	e.noteItems(uint64(epoch), its, true)
	var out []*eth2v1.AttesterDuty
	for _, it := range its {
		if it.isNil {
			out = append(out, nil)
		} else {
			out = append(out, attDuty(it, e.spe))
		}
	}
	return eth2wrap.AttesterDutyWithMeta{Duties: out}, nil
}

func (e *episode) bnProposer(_ context.Context, epoch eth2p0.Epoch, _ []eth2p0.ValidatorIndex) (eth2wrap.ProposerDutyWithMeta, error) {
	ses := e.sessionFor(uint64(epoch))
	if pop(&e.sc.failP) {
		return eth2wrap.ProposerDutyWithMeta{}, errFail
	}
	its := append([]item(nil), e.sc.pro[uint64(epoch)]...)
	ses.pro, ses.proOK = its, true
	e.noteItems(uint64(epoch), its, true)
	var out []*eth2v1.ProposerDuty
	for _, it := range its {
		if it.isNil {
			out = append(out, nil)
		} else {
			out = append(out, proDuty(it))
		}
	}
	return eth2wrap.ProposerDutyWithMeta{Duties: out}, nil
}

func (e *episode) bnSync(_ context.Context, epoch eth2p0.Epoch, _ []eth2p0.ValidatorIndex) (eth2wrap.SyncDutyWithMeta, error) {
	ses := e.sessionFor(uint64(epoch))
	if pop(&e.sc.failS) {
		return eth2wrap.SyncDutyWithMeta{}, errFail
	}
	its := append([]item(nil), e.sc.syn[uint64(epoch)]...)
	ses.syn, ses.synOK = its, true
	var out []*eth2v1.SyncCommitteeDuty
	for _, it := range its {
		if it.isNil {
			out = append(out, nil)
		} else {
			out = append(out, synDuty(it))
		}
	}
	return eth2wrap.SyncDutyWithMeta{Duties: out}, nil
}

// ---------- rendering ----------

func defStr(d core.DutyDefinition) string {
	switch v := d.(type) {
	case core.AttesterDefinition:
		return fmt.Sprintf("a%d.%d.%d.%d", v.ValidatorIndex, pkID(v.PubKey), v.Slot, v.CommitteeIndex)
	case core.ProposerDefinition:
		return fmt.Sprintf("p%d.%d.%d", v.ValidatorIndex, pkID(v.PubKey), v.Slot)
	case core.SyncCommitteeDefinition:
		tag := uint64(0)
		if len(v.ValidatorSyncCommitteeIndices) > 0 {
			tag = uint64(v.ValidatorSyncCommitteeIndices[0])
		}
		return fmt.Sprintf("s%d.%d.%d", v.ValidatorIndex, pkID(v.PubKey), tag)
	}
	return fmt.Sprintf("?%T", d)
}

func trigStr(t trig) string {
	type kv struct {
		pk uint64
		s  string
	}
	var kvs []kv
	for pk, d := range t.defs {
		kvs = append(kvs, kv{corePkID(pk), defStr(d)})
	}
	sort.Slice(kvs, func(i, j int) bool { return kvs[i].pk < kvs[j].pk })
	parts := make([]string, len(kvs))
	for i, x := range kvs {
		parts[i] = fmt.Sprintf("%d=%s", x.pk, x.s)
	}
	return fmt.Sprintf("%d@%d{%s}", int(t.duty.Type), t.nb, strings.Join(parts, ";"))
}

func (e *episode) digest() string {
	sn := e.sched.SnapshotVerif()
	re := "-"
	if sn.ResolvedEpoch != maxInt64 {
		re = strconv.FormatUint(sn.ResolvedEpoch, 10)
	}
	pairs, ne := 0, 0
	for _, pks := range sn.Duties {
		pairs += len(pks)
	}
	for _, l := range sn.DutiesByEpoch {
		ne += len(l)
	}
	base := fmt.Sprintf("re=%s nd=%d/%d ne=%d", re, len(sn.Duties), pairs, ne)
	if !e.flagsOn() {
		return base
	}
	var pd []uint64
	for _, p := range e.pend {
		pd = append(pd, p.slot)
	}
	sort.Slice(pd, func(i, j int) bool { return pd[i] < pd[j] })
	return base + " ev=" + u64List(e.sched.EventTriggeredVerif()) + " pd=" + u64List(pd)
}

func u64List(l []uint64) string {
	if len(l) == 0 {
		return "-"
	}
	parts := make([]string, len(l))
	for i, v := range l {
		parts[i] = strconv.FormatUint(v, 10)
	}
	return strings.Join(parts, ",")
}

func defsStr(set core.DutyDefinitionSet) string {
	type kv struct {
		pk uint64
		s  string
	}
	var kvs []kv
	for pk, d := range set {
		kvs = append(kvs, kv{corePkID(pk), defStr(d)})
	}
	sort.Slice(kvs, func(i, j int) bool { return kvs[i].pk < kvs[j].pk })
	parts := make([]string, len(kvs))
	for i, x := range kvs {
		parts[i] = fmt.Sprintf("%d=%s", x.pk, x.s)
	}
	return "{" + strings.Join(parts, ";") + "}"
}

// ---------- executing ticks ----------

// handle hands one slot received from the real ticker to the real scheduleSlot and waits until all
// trigger goroutines it spawned have delivered.
func (e *episode) handle(run *hx.Run, slot core.Slot) string {
	e.mu.Lock()
	e.trigs = nil
	e.delays = map[core.Duty]time.Time{}
	nPend := len(e.pend)
	e.mu.Unlock()
	e.curTick, e.inTick, e.cur = slot.Slot, true, nil
	firstSession := len(e.sessions)
	var before scheduler.SnapshotVerif
	var keysBefore []uint64
	if e.flagsOn() {
		before, keysBefore = e.sched.SnapshotVerif(), e.sched.EventTriggeredVerif()
	}

	e.tBefore = time.Now()
	e.sched.HandleSlotVerif(e.ctx, slot)
	e.settle()
	// every duty type with a definition set for this slot has a trigger goroutine: each delivers or parks
	// (the scheduler's own map is used only for waiting)
	want := 0
	for d := range e.sched.SnapshotVerif().Duties {
		if d.Slot == slot.Slot {
			want++
		}
	}
	for patience := time.Now().Add(300 * time.Millisecond); time.Now().Before(patience); {
		e.mu.Lock()
		got := len(e.trigs) + len(e.pend) - nPend
		e.mu.Unlock()
		if got >= want {
			break
		}
		time.Sleep(50 * time.Microsecond)
		e.settle()
	}
	probeOut := e.finishProbe()
	e.flushNotes(run)

	sn := e.sched.SnapshotVerif()
	e.checkAltered(run, sn)
	if e.flagsOn() {
		e.checkBookkeeping(run, before, sn, keysBefore, fmt.Sprintf("tick %d", slot.Slot))
	}
	e.inTick = false
	e.mu.Lock()
	trigs := append([]trig(nil), e.trigs...)
	var parkedNow []*parkedTrig
	if len(e.pend) > nPend {
		parkedNow = append(parkedNow, e.pend[nPend:]...)
	}
	e.mu.Unlock()
	slotStart := slot.Time.Sub(e.genesis).Nanoseconds()
	for i := range trigs {
		if trigs[i].nb < 0 { // no delay requested: triggered at once, i.e. not before the slot start
			trigs[i].nb = slotStart
		}
	}
	sort.SliceStable(trigs, func(i, j int) bool { return trigs[i].duty.Type < trigs[j].duty.Type })
	if len(parkedNow) > 1 {
		run.Violate("sched:several_triggers_wait_in_one_slot", fmt.Sprintf("%d goroutines wait on the clock for slot %d", len(parkedNow), slot.Slot))
	}

	e.monitorTick(run, slot, trigs, e.sessions[firstSession:], parkedNow)

	parts := make([]string, len(trigs))
	for i, t := range trigs {
		parts[i] = trigStr(t)
	}
	run.Count("tick")
	run.Count(fmt.Sprintf("tick:triggers=%d", len(trigs)))
	if len(parkedNow) > 0 {
		run.Count("tick:attester_parked")
	}
	res := fmt.Sprintf("t%d[%s]", slot.Slot, strings.Join(parts, ","))
	if probeOut != "" {
		res += " P[" + probeOut + "]"
	}
	return res
}

// checkBookkeeping: eventTriggeredAttestations against what the handled slot / reorg event trimmed, judged from
// the scheduler's own dutiesByEpoch before and after (independent of the model): when the duties filed under an
// epoch were dropped, no entry up to the end of that epoch may remain; an entry disappears only that way.
func (e *episode) checkBookkeeping(run *hx.Run, before, after scheduler.SnapshotVerif, keysBefore []uint64, where string) {
	trimmed, maxT := false, uint64(0)
	for ep, l := range before.DutiesByEpoch {
		if len(l) == 0 {
			continue
		}
		if _, ok := after.DutiesByEpoch[ep]; !ok {
			if !trimmed || ep > maxT {
				maxT = ep
			}
			trimmed = true
		}
	}
	keys := e.sched.EventTriggeredVerif()
	now := map[uint64]bool{}
	for _, k := range keys {
		now[k] = true
		if trimmed && k < (maxT+1)*e.spe {
			run.Violate("sched:event_bookkeeping_not_trimmed", fmt.Sprintf("%s dropped the duties of epoch %d but the entry of slot %d remains", where, maxT, k))
		}
	}
	for _, k := range keysBefore {
		if !now[k] && (!trimmed || k >= (maxT+1)*e.spe) {
			run.Violate("sched:event_bookkeeping_entry_lost", fmt.Sprintf("%s removed the entry of slot %d although no epoch up to its own was trimmed", where, k))
		}
	}
	if trimmed {
		run.Count("bookkeeping:trim")
		if len(keysBefore) > len(keys) {
			run.Count("bookkeeping:trim_removed_entries")
		}
	}
}

// specOffset is the property's table (not read from the implementation): attester 1/3,
// aggregator 2/3, sync contribution 2/3 of the slot, everything else at the slot start.
func specOffset(ty core.DutyType, dur time.Duration) int64 {
	switch ty {
	case core.DutyAttester:
		return (dur.Nanoseconds() * 1) / 3
	case core.DutyAggregator, core.DutySyncContribution:
		return (dur.Nanoseconds() * 2) / 3
	}
	return 0
}

func itemOfDef(d core.DutyDefinition) (item, string) {
	switch v := d.(type) {
	case core.AttesterDefinition:
		return item{vidx: uint64(v.ValidatorIndex), pk: pkID(v.PubKey), slot: uint64(v.Slot), tag: uint64(v.CommitteeIndex)}, "att"
	case core.ProposerDefinition:
		return item{vidx: uint64(v.ValidatorIndex), pk: pkID(v.PubKey), slot: uint64(v.Slot)}, "pro"
	case core.SyncCommitteeDefinition:
		tag := uint64(0)
		if len(v.ValidatorSyncCommitteeIndices) > 0 {
			tag = uint64(v.ValidatorSyncCommitteeIndices[0])
		}
		return item{vidx: uint64(v.ValidatorIndex), pk: pkID(v.PubKey), tag: tag}, "syn"
	}
	return item{}, "?"
}

// sameAsBN: the delivered definition equals, field by field, what the beacon node structure for
// that item looks like.
func (e *episode) sameAsBN(d core.DutyDefinition, it item) bool {
	switch v := d.(type) {
	case core.AttesterDefinition:
		return reflect.DeepEqual(v.AttesterDuty, *attDuty(it, e.spe))
	case core.ProposerDefinition:
		return reflect.DeepEqual(v.ProposerDuty, *proDuty(it))
	case core.SyncCommitteeDefinition:
		return reflect.DeepEqual(v.SyncCommitteeDuty, *synDuty(it))
	}
	return false
}

func kindOf(ty core.DutyType) string {
	switch ty {
	case core.DutyAttester, core.DutyAggregator:
		return "att"
	case core.DutyProposer:
		return "pro"
	case core.DutySyncContribution:
		return "syn"
	}
	return ""
}

func (s *session) itemsOf(kind string) ([]item, bool) {
	switch kind {
	case "att":
		return s.att, s.attOK
	case "pro":
		return s.pro, s.proOK
	case "syn":
		return s.syn, s.synOK
	}
	return nil, false
}

// expected definition set of (slot, type) from one complete invocation: the BN's assignments for
// that slot restricted to active cluster validators, per pubkey. Should the BN list several
// different assignments for one validator in one slot, any of them is accepted.
func (e *episode) expected(ses *session, slot uint64, ty core.DutyType) map[uint64][]item {
	out := map[uint64][]item{}
	kind := kindOf(ty)
	its, _ := ses.itemsOf(kind)
	for _, it := range its {
		if kind != "syn" && it.slot != slot {
			continue
		}
		v, ok := ses.activeVal(it.vidx)
		if !ok {
			continue
		}
		out[v.pk] = append(out[v.pk], it)
	}
	return out
}

// checkTrig evaluates C15 on one delivered definition set (a triggered duty, or with pfx "early_fetch_" the set
// handed to the fetch-only function): right duty type, not before the offset, every definition an assignment the
// beacon node gave for that slot and type to an active cluster validator with that pubkey.
func (e *episode) checkTrig(run *hx.Run, t trig, slotStart int64, pfx string) {
	kind := kindOf(t.duty.Type)
	if kind == "" {
		run.Violate("sched:"+pfx+"unexpected_duty_type", fmt.Sprintf("duty %v triggered", t.duty))
		return
	}
	if t.nb < slotStart+specOffset(t.duty.Type, e.dur) {
		run.Violate("sched:"+pfx+"before_offset", fmt.Sprintf("duty %v not-before %d < slot start %d + offset %d", t.duty, t.nb, slotStart, specOffset(t.duty.Type, e.dur)))
	}
	if len(t.defs) == 0 {
		run.Violate("sched:"+pfx+"empty_definition_set", fmt.Sprintf("duty %v triggered with an empty set", t.duty))
	}
	for pk, d := range t.defs {
		it, dk := itemOfDef(d)
		if dk != kind {
			run.Violate("sched:"+pfx+"unassigned_duty", fmt.Sprintf("duty %v carries a %s definition", t.duty, dk))
			continue
		}
		if corePkID(pk) != it.pk {
			run.Violate("sched:"+pfx+"defset_differs_from_bn", fmt.Sprintf("duty %v: definition of pubkey %d stored under pubkey %d", t.duty, it.pk, corePkID(pk)))
		}
		if kind != "syn" && it.slot != t.duty.Slot {
			run.Violate("sched:"+pfx+"unassigned_duty", fmt.Sprintf("duty %v carries an assignment for slot %d", t.duty, it.slot))
		}
		// justification: some invocation in which the BN gave exactly this assignment and named the
		// validator as an active cluster validator with this pubkey
		assigned, cluster, activeOK, pkOK := false, false, false, false
		for _, ses := range e.sessions {
			its, ok := ses.itemsOf(kind)
			if !ok || !ses.hasEpoch {
				continue
			}
			if kind == "syn" && ses.epoch != t.duty.Slot/e.spe {
				continue
			}
			found := false
			for _, x := range its {
				if !x.isNil && x == it && e.sameAsBN(d, x) {
					found = true
				}
			}
			if !found {
				continue
			}
			assigned = true
			if ses.vals == nil {
				continue
			}
			v, ok := ses.vals[it.vidx]
			if !ok || v.isNil {
				continue
			}
			cluster = true
			if _, ok := ses.activeVal(it.vidx); !ok {
				continue
			}
			activeOK = true
			if v.pk == it.pk {
				pkOK = true
			}
		}
		switch {
		case !assigned:
			run.Violate("sched:"+pfx+"unassigned_duty", fmt.Sprintf("duty %v: definition %s was never given by the beacon node for that slot/type", t.duty, defStr(d)))
		case !cluster:
			run.Violate("sched:"+pfx+"non_cluster_validator", fmt.Sprintf("duty %v: validator %d is not a cluster validator", t.duty, it.vidx))
		case !activeOK:
			run.Violate("sched:"+pfx+"inactive_validator", fmt.Sprintf("duty %v: validator %d was not active when the duty was resolved", t.duty, it.vidx))
		case !pkOK:
			run.Violate("sched:"+pfx+"pubkey_mismatch_accepted", fmt.Sprintf("duty %v: validator %d pubkey differs from the duty's", t.duty, it.vidx))
		}
	}
}

// monitorTick evaluates C15 on what the real scheduler did in this tick.
func (e *episode) monitorTick(run *hx.Run, slot core.Slot, trigs []trig, newSessions []*session, parkedNow []*parkedTrig) {
	s := slot.Slot
	epoch := s / e.spe
	slotStart := slot.Time.Sub(e.genesis).Nanoseconds()
	if int64(s) <= e.lastTick {
		run.Violate("sched:slot_ticked_again", fmt.Sprintf("slot %d handled after slot %d", s, e.lastTick))
	}
	prevTick := e.lastTick
	e.lastTick = int64(s)

	// Was the slot's epoch completely resolved when its duties were triggered? Invocations for the
	// slot's own epoch run before the trigger loop; invocations for the next epoch run inside it.
	for _, ses := range newSessions {
		if !ses.hasEpoch {
			continue
		}
		// answers must not change between retries of the same epoch (hypothesis of completeness)
		for _, old := range e.sessions {
			if old == ses {
				break
			}
			if old.hasEpoch && old.epoch == ses.epoch && old.vals != nil && ses.vals != nil {
				if !sameAnswers(old, ses) {
					e.unstable[ses.epoch] = true
				}
			}
		}
		if ses.complete() {
			from := s
			if ses.epoch != epoch {
				from = ses.epoch * e.spe
			}
			if ses.epoch == epoch || ses.epoch == epoch+1 {
				if _, ok := e.res[ses.epoch]; !ok {
					e.res[ses.epoch] = &resolved{from: from, ses: ses}
				}
			}
		}
	}

	// input-distribution bookkeeping
	for _, ses := range newSessions {
		pat := "v"
		if ses.vals == nil {
			pat += "F"
		} else {
			pat += "k"
			if !ses.hasEpoch {
				pat += ":none"
			} else {
				for _, ok := range []bool{ses.attOK, ses.proOK, ses.synOK} {
					if ok {
						pat += "k"
					} else {
						pat += "F"
					}
				}
				if ses.epoch != epoch {
					pat += ":next"
				}
				if ses.complete() {
					pat += ":complete"
				}
			}
		}
		run.Count("resolve:" + pat)
	}
	gap := int64(s) - prevTick
	if prevTick < 0 {
		gap = 0
	}
	if gap > 3 {
		gap = 3 + gap/int64(e.spe)
	}
	run.Case(fmt.Sprintf("tick:%d:%d:%d:%d", s%e.spe, len(newSessions), len(trigs), gap))

	seenNow := map[core.Duty]bool{}
	for _, t := range trigs {
		if e.seen[t.duty] || seenNow[t.duty] {
			run.Violate("sched:duty_triggered_twice", fmt.Sprintf("duty %v triggered again at tick %d", t.duty, s))
		}
		seenNow[t.duty] = true
		if t.duty.Type == core.DutyAttester && e.flagsOn() {
			// delivered without going through the wait: for the early-fetch monitors the slot's own trigger has happened
			e.deliveredAtt[t.duty.Slot] = true
		}
		if t.duty.Slot != s {
			run.Violate("sched:duty_of_other_slot", fmt.Sprintf("duty %v triggered at tick %d", t.duty, s))
		}
		e.checkTrig(run, t, slotStart, "")
	}
	for d := range seenNow {
		e.seen[d] = true
	}

	// completeness: only when the BN's record says the epoch was completely resolved at or before this
	// slot, its answers never changed between retries and every answer was for the requested epoch.
	r, ok := e.res[epoch]
	if ok && r.from <= s && !e.unstable[epoch] && !e.malformed && r.ses.tickBeforeTriggers(s, epoch) {
		run.Count("tick:resolved")
		for _, ty := range []core.DutyType{core.DutyProposer, core.DutyAttester, core.DutyAggregator, core.DutySyncContribution} {
			exp := e.expected(r.ses, s, ty)
			var got *trig
			for i := range trigs {
				if trigs[i].duty.Type == ty {
					got = &trigs[i]
				}
			}
			if ty == core.DutyAttester && got == nil && len(parkedNow) > 0 {
				// the attester trigger waits on the clock (head-event path): its definition set is seen when it is
				// delivered; the expectation travels with it
				if len(exp) == 0 {
					run.Violate("sched:defset_differs_from_bn", fmt.Sprintf("duty %d/%d waits for its deadline although the beacon node assigned nothing", s, int(ty)))
				}
				run.Case(fmt.Sprintf("complete:%d:%d:%d:parked", int(ty), len(exp), s%e.spe))
				parkedNow[0].exp, parkedNow[0].expOK = exp, true
				continue
			}
			if len(exp) == 0 {
				if got != nil {
					run.Violate("sched:defset_differs_from_bn", fmt.Sprintf("duty %d/%d triggered although the beacon node assigned nothing", s, int(ty)))
				}
				continue
			}
			run.Case(fmt.Sprintf("complete:%d:%d:%d", int(ty), len(exp), s%e.spe))
			if got == nil {
				run.Violate("sched:missing_duty_after_resolve", fmt.Sprintf("duty %d/%d not triggered although epoch %d was resolved from slot %d and %d validators are assigned", s, int(ty), epoch, r.from, len(exp)))
				continue
			}
			same := len(got.defs) == len(exp)
			for pk, d := range got.defs {
				ok := false
				for _, it := range exp[corePkID(pk)] {
					if e.sameAsBN(d, it) {
						ok = true
					}
				}
				if !ok {
					same = false
				}
			}
			if !same {
				run.Violate("sched:defset_differs_from_bn", fmt.Sprintf("duty %d/%d: definition set %s differs from the beacon node's assignments (%d validators)", s, int(ty), trigStr(*got), len(exp)))
			}
		}
	} else {
		run.Count("tick:unresolved")
	}
}

// checkAltered: a definition stored for (duty, pubkey) before and after a tick or reorg event must
// be the same one — retries may add definitions or drop whole sets (trim), never alter one.
func (e *episode) checkAltered(run *hx.Run, sn scheduler.SnapshotVerif) {
	cur := map[core.Duty]map[uint64]string{}
	for duty, set := range sn.Defs {
		m := map[uint64]string{}
		for pk, d := range set {
			b, err := d.MarshalJSON()
			hx.Must(err)
			m[corePkID(pk)] = defStr(d) + string(b)
		}
		cur[duty] = m
	}
	if !e.malformed {
		for duty, old := range e.prevDefs {
			now, ok := cur[duty]
			if !ok {
				continue
			}
			for pk, od := range old {
				if nd, ok := now[pk]; ok && nd != od {
					run.Violate("sched:definition_altered", fmt.Sprintf("duty %v pubkey %d: stored definition changed from %s to %s", duty, pk, od, nd))
				}
			}
		}
	}
	e.prevDefs = cur
}

// tickBeforeTriggers: an invocation for the slot's own epoch made during this very tick precedes
// the trigger loop; one made in an earlier tick does so trivially.
func (s *session) tickBeforeTriggers(tick, epoch uint64) bool {
	return s.tick < tick || s.epoch == epoch
}

func sameAnswers(a, b *session) bool {
	if !reflect.DeepEqual(a.vals, b.vals) {
		return false
	}
	if a.attOK && b.attOK && !reflect.DeepEqual(a.att, b.att) {
		return false
	}
	if a.proOK && b.proOK && !reflect.DeepEqual(a.pro, b.pro) {
		return false
	}
	if a.synOK && b.synOK && !reflect.DeepEqual(a.syn, b.syn) {
		return false
	}
	return true
}

// pump lets the real ticker goroutine run until it is parked on the fake clock again, handling every
// slot it emits (and, if eager, letting every parked attester trigger that is due proceed after each slot).
func (e *episode) pump(run *hx.Run, out *[]string, eager bool) {
	e.setBase()
	deadline := time.Now().Add(10 * time.Second)
	cancelled, cancel := context.WithCancel(context.Background())
	cancel()
	one := func(slot core.Slot) {
		*out = append(*out, e.handle(run, slot))
		if eager {
			e.fireDue(run, out)
		}
	}
	for {
		select {
		case slot := <-e.ticker:
			one(slot)
			continue
		default:
		}
		if e.clock.BlockUntilContext(cancelled, 1) == nil {
			// parked with a timer in the future; a slot sent before parking has been received above
			select {
			case slot := <-e.ticker:
				one(slot)
				continue
			default:
			}
			return
		}
		if time.Now().After(deadline) {
			panic("ticker did not park")
		}
		runtime.Gosched()
		time.Sleep(10 * time.Microsecond)
	}
}

// fireDue lets every parked attester trigger whose deadline the fake clock has reached proceed, oldest first.
func (e *episode) fireDue(run *hx.Run, out *[]string) {
	now := e.nowNs()
	e.mu.Lock()
	var due []*parkedTrig
	for _, p := range e.pend {
		if p.dl <= now {
			due = append(due, p)
		}
	}
	e.mu.Unlock()
	for _, p := range due {
		*out = append(*out, e.fireOne(run, p))
	}
}

// fireOne: the timer of a parked attester trigger fires; the goroutine stores its entry and calls the subscribers.
func (e *episode) fireOne(run *hx.Run, p *parkedTrig) string {
	e.mu.Lock()
	for i, q := range e.pend {
		if q == p {
			e.pend = append(e.pend[:i:i], e.pend[i+1:]...)
			break
		}
	}
	e.trigs = nil
	e.curFire = p
	e.mu.Unlock()
	p.ch <- e.clock.Now()
	e.settle()
	for patience := time.Now().Add(200 * time.Millisecond); time.Now().Before(patience); {
		e.mu.Lock()
		n := len(e.trigs)
		e.mu.Unlock()
		if n > 0 {
			break
		}
		time.Sleep(50 * time.Microsecond)
		e.settle()
	}
	e.flushNotes(run)
	e.mu.Lock()
	trigs := append([]trig(nil), e.trigs...)
	e.curFire = nil
	e.mu.Unlock()
	run.Count("fire")
	now := e.nowNs()
	slotStart := int64(p.slot) * e.dur.Nanoseconds()
	if now < p.dl {
		run.Violate("sched:delivered_before_deadline", fmt.Sprintf("attester duty of slot %d proceeds at %d, deadline %d", p.slot, now, p.dl))
	}
	var got *trig
	for i := range trigs {
		t := &trigs[i]
		if t.duty.Slot == p.slot && t.duty.Type == core.DutyAttester && got == nil {
			got = t
			continue
		}
		run.Violate("sched:unexpected_duty_after_wait", fmt.Sprintf("duty %v delivered when the attester trigger of slot %d proceeded", t.duty, p.slot))
	}
	if got == nil {
		run.Violate("sched:parked_trigger_lost", fmt.Sprintf("the attester trigger of slot %d waited for its deadline and then delivered nothing", p.slot))
		return fmt.Sprintf("f%d[]", p.slot)
	}
	if e.seen[got.duty] {
		run.Violate("sched:duty_triggered_twice", fmt.Sprintf("duty %v triggered again after its wait", got.duty))
	}
	e.seen[got.duty] = true
	e.deliveredAtt[p.slot] = true
	e.checkTrig(run, *got, slotStart, "")
	if p.expOK {
		same := len(got.defs) == len(p.exp)
		for pk, d := range got.defs {
			ok := false
			for _, it := range p.exp[corePkID(pk)] {
				if e.sameAsBN(d, it) {
					ok = true
				}
			}
			if !ok {
				same = false
			}
		}
		if !same {
			run.Violate("sched:defset_differs_from_bn", fmt.Sprintf("duty %d/2 (delivered after its wait): definition set %s differs from the beacon node's assignments (%d validators)", p.slot, trigStr(*got), len(p.exp)))
		}
	}
	found := false
	for _, k := range e.sched.EventTriggeredVerif() {
		if k == p.slot {
			found = true
		}
	}
	if !found {
		run.Violate("sched:own_trigger_not_recorded", fmt.Sprintf("attester duty of slot %d delivered but eventTriggeredAttestations has no entry: a later head event would start an early fetch", p.slot))
	}
	return fmt.Sprintf("f%d[%s]", p.slot, trigStr(*got))
}

func (e *episode) doAdv(run *hx.Run, ns int64, eager bool) string {
	var out []string
	if e.ticker == nil {
		ctx, cancel := context.WithCancel(context.Background())
		prev := e.cancel
		e.cancel = func() { cancel(); prev() }
		t, err := scheduler.NewSlotTickerVerif(ctx, e.mock, e.clock)
		hx.Must(err)
		e.ticker = t
		e.pump(run, &out, eager)
	}
	e.clock.Advance(time.Duration(ns))
	if eager {
		e.setBase()
		e.fireDue(run, &out)
	}
	e.pump(run, &out, eager)
	run.Count(fmt.Sprintf("adv:ticks=%d", len(out)))
	res := "-"
	if len(out) > 0 {
		res = strings.Join(out, " ")
	}
	return res + " | " + e.digest()
}

func (e *episode) doFire(run *hx.Run, slot uint64) string {
	e.setBase()
	now := e.nowNs()
	var p *parkedTrig
	for _, q := range e.pend {
		if q.slot == slot && q.dl <= now && p == nil {
			p = q
		}
	}
	res := "-"
	if p != nil {
		res = e.fireOne(run, p)
	} else {
		run.Count("fire:none")
	}
	return res + " | " + e.digest()
}

// doHead: an SSE head event.
func (e *episode) doHead(run *hx.Run, slot, root uint64, addr string) string {
	e.setBase()
	e.mu.Lock()
	e.fetches = nil
	e.mu.Unlock()
	keysBefore := map[uint64]bool{}
	for _, k := range e.sched.EventTriggeredVerif() {
		keysBefore[k] = true
	}
	stored, hasDefs := e.sched.SnapshotVerif().Defs[core.NewAttesterDuty(slot)]
	var r eth2p0.Root
	binary.BigEndian.PutUint64(r[24:], root)
	e.sched.HandleHeadEvent(context.Background(), eth2p0.Slot(slot), r, addr)
	e.settle()
	e.flushNotes(run)
	e.mu.Lock()
	fetches := append([]fetchRec(nil), e.fetches...)
	e.mu.Unlock()

	rel := "cur"
	switch {
	case e.lastTick < 0:
		rel = "start"
	case int64(slot) < e.lastTick:
		rel = "past"
	case int64(slot) > e.lastTick:
		rel = "future"
	}
	run.Case(fmt.Sprintf("head:%s:%v:%v:%d", rel, hasDefs, keysBefore[slot], len(fetches)))
	if len(fetches) == 0 {
		run.Count("head:ignored")
	} else {
		run.Count("head:early_fetch")
	}
	if len(fetches) > 1 {
		run.Violate("sched:early_fetch_twice", fmt.Sprintf("one head event for slot %d started %d early fetches", slot, len(fetches)))
	}
	var parts []string
	for _, f := range fetches {
		if !e.flagsOn() {
			run.Violate("sched:early_fetch_flags_off", fmt.Sprintf("early fetch for %v although FetchAttOnBlock and FetchAttOnBlockWithDelay are off", f.duty))
		}
		if f.duty.Type != core.DutyAttester || f.duty.Slot != slot {
			run.Violate("sched:early_fetch_wrong_duty", fmt.Sprintf("head event for slot %d started an early fetch for %v", slot, f.duty))
		}
		if f.root != r || f.addr != addr {
			run.Violate("sched:early_fetch_args_altered", fmt.Sprintf("head event (%x, %s) reached the fetcher as (%x, %s)", r[24:], addr, f.root[24:], f.addr))
		}
		if !hasDefs {
			run.Violate("sched:early_fetch_unassigned_duty", fmt.Sprintf("early fetch for slot %d although no attester definition is stored for it (unresolved epoch or no assignment)", slot))
		} else if defsStr(stored) != defsStr(f.defs) {
			run.Violate("sched:early_fetch_defset_differs", fmt.Sprintf("early fetch for slot %d with %s, stored %s", slot, defsStr(f.defs), defsStr(stored)))
		}
		e.checkTrig(run, trig{duty: core.NewAttesterDuty(f.duty.Slot), defs: f.defs, nb: 1<<63 - 1}, 0, "early_fetch_")
		// at most one early fetch per slot, none after the slot's own trigger — unless the entry was trimmed: by an
		// effective reorg event (fetched/deliveredAtt are reset there) or by the resolution of an epoch at least
		// three after the slot's
		recent := e.lastTick < 0 || slot/e.spe+3 > (uint64(e.lastTick)+1)/e.spe
		if recent && e.fetched[slot] {
			run.Violate("sched:early_fetch_twice_same_slot", fmt.Sprintf("second early fetch for slot %d", slot))
		}
		if recent && e.deliveredAtt[slot] {
			run.Violate("sched:early_fetch_after_own_trigger", fmt.Sprintf("early fetch for slot %d after its attester duty was triggered", slot))
		}
		if keysBefore[slot] {
			run.Violate("sched:early_fetch_despite_entry", fmt.Sprintf("early fetch for slot %d although eventTriggeredAttestations had an entry", slot))
		}
		e.fetched[slot] = true
		found := false
		for _, k := range e.sched.EventTriggeredVerif() {
			if k == slot {
				found = true
			}
		}
		if !found {
			run.Violate("sched:early_fetch_not_recorded", fmt.Sprintf("early fetch for slot %d left no entry in eventTriggeredAttestations", slot))
		}
		ty := ""
		if f.duty.Type != core.DutyAttester {
			ty = fmt.Sprintf("!%d", int(f.duty.Type))
		}
		parts = append(parts, fmt.Sprintf("F%d%s@%d/%s%s", f.duty.Slot, ty, binary.BigEndian.Uint64(f.root[24:]), f.addr, defsStr(f.defs)))
	}
	res := "-"
	if len(parts) > 0 {
		res = strings.Join(parts, " ")
	}
	return res + " | " + e.digest()
}

// ---------- GetDutyDefinition ----------

func curGoid() int64 {
	var buf [64]byte
	n := runtime.Stack(buf[:], false)
	f := strings.Fields(string(buf[:n]))
	id, err := strconv.ParseInt(f[1], 10, 64)
	hx.Must(err)
	return id
}

var stackBuf = make([]byte, 1<<18)

// goState returns the wait state of one goroutine ("" if it is gone) from a stop-the-world snapshot.
func goState(goid int64) string {
	var b []byte
	for {
		n := runtime.Stack(stackBuf, true)
		if n < len(stackBuf) {
			b = stackBuf[:n]
			break
		}
		stackBuf = make([]byte, 2*len(stackBuf))
	}
	hdr := []byte(fmt.Sprintf("goroutine %d [", goid))
	i := bytes.Index(b, hdr)
	if i < 0 {
		return ""
	}
	rest := b[i+len(hdr):]
	j := bytes.IndexByte(rest, ']')
	if j < 0 {
		return ""
	}
	st := string(rest[:j])
	if c := strings.IndexByte(st, ','); c >= 0 {
		st = st[:c]
	}
	return st
}

func (e *episode) classifyGetDef(set core.DutyDefinitionSet, err error) string {
	switch {
	case err == nil:
		return "ok" + defsStr(set)
	case errors.Is(err, core.ErrDeprecatedDutyBuilderProposer):
		return "deprecated"
	case errors.Is(err, core.ErrNotFound):
		return "notfound"
	case errors.Is(err, context.Canceled):
		return "blocked"
	case strings.Contains(err.Error(), "epoch not resolved yet"):
		return "unresolved"
	case strings.Contains(err.Error(), "epoch already trimmed"):
		return "trimmed"
	}
	return "error:" + err.Error()
}

// startGetDef calls GetDutyDefinition in its own goroutine and returns once it has answered or is parked on
// the epoch-resolved channel.
func (e *episode) startGetDef(duty core.Duty) *probeState {
	ctx, cancel := context.WithCancel(context.Background())
	ps := &probeState{cancel: cancel, res: make(chan string, 1), duty: duty, resolved: e.sched.SnapshotVerif().ResolvedEpoch}
	idc := make(chan int64, 1)
	go func() {
		idc <- curGoid()
		set, err := e.sched.GetDutyDefinition(ctx, duty)
		ps.res <- e.classifyGetDef(set, err)
	}()
	ps.goid = <-idc
	e.pollGetDef(ps)
	return ps
}

// pollGetDef waits until the call has answered (done) or is parked in its select.
func (e *episode) pollGetDef(ps *probeState) {
	deadline := time.Now().Add(10 * time.Second)
	for !ps.done {
		select {
		case ps.out = <-ps.res:
			ps.done = true
			return
		default:
		}
		if strings.HasPrefix(goState(ps.goid), "select") {
			// parked — unless the answer arrived in between
			select {
			case ps.out = <-ps.res:
				ps.done = true
			default:
			}
			return
		}
		if time.Now().After(deadline) {
			panic("GetDutyDefinition neither answered nor parked")
		}
		runtime.Gosched()
	}
}

// endGetDef: a call still parked is blocked for good as far as this resolution goes: its context is cancelled.
func (e *episode) endGetDef(ps *probeState) string {
	e.pollGetDef(ps)
	if !ps.done {
		ps.cancel()
		ps.out = <-ps.res
		ps.done = true
		// waiting is only justified for an epoch that resolvedEpoch did not cover when the call was made
		if ps.resolved != maxInt64 && ps.resolved >= ps.duty.Slot/e.spe {
			e.mu.Lock()
			e.notes = append(e.notes, note{sig: "sched:get_duty_definition_blocked_on_resolved_epoch",
				descr: fmt.Sprintf("GetDutyDefinition(%v) waited for its epoch %d to be resolved although resolvedEpoch was %d", ps.duty, ps.duty.Slot/e.spe, ps.resolved)})
			e.mu.Unlock()
		}
	}
	ps.cancel()
	// the goroutine must be gone before goroutines are counted again
	for deadline := time.Now().Add(2 * time.Second); goState(ps.goid) != "" && time.Now().Before(deadline); {
		runtime.Gosched()
	}
	return ps.out
}

func (e *episode) doGetDef(run *hx.Run, slot uint64, ty int) string {
	ps := e.startGetDef(core.Duty{Slot: slot, Type: core.DutyType(ty)})
	out := e.endGetDef(ps)
	if out == "blocked" {
		run.Violate("sched:get_duty_definition_blocked_outside_resolution", fmt.Sprintf("GetDutyDefinition(%d/%d) waits although no resolution is running", slot, ty))
	}
	e.flushNotes(run)
	run.Case("getdef:" + strings.SplitN(out, "{", 2)[0])
	return out
}

// closeProbe settles the probe made during the resolveDuties invocation that just ended (if any).
func (e *episode) closeProbe() {
	if e.probe == nil {
		return
	}
	e.probeOut = e.endGetDef(e.probe)
	e.probe = nil
}

func (e *episode) finishProbe() string {
	e.closeProbe()
	out := e.probeOut
	e.probeOut = ""
	return out
}

func (e *episode) doReorg(run *hx.Run, ep uint64) string {
	snBefore := e.sched.SnapshotVerif()
	keysBefore := e.sched.EventTriggeredVerif()
	before := snBefore.ResolvedEpoch
	e.sched.HandleChainReorgEvent(context.Background(), eth2p0.Epoch(ep))
	snAfter := e.sched.SnapshotVerif()
	e.checkAltered(run, snAfter)
	if e.flagsOn() {
		e.checkBookkeeping(run, snBefore, snAfter, keysBefore, fmt.Sprintf("reorg event %d", ep))
	} else if len(e.sched.EventTriggeredVerif()) > 0 {
		run.Violate("sched:event_bookkeeping_flags_off", "eventTriggeredAttestations has entries although both flags are off")
	}
	if e.reorgOn && ep < before {
		// the scheduler dropped what it had resolved; the monitors' resolution record is void
		e.res = map[uint64]*resolved{}
		e.fetched, e.deliveredAtt = map[uint64]bool{}, map[uint64]bool{}
		run.Count("reorg:effective")
	} else {
		run.Count("reorg:ignored")
	}
	return "ok | " + e.digest()
}

// ---------- op parsing ----------

func parseItems(s string, n int) []item {
	if s == "-" {
		return nil
	}
	var out []item
	for _, p := range strings.Split(s, ",") {
		if p == "nil" {
			out = append(out, item{isNil: true})
			continue
		}
		f := strings.Split(p, ":")
		if len(f) != n {
			panic("bad item " + p)
		}
		u := make([]uint64, n)
		for i := range f {
			v, err := strconv.ParseUint(f[i], 10, 64)
			hx.Must(err)
			u[i] = v
		}
		switch n {
		case 4:
			out = append(out, item{vidx: u[0], pk: u[1], slot: u[2], tag: u[3]})
		default:
			out = append(out, item{vidx: u[0], pk: u[1], slot: u[2]})
		}
	}
	return out
}

func itemsStr(its []item, kind string) string {
	if len(its) == 0 {
		return "-"
	}
	parts := make([]string, len(its))
	for i, it := range its {
		switch {
		case it.isNil:
			parts[i] = "nil"
		case kind == "att":
			parts[i] = fmt.Sprintf("%d:%d:%d:%d", it.vidx, it.pk, it.slot, it.tag)
		case kind == "pro":
			parts[i] = fmt.Sprintf("%d:%d:%d", it.vidx, it.pk, it.slot)
		default:
			parts[i] = fmt.Sprintf("%d:%d:%d", it.vidx, it.pk, it.tag)
		}
	}
	return strings.Join(parts, ",")
}

func parseBits(s string) []bool {
	out := make([]bool, len(s))
	for i, c := range s {
		out[i] = c == '1'
	}
	return out
}

func u64(s string) uint64 {
	v, err := strconv.ParseUint(s, 10, 64)
	hx.Must(err)
	return v
}

// ---------- head events racing with resolveDuties (child process) ----------

const (
	headraceEpochs = 16 // the unfixed code dies in the first one or two; a surviving run costs about 1.5 s
	headraceSpe    = 4
)

// headraceChild runs in the child process. Nothing is compared: every interleaving of the head events with the
// resolution is acceptable (each head event starts an early fetch or does not); what must not happen is that the
// process dies.
func headraceChild(nval, k int) {
	ctx := context.Background()
	hx.Must(log.InitLogger(log.Config{Level: "error", Format: "console", Color: "disable"}))
	hx.Must(featureset.Init(ctx, featureset.Config{MinStatus: "stable", Enabled: []string{string(featureset.FetchAttOnBlock)}}))
	m, err := beaconmock.New(ctx, beaconmock.WithGenesisTime(genesis), beaconmock.WithSlotDuration(time.Second), beaconmock.WithSlotsPerEpoch(headraceSpe))
	hx.Must(err)
	active, complete := eth2wrap.ActiveValidators{}, eth2wrap.CompleteValidators{}
	for i := uint64(0); i < uint64(nval); i++ {
		active[eth2p0.ValidatorIndex(i)] = pkBytes(i)
		complete[eth2p0.ValidatorIndex(i)] = &eth2v1.Validator{Index: eth2p0.ValidatorIndex(i), Status: eth2v1.ValidatorStateActiveOngoing,
			Validator: &eth2p0.Validator{PublicKey: pkBytes(i)}}
	}
	m.CachedValidatorsFunc = func(context.Context) (eth2wrap.ActiveValidators, eth2wrap.CompleteValidators, error) {
		return active, complete, nil
	}
	var curEpoch atomic.Uint64
	m.CachedAttesterDutiesFunc = func(_ context.Context, epoch eth2p0.Epoch, _ []eth2p0.ValidatorIndex) (eth2wrap.AttesterDutyWithMeta, error) {
		out := make([]*eth2v1.AttesterDuty, 0, nval)
		for i := uint64(0); i < uint64(nval); i++ { // every cluster validator attests in one of the epoch's slots
			out = append(out, &eth2v1.AttesterDuty{PubKey: pkBytes(i), Slot: eth2p0.Slot(uint64(epoch)*headraceSpe + i%headraceSpe),
				ValidatorIndex: eth2p0.ValidatorIndex(i), CommitteeLength: 1, CommitteesAtSlot: 1})
		}
		curEpoch.Store(uint64(epoch)) // the head events now aim at the slots whose definitions are about to be stored
		return eth2wrap.AttesterDutyWithMeta{Duties: out}, nil
	}
	m.CachedProposerDutiesFunc = func(context.Context, eth2p0.Epoch, []eth2p0.ValidatorIndex) (eth2wrap.ProposerDutyWithMeta, error) {
		return eth2wrap.ProposerDutyWithMeta{}, nil
	}
	m.CachedSyncCommDutiesFunc = func(context.Context, eth2p0.Epoch, []eth2p0.ValidatorIndex) (eth2wrap.SyncDutyWithMeta, error) {
		return eth2wrap.SyncDutyWithMeta{}, nil
	}
	delay := func(core.Duty, time.Time) <-chan time.Time {
		ch := make(chan time.Time, 1)
		ch <- time.Time{}
		return ch
	}
	// the attester trigger of the handled slot waits on this clock for good (never advanced); the context ends it
	s, err := scheduler.NewVerif(clockwork.NewFakeClockAt(genesis), delay, nil, m, false)
	hx.Must(err)
	var fetches atomic.Int64
	s.RegisterFetcherFetchOnly(func(context.Context, core.Duty, core.DutyDefinitionSet, string, eth2p0.Root) error {
		fetches.Add(1)
		return nil
	})
	stop := make(chan struct{})
	for g := 0; g < k; g++ { // the SSE listener goroutines (one per beacon node)
		go func(g int) {
			for {
				select {
				case <-stop:
					return
				default:
				}
				e := curEpoch.Load()
				for sl := e * headraceSpe; sl < (e+1)*headraceSpe; sl++ {
					s.HandleHeadEvent(ctx, eth2p0.Slot(sl), eth2p0.Root{}, fmt.Sprintf("bn%d", g))
				}
			}
		}(g)
	}
	sctx, cancel := context.WithCancel(ctx)
	for e := uint64(1); e <= headraceEpochs; e++ { // the scheduler goroutine: first slot of each epoch
		slot := core.Slot{Slot: e * headraceSpe, Time: genesis.Add(time.Duration(e*headraceSpe) * time.Second), SlotsPerEpoch: headraceSpe, SlotDuration: time.Second}
		s.HandleSlotVerif(sctx, slot)
	}
	close(stop)
	cancel()
	fmt.Fprintf(os.Stderr, "headrace: %d epochs survived, %d early fetches\n", headraceEpochs, fetches.Load())
}

// doHeadrace runs the racing op in a child process and turns its death into a monitor violation.
func doHeadrace(run *hx.Run, nval, k int) string {
	exe, err := os.Executable()
	hx.Must(err)
	ctx, cancel := context.WithTimeout(context.Background(), 120*time.Second)
	defer cancel()
	cmd := exec.CommandContext(ctx, exe, "-mode", "headrace", "-n", strconv.Itoa(nval), "-seed", strconv.Itoa(k))
	var stderr bytes.Buffer
	cmd.Stderr = &stderr
	err = cmd.Run()
	run.Count("headrace")
	if err == nil {
		run.Count("headrace:survived")
		return "ok"
	}
	msg := stderr.String()
	head := msg
	if len(head) > 1500 {
		head = head[:1500]
	}
	head = strings.ReplaceAll(head, "\n", " | ")
	if strings.Contains(msg, "concurrent map") {
		run.Violate("sched:head_event_races_resolve_fatal", fmt.Sprintf("head events racing with resolveDuties (%d validators, %d head-event goroutines) killed the process: %s", nval, k, head))
	} else {
		run.Violate("sched:head_event_race_child_failed", fmt.Sprintf("child process of headrace %d %d failed (%v): %s", nval, k, err, head))
	}
	return "ok"
}

func main() {
	a := hx.ParseArgs()
	if a.Mode == "headrace" {
		headraceChild(a.N, int(a.Seed))
		return
	}
	hx.Must(log.InitLogger(log.Config{Level: "error", Format: "console", Color: "disable"}))
	run := hx.NewRun(a.Dir)
	defer run.Close()
	var ep *episode
	exec := func(op string) {
		f := strings.Fields(op)
		if f[0] == "headrace" { // self-contained: no episode needed, none touched
			run.Op(op, doHeadrace(run, int(u64(f[1])), int(u64(f[2]))))
			return
		}
		if f[0] != "cfg" && ep == nil {
			panic("op before cfg: " + op)
		}
		switch f[0] {
		case "cfg":
			if ep != nil {
				ep.close()
			}
			flags := 0
			if len(f) > 5 {
				flags = int(u64(f[5]))
			}
			ep = newEpisode(int(u64(f[1])), int64(u64(f[2])), int64(u64(f[3])), f[4] != "0", flags)
			run.Count(fmt.Sprintf("cfg:flags=%d", flags))
			run.Count("cfg")
			run.Op(op, "ok")
		case "val":
			idx := u64(f[1])
			switch {
			case f[2] == "nil":
				ep.sc.vals[idx] = valEntry{isNil: true}
			case f[2] == "del":
				delete(ep.sc.vals, idx)
			default:
				ep.sc.vals[idx] = valEntry{pk: u64(f[2]), status: int(u64(f[3])), actEpoch: u64(f[4])}
			}
			run.Op(op, "ok")
		case "att":
			ep.sc.att[u64(f[1])] = parseItems(f[2], 4)
			run.Op(op, "ok")
		case "pro":
			ep.sc.pro[u64(f[1])] = parseItems(f[2], 3)
			run.Op(op, "ok")
		case "syn":
			its := parseItems(f[2], 3)
			for i := range its { // third field of a sync item is the tag
				its[i].tag, its[i].slot = its[i].slot, 0
			}
			ep.sc.syn[u64(f[1])] = its
			run.Op(op, "ok")
		case "fail":
			bits := parseBits(f[2])
			switch f[1] {
			case "v":
				ep.sc.failV = bits
			case "a":
				ep.sc.failA = bits
			case "p":
				ep.sc.failP = bits
			case "s":
				ep.sc.failS = bits
			default:
				panic("bad op " + op)
			}
			run.Count("fail:" + f[1])
			run.Op(op, "ok")
		case "adv":
			run.Op(op, ep.doAdv(run, int64(u64(f[1])), true))
		case "advl":
			run.Op(op, ep.doAdv(run, int64(u64(f[1])), false))
		case "fire":
			run.Op(op, ep.doFire(run, u64(f[1])))
		case "head":
			run.Op(op, ep.doHead(run, u64(f[1]), u64(f[2]), f[3]))
		case "getdef":
			run.Op(op, ep.doGetDef(run, u64(f[1]), int(u64(f[2]))))
		case "probe":
			d := core.Duty{Slot: u64(f[1]), Type: core.DutyType(u64(f[2]))}
			ep.probeArmed, ep.probeSkip = &d, 0
			if len(f) > 3 {
				ep.probeSkip = int(u64(f[3]))
			}
			run.Count("probe")
			run.Op(op, "ok")
		case "reorg":
			run.Op(op, ep.doReorg(run, u64(f[1])))
		default:
			panic("bad op " + op)
		}
	}
	if a.Mode == "exec" {
		for _, op := range hx.ReadOps(a.Ops) {
			exec(op)
		}
		if ep != nil {
			ep.close()
		}
		return
	}
	rng := hx.NewRng(a.Seed)
	// once per run: head events racing with the resolution of an epoch (child process; see doHeadrace)
	exec(fmt.Sprintf("headrace %d %d", 2000+500*rng.Intn(2), 3+rng.Intn(2)))
	for run.NOps < a.N && !run.Enough() {
		generateEpisode(rng, run, exec, func() *episode { return ep })
	}
	if ep != nil {
		ep.close()
	}
}

// ---------- generator ----------

type genVal struct {
	idx, pk  uint64
	status   int
	actEpoch uint64
}

func generateEpisode(rng *hx.Rng, run *hx.Run, exec func(string), cur func() *episode) {
	spe := []int{2, 3, 4, 4, 5, 8}[rng.Intn(6)]
	durMs := []int64{1000, 2000, 7000, 12000}[rng.Intn(4)]
	durNs := durMs * 1000000
	startSlot := int64(rng.Intn(5 * spe))
	var within int64
	switch rng.Intn(4) {
	case 0:
		within = 0
	case 1:
		within = durNs - 1
	default:
		within = int64(rng.Intn(int(durMs))) * 1000000
	}
	reorgOn := !rng.Chance(1, 8)
	// head-event path: half of the episodes run with FetchAttOnBlock and/or FetchAttOnBlockWithDelay
	flags := 0
	if rng.Chance(1, 2) {
		flags = 1 + rng.Intn(3)
		if rng.Chance(1, 25) {
			flags += 4 // no fetch-only function registered
		}
	}
	if flags == 0 {
		exec(fmt.Sprintf("cfg %d %d %d %d", spe, durMs, startSlot*durNs+within, b2i(reorgOn)))
	} else {
		exec(fmt.Sprintf("cfg %d %d %d %d %d", spe, durMs, startSlot*durNs+within, b2i(reorgOn), flags))
	}
	flagsOn := flags&3 != 0
	attDeadline := durNs / 3
	if flags&2 != 0 {
		attDeadline += 300000000
	}
	headSeq := 0
	head := func(slot int64) {
		if slot < 0 {
			slot = 0
		}
		headSeq++
		exec(fmt.Sprintf("head %d %d bn%d", slot, headSeq, rng.Intn(3)))
		if rng.Chance(1, 5) { // the same event from a second beacon node
			headSeq++
			exec(fmt.Sprintf("head %d %d bn%d", slot, headSeq, rng.Intn(3)))
		}
	}
	// a head event for a slot chosen relative to the current one
	headAround := func(now int64) {
		cur := now / durNs
		ep0 := cur / int64(spe) * int64(spe)
		switch rng.Intn(14) {
		case 0, 1, 2, 3:
			head(cur)
		case 4, 5:
			head(cur + 1) // before the slot starts
		case 6:
			head(cur - 1)
		case 7:
			head(cur + int64(spe)) // next epoch: resolved only from the last slot on
		case 8:
			head(cur - int64(rng.Intn(4*spe)))
		case 9:
			head(cur + 1 + int64(rng.Intn(2*spe)))
		case 10, 11:
			head(ep0 + int64(rng.Intn(spe)))
		case 12:
			head(ep0 + int64(spe) + int64(rng.Intn(spe)))
		default:
			head(ep0 - 1 - int64(rng.Intn(3*spe)))
		}
	}
	startEpoch := uint64(startSlot) / uint64(spe)
	nEpochs := uint64(4 + rng.Intn(2))

	// cluster validators
	nv := 2 + rng.Intn(4)
	vals := make([]genVal, nv)
	for i := range vals {
		v := genVal{idx: uint64(10 + i), pk: uint64(100 + 10 + i), status: 3}
		switch rng.Intn(10) {
		case 0: // pending, activates during the episode
			v.status = 2
			v.actEpoch = startEpoch + uint64(rng.Intn(4))
		case 1: // exiting
			v.status = 4
		case 2: // already exited
			v.status = 6 + rng.Intn(4)
		case 3: // pending for long
			v.status = 1 + rng.Intn(2)
			v.actEpoch = startEpoch + 50
		}
		vals[i] = v
	}
	if rng.Chance(1, 30) { // nobody active
		for i := range vals {
			vals[i].status = 2
			vals[i].actEpoch = startEpoch + 1 + uint64(rng.Intn(2))
		}
	}
	if rng.Chance(1, 40) && nv >= 2 { // two indices share a pubkey
		vals[1].pk = vals[0].pk
	}
	for _, v := range vals {
		exec(fmt.Sprintf("val %d %d %d %d", v.idx, v.pk, v.status, v.actEpoch))
	}
	if rng.Chance(1, 60) {
		exec("val 19 nil")
	}
	outsiders := []genVal{{idx: 90, pk: 190}, {idx: 91, pk: 191}}

	genAtt := func(e uint64) string {
		var its []item
		for _, v := range vals {
			if rng.Chance(1, 12) {
				continue // BN has no duty for this validator
			}
			it := item{vidx: v.idx, pk: v.pk, slot: e*uint64(spe) + uint64(rng.Intn(spe)), tag: uint64(rng.Intn(9))}
			its = append(its, it)
			if rng.Chance(1, 25) { // second, conflicting entry
				it2 := it
				it2.tag = it.tag + 10
				if rng.Chance(1, 2) {
					it2.slot = e*uint64(spe) + uint64(rng.Intn(spe))
				}
				its = append(its, it2)
			}
		}
		if rng.Chance(1, 4) {
			o := outsiders[rng.Intn(2)]
			its = append(its, item{vidx: o.idx, pk: o.pk, slot: e*uint64(spe) + uint64(rng.Intn(spe)), tag: 3})
		}
		if rng.Chance(1, 50) && len(its) > 0 { // wrong pubkey
			its[rng.Intn(len(its))].pk = 999
		}
		if rng.Chance(1, 60) && len(its) > 0 { // duty outside the requested epoch
			its[rng.Intn(len(its))].slot = (e+1)*uint64(spe) + uint64(rng.Intn(spe))
		}
		if rng.Chance(1, 80) {
			its = append(its, item{isNil: true})
		}
		p := rng.Perm(len(its))
		sh := make([]item, len(its))
		for i, j := range p {
			sh[i] = its[j]
		}
		if len(sh) > 12 {
			sh = sh[:12] // slices.SortFunc is only stable up to 12 elements
		}
		return itemsStr(sh, "att")
	}
	genPro := func(e uint64) string {
		var its []item
		for sl := 0; sl < spe; sl++ {
			switch c := rng.Intn(10); {
			case c < 4:
				v := vals[rng.Intn(nv)]
				its = append(its, item{vidx: v.idx, pk: v.pk, slot: e*uint64(spe) + uint64(sl)})
			case c < 6:
				o := outsiders[rng.Intn(2)]
				its = append(its, item{vidx: o.idx, pk: o.pk, slot: e*uint64(spe) + uint64(sl)})
			}
		}
		if rng.Chance(1, 30) && nv >= 2 { // two proposers in one slot
			its = append(its, item{vidx: vals[0].idx, pk: vals[0].pk, slot: e*uint64(spe) + uint64(rng.Intn(spe))},
				item{vidx: vals[1].idx, pk: vals[1].pk, slot: e*uint64(spe) + uint64(rng.Intn(spe))})
		}
		if rng.Chance(1, 60) && len(its) > 0 {
			its[rng.Intn(len(its))].pk = 998
		}
		if rng.Chance(1, 80) && len(its) > 0 {
			its[rng.Intn(len(its))].slot += uint64(spe)
		}
		if rng.Chance(1, 100) {
			its = append(its, item{isNil: true})
		}
		return itemsStr(its, "pro")
	}
	syncMembers := map[uint64]uint64{}
	for _, v := range vals {
		if rng.Chance(1, 3) {
			syncMembers[v.idx] = uint64(rng.Intn(9))
		}
	}
	genSyn := func(e uint64) string {
		var its []item
		for _, v := range vals {
			if tag, ok := syncMembers[v.idx]; ok && !rng.Chance(1, 10) {
				its = append(its, item{vidx: v.idx, pk: v.pk, tag: tag})
			}
		}
		if rng.Chance(1, 6) {
			its = append(its, item{vidx: 91, pk: 191, tag: 1})
		}
		if rng.Chance(1, 60) && len(its) > 0 {
			its[rng.Intn(len(its))].pk = 997
		}
		if rng.Chance(1, 40) && len(its) > 0 { // same validator twice
			x := its[0]
			x.tag += 20
			its = append(its, x)
		}
		if rng.Chance(1, 100) {
			its = append(its, item{isNil: true})
		}
		return itemsStr(its, "syn")
	}
	for e := startEpoch; e < startEpoch+nEpochs+2; e++ {
		exec(fmt.Sprintf("att %d %s", e, genAtt(e)))
		exec(fmt.Sprintf("pro %d %s", e, genPro(e)))
		exec(fmt.Sprintf("syn %d %s", e, genSyn(e)))
	}

	randBits := func() string {
		n := 1 + rng.Intn(5)
		var sb strings.Builder
		for i := 0; i < n; i++ {
			if rng.Chance(3, 5) {
				sb.WriteByte('1')
			} else {
				sb.WriteByte('0')
			}
		}
		return sb.String()
	}

	now := startSlot*durNs + within
	endNs := int64(startEpoch+nEpochs) * int64(spe) * durNs
	first := true
	for now < endNs {
		ep := cur()
		// beacon node trouble
		if rng.Chance(1, 4) {
			k := 1 + rng.Intn(2)
			for i := 0; i < k; i++ {
				exec(fmt.Sprintf("fail %s %s", []string{"v", "a", "p", "s"}[rng.Intn(4)], randBits()))
			}
		}
		// validators activating / exiting, or changing otherwise
		if rng.Chance(1, 8) {
			i := rng.Intn(nv)
			v := &vals[i]
			curEpoch := uint64(now/durNs) / uint64(spe)
			switch {
			case v.status <= 2 && v.actEpoch <= curEpoch+1:
				v.status = 3
			case v.status == 3 && rng.Chance(1, 2):
				v.status = 4
			case v.status == 4 || v.status == 5:
				v.status = 6
			default:
				v.status = []int{1, 2, 3, 3, 5, 7}[rng.Intn(6)]
				if v.status <= 2 {
					v.actEpoch = curEpoch + uint64(rng.Intn(3))
				}
			}
			exec(fmt.Sprintf("val %d %d %d %d", v.idx, v.pk, v.status, v.actEpoch))
		}
		if rng.Chance(1, 60) {
			exec(fmt.Sprintf("val %d del", vals[rng.Intn(nv)].idx))
		}
		// the beacon node changes its mind about an epoch (breaks the stability hypothesis)
		if rng.Chance(1, 25) {
			e := uint64(now/durNs)/uint64(spe) + uint64(rng.Intn(2))
			switch rng.Intn(3) {
			case 0:
				exec(fmt.Sprintf("att %d %s", e, genAtt(e)))
			case 1:
				exec(fmt.Sprintf("pro %d %s", e, genPro(e)))
			default:
				exec(fmt.Sprintf("syn %d %s", e, genSyn(e)))
			}
		}
		if rng.Chance(1, 14) {
			curEpoch := int64(uint64(now/durNs) / uint64(spe))
			re := curEpoch + int64(rng.Intn(4)) - 2
			if re < 0 {
				re = 0
			}
			if flagsOn && rng.Chance(1, 2) {
				headAround(now) // an early fetch just before the reorg event …
			}
			exec(fmt.Sprintf("reorg %d", re))
			if flagsOn && rng.Chance(1, 2) {
				headAround(now) // … and a head event between the reorg event and the next slot
			}
		}
		// GetDutyDefinition, also from inside the next resolution
		if rng.Chance(1, 7) {
			sl := now/durNs + int64(rng.Intn(3*spe)) - int64(spe)
			if rng.Chance(1, 4) { // around the epoch that has just been / is about to be trimmed
				sl = now/durNs - int64(3*spe) + int64(rng.Intn(2*spe)) - int64(spe)
			}
			if sl < 0 {
				sl = 0
			}
			exec(fmt.Sprintf("getdef %d %d", sl, []int{1, 2, 2, 3, 5, 9, 12}[rng.Intn(7)]))
		}
		if rng.Chance(1, 9) {
			sl := now/durNs + 1 + int64(rng.Intn(2*spe))
			if k := []int{0, 0, 0, 1, 1, 2, 3}[rng.Intn(7)]; k == 0 {
				exec(fmt.Sprintf("probe %d %d", sl, []int{2, 2, 1, 5, 12}[rng.Intn(5)]))
			} else { // reaches the repeated resolution of the next epoch in the last slot of an epoch
				exec(fmt.Sprintf("probe %d %d %d", sl, []int{2, 2, 1, 12}[rng.Intn(4)], k))
			}
		}
		// the next slot is the last of its epoch: the next epoch is resolved once per duty type there; ask for it
		// from inside the second or third of these resolutions, which the beacon node may fail
		if (now/durNs+2)%int64(spe) == 0 && rng.Chance(1, 2) {
			sl := (now/durNs/int64(spe)+1)*int64(spe) + int64(rng.Intn(spe))
			exec(fmt.Sprintf("probe %d %d %d", sl, []int{2, 2, 9, 1}[rng.Intn(4)], 1+rng.Intn(2)))
			if rng.Chance(1, 2) {
				exec(fmt.Sprintf("fail a %s", []string{"01", "001", "011", "0001"}[rng.Intn(4)]))
			}
		}
		// head events (with the flags off they must be ignored)
		if !first && ((flagsOn && rng.Chance(1, 2)) || (!flagsOn && rng.Chance(1, 12))) {
			headAround(now)
		}
		// walk through the current slot: before the attester deadline, one tick before it, at it, after it
		if flagsOn && !first && rng.Chance(1, 3) {
			cur := now / durNs
			in := now - cur*durNs
			if in < attDeadline {
				if rng.Chance(1, 2) {
					head(cur)
				}
				lazy := rng.Chance(1, 4)
				if d := attDeadline - 1 - in; d > 0 {
					exec(fmt.Sprintf("adv %d", d))
					now += d
					if rng.Chance(1, 2) {
						head(cur)
					}
				}
				d := attDeadline - (now - cur*durNs)
				if lazy {
					// the timer is due but the goroutine has not run yet
					d += int64(rng.Intn(1000))
					exec(fmt.Sprintf("advl %d", d))
					now += d
					if rng.Chance(2, 3) {
						head(cur)
					}
					if rng.Chance(3, 4) {
						exec(fmt.Sprintf("fire %d", cur))
					} else if rng.Chance(1, 2) {
						exec(fmt.Sprintf("fire %d", cur+1)) // nothing parked for that slot
					}
				} else {
					exec(fmt.Sprintf("adv %d", d))
					now += d
				}
				if rng.Chance(2, 3) {
					head(cur) // after the slot's own trigger
				}
			} else if rng.Chance(1, 2) {
				head(cur)
			}
		}
		// clock
		curSlot := now / durNs
		toNext := (curSlot+1)*durNs - now
		var d int64
		switch c := rng.Intn(20); {
		case first:
			d = 0
			if rng.Chance(1, 3) {
				d = toNext
			}
		case c < 9: // exactly the next slot start
			d = toNext
		case c < 12: // a little into the next slot
			d = toNext + 1 + int64(rng.Intn(int(durMs)))*999999%durNs
		case c < 14: // stays inside the slot
			d = int64(rng.Intn(int(toNext) + 1))
			if d > 0 {
				d--
			}
		case c < 16: // exactly two slot starts ahead: the stale slot and the next one are both emitted
			d = toNext + durNs
		case c < 18: // skips slots
			d = toNext + int64(1+rng.Intn(3))*durNs + int64(rng.Intn(2))*int64(1+rng.Intn(int(durMs)))
		case c < 19: // long pause
			d = toNext + int64(spe+rng.Intn(2*spe))*durNs + int64(rng.Intn(int(durMs)))*1000
		default:
			d = 1
		}
		first = false
		if flagsOn && rng.Chance(1, 12) {
			exec(fmt.Sprintf("advl %d", d)) // attester triggers that become due stay parked until a later adv / fire
		} else {
			exec(fmt.Sprintf("adv %d", d))
		}
		now += d
		_ = ep
	}
}

func b2i(b bool) int {
	if b {
		return 1
	}
	return 0
}
