// trans-jsonmap: translator T-jsonmap for C12 (go/ast + go/types over $VERIF_REPO/cluster/*.go).
//
// For EVERY supported format version it extracts, from the bodies of the per-version JSON codec
// functions of cluster definitions and locks, the list of FIELD TRANSFERS between the in-memory
// structs (Definition, Lock and what they contain) and the per-version JSON structs:
//
//   - Definition.MarshalJSON / (*Definition).UnmarshalJSON / Lock.MarshalJSON / (*Lock).UnmarshalJSON:
//     the version switch (which codec function serves which version constants, both directions);
//   - marshalDefinitionV1x… / unmarshalDefinitionV1x… / marshalLockV1x… / unmarshalLockV1x…: the JSON
//     struct literal passed to json.Marshal resp. the variable passed to json.Unmarshal, the guards,
//     and the struct literal that is returned;
//   - the nested conversions they call (operatorsTo/From…, validatorAddressesTo/FromJSON,
//     distValidatorsTo/From…, depositDataTo/FromJSON, depositDataArrayTo/FromJSON,
//     registrationTo/FromJSON, byteSliceArrayToEthHex), interpreted with one symbolic evaluator over
//     a CLOSED set of statement shapes (see `stmts`); helpers with control flow the evaluator does
//     not follow (to0xHex, from0xHex, firstDepositDataOrDefault, repeatVAddrs,
//     Definition.LegacyValidatorAddresses, Definition.SetDefinitionHashes, ethHex JSON methods) are
//     PRIMITIVES whose source text must equal the text the Lean model (Model/JsonMap.lean) mirrors.
//
// One row per JSON leaf and direction: (JSON tag path of the per-version JSON struct, JSON kind of
// that struct field incl. `omitempty` / `,string`, tag path of the Definition/Lock field it is read
// from / written to, conversion, list shape). JSON struct leaves that an encoder never sets are
// emitted as `.zero` rows, leaves a decoder never reads as `.ignored` rows (or `.mustBe…` when a
// guard rejects every non-default value), so that both row lists always cover the whole JSON struct.
// Output: lean/CharonV/Generated/ClusterJson.lean. Anything not understood -> exit 1 (fails closed).
package main

import (
	"bytes"
	"flag"
	"fmt"
	"go/ast"
	"go/constant"
	"go/parser"
	"go/printer"
	"go/token"
	"go/types"
	"os"
	"path/filepath"
	"reflect"
	"sort"
	"strconv"
	"strings"
)

func fail(f string, a ...any) {
	fmt.Fprintf(os.Stderr, "trans-jsonmap: "+f+"\n", a...)
	os.Exit(1)
}

// ---------------------------------------------------------------------------------------------
// loading (imports are stubs: only package-local types matter)

type stubImporter struct{ pkgs map[string]*types.Package }

func (s *stubImporter) Import(path string) (*types.Package, error) {
	if p, ok := s.pkgs[path]; ok {
		return p, nil
	}
	parts := strings.Split(path, "/")
	name := parts[len(parts)-1]
	if len(name) >= 2 && name[0] == 'v' && name[1] >= '0' && name[1] <= '9' && len(parts) > 1 {
		name = parts[len(parts)-2]
	}
	name = strings.TrimPrefix(name, "go-")
	p := types.NewPackage(path, name)
	p.MarkComplete()
	s.pkgs[path] = p
	return p, nil
}

type pkgInfo struct {
	fset  *token.FileSet
	files []*ast.File
	info  *types.Info
	pkg   *types.Package
	funcs map[string]*ast.FuncDecl // "Name" or "Recv.Name"
	typs  map[string]*ast.TypeSpec
}

func load(dir string) *pkgInfo {
	fset := token.NewFileSet()
	ents, err := os.ReadDir(dir)
	if err != nil {
		fail("read %s: %v", dir, err)
	}
	p := &pkgInfo{fset: fset, funcs: map[string]*ast.FuncDecl{}, typs: map[string]*ast.TypeSpec{}}
	for _, e := range ents {
		n := e.Name()
		if !strings.HasSuffix(n, ".go") || strings.HasSuffix(n, "_test.go") || strings.HasPrefix(n, "verif_export") {
			continue
		}
		f, err := parser.ParseFile(fset, filepath.Join(dir, n), nil, parser.SkipObjectResolution)
		if err != nil {
			fail("parse %s: %v", n, err)
		}
		p.files = append(p.files, f)
		for _, d := range f.Decls {
			switch d := d.(type) {
			case *ast.FuncDecl:
				name := d.Name.Name
				if d.Recv != nil && len(d.Recv.List) == 1 {
					t := d.Recv.List[0].Type
					if st, ok := t.(*ast.StarExpr); ok {
						t = st.X
					}
					if id, ok := t.(*ast.Ident); ok {
						name = id.Name + "." + name
					}
				}
				if _, dup := p.funcs[name]; dup {
					fail("function %s declared twice", name)
				}
				p.funcs[name] = d
			case *ast.GenDecl:
				for _, s := range d.Specs {
					if ts, ok := s.(*ast.TypeSpec); ok {
						p.typs[ts.Name.Name] = ts
					}
				}
			}
		}
	}
	p.info = &types.Info{
		Types: map[ast.Expr]types.TypeAndValue{},
		Defs:  map[*ast.Ident]types.Object{},
		Uses:  map[*ast.Ident]types.Object{},
	}
	conf := types.Config{Importer: &stubImporter{map[string]*types.Package{}}, Error: func(error) {}}
	p.pkg, _ = conf.Check("cluster", fset, p.files, p.info)
	if p.pkg == nil {
		fail("type check produced no package")
	}
	return p
}

func (p *pkgInfo) text(n ast.Node) string {
	var b bytes.Buffer
	if err := printer.Fprint(&b, p.fset, n); err != nil {
		fail("print: %v", err)
	}
	return strings.Join(strings.Fields(b.String()), " ")
}

func (p *pkgInfo) pos(n ast.Node) string {
	ps := p.fset.Position(n.Pos())
	return fmt.Sprintf("%s:%d", filepath.Base(ps.Filename), ps.Line)
}

func (p *pkgInfo) bad(n ast.Node, f string, a ...any) {
	fail("%s: %s\n    %s", p.pos(n), fmt.Sprintf(f, a...), p.text(n))
}

// primitives: helpers whose control flow the evaluator does not follow; the Lean model mirrors this text.
var primitiveText = map[string]string{
	"to0xHex":                             `func to0xHex(b []byte) string { if len(b) == 0 { return "" } return fmt.Sprintf("%#x", b) }`,
	"from0xHex":                           `func from0xHex(s string, length int) ([]byte, error) { if s == "" { return nil, nil } b, err := hex.DecodeString(strings.TrimPrefix(s, "0x")) if err != nil { return nil, errors.Wrap(err, "decode hex") } else if len(b) != length { return nil, errors.Wrap(err, "invalid hex length", z.Int("expect", length), z.Int("actual", len(b))) } return b, nil }`,
	"ethHex.UnmarshalJSON":                `func (h *ethHex) UnmarshalJSON(data []byte) error { var strHex string if err := json.Unmarshal(data, &strHex); err != nil { return errors.Wrap(err, "unmarshal hex string") } resp, err := hex.DecodeString(strings.TrimPrefix(strHex, "0x")) if err != nil { return errors.Wrap(err, "unmarshal hex") } *h = resp return nil }`,
	"ethHex.MarshalJSON":                  `func (h ethHex) MarshalJSON() ([]byte, error) { resp, err := json.Marshal(to0xHex(h)) if err != nil { return nil, errors.Wrap(err, "marshal hex") } return resp, nil }`,
	"isAnyVersion":                        `func isAnyVersion(version string, versions ...string) bool { return slices.Contains(versions, version) }`,
	"Definition.LegacyValidatorAddresses": `func (d Definition) LegacyValidatorAddresses() (ValidatorAddresses, error) { var resp ValidatorAddresses for i, vaddrs := range d.ValidatorAddresses { if i == 0 { resp = vaddrs } else if resp != vaddrs { return ValidatorAddresses{}, errors.New("multiple withdrawal or fee recipient addresses found") } } return resp, nil }`,
	"Definition.SetDefinitionHashes":      `func (d Definition) SetDefinitionHashes() (Definition, error) { configHash, err := hashDefinition(d, true) if err != nil { return Definition{}, errors.Wrap(err, "config hash") } d.ConfigHash = configHash[:] defHash, err := hashDefinition(d, false) if err != nil { return Definition{}, errors.Wrap(err, "definition hashDefinition") } d.DefinitionHash = defHash[:] return d, nil }`,
	"firstDepositDataOrDefault":           `func firstDepositDataOrDefault(dd []DepositData) DepositData { if len(dd) == 0 { return DepositData{} } return dd[0] }`,
	"repeatVAddrs":                        `func repeatVAddrs(addr ValidatorAddresses, n int) []ValidatorAddresses { var resp []ValidatorAddresses for range n { resp = append(resp, addr) } return resp }`,
}

func (p *pkgInfo) checkPrimitives() {
	for name, want := range primitiveText {
		fd, ok := p.funcs[name]
		if !ok {
			fail("primitive %s not found", name)
		}
		cp := *fd
		cp.Doc = nil
		if got := p.text(&cp); got != want {
			fail("primitive %s changed; the Lean model mirrors\n  %s\nbut the source is\n  %s", name, want, got)
		}
	}
	if ts, ok := p.typs["ethHex"]; !ok || p.text(ts.Type) != "[]byte" {
		fail("type ethHex is not []byte")
	}
}

func (p *pkgInfo) constOf(x ast.Expr) (constant.Value, bool) {
	tv, ok := p.info.Types[x]
	if !ok || tv.Value == nil {
		return nil, false
	}
	return tv.Value, true
}

// ---------------------------------------------------------------------------------------------
// struct types

type fieldInfo struct {
	name string // Go name
	tag  string // json name
	opts string // "", "omitempty", "string"
	typ  ast.Expr
}

func (p *pkgInfo) structFields(name string) []fieldInfo {
	ts, ok := p.typs[name]
	if !ok {
		fail("type %s not found", name)
	}
	st, ok := ts.Type.(*ast.StructType)
	if !ok {
		fail("type %s is not a struct", name)
	}
	var out []fieldInfo
	for _, f := range st.Fields.List {
		var names []string
		if len(f.Names) == 0 { // embedded
			id, ok := f.Type.(*ast.Ident)
			if !ok {
				p.bad(f, "embedded field")
			}
			names = []string{id.Name}
		}
		for _, n := range f.Names {
			names = append(names, n.Name)
		}
		if f.Tag == nil {
			p.bad(f, "field without tag in %s", name)
		}
		raw, err := strconv.Unquote(f.Tag.Value)
		if err != nil {
			p.bad(f, "tag")
		}
		j := reflect.StructTag(raw).Get("json")
		if j == "" || j == "-" {
			p.bad(f, "json tag of %s", name)
		}
		parts := strings.Split(j, ",")
		opts := ""
		switch len(parts) {
		case 1:
		case 2:
			opts = parts[1]
			if opts != "omitempty" && opts != "string" {
				p.bad(f, "json tag option %q", opts)
			}
		default:
			p.bad(f, "json tag options")
		}
		for _, n := range names {
			out = append(out, fieldInfo{n, parts[0], opts, f.Type})
		}
	}
	return out
}

// kind of a leaf type: "" if t is not a leaf. mem: in-memory struct (bytes are bytes), else JSON struct.
func (p *pkgInfo) leafKind(t ast.Expr, json bool, opts string) string {
	s := p.text(t)
	switch s {
	case "string":
		return "str"
	case "int":
		if opts == "string" {
			return "intStr"
		}
		return "int"
	case "uint", "eth2p0.Gwei":
		return "uint"
	case "bool":
		return "bool"
	case "[]byte":
		if json {
			return "b64"
		}
		return "bytes"
	case "ethHex":
		if !json {
			fail("ethHex in an in-memory struct")
		}
		return "ethHex"
	case "time.Time":
		if json {
			fail("time.Time in a JSON struct")
		}
		return "time"
	}
	return ""
}

// ---------------------------------------------------------------------------------------------
// symbolic values

// a path into the source struct of the current direction.
type pathV struct {
	segs  []string // tag path segments: "name", "[]" ; joined by join()
	gos   []string // Go field path, documentation
	typ   ast.Expr // Go type of the value at the path
	shape string   // "", "common" (LegacyValidatorAddresses), "first" (firstDepositDataOrDefault)
	root  string   // "mem" | "json"
	cast  bool     // went through int(...) / int64(...)
}

func join(segs []string) string {
	var b strings.Builder
	for _, s := range segs {
		if s == "[]" {
			b.WriteString("[]")
			continue
		}
		if b.Len() > 0 {
			b.WriteString(".")
		}
		b.WriteString(s)
	}
	return b.String()
}

func (v *pathV) ext(seg, gos string, typ ast.Expr) *pathV {
	n := *v
	n.segs = append(append([]string{}, v.segs...), seg)
	n.gos = append(append([]string{}, v.gos...), gos)
	n.typ = typ
	return &n
}

type convV struct {
	kind string // toHex | fromHex | unixOf | timeOf
	n    int
	of   any
}
type structV struct {
	typ    string
	fields map[string]any
	at     ast.Node
}
type sliceV struct { // one element per element of src
	src  *pathV
	elem any
}
type singleV struct{ elem any } // []T{x}
type repeatV struct {
	elem  any
	count *pathV
}
type constV struct{ v constant.Value }
type computedV struct{ name string }
type nilV struct{}
type errV struct{}
type accV struct{ val any } // accumulator variable (nil until appended)

// guard of a decoder: the file is rejected unless …
type guard struct {
	kind string // lenEq a b | depositAmounts a b | zero a | empty a
	a, b string
}

type row struct {
	jpath, jkind string
	omit         bool
	mpath, gopth string
	conv         string // Lean term
	shape        string // Lean term
}

type interp struct {
	p      *pkgInfo
	dir    string // "enc" | "dec"
	guards []guard
	depth  int
}

type env struct {
	vars   map[types.Object]any
	parent *env
}

func newEnv(parent *env) *env { return &env{vars: map[types.Object]any{}, parent: parent} }
func (e *env) get(o types.Object) (any, bool) {
	for x := e; x != nil; x = x.parent {
		if v, ok := x.vars[o]; ok {
			return v, true
		}
	}
	return nil, false
}
func (e *env) set(o types.Object, v any) {
	for x := e; x != nil; x = x.parent {
		if _, ok := x.vars[o]; ok {
			x.vars[o] = v
			return
		}
	}
	e.vars[o] = v
}

func (it *interp) obj(id *ast.Ident) types.Object {
	if o := it.p.info.Uses[id]; o != nil {
		return o
	}
	if o := it.p.info.Defs[id]; o != nil {
		return o
	}
	it.p.bad(id, "unresolved identifier")
	return nil
}

func (it *interp) field(at ast.Node, b *pathV, name string) *pathV {
	tn := it.p.text(b.typ)
	if _, ok := it.p.typs[tn]; !ok {
		it.p.bad(at, "field %s of non-struct type %s", name, tn)
	}
	for _, f := range it.p.structFields(tn) {
		if f.name == name {
			return b.ext(f.tag, name, f.typ)
		}
	}
	it.p.bad(at, "type %s has no field %s", tn, name)
	return nil
}

func elemType(t ast.Expr) (ast.Expr, bool) {
	a, ok := t.(*ast.ArrayType)
	if !ok || a.Len != nil {
		return nil, false
	}
	return a.Elt, true
}

func (it *interp) elem(at ast.Node, l *pathV) *pathV {
	et, ok := elemType(l.typ)
	if !ok || it.p.text(l.typ) == "[]byte" {
		it.p.bad(at, "range over non-list %s", it.p.text(l.typ))
	}
	return l.ext("[]", "[]", et)
}

func (it *interp) eval1(e *env, x ast.Expr) any {
	vs := it.eval(e, x)
	if len(vs) != 1 {
		it.p.bad(x, "expected one value")
	}
	return vs[0]
}

func (it *interp) eval(e *env, x ast.Expr) []any {
	if c, ok := it.p.constOf(x); ok {
		return []any{constV{c}}
	}
	switch x := x.(type) {
	case *ast.ParenExpr:
		return it.eval(e, x.X)
	case *ast.Ident:
		if x.Name == "nil" {
			return []any{nilV{}}
		}
		v, ok := e.get(it.obj(x))
		if !ok {
			it.p.bad(x, "unbound variable")
		}
		if a, ok := v.(*accV); ok {
			if a.val == nil {
				it.p.bad(x, "accumulator read before any append")
			}
			return []any{a.val}
		}
		return []any{v}
	case *ast.SelectorExpr:
		b := it.eval1(e, x.X)
		switch b := b.(type) {
		case *pathV:
			if b.shape == "first" || b.cast {
				// fields of the first element: allowed
			}
			return []any{it.field(x, b, x.Sel.Name)}
		case *structV:
			v, ok := b.fields[x.Sel.Name]
			if !ok {
				it.p.bad(x, "field %s not set in literal", x.Sel.Name)
			}
			return []any{v}
		}
		it.p.bad(x, "selector on %T", b)
	case *ast.SliceExpr:
		if x.Low == nil && x.High == nil && x.Max == nil {
			if c, ok := it.eval1(e, x.X).(computedV); ok {
				return []any{c}
			}
		}
		it.p.bad(x, "slice expression")
	case *ast.CompositeLit:
		return []any{it.composite(e, x)}
	case *ast.CallExpr:
		return it.call(e, x)
	}
	it.p.bad(x, "expression shape %T", x)
	return nil
}

func (it *interp) composite(e *env, x *ast.CompositeLit) any {
	if at, ok := x.Type.(*ast.ArrayType); ok && at.Len == nil {
		if len(x.Elts) != 1 {
			it.p.bad(x, "slice literal with %d elements", len(x.Elts))
		}
		return &singleV{it.eval1(e, x.Elts[0])}
	}
	id, ok := x.Type.(*ast.Ident)
	if !ok {
		it.p.bad(x, "literal type")
	}
	if _, ok := it.p.typs[id.Name]; !ok {
		it.p.bad(x, "literal of unknown type")
	}
	sv := &structV{typ: id.Name, fields: map[string]any{}, at: x}
	for _, el := range x.Elts {
		kv, ok := el.(*ast.KeyValueExpr)
		if !ok {
			it.p.bad(el, "positional literal element")
		}
		k, ok := kv.Key.(*ast.Ident)
		if !ok {
			it.p.bad(el, "literal key")
		}
		if _, dup := sv.fields[k.Name]; dup {
			it.p.bad(el, "duplicate key")
		}
		sv.fields[k.Name] = it.eval1(e, kv.Value)
	}
	return sv
}

func (it *interp) intConst(x ast.Expr) int {
	c, ok := it.p.constOf(x)
	if !ok {
		it.p.bad(x, "constant expected")
	}
	n, ok := constant.Int64Val(c)
	if !ok {
		it.p.bad(x, "integer constant expected")
	}
	return int(n)
}

func (it *interp) call(e *env, c *ast.CallExpr) []any {
	ft := it.p.text(c.Fun)
	switch ft {
	case "to0xHex":
		return []any{&convV{kind: "toHex", of: it.eval1(e, c.Args[0])}}
	case "from0xHex":
		return []any{&convV{kind: "fromHex", n: it.intConst(c.Args[1]), of: it.eval1(e, c.Args[0])}, errV{}}
	case "int", "int64":
		v, ok := it.eval1(e, c.Args[0]).(*pathV)
		if ok {
			n := *v
			n.cast = true
			return []any{&n}
		}
		if cv, ok := it.eval1(e, c.Args[0]).(*convV); ok {
			return []any{cv}
		}
		it.p.bad(c, "cast of non-path")
	case "time.Unix":
		if len(c.Args) != 2 || it.p.text(c.Args[1]) != "0" {
			it.p.bad(c, "time.Unix with nanoseconds")
		}
		return []any{&convV{kind: "timeOf", of: it.eval1(e, c.Args[0])}}
	case "firstDepositDataOrDefault":
		v, ok := it.eval1(e, c.Args[0]).(*pathV)
		if !ok || v.shape != "" {
			it.p.bad(c, "argument")
		}
		n := it.elem(c, v)
		n.shape = "first"
		return []any{n}
	case "repeatVAddrs":
		cnt, ok := it.eval1(e, c.Args[1]).(*pathV)
		if !ok {
			it.p.bad(c, "count argument")
		}
		return []any{&repeatV{elem: it.eval1(e, c.Args[0]), count: cnt}}
	}
	if sel, ok := c.Fun.(*ast.SelectorExpr); ok {
		switch sel.Sel.Name {
		case "Unix":
			if len(c.Args) == 0 {
				if v, ok := it.eval1(e, sel.X).(*pathV); ok && it.p.text(v.typ) == "time.Time" {
					return []any{&convV{kind: "unixOf", of: v}}
				}
			}
		case "LegacyValidatorAddresses":
			if v, ok := it.eval1(e, sel.X).(*pathV); ok && it.p.text(v.typ) == "Definition" && len(c.Args) == 0 {
				l := it.field(c, v, "ValidatorAddresses")
				n := it.elem(c, l)
				n.shape = "common"
				return []any{n, errV{}}
			}
		}
		it.p.bad(c, "method call")
	}
	id, ok := c.Fun.(*ast.Ident)
	if !ok {
		it.p.bad(c, "call shape")
	}
	// struct conversion T(x): field-wise identity
	if _, isType := it.p.typs[id.Name]; isType {
		if _, isStruct := it.p.typs[id.Name].Type.(*ast.StructType); isStruct && len(c.Args) == 1 {
			src, ok := it.eval1(e, c.Args[0]).(*pathV)
			if !ok {
				it.p.bad(c, "struct conversion of non-path")
			}
			sv := &structV{typ: id.Name, fields: map[string]any{}, at: c}
			sf := it.p.structFields(it.p.text(src.typ))
			df := it.p.structFields(id.Name)
			if len(sf) != len(df) {
				it.p.bad(c, "struct conversion between different field lists")
			}
			for i := range df {
				if sf[i].name != df[i].name || it.p.text(sf[i].typ) != it.p.text(df[i].typ) {
					it.p.bad(c, "struct conversion field %d", i)
				}
				sv.fields[df[i].name] = it.field(c, src, sf[i].name)
			}
			return []any{sv}
		}
		it.p.bad(c, "type conversion")
	}
	fd, ok := it.p.funcs[id.Name]
	if !ok {
		it.p.bad(c, "call of unknown function")
	}
	if _, prim := primitiveText[id.Name]; prim {
		it.p.bad(c, "primitive without rule")
	}
	// user function of the package: interpret its body
	it.depth++
	if it.depth > 8 {
		it.p.bad(c, "call depth")
	}
	ne := newEnv(nil)
	i := 0
	for _, f := range fd.Type.Params.List {
		for _, n := range f.Names {
			if i >= len(c.Args) {
				it.p.bad(c, "argument count")
			}
			ne.vars[it.p.info.Defs[n]] = it.eval1(e, c.Args[i])
			i++
		}
	}
	if i != len(c.Args) {
		it.p.bad(c, "argument count")
	}
	ret := it.stmts(ne, fd.Body.List)
	it.depth--
	if ret == nil {
		it.p.bad(fd, "function does not end in a return")
	}
	return ret
}

// stmts interprets a statement list; returns the values of the final `return` (nil if none).
// CLOSED set of shapes:
//
//	var x T                                  accumulator / zero value
//	x := make([]T, …)                        accumulator
//	x[, err] := <expr>   x[, err] = <expr>   (err must be guarded by the next statement)
//	x.F, err = from0xHex(…)                  late field assignment into a struct literal variable
//	if err != nil { return … }               error propagation
//	if x == nil { return nil }               nil-preserving shortcut (no transfer)
//	if len(a) != b { return …error }         guard lenEq            (decoders only)
//	if x.F != 0 { return …error }            guard zero
//	if len(x.F) > 0 { return …error }        guard empty
//	if err := deposit.VerifyDepositAmounts(a, b); err != nil { return … }   guard depositAmounts
//	if err := json.Unmarshal(data, &v); err != nil { return … }             binds v to the JSON root
//	for _, v := range <list> { … }           with: guards, nested loops, acc = append(acc, <expr>), acc[i] = <expr>
//	return <exprs>
func (it *interp) stmts(e *env, list []ast.Stmt) []any {
	for i, s := range list {
		switch s := s.(type) {
		case *ast.DeclStmt:
			gd, ok := s.Decl.(*ast.GenDecl)
			if !ok || gd.Tok != token.VAR {
				it.p.bad(s, "declaration")
			}
			for _, sp := range gd.Specs {
				vs := sp.(*ast.ValueSpec)
				if len(vs.Values) != 0 || len(vs.Names) == 0 {
					it.p.bad(s, "var with initialiser")
				}
				for _, n := range vs.Names {
					o := it.p.info.Defs[n]
					if _, isList := elemType(vs.Type); isList {
						e.vars[o] = &accV{}
					} else if id, ok := vs.Type.(*ast.Ident); ok && it.p.typs[id.Name] != nil {
						e.vars[o] = &pathV{typ: vs.Type, root: "json-pending"}
					} else if it.p.text(vs.Type) == "error" {
						e.vars[o] = errV{}
					} else {
						it.p.bad(s, "var type")
					}
				}
			}
		case *ast.AssignStmt:
			it.assign(e, s)
		case *ast.IfStmt:
			if r := it.ifStmt(e, s); r != nil {
				return r
			}
		case *ast.RangeStmt:
			it.rangeStmt(e, s)
		case *ast.ReturnStmt:
			if i != len(list)-1 {
				it.p.bad(s, "return before the end")
			}
			var out []any
			for _, r := range s.Results {
				out = append(out, it.eval(e, r)...)
			}
			return out
		default:
			it.p.bad(s, "statement shape %T", s)
		}
	}
	return nil
}

func (it *interp) assign(e *env, s *ast.AssignStmt) {
	if len(s.Rhs) != 1 {
		it.p.bad(s, "assignment with %d right-hand sides", len(s.Rhs))
	}
	// acc[i] = expr
	if ix, ok := s.Lhs[0].(*ast.IndexExpr); ok && len(s.Lhs) == 1 && s.Tok == token.ASSIGN {
		id, ok := ix.X.(*ast.Ident)
		if !ok {
			it.p.bad(s, "indexed assignment")
		}
		v, _ := e.get(it.obj(id))
		a, ok := v.(*accV)
		if !ok || a.val != nil {
			it.p.bad(s, "indexed assignment to non-accumulator / second write")
		}
		a.val = &pendingElem{it.eval1(e, s.Rhs[0]), it.p.text(ix.Index)}
		return
	}
	// make(...)
	if c, ok := s.Rhs[0].(*ast.CallExpr); ok && it.p.text(c.Fun) == "make" && len(s.Lhs) == 1 && s.Tok == token.DEFINE {
		if _, isList := elemType(c.Args[0]); !isList {
			it.p.bad(s, "make of non-slice")
		}
		e.vars[it.p.info.Defs[s.Lhs[0].(*ast.Ident)]] = &accV{}
		return
	}
	// acc = append(acc, expr)
	if c, ok := s.Rhs[0].(*ast.CallExpr); ok && it.p.text(c.Fun) == "append" {
		id, ok := s.Lhs[0].(*ast.Ident)
		if !ok || len(s.Lhs) != 1 || s.Tok != token.ASSIGN || len(c.Args) != 2 || it.p.text(c.Args[0]) != id.Name || c.Ellipsis.IsValid() {
			it.p.bad(s, "append shape")
		}
		v, _ := e.get(it.obj(id))
		a, ok := v.(*accV)
		if !ok || a.val != nil {
			it.p.bad(s, "append to non-accumulator / second append")
		}
		a.val = &pendingElem{it.eval1(e, c.Args[1]), ""}
		return
	}
	vals := it.eval(e, s.Rhs[0])
	if len(vals) != len(s.Lhs) {
		it.p.bad(s, "assignment arity")
	}
	for i, l := range s.Lhs {
		switch l := l.(type) {
		case *ast.Ident:
			if l.Name == "_" {
				continue
			}
			if s.Tok == token.DEFINE {
				if o := it.p.info.Defs[l]; o != nil {
					e.vars[o] = vals[i]
					continue
				}
			}
			e.set(it.obj(l), vals[i])
		case *ast.SelectorExpr: // def.ForkVersion, err = …
			id, ok := l.X.(*ast.Ident)
			if !ok {
				it.p.bad(s, "assignment target")
			}
			v, _ := e.get(it.obj(id))
			sv, ok := v.(*structV)
			if !ok {
				it.p.bad(s, "field assignment to non-literal")
			}
			if _, dup := sv.fields[l.Sel.Name]; dup {
				it.p.bad(s, "field %s written twice", l.Sel.Name)
			}
			sv.fields[l.Sel.Name] = vals[i]
		default:
			it.p.bad(s, "assignment target")
		}
	}
}

type pendingElem struct {
	elem any
	idx  string
}

func onlyReturns(list []ast.Stmt) bool {
	if len(list) != 1 {
		return false
	}
	_, ok := list[0].(*ast.ReturnStmt)
	return ok
}

func (it *interp) pathOf(e *env, x ast.Expr) *pathV {
	v, ok := it.eval1(e, x).(*pathV)
	if !ok {
		it.p.bad(x, "path expected")
	}
	return v
}

func (it *interp) ifStmt(e *env, s *ast.IfStmt) []any {
	if s.Else != nil || !onlyReturns(s.Body.List) {
		it.p.bad(s, "if with else / body that is not a single return")
	}
	cond := it.p.text(s.Cond)
	if s.Init != nil {
		as, ok := s.Init.(*ast.AssignStmt)
		if !ok || len(as.Lhs) != 1 || it.p.text(as.Lhs[0]) != "err" || cond != "err != nil" || len(as.Rhs) != 1 {
			it.p.bad(s, "if-init shape")
		}
		c, ok := as.Rhs[0].(*ast.CallExpr)
		if !ok {
			it.p.bad(s, "if-init call")
		}
		switch it.p.text(c.Fun) {
		case "json.Unmarshal":
			u, ok := c.Args[1].(*ast.UnaryExpr)
			if !ok || u.Op != token.AND || it.dir != "dec" {
				it.p.bad(s, "json.Unmarshal target")
			}
			o := it.obj(u.X.(*ast.Ident))
			v, _ := e.get(o)
			pv, ok := v.(*pathV)
			if !ok || pv.root != "json-pending" {
				it.p.bad(s, "json.Unmarshal into a variable that is not a fresh struct")
			}
			e.set(o, &pathV{typ: pv.typ, root: "json"})
			return nil
		case "deposit.VerifyDepositAmounts":
			if it.dir != "dec" || len(c.Args) != 2 {
				it.p.bad(s, "VerifyDepositAmounts outside a decoder")
			}
			a := it.pathOf(e, c.Args[0])
			b := "false"
			if it.p.text(c.Args[1]) != "false" {
				b = join(it.pathOf(e, c.Args[1]).segs)
			}
			it.guards = append(it.guards, guard{"depositAmounts", join(a.segs), b})
			return nil
		}
		it.p.bad(s, "if-init call")
	}
	if cond == "err != nil" {
		return nil
	}
	be, ok := s.Cond.(*ast.BinaryExpr)
	if !ok {
		it.p.bad(s, "condition")
	}
	// x == nil -> return nil
	if be.Op == token.EQL && it.p.text(be.Y) == "nil" {
		r := s.Body.List[0].(*ast.ReturnStmt)
		if len(r.Results) != 1 || it.p.text(r.Results[0]) != "nil" {
			it.p.bad(s, "nil shortcut")
		}
		return nil
	}
	if it.dir != "dec" {
		it.p.bad(s, "guard in an encoder")
	}
	lenArg := func(x ast.Expr) (ast.Expr, bool) {
		c, ok := x.(*ast.CallExpr)
		if !ok || it.p.text(c.Fun) != "len" || len(c.Args) != 1 {
			return nil, false
		}
		return c.Args[0], true
	}
	switch {
	case be.Op == token.NEQ && it.p.text(be.Y) == "0":
		it.guards = append(it.guards, guard{"zero", join(it.pathOf(e, be.X).segs), ""})
	case be.Op == token.GTR && it.p.text(be.Y) == "0":
		a, ok := lenArg(be.X)
		if !ok {
			it.p.bad(s, "guard")
		}
		it.guards = append(it.guards, guard{"empty", join(it.pathOf(e, a).segs), ""})
	case be.Op == token.NEQ:
		a, ok := lenArg(be.X)
		if !ok {
			it.p.bad(s, "guard")
		}
		it.guards = append(it.guards, guard{"lenEq", join(it.pathOf(e, a).segs), join(it.pathOf(e, be.Y).segs)})
	default:
		it.p.bad(s, "guard")
	}
	return nil
}

func (it *interp) rangeStmt(e *env, s *ast.RangeStmt) {
	if s.Tok != token.DEFINE || s.Value == nil {
		it.p.bad(s, "range shape")
	}
	src := it.pathOf(e, s.X)
	if src.shape != "" {
		it.p.bad(s, "range over a shaped path")
	}
	ne := newEnv(e)
	ne.vars[it.p.info.Defs[s.Value.(*ast.Ident)]] = it.elem(s, src)
	idx := "_"
	if k, ok := s.Key.(*ast.Ident); ok {
		idx = k.Name
	}
	// accumulators visible before the loop and still empty
	before := map[*accV]bool{}
	for x := e; x != nil; x = x.parent {
		for _, v := range x.vars {
			if a, ok := v.(*accV); ok && a.val == nil {
				before[a] = true
			}
		}
	}
	for _, st := range s.Body.List {
		switch st := st.(type) {
		case *ast.DeclStmt, *ast.AssignStmt, *ast.IfStmt, *ast.RangeStmt:
			if r := it.stmts(ne, []ast.Stmt{st}); r != nil {
				it.p.bad(st, "return inside loop")
			}
		default:
			it.p.bad(st, "loop body statement")
		}
	}
	for a := range before {
		if pe, ok := a.val.(*pendingElem); ok {
			if pe.idx != "" && pe.idx != idx {
				it.p.bad(s, "indexed write with an index that is not the loop index")
			}
			a.val = &sliceV{src: src, elem: pe.elem}
		}
	}
	// accumulators declared inside the body must be complete (consumed as values)
}

// ---------------------------------------------------------------------------------------------
// flattening a symbolic value of a destination type into rows

type flat struct {
	it   *interp
	rows []row
	used map[string]bool // source leaf paths read
}

func leanStr(s string) string { return strconv.Quote(s) }

func (f *flat) leafRow(dstPath []string, dstGo []string, dstType ast.Expr, dstOpts string, v any, shape string) {
	it := f.it
	conv := ".id"
	var src *pathV
	switch x := v.(type) {
	case *pathV:
		src = x
	case *convV:
		s, ok := x.of.(*pathV)
		if !ok {
			fail("%s: conversion of a non-path", join(dstPath))
		}
		src = s
		switch x.kind {
		case "toHex":
			conv = ".toHex"
		case "fromHex":
			conv = fmt.Sprintf("(.fromHex %d)", x.n)
		case "unixOf":
			conv = ".unixOf"
		case "timeOf":
			conv = ".timeOf"
		}
	case constV:
		n, ok := constant.Int64Val(x.v)
		if !ok || it.dir != "enc" {
			fail("%s: constant", join(dstPath))
		}
		f.rows = append(f.rows, row{jpath: join(dstPath), jkind: it.p.leafKind(dstType, true, dstOpts), omit: dstOpts == "omitempty",
			conv: fmt.Sprintf("(.const %d)", n), shape: ".plain"})
		return
	case computedV:
		if it.dir != "enc" {
			fail("%s: computed value in a decoder", join(dstPath))
		}
		// the memory field the computed value stands for has the tag path of the destination
		f.rows = append(f.rows, row{jpath: join(dstPath), jkind: it.p.leafKind(dstType, true, dstOpts), omit: dstOpts == "omitempty",
			mpath: join(dstPath), gopth: strings.Join(dstGo, "."), conv: ".computed", shape: ".plain"})
		return
	default:
		fail("%s: value %T for a leaf", join(dstPath), v)
	}
	if src.shape != "" {
		if shape != ".plain" {
			fail("%s: two shapes", join(dstPath))
		}
		shape = "." + src.shape
	}
	f.used[join(src.segs)] = true
	// type compatibility of the two leaves under the conversion
	sk := it.p.leafKind(src.typ, it.dir == "dec", "")
	dk := it.p.leafKind(dstType, it.dir == "enc", "")
	if sk == "" || dk == "" {
		fail("%s <- %s: not leaves (%s <- %s)", join(dstPath), join(src.segs), it.p.text(dstType), it.p.text(src.typ))
	}
	mk, jk := sk, dk
	if it.dir == "dec" {
		mk, jk = dk, sk
	}
	okPair := false
	switch conv {
	case ".id":
		okPair = (mk == jk && (!src.cast || mk == "int")) || (mk == "bytes" && (jk == "b64" || jk == "ethHex"))
	case ".toHex":
		okPair = it.dir == "enc" && mk == "bytes" && jk == "str"
	case ".unixOf":
		okPair = it.dir == "enc" && mk == "time" && jk == "int"
	case ".timeOf":
		okPair = it.dir == "dec" && mk == "time" && jk == "int"
	default:
		okPair = it.dir == "dec" && mk == "bytes" && jk == "str"
	}
	if !okPair {
		fail("%s <- %s: conversion %s between %s and %s", join(dstPath), join(src.segs), conv, dk, sk)
	}
	r := row{conv: conv, shape: shape}
	if it.dir == "enc" {
		r.jpath, r.jkind, r.omit = join(dstPath), it.p.leafKind(dstType, true, dstOpts), dstOpts == "omitempty"
		r.mpath, r.gopth = join(src.segs), strings.Join(src.gos, ".")
	} else {
		r.mpath, r.gopth = join(dstPath), strings.Join(dstGo, ".")
		r.jpath = join(src.segs)
		r.jkind, r.omit = "", false // filled from the JSON struct walk
	}
	f.rows = append(f.rows, r)
}

// value v (in terms of source paths) is stored into a destination of type t at dstPath.
func (f *flat) put(dstPath, dstGo []string, t ast.Expr, opts string, v any, shape string) {
	it := f.it
	json := it.dir == "enc"
	if a, ok := v.(*accV); ok {
		v = a.val
	}
	if it.p.leafKind(t, json, opts) != "" {
		f.leafRow(dstPath, dstGo, t, opts, v, shape)
		return
	}
	tn := it.p.text(t)
	if et, ok := elemType(t); ok {
		dp, dg := append(append([]string{}, dstPath...), "[]"), append(append([]string{}, dstGo...), "[]")
		switch x := v.(type) {
		case *pathV: // whole-slice assignment: element-wise identity
			if _, ok := elemType(x.typ); !ok {
				fail("%s: slice from non-slice", join(dstPath))
			}
			f.put(dp, dg, et, "", it.elem(t, x), shape)
		case *sliceV:
			f.put(dp, dg, et, "", x.elem, shape)
		case *singleV:
			if shape != ".plain" || it.dir != "dec" {
				fail("%s: singleton", join(dstPath))
			}
			f.put(dp, dg, et, "", x.elem, ".single")
		case *repeatV:
			if shape != ".plain" || it.dir != "dec" {
				fail("%s: repeat", join(dstPath))
			}
			f.used[join(x.count.segs)] = true
			f.put(dp, dg, et, "", x.elem, fmt.Sprintf("(.repeat %s)", leanStr(join(x.count.segs))))
		default:
			fail("%s: value %T for a slice", join(dstPath), v)
		}
		return
	}
	if _, ok := it.p.typs[tn]; !ok {
		fail("%s: destination type %s", join(dstPath), tn)
	}
	if tn == "Definition" && len(dstPath) > 0 { // nested codec with its own version dispatch
		src, ok := v.(*pathV)
		if !ok || it.p.text(src.typ) != "Definition" {
			fail("%s: embedded definition", join(dstPath))
		}
		f.used[join(src.segs)] = true
		r := row{conv: ".embed", shape: ".plain"}
		if it.dir == "enc" {
			r.jpath, r.mpath, r.gopth = join(dstPath), join(src.segs), strings.Join(src.gos, ".")
		} else {
			r.jpath, r.mpath, r.gopth = join(src.segs), join(dstPath), strings.Join(dstGo, ".")
		}
		r.jkind = "embed"
		f.rows = append(f.rows, r)
		return
	}
	// struct destination
	sv, ok := v.(*structV)
	if !ok {
		if pv, isPath := v.(*pathV); isPath && it.p.text(pv.typ) == tn {
			// same struct type copied as a whole (repeatVAddrs(addr)): field-wise identity
			sv = &structV{typ: tn, fields: map[string]any{}}
			for _, fi := range it.p.structFields(tn) {
				sv.fields[fi.name] = it.field(t, pv, fi.name)
			}
		} else {
			fail("%s: value %T for struct %s", join(dstPath), v, tn)
		}
	}
	if sv.typ != tn {
		fail("%s: literal of %s stored into %s", join(dstPath), sv.typ, tn)
	}
	seen := 0
	for _, fi := range it.p.structFields(tn) {
		dp, dg := append(append([]string{}, dstPath...), fi.tag), append(append([]string{}, dstGo...), fi.name)
		fv, set := sv.fields[fi.name]
		if !set {
			if it.dir == "enc" {
				f.zero(dp, fi.typ, fi.opts)
			}
			continue
		}
		seen++
		f.put(dp, dg, fi.typ, fi.opts, fv, shape)
	}
	if seen != len(sv.fields) {
		fail("%s: literal of %s sets unknown fields", join(dstPath), tn)
	}
}

// JSON struct field an encoder never sets: Go zero value.
func (f *flat) zero(dstPath []string, t ast.Expr, opts string) {
	for _, l := range f.it.p.leaves(dstPath, t, opts, true) {
		f.rows = append(f.rows, row{jpath: l.path, jkind: l.kind, omit: l.omit, conv: ".zero", shape: ".plain"})
	}
}

type leafT struct {
	path, kind string
	omit       bool
	gop        string
}

func (p *pkgInfo) leaves(path []string, t ast.Expr, opts string, json bool) []leafT {
	if k := p.leafKind(t, json, opts); k != "" {
		return []leafT{{path: join(path), kind: k, omit: opts == "omitempty"}}
	}
	if et, ok := elemType(t); ok {
		return p.leaves(append(append([]string{}, path...), "[]"), et, "", json)
	}
	tn := p.text(t)
	if tn == "Definition" && json {
		return []leafT{{path: join(path), kind: "embed"}}
	}
	if _, ok := p.typs[tn]; !ok {
		fail("leaf walk: type %s at %s", tn, join(path))
	}
	var out []leafT
	for _, fi := range p.structFields(tn) {
		out = append(out, p.leaves(append(append([]string{}, path...), fi.tag), fi.typ, fi.opts, json)...)
	}
	return out
}

// ---------------------------------------------------------------------------------------------
// codec functions

type codec struct {
	fn, jsonStruct string
	rows           []row
	guards         []guard
}

func (p *pkgInfo) encoder(fn, memType string) *codec {
	fd, ok := p.funcs[fn]
	if !ok {
		fail("encoder %s not found", fn)
	}
	it := &interp{p: p, dir: "enc"}
	e := newEnv(nil)
	params := fd.Type.Params.List
	if len(params) < 1 || len(params[0].Names) != 1 || p.text(params[0].Type) != memType {
		p.bad(fd, "encoder signature")
	}
	e.vars[p.info.Defs[params[0].Names[0]]] = &pathV{typ: params[0].Type, root: "mem"}
	if memType == "Lock" {
		if len(params) != 2 || p.text(params[1].Type) != "[32]byte" || params[1].Names[0].Name != "lockHash" {
			p.bad(fd, "lock encoder signature")
		}
		e.vars[p.info.Defs[params[1].Names[0]]] = computedV{"lock_hash"}
	} else if len(params) != 1 {
		p.bad(fd, "encoder signature")
	}
	// body: [legacy] ; resp, err := json.Marshal(LIT) ; if err != nil {…} ; return resp, nil
	body := fd.Body.List
	n := len(body)
	if n < 3 || p.text(body[n-1]) != "return resp, nil" {
		p.bad(fd, "encoder does not end in `return resp, nil`")
	}
	if ifs, ok := body[n-2].(*ast.IfStmt); !ok || p.text(ifs.Cond) != "err != nil" || ifs.Init != nil || !onlyReturns(ifs.Body.List) {
		p.bad(fd, "encoder error check")
	}
	as, ok := body[n-3].(*ast.AssignStmt)
	if !ok || len(as.Lhs) != 2 || p.text(as.Lhs[0]) != "resp" || len(as.Rhs) != 1 {
		p.bad(fd, "encoder json.Marshal statement")
	}
	call, ok := as.Rhs[0].(*ast.CallExpr)
	if !ok || p.text(call.Fun) != "json.Marshal" || len(call.Args) != 1 {
		p.bad(fd, "encoder json.Marshal call")
	}
	if r := it.stmts(e, body[:n-3]); r != nil {
		p.bad(fd, "early return")
	}
	lit, ok := it.eval1(e, call.Args[0]).(*structV)
	if !ok {
		p.bad(call, "json.Marshal argument is not a struct literal")
	}
	f := &flat{it: it, used: map[string]bool{}}
	f.put(nil, nil, ast.NewIdent(lit.typ), "", lit, ".plain")
	return &codec{fn: fn, jsonStruct: lit.typ, rows: f.rows}
}

func (p *pkgInfo) decoder(fn, memType string) *codec {
	fd, ok := p.funcs[fn]
	if !ok {
		fail("decoder %s not found", fn)
	}
	it := &interp{p: p, dir: "dec"}
	e := newEnv(nil)
	params := fd.Type.Params.List
	if len(params) != 1 || p.text(params[0].Type) != "[]byte" {
		p.bad(fd, "decoder signature")
	}
	e.vars[p.info.Defs[params[0].Names[0]]] = nilV{}
	if fd.Type.Results == nil || len(fd.Type.Results.List) != 2 || p.text(fd.Type.Results.List[0].Type) != memType {
		p.bad(fd, "decoder results")
	}
	for _, r := range fd.Type.Results.List { // named results
		for _, nm := range r.Names {
			if p.text(r.Type) == "error" {
				e.vars[p.info.Defs[nm]] = errV{}
			} else {
				e.vars[p.info.Defs[nm]] = nilV{}
			}
		}
	}
	ret := it.stmts(e, fd.Body.List)
	if len(ret) != 2 {
		p.bad(fd, "decoder return")
	}
	if _, ok := ret[1].(nilV); !ok {
		p.bad(fd, "decoder error result is not nil")
	}
	lit, ok := ret[0].(*structV)
	if !ok || lit.typ != memType {
		p.bad(fd, "decoder does not return a %s literal", memType)
	}
	f := &flat{it: it, used: map[string]bool{}}
	f.put(nil, nil, ast.NewIdent(memType), "", lit, ".plain")
	// the JSON struct
	var js string
	ast.Inspect(fd.Body, func(n ast.Node) bool {
		if ds, ok := n.(*ast.DeclStmt); ok && js == "" {
			vs := ds.Decl.(*ast.GenDecl).Specs[0].(*ast.ValueSpec)
			if id, ok := vs.Type.(*ast.Ident); ok && p.typs[id.Name] != nil {
				js = id.Name
			}
		}
		return true
	})
	if js == "" {
		p.bad(fd, "JSON struct variable not found")
	}
	// fill JSON kinds; add rows for JSON leaves that are not read
	kinds := map[string]leafT{}
	var order []string
	for _, l := range p.leaves(nil, ast.NewIdent(js), "", true) {
		kinds[l.path] = l
		order = append(order, l.path)
	}
	read := map[string]bool{}
	for i := range f.rows {
		l, ok := kinds[f.rows[i].jpath]
		if !ok {
			fail("%s: decoder reads %s which is not a leaf of %s", fn, f.rows[i].jpath, js)
		}
		f.rows[i].jkind, f.rows[i].omit = l.kind, l.omit
		read[f.rows[i].jpath] = true
	}
	guarded := map[string]string{}
	for _, g := range it.guards {
		switch g.kind {
		case "zero":
			guarded[g.a] = "(.mustBe 0)"
		case "empty":
			guarded[g.a] = ".mustBeEmpty"
		}
	}
	for _, pth := range order {
		if read[pth] {
			if _, g := guarded[pth]; g {
				fail("%s: %s is both read and guarded to be default", fn, pth)
			}
			continue
		}
		l := kinds[pth]
		conv := ".ignored"
		if g, ok := guarded[pth]; ok {
			conv = g
		}
		f.rows = append(f.rows, row{jpath: pth, jkind: l.kind, omit: l.omit, conv: conv, shape: ".plain"})
	}
	for g := range guarded {
		if _, ok := kinds[g]; !ok {
			fail("%s: guard on %s which is not a leaf of %s", fn, g, js)
		}
	}
	return &codec{fn: fn, jsonStruct: js, rows: f.rows, guards: it.guards}
}

// ---------------------------------------------------------------------------------------------
// version dispatch

func (p *pkgInfo) versions() []string {
	var vs []string
	for _, f := range p.files {
		ast.Inspect(f, func(n ast.Node) bool {
			vs0, ok := n.(*ast.ValueSpec)
			if !ok || len(vs0.Names) != 1 || vs0.Names[0].Name != "supportedVersions" || len(vs0.Values) != 1 {
				return true
			}
			cl, ok := vs0.Values[0].(*ast.CompositeLit)
			if !ok {
				fail("supportedVersions is not a literal")
			}
			for _, el := range cl.Elts {
				kv := el.(*ast.KeyValueExpr)
				c, ok := p.constOf(kv.Key)
				if !ok || p.text(kv.Value) != "true" {
					fail("supportedVersions entry %s", p.text(kv))
				}
				vs = append(vs, constant.StringVal(c))
			}
			return false
		})
	}
	if len(vs) == 0 {
		fail("supportedVersions not found")
	}
	sort.Slice(vs, func(i, j int) bool {
		a, _ := strconv.Atoi(strings.Split(vs[i], ".")[1])
		b, _ := strconv.Atoi(strings.Split(vs[j], ".")[1])
		return a < b
	})
	return vs
}

// dispatch returns, in source order, (version constant value, codec function) for every value listed
// in a case of the version switch of recv.method. A version listed twice is reported twice (the Lean
// side requires exactly one).
func (p *pkgInfo) dispatch(recv, method, selector, prefix string) [][2]string {
	fd, ok := p.funcs[recv+"."+method]
	if !ok {
		fail("%s.%s not found", recv, method)
	}
	var sw *ast.SwitchStmt
	nsw := 0
	for _, s := range fd.Body.List {
		if x, ok := s.(*ast.SwitchStmt); ok {
			sw = x
			nsw++
		}
	}
	if nsw != 1 || sw.Tag != nil || sw.Init != nil {
		p.bad(fd, "exactly one tagless top-level switch expected")
	}
	var out [][2]string
	for _, cc := range sw.Body.List {
		cl := cc.(*ast.CaseClause)
		if cl.List == nil { // default: must return an error
			if !onlyReturns(cl.Body) || !strings.Contains(p.text(cl.Body[0]), "errors.New(") {
				p.bad(cl, "default case")
			}
			continue
		}
		if len(cl.List) != 1 {
			p.bad(cl, "case list")
		}
		call, ok := cl.List[0].(*ast.CallExpr)
		if !ok || p.text(call.Fun) != "isAnyVersion" || len(call.Args) < 2 || p.text(call.Args[0]) != selector {
			p.bad(cl, "case condition (expected isAnyVersion(%s, …))", selector)
		}
		// body: `return f(x…)`  or  `v, err = f(data); if err != nil { return err }`
		var callee *ast.CallExpr
		switch len(cl.Body) {
		case 1:
			r, ok := cl.Body[0].(*ast.ReturnStmt)
			if !ok || len(r.Results) != 1 {
				p.bad(cl, "case body")
			}
			callee, _ = r.Results[0].(*ast.CallExpr)
		case 2:
			as, ok := cl.Body[0].(*ast.AssignStmt)
			if !ok || len(as.Rhs) != 1 || len(as.Lhs) != 2 || as.Tok != token.ASSIGN {
				p.bad(cl, "case body")
			}
			callee, _ = as.Rhs[0].(*ast.CallExpr)
			if ifs, ok := cl.Body[1].(*ast.IfStmt); !ok || p.text(ifs) != "if err != nil { return err }" {
				p.bad(cl, "case body error check")
			}
		default:
			p.bad(cl, "case body")
		}
		if callee == nil {
			p.bad(cl, "case body call")
		}
		id, ok := callee.Fun.(*ast.Ident)
		if !ok || !strings.HasPrefix(id.Name, prefix) {
			p.bad(cl, "case body must call a %s… function", prefix)
		}
		for _, a := range call.Args[1:] {
			c, ok := p.constOf(a)
			if !ok || c.Kind() != constant.String {
				p.bad(a, "version constant")
			}
			out = append(out, [2]string{constant.StringVal(c), id.Name})
		}
	}
	return out
}

// shape checks of the four dispatchers outside the switch.
func (p *pkgInfo) checkDispatchers() {
	want := map[string][]string{
		"Definition.MarshalJSON": {"d2, err := d.SetDefinitionHashes()", "if err != nil { return nil, err }", "switch"},
		"Lock.MarshalJSON":       {"lockHash, err := hashLock(l)", `if err != nil { return nil, errors.Wrap(err, "hash lock") }`, "switch"},
	}
	for fn, w := range want {
		fd := p.funcs[fn]
		if fd == nil || len(fd.Body.List) != len(w) {
			fail("%s: unexpected statement count", fn)
		}
		for i, s := range fd.Body.List {
			if w[i] == "switch" {
				if _, ok := s.(*ast.SwitchStmt); !ok {
					p.bad(s, "switch expected")
				}
				continue
			}
			if p.text(s) != w[i] {
				p.bad(s, "%s: expected `%s`", fn, w[i])
			}
		}
	}
	for _, c := range [][4]string{
		{"Definition.UnmarshalJSON", "version.Version", "*d = def", "version := struct { Version string `json:\"version\"` }{}"},
		{"Lock.UnmarshalJSON", "version.Definition.Version", "*l = lock", "version := struct { Definition struct { Version string `json:\"version\"` } `json:\"cluster_definition\"` }{}"}} {
		fd := p.funcs[c[0]]
		if fd == nil || len(fd.Body.List) != 6 {
			fail("%s: unexpected statement count", c[0])
		}
		b := fd.Body.List
		if p.text(b[0]) != c[3] ||
			!strings.HasPrefix(p.text(b[1]), `if err := json.Unmarshal(data, &version); err != nil { return errors.Wrap(err, "unmarshal version") } else if !supportedVersions[`+c[1]+`] { return errors.New(`) ||
			p.text(b[4]) != c[2] || p.text(b[5]) != "return nil" {
			p.bad(fd, "dispatcher shape")
		}
		if _, ok := b[2].(*ast.DeclStmt); !ok {
			p.bad(b[2], "declaration expected")
		}
	}
}

// ---------------------------------------------------------------------------------------------
// output

type interner struct {
	ids   map[string]int
	names []string
}

func (in *interner) id(s string) int {
	if i, ok := in.ids[s]; ok {
		return i
	}
	in.ids[s] = len(in.names)
	in.names = append(in.names, s)
	return len(in.names) - 1
}

func ident(s string) string { return strings.NewReplacer(".", "_").Replace(s) }

func main() {
	repo := flag.String("repo", "/repo", "charon repository")
	out := flag.String("out", "", "output Lean file")
	flag.Parse()
	if *out == "" {
		fail("-out is required")
	}
	p := load(filepath.Join(*repo, "cluster"))
	p.checkPrimitives()
	p.checkDispatchers()
	versions := p.versions()

	in := &interner{ids: map[string]int{}}
	in.id("") // 0 = no path

	type disp struct {
		name, recv, method, sel, prefix, mem, dir string
	}
	disps := []disp{
		{"defEnc", "Definition", "MarshalJSON", "d2.Version", "marshalDefinition", "Definition", "enc"},
		{"defDec", "Definition", "UnmarshalJSON", "version.Version", "unmarshalDefinition", "Definition", "dec"},
		{"lockEnc", "Lock", "MarshalJSON", "l.Version", "marshalLock", "Lock", "enc"},
		{"lockDec", "Lock", "UnmarshalJSON", "version.Definition.Version", "unmarshalLock", "Lock", "dec"},
	}
	var b strings.Builder
	b.WriteString("/- GENERATED by harness/cmd/trans-jsonmap (T-jsonmap) from the JSON codec functions of cluster/*.go — do not edit, not committed. -/\n")
	b.WriteString("import CharonV.Model.JsonMap\nnamespace CharonV.Generated.ClusterJson\nopen CharonV.JsonMap\n\n")
	fmt.Fprintf(&b, "def versions : List String := [%s]\n\n", strings.Join(mapS(versions, leanStr), ", "))

	codecs := map[string]*codec{}
	var codecOrder []string
	dispOut := map[string][][2]string{}
	for _, d := range disps {
		ds := p.dispatch(d.recv, d.method, d.sel, d.prefix)
		dispOut[d.name] = ds
		for _, vf := range ds {
			if _, ok := codecs[vf[1]]; ok {
				continue
			}
			var c *codec
			if d.dir == "enc" {
				c = p.encoder(vf[1], d.mem)
			} else {
				c = p.decoder(vf[1], d.mem)
			}
			codecs[vf[1]] = c
			codecOrder = append(codecOrder, vf[1])
		}
	}
	// Definition.MarshalJSON encodes d2 = d.SetDefinitionHashes(): the two hash fields are computed, not copied.
	hashed := map[string]bool{}
	for _, vf := range dispOut["defEnc"] {
		c := codecs[vf[1]]
		if hashed[vf[1]] {
			continue
		}
		hashed[vf[1]] = true
		for i := range c.rows {
			if c.rows[i].mpath == "config_hash" || c.rows[i].mpath == "definition_hash" {
				if c.rows[i].conv != ".id" {
					fail("%s: hash field with conversion %s", c.fn, c.rows[i].conv)
				}
				c.rows[i].conv = ".computed"
			}
		}
	}
	// in-memory leaves
	memLeaves := func(t string) []leafT { return p.leaves(nil, ast.NewIdent(t), "", false) }
	for _, fn := range codecOrder {
		c := codecs[fn]
		fmt.Fprintf(&b, "def %s : Codec := ⟨%s, %s, [\n", fn, leanStr(fn), leanStr(c.jsonStruct))
		for i, r := range c.rows {
			sep := ","
			if i == len(c.rows)-1 {
				sep = ""
			}
			fmt.Fprintf(&b, "  ⟨%d, %d, .%s, %v, %d, %s, %s⟩%s /- %s %s %s -/\n", in.id(r.jpath), strings.Count(r.jpath, "[]"), kindLean(r.jkind), r.omit, in.id(r.mpath), r.conv, shapeLean(r.shape, in),
				sep, r.jpath, map[bool]string{true: "<-", false: "->"}[strings.HasPrefix(fn, "marshal")], orDash(r.gopth))
		}
		b.WriteString("], [")
		for i, g := range c.guards {
			if i > 0 {
				b.WriteString(", ")
			}
			switch g.kind {
			case "lenEq":
				rep := ""
				for _, r := range c.rows {
					if strings.HasPrefix(r.jpath, g.a+"[]") && strings.Count(r.jpath, "[]") == 1 && rep == "" {
						rep = r.jpath
					}
				}
				if rep == "" {
					fail("%s: no leaf under the list %s of a length guard", c.fn, g.a)
				}
				fmt.Fprintf(&b, ".lenEq %d %d", in.id(rep), in.id(g.b))
			case "depositAmounts":
				if g.b == "false" {
					fmt.Fprintf(&b, ".depositAmounts %d none", in.id(g.a))
				} else {
					fmt.Fprintf(&b, ".depositAmounts %d (some %d)", in.id(g.a), in.id(g.b))
				}
			case "zero":
				fmt.Fprintf(&b, ".zero %d", in.id(g.a))
			case "empty":
				fmt.Fprintf(&b, ".empty %d", in.id(g.a))
			}
		}
		b.WriteString("]⟩\n\n")
	}
	for _, d := range disps {
		fmt.Fprintf(&b, "/-- %s.%s: (version constant of a switch case, codec function), in source order. -/\ndef %s : List (String × Codec) := [\n", d.recv, d.method, d.name)
		ds := dispOut[d.name]
		for i, vf := range ds {
			sep := ","
			if i == len(ds)-1 {
				sep = ""
			}
			fmt.Fprintf(&b, "  (%s, %s)%s\n", leanStr(vf[0]), vf[1], sep)
		}
		b.WriteString("]\n\n")
	}
	for _, t := range []string{"Definition", "Lock"} {
		ls := memLeaves(t)
		fmt.Fprintf(&b, "/-- leaves of the in-memory struct %s (tag path id, kind); `Lock.Definition` is listed as one embedded leaf. -/\ndef mem%sLeaves : List (Nat × MKind) := [\n", t, t)
		// Lock embeds Definition: list the embedded struct as one leaf (kind embed)
		var outL []string
		if t == "Lock" {
			ls = nil
			for _, fi := range p.structFields("Lock") {
				if p.text(fi.typ) == "Definition" {
					outL = append(outL, fmt.Sprintf("  (%d, .embed) /- %s -/", in.id(fi.tag), fi.tag))
					continue
				}
				for _, l := range p.leaves([]string{fi.tag}, fi.typ, fi.opts, false) {
					outL = append(outL, fmt.Sprintf("  (%d, .%s) /- %s -/", in.id(l.path), l.kind, l.path))
				}
			}
		} else {
			for _, l := range ls {
				outL = append(outL, fmt.Sprintf("  (%d, .%s) /- %s -/", in.id(l.path), l.kind, l.path))
			}
		}
		for i, s := range outL {
			if i < len(outL)-1 {
				s = strings.Replace(s, ") /-", "), /-", 1)
			}
			b.WriteString(s + "\n")
		}
		b.WriteString("]\n\n")
	}
	// path table last (ids were assigned while printing); Lean does not care about declaration order of use
	var pt strings.Builder
	fmt.Fprintf(&pt, "/-- interned tag paths: every path id of this file indexes this table (0 = no path). -/\ndef paths : List String := [\n")
	for i, n := range in.names {
		sep := ","
		if i == len(in.names)-1 {
			sep = ""
		}
		fmt.Fprintf(&pt, "  %s%s\n", leanStr(n), sep)
	}
	pt.WriteString("]\n\n")
	b.WriteString(pt.String())
	b.WriteString("def table : Table := ⟨versions, paths, defEnc, defDec, lockEnc, lockDec, memDefinitionLeaves, memLockLeaves⟩\n\n")
	b.WriteString("end CharonV.Generated.ClusterJson\n")

	tmp := *out + ".tmp"
	if err := os.WriteFile(tmp, []byte(b.String()), 0o644); err != nil {
		fail("write: %v", err)
	}
	if old, err := os.ReadFile(*out); err == nil && string(old) == b.String() {
		os.Remove(tmp)
	} else if err := os.Rename(tmp, *out); err != nil {
		fail("rename: %v", err)
	}
	fmt.Printf("trans-jsonmap: %d versions, %d codec functions, %d paths -> %s\n", len(versions), len(codecOrder), len(in.names), *out)
}

func mapS(xs []string, f func(string) string) []string {
	var out []string
	for _, x := range xs {
		out = append(out, f(x))
	}
	return out
}

func orDash(s string) string {
	if s == "" {
		return "-"
	}
	return s
}

func kindLean(k string) string {
	if k == "" {
		fail("row without JSON kind")
	}
	return k
}

func shapeLean(s string, in *interner) string {
	if strings.HasPrefix(s, "(.repeat ") {
		q := strings.TrimSuffix(strings.TrimPrefix(s, "(.repeat "), ")")
		name, err := strconv.Unquote(q)
		if err != nil {
			fail("shape %s", s)
		}
		return fmt.Sprintf("(.repeat %d)", in.id(name))
	}
	return s
}
