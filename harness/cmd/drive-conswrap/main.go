// drive-conswrap: correspondence driver for the consensus wrapper of core/consensus/qbft/qbft.go
// outside `handle` (C03 at wrapper level, C05 last clause): Propose / ProposePriority /
// Participate / propose / runInstance / instance.IO / getInstanceIO / deleteInstanceIO / the Decide
// callback of newDefinition / Subscribe / SubscribePriority.
//
// The REAL component (hook NewConsensusWrapVerif) runs as a one-member cluster with the real
// qbft.Run: the single member is leader of every round with quorum 1, so a live instance decides
// as soon as it has a candidate value (its own proposal, or a self-signed PRE-PREPARE / DECIDED
// received through the real `handle`). The scripted deadliner sees every deadliner.Add; a call
// coming from runInstance (call stack) with answer "scheduled" is exactly one entry into qbft.Run.
//
// ops:
//
//	cfg <nsubs> <participateEnabled 0|1>
//	propose <slot> <type> <v> <dl s|e|x>       ProposePriority (Propose for attester duties)
//	participate <slot> <type> <dl s|e|x>
//	msg <slot> <type> <v> <pp|dec> <dl>        handle(self-signed PRE-PREPARE | DECIDED + an unreferenced extra value)
//	cancel <slot> <type>                       cancel the context of the duty's calls
//	expire <slot> <type>                       deadliner expires the duty: deleteInstanceIO
//	race <slot> <type> <v> <nP> <nQ> <msg 0|1> [;; observed]   the calls start concurrently behind a barrier
//
// output (every op): st=<runs entered> sk=<skipped> P=[returns of Propose calls] Q=[returns of
// Participate calls] subs=[subscriber:value,...] pend=<blocked P>/<blocked Q> ios=<instances>
// f=<proposed participated running of the duty's IO | ->
package main

import (
	"context"
	"crypto/sha256"
	"fmt"
	"os"
	"runtime"
	"sort"
	"strconv"
	"strings"
	"sync"
	"time"

	eth2v1 "github.com/attestantio/go-eth2-client/api/v1"
	eth2p0 "github.com/attestantio/go-eth2-client/spec/phase0"
	"github.com/decred/dcrd/dcrec/secp256k1/v4"
	ssz "github.com/ferranbt/fastssz"
	"github.com/libp2p/go-libp2p/core/host"
	"github.com/libp2p/go-libp2p/core/peer"
	"google.golang.org/protobuf/proto"
	"google.golang.org/protobuf/types/known/anypb"

	"github.com/obolnetwork/charon/app/featureset"
	"github.com/obolnetwork/charon/app/log"
	"github.com/obolnetwork/charon/core"
	cqbft "github.com/obolnetwork/charon/core/consensus/qbft"
	"github.com/obolnetwork/charon/core/consensus/timer"
	pbv1 "github.com/obolnetwork/charon/core/corepb/v1"
	"github.com/obolnetwork/charon/core/qbft"
	"github.com/obolnetwork/charon/p2p"

	"verifharness/hx"
)

type hash32 = [32]byte
type qmsg = qbft.Msg[core.Duty, [32]byte, proto.Message]

// the round timers are anchored at the slot start: keep every slot used here in the future so that no
// round timer fires during a run
var genesis = time.Now()

type fakeHost struct {
	host.Host
	id peer.ID
}

func (f fakeHost) ID() peer.ID { return f.id }

// ---------------------------------------------------------------------------------------------
// scripted deadliner: records which Add calls come from runInstance
// ---------------------------------------------------------------------------------------------

type scriptDL struct {
	mu      sync.Mutex
	status  map[core.Duty]core.DeadlineStatus
	entered map[core.Duty]int // Add from runInstance answered "scheduled": qbft.Run is entered
	skipped map[core.Duty]int // Add from runInstance answered expired/exempt
	ch      chan core.Duty
	// round timers: the component's timer factory is wrapped (hook WrapTimerFuncVerif); every instance
	// must run on a timer created for its own duty (the default timer captures the duty's slot)
	timerFor map[core.Duty]int // factory calls per duty
	noTimer  map[core.Duty]int // entries into qbft.Run for a duty for which no timer was created
}

func fromRunInstance() bool {
	pc := make([]uintptr, 16)
	n := runtime.Callers(2, pc)
	fr := runtime.CallersFrames(pc[:n])
	for {
		f, more := fr.Next()
		if strings.HasSuffix(f.Function, ".runInstance") {
			return true
		}
		if !more {
			return false
		}
	}
}

func (d *scriptDL) Add(duty core.Duty) core.DeadlineStatus {
	d.mu.Lock()
	defer d.mu.Unlock()
	st, ok := d.status[duty]
	if !ok {
		st = core.DeadlineScheduled
	}
	if fromRunInstance() {
		if st == core.DeadlineScheduled {
			d.entered[duty]++
			if d.timerFor != nil && d.timerFor[duty] == 0 {
				if d.noTimer == nil {
					d.noTimer = map[core.Duty]int{}
				}
				d.noTimer[duty]++
			}
		} else {
			d.skipped[duty]++
		}
	}
	return st
}
func (d *scriptDL) C() <-chan core.Duty { return d.ch }

// ---------------------------------------------------------------------------------------------
// values
// ---------------------------------------------------------------------------------------------

func ownHash(m proto.Message) hash32 {
	b, err := proto.MarshalOptions{Deterministic: true}.Marshal(m)
	hx.Must(err)
	hh := ssz.NewHasher()
	idx := hh.Index()
	hh.PutBytes(b)
	hh.Merkleize(idx)
	h, err := hh.HashRoot()
	hx.Must(err)
	return h
}

func isCore(d core.Duty) bool { return d.Type == core.DutyAttester }

func attSet(d core.Duty, v int) core.UnsignedDataSet {
	root := func(b byte) eth2p0.Root { var r eth2p0.Root; r[0] = b; r[1] = byte(v); return r }
	pk := core.PubKey("0x" + strings.Repeat("ab", 48))
	return core.UnsignedDataSet{pk: core.AttestationData{
		Data: eth2p0.AttestationData{Slot: eth2p0.Slot(d.Slot), Index: eth2p0.CommitteeIndex(v), BeaconBlockRoot: root(1),
			Source: &eth2p0.Checkpoint{Epoch: 1, Root: root(2)}, Target: &eth2p0.Checkpoint{Epoch: 2, Root: root(3)}},
		Duty: eth2v1.AttesterDuty{Slot: eth2p0.Slot(d.Slot), CommitteeIndex: eth2p0.CommitteeIndex(v), CommitteeLength: 8, CommitteesAtSlot: 1},
	}}
}

func prioValue(d core.Duty, v int) *pbv1.PriorityResult {
	return &pbv1.PriorityResult{Msgs: []*pbv1.PriorityMsg{{Duty: core.DutyToProto(d), PeerId: "v" + strconv.Itoa(v)}}}
}

// valueProto is the proto the wrapper hashes and transports for value id v of duty d.
func valueProto(d core.Duty, v int) proto.Message {
	if isCore(d) {
		p, err := core.UnsignedDataSetToProto(attSet(d, v))
		hx.Must(err)
		return p
	}
	return prioValue(d, v)
}

// ---------------------------------------------------------------------------------------------
// episode
// ---------------------------------------------------------------------------------------------

type callRes struct {
	who  string // P | Q
	duty core.Duty
	err  error
}

type subEv struct {
	sub  int
	duty core.Duty
	v    int
	hash hash32 // own hash of the delivered proto
}

type episode struct {
	run   *hx.Run
	nsubs int
	priv  *secp256k1.PrivateKey
	cons  *cqbft.Consensus
	dl    *scriptDL

	mu        sync.Mutex
	results   []callRes
	subEvs    []subEv
	sniffed   []*pbv1.SniffedConsensusInstance
	pendP     map[core.Duty]int
	pendQ     map[core.Duty]int
	ctxs      map[core.Duty]context.Context
	cancels   map[core.Duty]context.CancelFunc
	delivered map[core.Duty]map[int]int // duty -> sub -> calls (whole episode)
	expired   map[core.Duty]bool
	value     map[core.Duty]int  // designated value of the duty (for waiting / monitors)
	hasCand   map[core.Duty]bool // bookkeeping for waiting only
	live      map[core.Duty]bool
	attached  map[core.Duty]bool
	called    map[core.Duty]bool // an effective Propose/Participate happened while scheduled
}

func newEpisode(run *hx.Run, nsubs int, participate bool) *episode {
	cfg := featureset.DefaultConfig()
	if participate { // Init never resets an earlier Disabled entry: enable explicitly
		cfg.Enabled = []string{string(featureset.ConsensusParticipate)}
	} else {
		cfg.Disabled = []string{string(featureset.ConsensusParticipate)}
	}
	hx.Must(featureset.Init(context.Background(), cfg))
	h := sha256.Sum256([]byte("verif-conswrap-key"))
	priv := secp256k1.PrivKeyFromBytes(h[:])
	id, err := p2p.PeerIDFromKey(priv.PubKey())
	hx.Must(err)
	e := &episode{run: run, nsubs: nsubs, priv: priv,
		pendP: map[core.Duty]int{}, pendQ: map[core.Duty]int{}, ctxs: map[core.Duty]context.Context{}, cancels: map[core.Duty]context.CancelFunc{},
		delivered: map[core.Duty]map[int]int{}, expired: map[core.Duty]bool{}, value: map[core.Duty]int{}, hasCand: map[core.Duty]bool{},
		live: map[core.Duty]bool{}, attached: map[core.Duty]bool{}, called: map[core.Duty]bool{}}
	e.dl = &scriptDL{status: map[core.Duty]core.DeadlineStatus{}, entered: map[core.Duty]int{}, skipped: map[core.Duty]int{}, ch: make(chan core.Duty)}
	sniff := func(inst *pbv1.SniffedConsensusInstance) {
		e.mu.Lock()
		e.sniffed = append(e.sniffed, inst)
		e.mu.Unlock()
	}
	e.cons, err = cqbft.NewConsensusWrapVerif(fakeHost{id: id}, []p2p.Peer{{ID: id, Index: 0, Name: "solo"}}, priv, e.dl,
		func(core.Duty) bool { return true }, sniff, genesis, 12*time.Second, false)
	hx.Must(err)
	e.dl.mu.Lock()
	e.dl.timerFor = map[core.Duty]int{}
	e.dl.mu.Unlock()
	e.cons.WrapTimerFuncVerif(func(next timer.RoundTimerFunc) timer.RoundTimerFunc {
		return func(d core.Duty) timer.RoundTimer {
			e.dl.mu.Lock()
			e.dl.timerFor[d]++
			e.dl.mu.Unlock()
			return next(d)
		}
	})
	for i := 0; i < nsubs; i++ {
		i := i
		if i%2 == 0 {
			e.cons.SubscribePriority(func(_ context.Context, d core.Duty, m *pbv1.PriorityResult) error {
				v := -1
				if len(m.GetMsgs()) == 1 {
					v, _ = strconv.Atoi(strings.TrimPrefix(m.GetMsgs()[0].GetPeerId(), "v"))
				}
				e.onSub(i, d, v, ownHash(m))
				return nil
			})
		} else {
			e.cons.Subscribe(func(_ context.Context, d core.Duty, set core.UnsignedDataSet) error {
				v := -1
				for _, ud := range set {
					if ad, ok := ud.(core.AttestationData); ok {
						v = int(ad.Data.Index)
					}
				}
				p, err := core.UnsignedDataSetToProto(set)
				hx.Must(err)
				e.onSub(i, d, v, ownHash(p))
				return nil
			})
		}
	}
	return e
}

func (e *episode) onSub(i int, d core.Duty, v int, h hash32) {
	e.mu.Lock()
	defer e.mu.Unlock()
	e.subEvs = append(e.subEvs, subEv{i, d, v, h})
	if e.delivered[d] == nil {
		e.delivered[d] = map[int]int{}
	}
	e.delivered[d][i]++
}

func (e *episode) ctxFor(d core.Duty) context.Context {
	if c, ok := e.ctxs[d]; ok {
		return c
	}
	c, cancel := context.WithCancel(context.Background())
	e.ctxs[d], e.cancels[d] = c, cancel
	return c
}

func (e *episode) setDL(d core.Duty, s string) {
	e.dl.mu.Lock()
	defer e.dl.mu.Unlock()
	if e.expired[d] {
		e.dl.status[d] = core.DeadlineExpired
		return
	}
	switch s {
	case "e":
		e.dl.status[d] = core.DeadlineExpired
	case "x":
		e.dl.status[d] = core.DeadlineExempt
	default:
		e.dl.status[d] = core.DeadlineScheduled
	}
}

func (e *episode) goCall(who string, d core.Duty, v int, start <-chan struct{}) {
	ctx := e.ctxFor(d)
	e.mu.Lock()
	if who == "P" {
		e.pendP[d]++
	} else {
		e.pendQ[d]++
	}
	e.mu.Unlock()
	go func() {
		if start != nil {
			<-start
		}
		var err error
		if who == "P" {
			if isCore(d) {
				err = e.cons.Propose(ctx, d, attSet(d, v))
			} else {
				err = e.cons.ProposePriority(ctx, d, prioValue(d, v))
			}
		} else {
			err = e.cons.Participate(ctx, d)
		}
		e.mu.Lock()
		e.results = append(e.results, callRes{who, d, err})
		if who == "P" {
			e.pendP[d]--
		} else {
			e.pendQ[d]--
		}
		e.mu.Unlock()
	}()
}

func classify(err error) string {
	if err == nil {
		return "ok"
	}
	s := err.Error()
	switch {
	case strings.Contains(s, "already proposed"):
		return "already-proposed"
	case strings.Contains(s, "already participated"):
		return "already-participated"
	case strings.Contains(s, "consensus timeout"):
		return "timeout"
	case strings.Contains(s, "input channel full"):
		return "chan-full"
	}
	return "other(" + strings.ReplaceAll(s, " ", "_") + ")"
}

type snapshot struct{ nres, nsub, entered, skipped int }

func (e *episode) snap(d core.Duty) snapshot {
	e.mu.Lock()
	defer e.mu.Unlock()
	e.dl.mu.Lock()
	defer e.dl.mu.Unlock()
	return snapshot{len(e.results), len(e.subEvs), e.dl.entered[d], e.dl.skipped[d]}
}

// stuck counts waits that ran into their timeout: the component did not reach the state every
// linearisation leads to (e.g. a goroutine blocked for good). The generator then stops early.
var stuck int

// waitFor polls cond (under the episode lock) for up to 3 s.
func (e *episode) waitFor(cond func() bool) bool {
	deadline := time.Now().Add(3 * time.Second)
	for {
		e.mu.Lock()
		e.dl.mu.Lock()
		ok := cond()
		e.dl.mu.Unlock()
		e.mu.Unlock()
		if ok {
			return true
		}
		if time.Now().After(deadline) {
			stuck++
			return false
		}
		time.Sleep(200 * time.Microsecond)
	}
}

func (e *episode) applicableSubs(d core.Duty) int {
	n := 0
	for i := 0; i < e.nsubs; i++ {
		if (i%2 == 1) == isCore(d) {
			n++
		}
	}
	return n
}

// summary renders what happened since `before` for duty d and runs the monitors.
func (e *episode) summary(d core.Duty, before snapshot) string {
	e.mu.Lock()
	defer e.mu.Unlock()
	e.dl.mu.Lock()
	defer e.dl.mu.Unlock()
	var ps, qs, subs []string
	for _, r := range e.results[before.nres:] {
		if r.who == "P" {
			ps = append(ps, classify(r.err))
		} else {
			qs = append(qs, classify(r.err))
		}
	}
	sort.Strings(ps)
	sort.Strings(qs)
	evs := append([]subEv{}, e.subEvs[before.nsub:]...)
	sort.Slice(evs, func(a, b int) bool { return evs[a].sub < evs[b].sub })
	for _, s := range evs {
		subs = append(subs, fmt.Sprintf("%d:%d", s.sub, s.v))
		if s.duty != d {
			e.run.Violate("conswrap:delivered_wrong_duty", fmt.Sprintf("subscriber %d called for duty %v during an op on %v", s.sub, s.duty, d))
		}
		want := ownHash(valueProto(s.duty, e.value[s.duty]))
		if s.hash != want {
			e.run.Violate("conswrap:delivered_value_hash_mismatch", fmt.Sprintf("subscriber %d got value %d for duty %v whose hash differs from the hash of the proposed value %d", s.sub, s.v, s.duty, e.value[s.duty]))
		}
	}
	// decided hash as sniffed from the instance's own COMMIT messages vs delivered values
	for _, inst := range e.sniffed {
		for _, m := range inst.GetMsgs() {
			qm := m.GetMsg().GetMsg()
			if qm == nil || qbft.MsgType(qm.GetType()) != qbft.MsgCommit {
				continue
			}
			du := core.DutyFromProto(qm.GetDuty())
			for _, s := range e.subEvs {
				if s.duty == du && hash32(qm.GetValueHash()) != s.hash {
					e.run.Violate("conswrap:delivered_value_hash_mismatch", fmt.Sprintf("duty %v: committed hash %x, delivered value hashes to %x", du, qm.GetValueHash()[:4], s.hash[:4]))
				}
			}
		}
	}
	e.sniffed = nil
	for sub, n := range e.delivered[d] {
		if n > 1 {
			e.run.Violate("conswrap:decide_delivered_twice", fmt.Sprintf("subscriber %d was called %d times for duty %v", sub, n, d))
		}
	}
	if e.dl.noTimer[d] > 0 {
		e.run.Violate("conswrap:round_timer_of_other_duty", fmt.Sprintf("qbft.Run entered for duty %v although no round timer was created for that duty (the instance runs on another duty's deadlines)", d))
		delete(e.dl.noTimer, d)
	}
	if e.dl.entered[d] > 1 {
		e.run.Violate("conswrap:two_runs_for_duty", fmt.Sprintf("qbft.Run entered %d times for duty %v", e.dl.entered[d], d))
	}
	if e.expired[d] && e.dl.entered[d] > before.entered {
		e.run.Violate("conswrap:run_after_expiry", fmt.Sprintf("qbft.Run entered for duty %v after the deadliner expired it", d))
	}
	if e.called[d] && e.dl.entered[d] == 0 {
		e.run.Violate("conswrap:no_run_started", fmt.Sprintf("Propose/Participate accepted for scheduled duty %v but qbft.Run was never entered", d))
	}
	exists, p, q, r, _ := e.cons.InstanceFlagsVerif(d)
	f := "-"
	if exists {
		b := func(x bool) string {
			if x {
				return "1"
			}
			return "0"
		}
		f = b(p) + b(q) + b(r)
	}
	return fmt.Sprintf("st=%d sk=%d P=[%s] Q=[%s] subs=[%s] pend=%d/%d ios=%d f=%s", e.dl.entered[d]-before.entered, e.dl.skipped[d]-before.skipped,
		strings.Join(ps, ","), strings.Join(qs, ","), strings.Join(subs, ","), e.pendP[d], e.pendQ[d], e.cons.InstanceCountVerif(), f)
}

// Waiting (not judging): after an op the harness waits until nothing more can happen without a
// further op. live: a run was entered and has neither decided nor been cancelled; attached: no
// expiry since it started; cand: the current IO generation holds a candidate value.
func (e *episode) decisionDue(d core.Duty) bool {
	return e.live[d] && e.attached[d] && e.hasCand[d]
}

// settle waits for the op's own calls (n of them) to return or to enter qbft.Run, then for a due decision.
func (e *episode) settle(d core.Duty, before snapshot, n int) {
	e.waitFor(func() bool {
		returned := len(e.results) - before.nres
		started := e.dl.entered[d] - before.entered
		if started > 0 {
			e.live[d], e.attached[d] = true, true
		}
		if e.decisionDue(d) {
			if len(e.delivered[d]) >= e.applicableSubs(d) && e.pendP[d] == 0 && e.pendQ[d] == 0 {
				e.live[d] = false
				return true
			}
			return false
		}
		return returned+started >= n
	})
}

// awaitRunStart: Propose / Participate return as soon as they have launched `go runInstance`; that goroutine fetches the
// instance IO first and only then asks the deadliner. An op that follows immediately (expire: deleteInstanceIO) could
// overtake it on a loaded machine — the goroutine would then re-create the IO it was started for and the instance count
// would differ from the model's (seen once in a thorough sweep under load). The op therefore ends only when the launched
// run has reached the deadliner (entered qbft.Run or skipped).
func (e *episode) awaitRunStart(d core.Duty) {
	if ex, _, _, r, _ := e.cons.InstanceFlagsVerif(d); !ex || !r {
		return
	}
	e.waitFor(func() bool { return e.dl.entered[d]+e.dl.skipped[d] >= 1 })
}

func (e *episode) mkMsg(d core.Duty, v int, kind string) *pbv1.QBFTConsensusMsg {
	val := valueProto(d, v)
	h, err := cqbft.HashProtoVerif(val)
	hx.Must(err)
	a, err := anypb.New(val)
	hx.Must(err)
	vals := map[hash32]*anypb.Any{h: a}
	if kind == "pp" {
		m, err := cqbft.CreateMsgVerif(qbft.MsgPrePrepare, d, 0, 1, h, 0, hash32{}, vals, nil, e.priv)
		hx.Must(err)
		return m.ToConsensusMsg()
	}
	c, err := cqbft.CreateMsgVerif(qbft.MsgCommit, d, 0, 1, h, 0, hash32{}, vals, nil, e.priv)
	hx.Must(err)
	m, err := cqbft.CreateMsgVerif(qbft.MsgDecided, d, 0, 1, h, 0, hash32{}, vals, []qmsg{c}, e.priv)
	hx.Must(err)
	w := m.ToConsensusMsg()
	extra, err := anypb.New(valueProto(d, v+500)) // an unreferenced value travelling with the decision
	hx.Must(err)
	w.Values = append([]*anypb.Any{extra}, w.Values...)
	return w
}

func parseDuty(a, b string) core.Duty {
	s, err := strconv.ParseUint(a, 10, 64)
	hx.Must(err)
	t, err := strconv.Atoi(b)
	hx.Must(err)
	return core.Duty{Slot: s, Type: core.DutyType(t)}
}

func (e *episode) noteCall(d core.Duty, effective bool) {
	e.dl.mu.Lock()
	st, ok := e.dl.status[d]
	e.dl.mu.Unlock()
	if effective && (!ok || st == core.DeadlineScheduled) && !e.expired[d] {
		e.mu.Lock()
		e.called[d] = true
		e.mu.Unlock()
	}
}

func (e *episode) exec(op string, participateEnabled bool) string {
	f := strings.Fields(op)
	d := parseDuty(f[1], f[2])
	before := e.snap(d)
	switch f[0] {
	case "propose":
		v, _ := strconv.Atoi(f[3])
		e.setDL(d, f[4])
		if _, ok := e.value[d]; !ok {
			e.value[d] = v
		}
		if ex, p, _, _, _ := e.cons.InstanceFlagsVerif(d); !(ex && p) {
			e.mu.Lock()
			e.hasCand[d] = true
			e.mu.Unlock()
			e.noteCall(d, true)
		}
		e.goCall("P", d, v, nil)
		e.settle(d, before, 1)
		e.awaitRunStart(d)
	case "participate":
		e.setDL(d, f[3])
		eff := participateEnabled && d.Type != core.DutyAggregator && d.Type != core.DutySyncContribution
		if ex, _, q, _, _ := e.cons.InstanceFlagsVerif(d); eff && !(ex && q) {
			e.noteCall(d, true)
		}
		e.goCall("Q", d, 0, nil)
		e.settle(d, before, 1)
		e.awaitRunStart(d)
	case "msg":
		v, _ := strconv.Atoi(f[3])
		e.setDL(d, f[5])
		if _, ok := e.value[d]; !ok {
			e.value[d] = v
		}
		err := e.cons.HandleVerif(context.Background(), "verif-peer", e.mkMsg(d, v, f[4]))
		if err == nil {
			e.mu.Lock()
			e.hasCand[d] = true
			e.mu.Unlock()
		}
		e.settle(d, before, 0)
	case "cancel":
		if c, ok := e.cancels[d]; ok {
			c()
			delete(e.ctxs, d)
			delete(e.cancels, d)
		}
		e.waitFor(func() bool { return e.pendP[d] == 0 && e.pendQ[d] == 0 })
		e.mu.Lock()
		e.live[d] = false
		e.mu.Unlock()
	case "expire":
		e.expired[d] = true
		e.setDL(d, "e")
		e.cons.DeleteInstanceIOVerif(d) // what the goroutine of Start does for a duty read from deadliner.C()
		e.mu.Lock()
		e.hasCand[d], e.attached[d] = false, false // a detached run never sees later values
		e.mu.Unlock()
		if ex, _, _, _, _ := e.cons.InstanceFlagsVerif(d); ex {
			e.run.Violate("conswrap:io_not_deleted", fmt.Sprintf("instance IO of %v still present right after expiry", d))
		}
	case "race":
		v, _ := strconv.Atoi(f[3])
		nP, _ := strconv.Atoi(f[4])
		nQ, _ := strconv.Atoi(f[5])
		withMsg := f[6] == "1"
		e.setDL(d, "s")
		if _, ok := e.value[d]; !ok {
			e.value[d] = v
		}
		start := make(chan struct{})
		e.mu.Lock()
		e.hasCand[d] = true
		e.mu.Unlock()
		e.noteCall(d, true)
		for i := 0; i < nP; i++ {
			e.goCall("P", d, v, start)
		}
		for i := 0; i < nQ; i++ {
			e.goCall("Q", d, 0, start)
		}
		var wg sync.WaitGroup
		if withMsg {
			m := e.mkMsg(d, v, []string{"pp", "dec"}[int(d.Slot)%2])
			wg.Add(1)
			go func() {
				defer wg.Done()
				<-start
				_ = e.cons.HandleVerif(context.Background(), "verif-peer", m)
			}()
		}
		close(start)
		wg.Wait()
		e.settle(d, before, nP+nQ)
	default:
		panic("bad op " + op)
	}
	return e.summary(d, before)
}

func (e *episode) close() {
	for _, c := range e.cancels {
		c()
	}
}

func main() {
	a := hx.ParseArgs()
	lvl := os.Getenv("CW_LOG")
	if lvl == "" {
		lvl = "error"
	}
	hx.Must(log.InitLogger(log.Config{Level: lvl, Format: "console", Color: "disable"}))
	run := hx.NewRun(a.Dir)
	defer run.Close()
	var ep *episode
	partEnabled := true
	do := func(op string) {
		f := strings.Fields(op)
		if f[0] == "cfg" {
			if ep != nil {
				ep.close()
			}
			n, _ := strconv.Atoi(f[1])
			partEnabled = f[2] == "1"
			ep = newEpisode(run, n, partEnabled)
			run.Op(op, "ok")
			return
		}
		before := stuck
		var out string
		func() {
			defer func() {
				if stuck > before { // reported while rendering the op (monitors first)
					run.Violate("conswrap:stuck", "the component did not settle within 3 s after: "+op)
				}
			}()
			out = ep.exec(op, partEnabled)
		}()
		run.Count("op:" + f[0])
		if f[0] == "race" {
			run.Op(op+" ;; "+out, out)
		} else {
			run.Op(op, out)
		}
		run.Case(f[0] + "|" + out[:strings.Index(out, " ios=")])
	}
	if a.Mode == "exec" {
		for _, op := range hx.ReadOps(a.Ops) {
			if i := strings.Index(op, " ;; "); i >= 0 {
				op = op[:i]
			}
			do(op)
		}
		if ep != nil {
			ep.close()
		}
		return
	}

	rng := hx.NewRng(a.Seed)
	types := []int{1, 2, 2, 3, 7, 8, 9, 10, 11, 12, 13, 4, 6} // 4, 6: exempt in production
	for run.NOps < a.N && stuck == 0 {
		do(fmt.Sprintf("cfg %d %d", rng.Intn(4), map[bool]int{true: 1, false: 0}[!rng.Chance(1, 6)]))
		nd := 2 + rng.Intn(4)
		var duties []core.Duty
		for i := 0; i < nd; i++ {
			duties = append(duties, core.Duty{Slot: uint64(100 + rng.Intn(900)), Type: core.DutyType(types[rng.Intn(len(types))])})
		}
		vOf := func(d core.Duty) int { return int(d.Slot%97) + 1 }
		late := map[core.Duty]bool{}
		for _, d := range duties {
			late[d] = rng.Chance(1, 8) // the deadline of this duty has already passed
		}
		dlOf := func(d core.Duty) string {
			if d.Type == 4 || d.Type == 6 {
				return "x"
			}
			if late[d] {
				return "e"
			}
			return "s"
		}
		for k := 0; k < 12+rng.Intn(25) && stuck == 0; k++ {
			d := duties[rng.Intn(len(duties))]
			ds := fmt.Sprintf("%d %d", d.Slot, int(d.Type))
			switch c := rng.Intn(100); {
			case c < 28:
				do(fmt.Sprintf("propose %s %d %s", ds, vOf(d), dlOf(d)))
			case c < 50:
				do(fmt.Sprintf("participate %s %s", ds, dlOf(d)))
			case c < 65:
				do(fmt.Sprintf("msg %s %d %s %s", ds, vOf(d), []string{"pp", "dec"}[rng.Intn(2)], dlOf(d)))
			case c < 73:
				do("cancel " + ds)
			case c < 85:
				do("expire " + ds)
			default:
				// a race on a fresh duty
				fd := core.Duty{Slot: uint64(2000 + run.NOps), Type: core.DutyType(types[rng.Intn(len(types)-2)])}
				do(fmt.Sprintf("race %d %d %d %d %d %d", fd.Slot, int(fd.Type), vOf(fd), 1+rng.Intn(2), rng.Intn(3), rng.Intn(2)))
			}
		}
		// make sure nothing is left blocked (keeps goroutines from piling up)
		for _, d := range duties {
			if ep.pendP[d]+ep.pendQ[d] > 0 {
				do(fmt.Sprintf("cancel %d %d", d.Slot, int(d.Type)))
			}
		}
	}
	if ep != nil {
		ep.close()
	}
}
