// Wire episodes of drive-retry (ops wnew / wcall / wret / wfire / wexpire): the REAL core.WithAsyncRetry wrapping
// (core/retry.go) is applied to five scripted inner functions through the hook core.VerifWrapEdges, over a real
// retry.Retryer[core.Duty] built with retry.NewForT. A call `wcall <id> <edge> <duty>` invokes the wrapped edge
// function with duty slot <duty> and a set whose only key is "s<id>"; every invocation of an inner function reports
// the (duty, set) pair it was handed.
package main

import (
	"context"
	"fmt"
	"runtime"
	"sort"
	"strconv"
	"strings"
	"sync"
	"time"

	"github.com/obolnetwork/charon/app/retry"
	"github.com/obolnetwork/charon/core"

	"verifharness/hx"
)

// participate has no set: its duty slot carries the call id as well (slot = id*partBase + duty)
const partBase = 1000000

type wepisode struct {
	ep      *episode // monitor bookkeeping shared with react (never shut down)
	r       *retry.Retryer[core.Duty]
	edges   core.VerifRetryEdges
	mu      sync.Mutex
	calls   map[int]*call
	order   []int
	current *call
	foreign chan string // invocations of an inner function with a pair no call of that edge captured
}

func setKey(id int) core.PubKey { return core.PubKey(fmt.Sprintf("s%d", id)) }

func decodeSet[V any](m map[core.PubKey]V) (int, bool) {
	if len(m) != 1 {
		return -1, false
	}
	for k := range m {
		s := string(k)
		if !strings.HasPrefix(s, "s") {
			return -1, false
		}
		id, err := strconv.Atoi(s[1:])
		return id, err == nil
	}
	return -1, false
}

func (w *wepisode) cur() *call {
	w.mu.Lock()
	defer w.mu.Unlock()
	return w.current
}

func newWepisode() *wepisode {
	w := &wepisode{ep: &episode{calls: map[int]*call{}}, calls: map[int]*call{}, foreign: make(chan string, 1024)}
	ctxTimeout := func(ctx context.Context, _ core.Duty) (context.Context, context.CancelFunc) {
		c := w.cur()
		ctx2, cancel := context.WithDeadline(ctx, time.Now().Add(24*time.Hour))
		c.mu.Lock()
		c.dlCancel = cancel
		c.mu.Unlock()
		return ctx2, cancel
	}
	backoffProvider := func() func(int) *time.Timer {
		c := w.cur()
		return func(i int) *time.Timer {
			t := time.NewTimer(24 * time.Hour)
			c.mu.Lock()
			c.timer = t
			c.mu.Unlock()
			c.sig <- sig{kind: "backoff", i: i}
			return t
		}
	}
	w.r = retry.NewForT[core.Duty](nil, ctxTimeout, backoffProvider)
	inner := core.VerifRetryEdges{
		FetcherFetch: func(ctx context.Context, d core.Duty, s core.DutyDefinitionSet) error {
			id, ok := decodeSet(s)
			return w.inner(0, ctx, d, id, ok)
		},
		ConsensusParticipate: func(ctx context.Context, d core.Duty) error {
			return w.inner(1, ctx, d, int(d.Slot)/partBase, true)
		},
		ConsensusPropose: func(ctx context.Context, d core.Duty, s core.UnsignedDataSet) error {
			id, ok := decodeSet(s)
			return w.inner(2, ctx, d, id, ok)
		},
		ParSigExBroadcast: func(ctx context.Context, d core.Duty, s core.ParSignedDataSet) error {
			id, ok := decodeSet(s)
			return w.inner(3, ctx, d, id, ok)
		},
		BroadcasterBroadcast: func(ctx context.Context, d core.Duty, s core.SignedDataSet) error {
			id, ok := decodeSet(s)
			return w.inner(4, ctx, d, id, ok)
		},
	}
	w.edges = core.VerifWrapEdges(inner, core.WithAsyncRetry(w.r))
	return w
}

// inner is the scripted component input of edge `edge`. The monitor part: the pair it is handed must be the
// pair some call of THIS edge captured.
func (w *wepisode) inner(edge int, ctx context.Context, d core.Duty, setID int, okSet bool) error {
	slot := int(d.Slot)
	if edge == 1 {
		slot %= partBase
	}
	w.mu.Lock()
	c := w.calls[setID]
	w.mu.Unlock()
	lab := labels[edge][0] + "/" + labels[edge][1]
	if !okSet || c == nil || c.label != edge || c.duty != slot || d.Type != core.DutyAttester {
		msg := fmt.Sprintf("edge %s: the inner function was invoked with duty d%d (type %v) and set s%d", lab, slot, d.Type, setID)
		switch {
		case !okSet || c == nil:
			msg += ", a set no call passed in"
		case c.label != edge:
			msg += fmt.Sprintf("; that set was captured by call %d of edge %s", c.id, labels[c.label][0]+"/"+labels[c.label][1])
		default:
			msg += fmt.Sprintf("; that set was captured by call %d under duty d%d", c.id, c.duty)
		}
		select {
		case w.foreign <- msg:
		default:
		}
		return nil
	}
	if c.inFn.Add(1) > 1 {
		c.conc.Store(true)
	}
	c.mu.Lock()
	c.fnCtx = ctx
	c.mu.Unlock()
	c.sig <- sig{kind: "enter", exp: ctx.Err() != nil, duty: slot, set: setID}
	o := <-c.outc
	c.inFn.Add(-1)
	return o.err
}

func (w *wepisode) totalActive() int {
	n := 0
	for _, v := range w.r.VerifActive() {
		n += v
	}
	return n
}

func (w *wepisode) activeDump() string {
	m := w.r.VerifActive()
	keys := make([]string, 0, len(m))
	for k := range m {
		keys = append(keys, k)
	}
	sort.Strings(keys)
	var parts []string
	for _, k := range keys {
		parts = append(parts, fmt.Sprintf("%s:%d", k, m[k]))
	}
	return strings.Join(parts, ",")
}

// wwait: the call's next reaction. The wrapper owns the DoAsync goroutine, so "DoAsync returned" is observed as
// one entry less in the retryer's active map.
func (w *wepisode) wwait(c *call, before int) sig {
	deadline := time.Now().Add(watchdog)
	for k := 0; ; k++ {
		select {
		case s := <-c.sig:
			return s
		default:
		}
		if w.totalActive() < before {
			select {
			case s := <-c.sig:
				return s
			default:
			}
			return sig{kind: "returned"}
		}
		if k%256 == 255 && time.Now().After(deadline) {
			stuck++
			return sig{kind: "stuck"}
		}
		if k < 200 {
			runtime.Gosched()
		} else {
			time.Sleep(20 * time.Microsecond)
		}
	}
}

func (w *wepisode) drainForeign(run *hx.Run) {
	for {
		select {
		case msg := <-w.foreign:
			run.Violate("retry:edge_delivered_foreign_pair", msg)
		default:
			return
		}
	}
}

func (w *wepisode) render(run *hx.Run, c *call, s sig, why string) string {
	out := w.ep.react(run, c, s, why)
	if s.kind == "enter" {
		out += fmt.Sprintf(":d%d/s%d@%s/%s", s.duty, s.set, labels[c.label][0], labels[c.label][1])
	}
	return out
}

func (w *wepisode) exec(run *hx.Run, f []string) string {
	var evs []string
	w.drainForeign(run)
	for _, id := range w.order {
		c := w.calls[id]
		if c.phase == "done" {
			continue
		}
		select {
		case s := <-c.sig:
			evs = append(evs, w.render(run, c, s, "pending"))
		default:
		}
	}
	get := func() *call {
		id, err := strconv.Atoi(f[1])
		if err != nil {
			return nil
		}
		return w.calls[id]
	}
	switch f[0] {
	case "wcall":
		id, _ := strconv.Atoi(f[1])
		edge, _ := strconv.Atoi(f[2])
		duty, _ := strconv.Atoi(f[3])
		if w.calls[id] != nil {
			break
		}
		c := &call{id: id, label: edge, duty: duty, dl: true, sig: make(chan sig, 64), outc: make(chan outcome, 1), phase: "inflight"}
		w.mu.Lock()
		w.calls[id] = c
		w.current = c
		w.mu.Unlock()
		w.order = append(w.order, id)
		d := core.Duty{Slot: uint64(duty), Type: core.DutyAttester}
		ctx := context.Background()
		var err error
		switch edge {
		case 0:
			err = w.edges.FetcherFetch(ctx, d, core.DutyDefinitionSet{setKey(id): nil})
		case 1:
			d.Slot = uint64(id*partBase + duty)
			err = w.edges.ConsensusParticipate(ctx, d)
		case 2:
			err = w.edges.ConsensusPropose(ctx, d, core.UnsignedDataSet{setKey(id): nil})
		case 3:
			err = w.edges.ParSigExBroadcast(ctx, d, core.ParSignedDataSet{setKey(id): core.ParSignedData{}})
		case 4:
			err = w.edges.BroadcasterBroadcast(ctx, d, core.SignedDataSet{setKey(id): nil})
		}
		if err != nil {
			run.Violate("retry:wrapped_edge_returned_error", fmt.Sprintf("call %d: the wrapped edge function returned %v instead of nil", id, err))
		}
		// the first reaction is the entry of attempt 0 (the call cannot have returned before)
		evs = append(evs, w.render(run, c, w.wwait(c, -1), "call"))
		run.Count("op:wcall")
		run.Count("wcall:" + labels[edge][0] + "/" + labels[edge][1])
	case "wret":
		c := get()
		if c == nil || c.phase != "inflight" {
			run.Count("op:wret-noop")
			break
		}
		o, okOp := prepRet(run, w.ep, c, f)
		if !okOp {
			return "bad-op"
		}
		before := w.totalActive()
		c.outc <- o
		evs = append(evs, w.render(run, c, w.wwait(c, before), "ret"))
	case "wfire":
		c := get()
		if c == nil || c.phase != "backoff" {
			run.Count("op:wfire-noop")
			break
		}
		// overlap case: while this call waited, another call of the same edge succeeded
		for _, id := range w.order {
			if o := w.calls[id]; o != c && o.label == c.label && o.gotOK && o.duty != c.duty {
				run.Case(fmt.Sprintf("wfire-after-other-success|%d", c.label))
				run.Count("wfire:after-success-of-other-duty")
				break
			}
		}
		before := w.totalActive()
		c.mu.Lock()
		t := c.timer
		c.mu.Unlock()
		t.Reset(0)
		evs = append(evs, w.render(run, c, w.wwait(c, before), "fire"))
		run.Count("op:wfire")
	case "wexpire":
		c := get()
		if c == nil || c.expFlag || c.phase == "done" {
			run.Count("op:wexpire-noop")
			break
		}
		c.expFlag = true
		before := w.totalActive()
		c.mu.Lock()
		cancel := c.dlCancel
		c.mu.Unlock()
		cancel()
		if c.phase == "backoff" {
			evs = append(evs, w.render(run, c, w.wwait(c, before), "expire"))
		}
		run.Count("op:wexpire")
	default:
		return "bad-op"
	}
	for k := 0; k < 50; k++ {
		runtime.Gosched()
	}
	w.drainForeign(run)
	out := "-"
	if len(evs) > 0 {
		out = strings.Join(evs, " ")
	}
	return out + " | active=" + w.activeDump()
}

// abandon releases what the episode left behind; foreign invocations that happen late are still reported.
func (w *wepisode) abandon(run *hx.Run) {
	if w == nil {
		return
	}
	time.Sleep(20 * time.Millisecond)
	w.drainForeign(run)
	ctx, cancel := context.WithCancel(context.Background())
	cancel()
	go func() {
		defer func() { _ = recover() }()
		w.r.Shutdown(ctx)
	}()
	for _, c := range w.calls {
		if c.phase == "inflight" {
			select {
			case c.outc <- outcome{}:
			default:
			}
		}
	}
}
