// drive-retry: correspondence driver for the asynchronous retry layer of the duty pipeline (C01):
// app/retry/retry.go (Retryer.DoAsync, startAsync / endAsync, Shutdown, isTemporaryBeaconErr,
// delayForIteration) and the list of edges core.WithAsyncRetry wraps (core/retry.go).
//
// The REAL retryer (retry.NewForT: injectable deadline context and backoff timer) is driven in strict
// lock-step: the wrapped function of every call is a scripted function that reports its entry and then
// blocks until the driver hands it the outcome of that attempt; backoff timers are real timers armed for a
// day that the driver fires with Reset(0); the duty deadline is a context the driver cancels. After every op
// the driver waits for the one reaction the op must cause (watchdog only) and prints what it observed.
//
// ops (see lean/Driver/Retry.lean):
//
//	cfg | new | call <id> <label> <dl> <pre> <pc> | ret <id> ok | ret <id> <kind> <hexmsg|->
//	fire <id> | expire <id> | pcancel <id> | shutdown | sdcancel | delay <i>
//
// answer: events (`-` when none) ` | active=` the retryer's own active map (hook VerifActive), sorted.
package main

import (
	"context"
	"encoding/hex"
	stderrors "errors"
	"fmt"
	"go/ast"
	"go/parser"
	"go/token"
	"os"
	"path/filepath"
	"runtime"
	"sort"
	"strconv"
	"strings"
	"sync"
	"sync/atomic"
	"time"

	"github.com/obolnetwork/charon/app/errors"
	"github.com/obolnetwork/charon/app/expbackoff"
	"github.com/obolnetwork/charon/app/log"
	"github.com/obolnetwork/charon/app/retry"

	"verifharness/hx"
)

var labels = [][2]string{{"fetcher", "fetch"}, {"consensus", "participate"}, {"consensus", "propose"},
	{"parsigex", "broadcast"}, {"bcast", "broadcast"}}

const watchdog = 8 * time.Second

// stuck counts watchdog expiries: after three the run stops generating (the implementation is evidently broken)
var stuck int

type sig struct {
	kind string // enter | backoff | returned | panic
	i    int
	exp  bool
	duty int // wire episodes: the duty slot and the set id the inner function was handed
	set  int
}

type outcome struct{ err error }

type call struct {
	id, label   int
	duty        int // wire episodes: the duty the wrapped edge function was called with (the set id is id)
	dl, pre, pc bool
	sig         chan sig
	outc        chan outcome
	mu          sync.Mutex
	timer       *time.Timer
	fnCtx       context.Context // the context the running attempt was given
	dlCancel    context.CancelFunc
	pCancel     context.CancelFunc

	// observed
	phase   string // inflight | backoff | done
	entered int
	inFn    atomic.Int32
	conc    atomic.Bool // two attempts of this call were inside the wrapped function at once

	// monitor bookkeeping (the driver's own knowledge of what it did)
	gotOK, gotPerm  bool
	expFlag         bool // the driver cancelled the deadline (or it was in the past from the start)
	afterShutdown   bool // DoAsync was launched after Shutdown had been called
	lastRetryable   bool
	awaitingBackoff bool
}

type netErr struct{ msg string }

func (e netErr) Error() string   { return e.msg }
func (e netErr) Timeout() bool   { return true }
func (e netErr) Temporary() bool { return true }

type episode struct {
	r        *retry.Retryer[*call]
	calls    map[int]*call
	order    []int
	current  *call // the call whose DoAsync is between launch and its first reaction
	shutdown bool
	sdWait   bool
	sdCancel context.CancelFunc
	sdRet    chan bool // Shutdown returned; value: some wrapped function was running at that moment
	sdTimed  atomic.Bool
}

func newEpisode() *episode {
	ep := &episode{calls: map[int]*call{}}
	ctxTimeout := func(ctx context.Context, c *call) (context.Context, context.CancelFunc) {
		if !c.dl {
			return ctx, func() {} // what retry.New does when the deadline function says !ok
		}
		if c.pre {
			return context.WithDeadline(ctx, time.Unix(1, 0))
		}
		ctx2, cancel := context.WithDeadline(ctx, time.Now().Add(24*time.Hour))
		c.mu.Lock()
		c.dlCancel = cancel
		c.mu.Unlock()
		return ctx2, cancel
	}
	backoffProvider := func() func(int) *time.Timer {
		c := ep.current
		return func(i int) *time.Timer {
			t := time.NewTimer(24 * time.Hour)
			c.mu.Lock()
			c.timer = t
			c.mu.Unlock()
			c.sig <- sig{kind: "backoff", i: i}
			return t
		}
	}
	ep.r = retry.NewForT[*call](nil, ctxTimeout, backoffProvider)
	return ep
}

// abandon releases everything an episode left behind (not observed).
func (ep *episode) abandon() {
	if ep == nil {
		return
	}
	if !ep.shutdown {
		ctx, cancel := context.WithCancel(context.Background())
		cancel()
		go func() {
			defer func() { _ = recover() }()
			ep.r.Shutdown(ctx)
		}()
	} else if ep.sdWait {
		ep.sdCancel()
	}
	for _, c := range ep.calls {
		if c.phase == "inflight" {
			select {
			case c.outc <- outcome{}:
			default:
			}
		}
	}
}

func (c *call) wait() sig {
	select {
	case s := <-c.sig:
		return s
	case <-time.After(watchdog):
		stuck++
		return sig{kind: "stuck"}
	}
}

func (ep *episode) activeDump() string {
	m := ep.r.VerifActive()
	keys := make([]string, 0, len(m))
	for k := range m {
		keys = append(keys, k)
	}
	sort.Strings(keys)
	var parts []string
	for _, k := range keys {
		parts = append(parts, fmt.Sprintf("%s:%d", k, m[k]))
	}
	return strings.Join(parts, ",")
}

// react renders the reaction of call c and runs the monitors that judge it.
func (ep *episode) react(run *hx.Run, c *call, s sig, why string) string {
	if c.conc.Load() {
		run.Violate("retry:concurrent_attempts_same_call", fmt.Sprintf("call %d: two attempts inside the wrapped function at once (%s)", c.id, why))
		c.conc.Store(false)
	}
	switch s.kind {
	case "enter":
		i := c.entered
		c.entered++
		c.phase = "inflight"
		if c.gotOK {
			run.Violate("retry:attempt_after_success", fmt.Sprintf("call %d: attempt %d started after an attempt had succeeded (%s)", c.id, i, why))
		}
		if c.gotPerm {
			run.Violate("retry:permanent_error_retried", fmt.Sprintf("call %d: attempt %d started after a permanent error (%s)", c.id, i, why))
		}
		if i >= 1 && c.expFlag {
			run.Violate("retry:attempt_after_deadline", fmt.Sprintf("call %d: retry attempt %d started after the duty deadline had passed (%s)", c.id, i, why))
		}
		if c.afterShutdown || ep.shutdown {
			run.Violate("retry:attempt_after_shutdown", fmt.Sprintf("call %d: attempt %d started after Shutdown had been called (%s)", c.id, i, why))
		}
		run.Count("ev:start")
		return fmt.Sprintf("start:%d:%d:x%d", c.id, i, b2i(s.exp))
	case "backoff":
		c.phase = "backoff"
		if c.gotOK {
			run.Violate("retry:attempt_after_success", fmt.Sprintf("call %d: backoff armed after an attempt had succeeded (%s)", c.id, why))
		}
		if c.gotPerm {
			run.Violate("retry:permanent_error_retried", fmt.Sprintf("call %d: backoff armed after a permanent error (%s)", c.id, why))
		}
		run.Count("ev:backoff")
		return fmt.Sprintf("backoff:%d:%d", c.id, s.i)
	case "returned":
		was := c.phase
		c.phase = "done"
		if c.entered == 0 {
			run.Count("ev:drop")
			return fmt.Sprintf("drop:%d", c.id)
		}
		// call_lost: a temporary error before the deadline, no shutdown — the call must go on
		if why == "ret" && was == "inflight" && c.lastRetryable && !c.expFlag && !ep.shutdown {
			run.Violate("retry:call_lost", fmt.Sprintf("call %d: a retryable error before the deadline was not retried (DoAsync returned)", c.id))
		}
		if why == "fire" && !c.expFlag && !ep.shutdown {
			run.Violate("retry:call_lost", fmt.Sprintf("call %d: the backoff timer fired before the deadline and DoAsync returned without a new attempt", c.id))
		}
		if why == "pending" {
			run.Violate("retry:call_lost", fmt.Sprintf("call %d: DoAsync returned although nothing happened to the call (parent context?)", c.id))
		}
		run.Count("ev:returned")
		return fmt.Sprintf("ret:%d", c.id)
	case "panic":
		c.phase = "done"
		run.Violate("retry:panic", fmt.Sprintf("call %d: DoAsync panicked (%s)", c.id, why))
		return fmt.Sprintf("panic:%d", c.id)
	default:
		run.Violate("retry:no_reaction", fmt.Sprintf("call %d: no reaction within the watchdog time (%s)", c.id, why))
		return fmt.Sprintf("stuck:%d", c.id)
	}
}

func b2i(b bool) int {
	if b {
		return 1
	}
	return 0
}

func mkErr(kind, msg string) (error, string) {
	switch kind {
	case "plain":
		return stderrors.New(msg), msg
	case "net":
		return netErr{msg}, msg
	case "wnet":
		return errors.Wrap(netErr{msg}, "wrap"), "wrap: " + msg
	case "ctxc":
		return fmt.Errorf("%s: %w", msg, context.Canceled), msg + ": context canceled"
	case "ctxd":
		return fmt.Errorf("%s: %w", msg, context.DeadlineExceeded), msg + ": context deadline exceeded"
	case "wctxc":
		return errors.Wrap(context.Canceled, msg), msg + ": context canceled"
	}
	return nil, ""
}

// specRetryable: the monitor's own reading of the rule (network, context and the three beacon-node texts).
func specRetryable(kind, text string) bool {
	if kind != "plain" {
		return true
	}
	return strings.Contains(text, "future") || strings.Contains(text, "current or previous") || strings.Contains(text, "retryable")
}

func (ep *episode) launch(c *call) {
	parent, pcancel := context.WithCancel(context.Background())
	c.pCancel = pcancel
	if c.pc {
		pcancel()
	}
	ep.current = c
	lab := labels[c.label]
	go func() {
		defer func() {
			if r := recover(); r != nil {
				c.sig <- sig{kind: "panic"}
			}
		}()
		ep.r.DoAsync(parent, c, lab[0], lab[1], func(ctx context.Context) error {
			if c.inFn.Add(1) > 1 {
				c.conc.Store(true)
			}
			c.mu.Lock()
			c.fnCtx = ctx
			c.mu.Unlock()
			c.sig <- sig{kind: "enter", exp: ctx.Err() != nil}
			o := <-c.outc
			c.inFn.Add(-1)
			return o.err
		})
		c.sig <- sig{kind: "returned"}
	}()
}

// prepRet builds the outcome the op `ret` / `wret` hands to the running attempt and records what the monitors
// need to know about it.
func prepRet(run *hx.Run, ep *episode, c *call, f []string) (outcome, bool) {
	var o outcome
	if f[2] == "ok" {
		c.gotOK = true
		c.lastRetryable = false
		run.Count("ret:ok")
	} else {
		raw := ""
		if f[3] != "-" {
			b, _ := hex.DecodeString(f[3])
			raw = string(b)
		}
		err, text := mkErr(f[2], raw)
		if err == nil {
			return o, false
		}
		if err.Error() != text {
			run.Violate("retry:driver_error_text", fmt.Sprintf("error text %q, expected %q", err.Error(), text))
		}
		o.err = err
		c.lastRetryable = specRetryable(f[2], text)
		if !c.lastRetryable {
			c.gotPerm = true
		}
		if retry.VerifIsTemporaryBeaconErr(err) != (strings.Contains(text, "future") || strings.Contains(text, "current or previous") || strings.Contains(text, "retryable")) {
			run.Violate("retry:temporary_classification", fmt.Sprintf("isTemporaryBeaconErr(%q) disagrees with the three-substring rule", text))
		}
		run.Count("ret:" + f[2] + map[bool]string{true: ":retryable", false: ":permanent"}[c.lastRetryable])
		run.Case(fmt.Sprintf("ret|%s|%v|exp%v|sd%v|i%d", f[2], c.lastRetryable, c.expFlag, ep.shutdown, min(c.entered, 4)))
	}
	return o, true
}

// settle: Shutdown must return exactly when no call is left.
func (ep *episode) settle(run *hx.Run, evs []string) []string {
	if !ep.sdWait {
		return evs
	}
	live := 0
	for _, c := range ep.calls {
		if c.phase != "done" {
			live++
		}
	}
	if live > 0 {
		select {
		case busy := <-ep.sdRet:
			ep.sdWait = false
			run.Violate("retry:shutdown_returned_with_inflight", fmt.Sprintf("Shutdown returned (its context not done) while %d calls had not returned (wrapped function running: %v)", live, busy))
			return append(evs, "sd:ok")
		default:
		}
		return evs
	}
	select {
	case busy := <-ep.sdRet:
		ep.sdWait = false
		if busy {
			run.Violate("retry:shutdown_returned_with_inflight", "Shutdown returned while a wrapped function was still running")
		}
		return append(evs, "sd:ok")
	case <-time.After(watchdog):
		stuck++
		ep.sdWait = false
		run.Violate("retry:shutdown_never_returned", "no call is active and Shutdown does not return")
		return append(evs, "sd:stuck")
	}
}

func (ep *episode) exec(run *hx.Run, f []string) string {
	var evs []string
	// a reaction nobody asked for (e.g. a call that returned because the parent context was cancelled)
	// is consumed here, before the op, and makes the streams differ
	for _, id := range ep.order {
		c := ep.calls[id]
		if c.phase == "done" {
			continue
		}
		select {
		case s := <-c.sig:
			evs = append(evs, ep.react(run, c, s, "pending"))
		default:
		}
	}
	get := func() *call {
		id, err := strconv.Atoi(f[1])
		if err != nil {
			return nil
		}
		return ep.calls[id]
	}
	switch f[0] {
	case "call":
		id, _ := strconv.Atoi(f[1])
		lab, _ := strconv.Atoi(f[2])
		if ep.calls[id] != nil {
			break
		}
		c := &call{id: id, label: lab, dl: f[3] == "1", pre: f[4] == "1", pc: f[5] == "1",
			sig: make(chan sig, 64), outc: make(chan outcome, 1), phase: "inflight"}
		c.expFlag = c.dl && c.pre
		c.afterShutdown = ep.shutdown
		ep.calls[id] = c
		ep.order = append(ep.order, id)
		ep.launch(c)
		evs = append(evs, ep.react(run, c, c.wait(), "call"))
		run.Count("op:call")
	case "ret":
		c := get()
		if c == nil || c.phase != "inflight" {
			run.Count("op:ret-noop")
			break
		}
		o, okOp := prepRet(run, ep, c, f)
		if !okOp {
			return "bad-op"
		}
		c.outc <- o
		evs = append(evs, ep.react(run, c, c.wait(), "ret"))
	case "fire":
		c := get()
		if c == nil || c.phase != "backoff" {
			run.Count("op:fire-noop")
			break
		}
		c.mu.Lock()
		t := c.timer
		c.mu.Unlock()
		t.Reset(0)
		evs = append(evs, ep.react(run, c, c.wait(), "fire"))
		run.Count("op:fire")
	case "expire":
		c := get()
		if c == nil || !c.dl || c.expFlag || ep.shutdown || c.phase == "done" {
			run.Count("op:expire-noop")
			break
		}
		c.expFlag = true
		c.mu.Lock()
		cancel := c.dlCancel
		c.mu.Unlock()
		cancel()
		if c.phase == "backoff" {
			evs = append(evs, ep.react(run, c, c.wait(), "expire"))
			run.Count("op:expire-backoff")
		} else {
			run.Count("op:expire-inflight")
		}
	case "pcancel":
		c := get()
		if c != nil {
			c.pCancel()
			run.Count("op:pcancel:" + c.phase)
		}
	case "shutdown":
		if ep.shutdown {
			break // a second Shutdown closes a closed channel (panics); the lifecycle calls it once
		}
		ep.shutdown = true
		ep.sdWait = true
		ctx, cancel := context.WithCancel(context.Background())
		ep.sdCancel = cancel
		ep.sdRet = make(chan bool, 1)
		var snap []*call
		for _, id := range ep.order {
			snap = append(snap, ep.calls[id])
		}
		go func() {
			ep.r.Shutdown(ctx)
			busy := false
			for _, c := range snap {
				if c.inFn.Load() > 0 {
					busy = true
				}
			}
			ep.sdRet <- ctx.Err() == nil && busy
		}()
		// Shutdown runs on its own goroutine: probe calls (not part of the model; they return nil at once) are
		// made until startAsync refuses one, i.e. until the shutdown channel is closed
		probe := &call{id: -1, sig: make(chan sig, 4)}
		ep.current = probe
		probeStart := time.Now()
		for k := 0; ; k++ {
			entered := false
			ep.r.DoAsync(context.Background(), probe, "probe", "probe", func(context.Context) error {
				entered = true
				return nil
			})
			if !entered {
				break
			}
			if k%64 == 63 && time.Since(probeStart) > watchdog {
				stuck++
				run.Violate("retry:start_after_shutdown", "DoAsync is still admitted long after Shutdown was called")
				break
			}
			runtime.Gosched()
		}
		nb, nf := 0, 0
		for _, id := range ep.order {
			c := ep.calls[id]
			if c.phase == "backoff" {
				nb++
				evs = append(evs, ep.react(run, c, c.wait(), "shutdown"))
			} else if c.phase == "inflight" {
				nf++
				// the running attempt's context is cancelled by Shutdown (asyncCancel follows close(shutdown)):
				// waiting for it makes sure that Shutdown has taken effect before the next op
				c.mu.Lock()
				fctx := c.fnCtx
				c.mu.Unlock()
				select {
				case <-fctx.Done():
				case <-time.After(watchdog):
					stuck++
					run.Violate("retry:shutdown_ctx_not_cancelled", fmt.Sprintf("call %d: the running attempt's context was not cancelled by Shutdown", c.id))
				}
			}
		}
		run.Count("op:shutdown")
		run.Case(fmt.Sprintf("shutdown|b%d|f%d", min(nb, 3), min(nf, 3)))
	case "sdcancel":
		if !ep.sdWait {
			break
		}
		ep.sdCancel()
		select {
		case <-ep.sdRet:
			evs = append(evs, "sd:timeout")
		case <-time.After(watchdog):
			run.Violate("retry:shutdown_never_returned", "Shutdown's context is done and Shutdown does not return")
			evs = append(evs, "sd:stuck")
		}
		ep.sdWait = false
		run.Count("op:sdcancel")
	default:
		return "bad-op"
	}
	evs = ep.settle(run, evs)
	out := "-"
	if len(evs) > 0 {
		out = strings.Join(evs, " ")
	}
	return out + " | active=" + ep.activeDump()
}

// ---- the wiring pin: go/ast over core/retry.go and core/interfaces.go (fail closed) ----

func repoDir() string {
	if v := os.Getenv("VERIF_REPO"); v != "" {
		return v
	}
	return "/repo"
}

func wirePin() string {
	fset := token.NewFileSet()
	rf, err := parser.ParseFile(fset, filepath.Join(repoDir(), "core", "retry.go"), nil, parser.SkipObjectResolution)
	if err != nil {
		return "wire-unrecognised:parse-retry.go"
	}
	var wrapped []string
	isWrapped := map[string]bool{}
	found := false
	for _, d := range rf.Decls {
		fd, ok := d.(*ast.FuncDecl)
		if !ok || fd.Name.Name != "WithAsyncRetry" {
			continue
		}
		found = true
		if len(fd.Body.List) != 1 {
			return "wire-unrecognised:body"
		}
		rs, ok := fd.Body.List[0].(*ast.ReturnStmt)
		if !ok || len(rs.Results) != 1 {
			return "wire-unrecognised:return"
		}
		fl, ok := rs.Results[0].(*ast.FuncLit)
		if !ok {
			return "wire-unrecognised:funclit"
		}
		for k, st := range fl.Body.List {
			as, ok := st.(*ast.AssignStmt)
			if !ok || len(as.Lhs) != 1 || len(as.Rhs) != 1 {
				return "wire-unrecognised:stmt"
			}
			if k == 0 { // clone := *w
				id, ok1 := as.Lhs[0].(*ast.Ident)
				st, ok2 := as.Rhs[0].(*ast.StarExpr)
				if !ok1 || !ok2 || id.Name != "clone" || as.Tok != token.DEFINE {
					return "wire-unrecognised:clone"
				}
				if x, ok := st.X.(*ast.Ident); !ok || x.Name != "w" {
					return "wire-unrecognised:clone"
				}
				continue
			}
			sel, ok := as.Lhs[0].(*ast.SelectorExpr)
			if !ok || as.Tok != token.ASSIGN {
				return "wire-unrecognised:lhs"
			}
			if x, ok := sel.X.(*ast.Ident); !ok || x.Name != "w" {
				return "wire-unrecognised:lhs"
			}
			field := sel.Sel.Name
			wf, ok := as.Rhs[0].(*ast.FuncLit)
			if !ok || len(wf.Body.List) != 2 {
				return "wire-unrecognised:wrapper:" + field
			}
			// go retryer.DoAsync(ctx, duty, "topic", "name", func(ctx context.Context) error { return clone.<field>(...) })
			gs, ok := wf.Body.List[0].(*ast.GoStmt)
			if !ok {
				return "wire-unrecognised:go:" + field
			}
			fn, ok := gs.Call.Fun.(*ast.SelectorExpr)
			if !ok || fn.Sel.Name != "DoAsync" || len(gs.Call.Args) != 5 {
				return "wire-unrecognised:doasync:" + field
			}
			if x, ok := fn.X.(*ast.Ident); !ok || x.Name != "retryer" {
				return "wire-unrecognised:doasync:" + field
			}
			a0, ok0 := gs.Call.Args[0].(*ast.Ident)
			a1, ok1 := gs.Call.Args[1].(*ast.Ident)
			t, ok2 := gs.Call.Args[2].(*ast.BasicLit)
			n, ok3 := gs.Call.Args[3].(*ast.BasicLit)
			inner, ok4 := gs.Call.Args[4].(*ast.FuncLit)
			if !ok0 || !ok1 || !ok2 || !ok3 || !ok4 || a0.Name != "ctx" || a1.Name != "duty" || t.Kind != token.STRING || n.Kind != token.STRING {
				return "wire-unrecognised:args:" + field
			}
			if len(inner.Body.List) != 1 {
				return "wire-unrecognised:inner:" + field
			}
			ir, ok := inner.Body.List[0].(*ast.ReturnStmt)
			if !ok || len(ir.Results) != 1 {
				return "wire-unrecognised:inner:" + field
			}
			ic, ok := ir.Results[0].(*ast.CallExpr)
			if !ok {
				return "wire-unrecognised:inner:" + field
			}
			isel, ok := ic.Fun.(*ast.SelectorExpr)
			if !ok || isel.Sel.Name != field {
				return "wire-unrecognised:inner-target:" + field
			}
			if x, ok := isel.X.(*ast.Ident); !ok || x.Name != "clone" {
				return "wire-unrecognised:inner-target:" + field
			}
			// return nil
			r2, ok := wf.Body.List[1].(*ast.ReturnStmt)
			if !ok || len(r2.Results) != 1 {
				return "wire-unrecognised:ret:" + field
			}
			if x, ok := r2.Results[0].(*ast.Ident); !ok || x.Name != "nil" {
				return "wire-unrecognised:ret:" + field
			}
			tv, _ := strconv.Unquote(t.Value)
			nv, _ := strconv.Unquote(n.Value)
			wrapped = append(wrapped, field+":"+tv+"/"+nv)
			isWrapped[field] = true
		}
	}
	if !found {
		return "wire-unrecognised:no-WithAsyncRetry"
	}

	// the other component inputs Wire subscribes: wireFuncs fields of type func(...) error that occur as
	// the consumer of a `w.A(w.B)` / `w.A(func(...) ... { return w.B(...) })` statement of Wire
	inf, err := parser.ParseFile(fset, filepath.Join(repoDir(), "core", "interfaces.go"), nil, parser.SkipObjectResolution)
	if err != nil {
		return "wire-unrecognised:parse-interfaces.go"
	}
	errOnly := map[string]bool{}
	var wire *ast.FuncDecl
	for _, d := range inf.Decls {
		switch d := d.(type) {
		case *ast.GenDecl:
			for _, sp := range d.Specs {
				ts, ok := sp.(*ast.TypeSpec)
				if !ok || ts.Name.Name != "wireFuncs" {
					continue
				}
				st, ok := ts.Type.(*ast.StructType)
				if !ok {
					return "wire-unrecognised:wireFuncs"
				}
				for _, fl := range st.Fields.List {
					ft, ok := fl.Type.(*ast.FuncType)
					if !ok || ft.Results == nil || len(ft.Results.List) != 1 {
						continue
					}
					if id, ok := ft.Results.List[0].Type.(*ast.Ident); ok && id.Name == "error" {
						for _, nm := range fl.Names {
							errOnly[nm.Name] = true
						}
					}
				}
			}
		case *ast.FuncDecl:
			if d.Name.Name == "Wire" && d.Recv == nil {
				wire = d
			}
		}
	}
	if wire == nil || len(errOnly) == 0 {
		return "wire-unrecognised:no-Wire"
	}
	// the wireFuncs variable: first statement of Wire, `<name> := wireFuncs{...}`
	wName := ""
	if len(wire.Body.List) > 0 {
		if as, ok := wire.Body.List[0].(*ast.AssignStmt); ok && as.Tok == token.DEFINE && len(as.Lhs) == 1 && len(as.Rhs) == 1 {
			if id, ok := as.Lhs[0].(*ast.Ident); ok {
				if cl, ok := as.Rhs[0].(*ast.CompositeLit); ok {
					if t, ok := cl.Type.(*ast.Ident); ok && t.Name == "wireFuncs" {
						wName = id.Name
					}
				}
			}
		}
	}
	if wName == "" {
		return "wire-unrecognised:no-wirefuncs-var"
	}
	// single-definition locals of Wire's body (`x := w.F`, `x := func(...) ... { return w.F(...) }`): exactly one
	// `:=` at top level, never assigned again, never `&x`; any other local that reaches an argument fails closed
	locals := map[string]ast.Expr{}
	spoiled := map[string]bool{}
	for k, st := range wire.Body.List {
		if k == 0 {
			continue
		}
		as, ok := st.(*ast.AssignStmt)
		if !ok || as.Tok != token.DEFINE {
			continue
		}
		for _, l := range as.Lhs {
			if id, ok := l.(*ast.Ident); ok {
				if _, dup := locals[id.Name]; dup || len(as.Lhs) != 1 || len(as.Rhs) != 1 {
					spoiled[id.Name] = true
				}
				if len(as.Rhs) == 1 {
					locals[id.Name] = as.Rhs[0]
				} else {
					locals[id.Name] = nil
				}
			}
		}
	}
	ast.Inspect(wire.Body, func(n ast.Node) bool {
		switch n := n.(type) {
		case *ast.AssignStmt:
			topDefine := false
			if n.Tok == token.DEFINE {
				for _, st := range wire.Body.List {
					if st == ast.Stmt(n) {
						topDefine = true
					}
				}
			}
			if !topDefine {
				for _, l := range n.Lhs {
					if id, ok := l.(*ast.Ident); ok {
						if _, isLocal := locals[id.Name]; isLocal {
							spoiled[id.Name] = true // assigned again, or redefined in an inner scope
						}
					}
				}
			}
		case *ast.IncDecStmt:
			if id, ok := n.X.(*ast.Ident); ok {
				spoiled[id.Name] = true
			}
		case *ast.UnaryExpr:
			if id, ok := n.X.(*ast.Ident); ok && n.Op == token.AND && id.Name != wName {
				spoiled[id.Name] = true
			}
		case *ast.RangeStmt:
			for _, e := range []ast.Expr{n.Key, n.Value} {
				if id, ok := e.(*ast.Ident); ok {
					if _, isLocal := locals[id.Name]; isLocal {
						spoiled[id.Name] = true
					}
				}
			}
		}
		return true
	})
	bad := ""
	// resolve follows an identifier naming such a local (not shadowed by a parameter of an enclosing closure)
	resolve := func(e ast.Expr, shadow map[string]bool) ast.Expr {
		for k := 0; k < 8; k++ {
			id, ok := e.(*ast.Ident)
			if !ok || shadow[id.Name] {
				return e
			}
			d, isLocal := locals[id.Name]
			if !isLocal {
				return e
			}
			if spoiled[id.Name] || d == nil {
				bad = "wire-unrecognised:local:" + id.Name
				return e
			}
			e = d
		}
		bad = "wire-unrecognised:local-chain"
		return e
	}
	wField := func(e ast.Expr) string {
		if s, ok := e.(*ast.SelectorExpr); ok {
			if x, ok := s.X.(*ast.Ident); ok && x.Name == wName {
				return s.Sel.Name
			}
		}
		return ""
	}
	var syncs []string
	seen := map[string]bool{}
	for _, st := range wire.Body.List {
		es, ok := st.(*ast.ExprStmt)
		if !ok {
			continue
		}
		ce, ok := es.X.(*ast.CallExpr)
		if !ok || len(ce.Args) != 1 {
			continue
		}
		var target string
		arg := resolve(ce.Args[0], nil)
		if bad != "" {
			return bad
		}
		switch a := arg.(type) {
		case *ast.SelectorExpr:
			target = wField(a)
		case *ast.FuncLit:
			params := map[string]bool{}
			if a.Type.Params != nil {
				for _, fl := range a.Type.Params.List {
					for _, nm := range fl.Names {
						params[nm.Name] = true
					}
				}
			}
			if len(a.Body.List) == 1 {
				if r, ok := a.Body.List[0].(*ast.ReturnStmt); ok && len(r.Results) == 1 {
					if c, ok := r.Results[0].(*ast.CallExpr); ok {
						target = wField(resolve(c.Fun, params))
						if bad != "" {
							return bad
						}
					}
				}
			}
			if target == "" {
				return "wire-unrecognised:adapter"
			}
		default:
			continue
		}
		if target == "" || !errOnly[target] || seen[target] {
			continue
		}
		seen[target] = true
		if !isWrapped[target] {
			syncs = append(syncs, target)
		}
	}
	for f := range isWrapped {
		if !seen[f] {
			return "wire-unrecognised:wrapped-not-subscribed:" + f
		}
	}
	return "wrapped=" + strings.Join(wrapped, ",") + " sync=" + strings.Join(syncs, ",")
}

// newPin exercises the deadline closure of the production constructor retry.New.
func newPin() string {
	r := retry.New[int](func(k int) (time.Time, bool) {
		switch k {
		case 0:
			return time.Unix(1, 0), true
		case 1:
			return time.Time{}, false
		}
		return time.Now().Add(24 * time.Hour), true
	})
	var parts []string
	for k, name := range []string{"past", "none", "future"} {
		res := "?"
		r.DoAsync(context.Background(), k, "t", "n", func(ctx context.Context) error {
			_, has := ctx.Deadline()
			switch {
			case ctx.Err() != nil:
				res = "expired"
			case has:
				res = "deadline"
			default:
				res = "nodeadline"
			}
			return nil
		})
		parts = append(parts, name+":"+res)
	}
	ctx, cancel := context.WithCancel(context.Background())
	cancel()
	r.Shutdown(ctx)
	return "new=" + strings.Join(parts, ",")
}

func doDelay(run *hx.Run, i int) string {
	cfg := retry.VerifBackoffConfig()
	c0 := cfg
	c0.Jitter = 0
	d := expbackoff.Backoff(c0, i)
	for k := 0; k < 8; k++ {
		j := retry.VerifDelayForIteration(i)
		lo := time.Duration(float64(d)*(1-cfg.Jitter)) - time.Millisecond
		hi := time.Duration(float64(d)*(1+cfg.Jitter)) + time.Millisecond
		if j < lo || j > hi {
			run.Violate("retry:backoff_out_of_range", fmt.Sprintf("delayForIteration(%d) = %v outside [%v, %v]", i, j, lo, hi))
		}
	}
	run.Count("op:delay")
	return fmt.Sprintf("delay %d", (d+500*time.Microsecond)/time.Millisecond)
}

var msgPool = []string{"boom", "some error", "future", "Cannot create attestation for future slot",
	"Proposer duties were requested for a future epoch", "Attestations must be from the current or previous epoch",
	"aggregate attestation not found by root (retryable)", "retryable", "Future", "FUTURE slot", "futur e", "futu",
	"current or  previous", "current or previou", "currentorprevious", "retryabl", "Retryable", "not retry-able",
	"", "x", "timeout", "context canceled", "connection refused", "404 not found", "uture retryabl current or",
	"prefuturepost", "non-retryable failure"}

func main() {
	a := hx.ParseArgs()
	hx.Must(log.InitLogger(log.Config{Level: "fatal", Format: "console", Color: "disable"}))
	run := hx.NewRun(a.Dir)
	defer run.Close()
	var ep *episode
	var wep *wepisode // non-nil: the current episode is a wire episode
	exec := func(op string) {
		run.Begin(op)
		f := strings.Fields(op)
		switch {
		case f[0] == "cfg":
			run.Op(op, wirePin()+" "+newPin())
		case f[0] == "new" && len(f) == 1:
			ep.abandon()
			wep.abandon(run)
			wep = nil
			ep = newEpisode()
			run.Op(op, "ok")
		case f[0] == "wnew" && len(f) == 1:
			ep.abandon()
			wep.abandon(run)
			ep = nil
			wep = newWepisode()
			run.Op(op, "ok")
		case f[0] == "wcall" || f[0] == "wret" || f[0] == "wfire" || f[0] == "wexpire":
			bad := wep == nil
			switch f[0] {
			case "wcall":
				bad = bad || len(f) != 4
				if !bad {
					id, e1 := strconv.Atoi(f[1])
					edge, e2 := strconv.Atoi(f[2])
					duty, e3 := strconv.Atoi(f[3])
					bad = e1 != nil || e2 != nil || e3 != nil || id < 0 || edge < 0 || edge >= len(labels) || duty < 0 || duty >= partBase
				}
			case "wret":
				bad = bad || len(f) < 3 || (f[2] == "ok") != (len(f) == 3) || len(f) > 4
				if !bad && len(f) == 4 && f[3] != "-" {
					if _, err := hex.DecodeString(f[3]); err != nil || strings.ToLower(f[3]) != f[3] {
						bad = true
					}
				}
			default:
				bad = bad || len(f) != 2
			}
			if !bad && f[0] != "wcall" {
				if v, err := strconv.Atoi(f[1]); err != nil || v < 0 {
					bad = true
				}
			}
			if bad {
				run.Op(op, "bad-op")
				return
			}
			run.Op(op, wep.exec(run, f))
		case f[0] == "delay" && len(f) == 2:
			i, err := strconv.Atoi(f[1])
			if err != nil || i < 0 {
				run.Op(op, "bad-op")
				return
			}
			run.Op(op, doDelay(run, i))
		default:
			if wep != nil {
				run.Op(op, "bad-op") // ops of plain episodes do not apply to a wire episode
				return
			}
			if ep == nil {
				ep = newEpisode()
			}
			ok := map[string]int{"call": 6, "ret": 0, "fire": 2, "expire": 2, "pcancel": 2, "shutdown": 1, "sdcancel": 1}
			n, known := ok[f[0]]
			bad := !known
			if known && f[0] == "ret" {
				bad = len(f) < 3 || (f[2] == "ok") != (len(f) == 3) || len(f) > 4
			} else if known {
				bad = len(f) != n
			}
			if !bad && len(f) > 1 {
				if v, err := strconv.Atoi(f[1]); err != nil || v < 0 {
					bad = true
				}
			}
			if !bad && f[0] == "call" {
				if v, err := strconv.Atoi(f[2]); err != nil || v < 0 || v >= len(labels) {
					bad = true
				}
				for _, x := range f[3:] {
					if x != "0" && x != "1" {
						bad = true
					}
				}
			}
			if !bad && f[0] == "ret" && len(f) == 4 && f[3] != "-" {
				if _, err := hex.DecodeString(f[3]); err != nil || strings.ToLower(f[3]) != f[3] {
					bad = true
				}
			}
			if bad {
				run.Op(op, "bad-op")
				return
			}
			run.Op(op, ep.exec(run, f))
		}
	}
	if a.Mode == "exec" {
		for _, op := range hx.ReadOps(a.Ops) {
			exec(op)
		}
		ep.abandon()
		wep.abandon(run)
		return
	}
	rng := hx.NewRng(a.Seed)
	exec("cfg")
	hexOf := func(m string) string {
		if m == "" {
			return "-"
		}
		return hex.EncodeToString([]byte(m))
	}
	retryableRet := func(id int) string {
		switch rng.Intn(4) {
		case 0:
			return fmt.Sprintf("wret %d net %s", id, hexOf(msgPool[rng.Intn(len(msgPool))]))
		case 1:
			return fmt.Sprintf("wret %d ctxd %s", id, hexOf(msgPool[rng.Intn(len(msgPool))]))
		case 2:
			return fmt.Sprintf("wret %d wctxc %s", id, hexOf(msgPool[rng.Intn(len(msgPool))]))
		}
		return fmt.Sprintf("wret %d plain %s", id, hexOf(msgPool[2+rng.Intn(6)]))
	}
	wireEpisode := func() {
		exec("wnew")
		nextID := 1
		lastEdge := []int{3, 4, 3, 4, 0, 1, 2}[rng.Intn(7)]
		if rng.Chance(1, 2) {
			// calls of one edge for different duties overlap: D1 fails temporarily and waits, D2 succeeds at
			// once, then D1's timer fires
			d1 := rng.Intn(50)
			d2 := d1 + 1 + rng.Intn(5)
			exec(fmt.Sprintf("wcall 1 %d %d", lastEdge, d1))
			exec(retryableRet(1))
			exec(fmt.Sprintf("wcall 2 %d %d", lastEdge, d2))
			exec("wret 2 ok")
			exec("wfire 1")
			nextID = 3
		}
		nops := 8 + rng.Intn(30)
		for k := 0; k < nops && run.NOps < a.N && stuck < 3; k++ {
			var byPhase = map[string][]int{}
			for _, id := range wep.order {
				byPhase[wep.calls[id].phase] = append(byPhase[wep.calls[id].phase], id)
			}
			pick := func(ph string) int {
				l := byPhase[ph]
				if len(l) == 0 {
					return -1
				}
				return l[rng.Intn(len(l))]
			}
			r := rng.Intn(100)
			switch {
			case r < 25 && len(wep.order) < 9 || len(wep.order) == 0:
				if rng.Chance(1, 3) {
					lastEdge = rng.Intn(5)
				}
				exec(fmt.Sprintf("wcall %d %d %d", nextID, lastEdge, rng.Intn(6)))
				nextID++
			case r < 60:
				if id := pick("inflight"); id >= 0 {
					switch k := rng.Intn(10); {
					case k < 4:
						exec(fmt.Sprintf("wret %d ok", id))
					case k < 9:
						exec(retryableRet(id))
					default:
						exec(fmt.Sprintf("wret %d plain %s", id, hexOf("boom")))
					}
				}
			case r < 88:
				if id := pick("backoff"); id >= 0 {
					exec(fmt.Sprintf("wfire %d", id))
				}
			case r < 94:
				if len(wep.order) > 0 {
					exec(fmt.Sprintf("wexpire %d", wep.order[rng.Intn(len(wep.order))]))
				}
			default: // ops that do not fit
				id := nextID + 2
				if len(wep.order) > 0 && rng.Chance(2, 3) {
					id = wep.order[rng.Intn(len(wep.order))]
				}
				switch rng.Intn(3) {
				case 0:
					exec(fmt.Sprintf("wfire %d", id))
				case 1:
					exec(fmt.Sprintf("wret %d ok", id))
				default:
					exec(fmt.Sprintf("wcall %d %d %d", id, rng.Intn(5), rng.Intn(6)))
					if id >= nextID {
						nextID = id + 1
					}
				}
			}
		}
		for _, id := range append([]int(nil), wep.order...) {
			if wep.calls[id].phase == "inflight" && run.NOps < a.N {
				exec(fmt.Sprintf("wret %d ok", id))
			}
		}
	}
	for run.NOps < a.N && !run.Enough() && stuck < 3 {
		if rng.Chance(1, 4) {
			wireEpisode()
			continue
		}
		exec("new")
		nextID := 1
		type gc struct {
			id    int
			phase string // the generator's guess, only used to pick sensible ops
		}
		var gcs []*gc
		pick := func(phase string) *gc {
			var c []*gc
			for _, x := range gcs {
				if x.phase == phase {
					c = append(c, x)
				}
			}
			if len(c) == 0 {
				return nil
			}
			return c[rng.Intn(len(c))]
		}
		follow := func() { // follow the real phases
			for _, x := range gcs {
				x.phase = ep.calls[x.id].phase
			}
		}
		doRet := func(c *gc, forceOK bool) {
			k := rng.Intn(100)
			switch {
			case forceOK || k < 18:
				exec(fmt.Sprintf("ret %d ok", c.id))
			default:
				kind := "plain"
				switch {
				case k < 60:
				case k < 70:
					kind = "net"
				case k < 76:
					kind = "wnet"
				case k < 86:
					kind = "ctxc"
				case k < 94:
					kind = "ctxd"
				default:
					kind = "wctxc"
				}
				msg := msgPool[rng.Intn(len(msgPool))]
				if kind == "plain" && rng.Chance(1, 2) {
					msg = msgPool[1+rng.Intn(7)] // mostly temporary beacon errors
				}
				h := "-"
				if msg != "" {
					h = hex.EncodeToString([]byte(msg))
				}
				exec(fmt.Sprintf("ret %d %s %s", c.id, kind, h))
			}
		}
		nops := 15 + rng.Intn(40)
		sdAt := -1
		if rng.Chance(1, 3) {
			sdAt = 5 + rng.Intn(nops)
		}
		for k := 0; k < nops && run.NOps < a.N && stuck < 3; k++ {
			follow()
			if k == sdAt {
				exec("shutdown")
				continue
			}
			r := rng.Intn(100)
			switch {
			case r < 22 && len(gcs) < 7 || len(gcs) == 0:
				exec(fmt.Sprintf("call %d %d %d %d %d", nextID, rng.Intn(3)*rng.Intn(2)+rng.Intn(3), b2i(!rng.Chance(1, 6)), b2i(rng.Chance(1, 8)), b2i(rng.Chance(1, 4))))
				gcs = append(gcs, &gc{id: nextID})
				nextID++
			case r < 50:
				if c := pick("inflight"); c != nil {
					doRet(c, false)
				}
			case r < 72:
				if c := pick("backoff"); c != nil {
					exec(fmt.Sprintf("fire %d", c.id))
				}
			case r < 80:
				c := gcs[rng.Intn(len(gcs))]
				exec(fmt.Sprintf("expire %d", c.id))
			case r < 86:
				c := gcs[rng.Intn(len(gcs))]
				exec(fmt.Sprintf("pcancel %d", c.id))
			case r < 90: // an op that does not fit the call's phase, or an unknown call
				c := gcs[rng.Intn(len(gcs))]
				id := c.id
				if rng.Chance(1, 5) {
					id = nextID + 3
				}
				switch rng.Intn(3) {
				case 0:
					exec(fmt.Sprintf("fire %d", id))
				case 1:
					exec(fmt.Sprintf("ret %d plain %s", id, hex.EncodeToString([]byte("boom"))))
				default:
					exec(fmt.Sprintf("call %d 0 1 0 0", id))
					if ep.calls[id] != nil && id >= nextID {
						gcs = append(gcs, &gc{id: id})
						nextID = id + 1
					}
				}
			case r < 93:
				exec("sdcancel")
			case r < 96:
				exec(fmt.Sprintf("delay %d", []int{0, 1, 2, 3, 4, 5, 6, 7, 8, 9, 10, 11, 15, 40}[rng.Intn(14)]))
			default:
				if rng.Chance(1, 3) {
					exec("shutdown")
				} else if c := pick("inflight"); c != nil {
					doRet(c, true)
				}
			}
		}
		// wind down: Shutdown, then let the running attempts return (or give Shutdown's context up)
		follow()
		if rng.Chance(3, 4) && run.NOps < a.N && stuck < 3 {
			exec("shutdown")
			for _, c := range gcs {
				follow()
				if c.phase == "inflight" && run.NOps < a.N {
					if rng.Chance(1, 6) {
						exec("sdcancel")
					}
					doRet(c, rng.Chance(1, 3))
				}
			}
		}
	}
	ep.abandon()
	wep.abandon(run)
}
