// drive-transport: correspondence driver for the C05 extension "per-instance consensus transport"
// (core/consensus/qbft/transport.go: newTransport, setValues, getValue, Broadcast, createMsg + signMsg,
// the self-delivery goroutine, ProcessReceives; msg.go newMsg / ToConsensusMsg / accessors; the Decide
// callback of newDefinition).
//
// The real transport is built through the verif hook NewTransportVerif exactly as runInstance builds it
// (unbuffered inner buffer, fresh sniffer), with a real secp256k1 key, a recording broadcaster, a real
// ProcessReceives goroutine on an outer buffer and a value channel fed the way `propose` feeds it. Messages
// "from peers" are built as `handle` builds them (proto round trip, valuesByHash, newMsg) and pushed into the
// outer buffer; the driver plays qbft.Run's reader on the inner buffer.
//
// Values are symbolic: value <id> is the UnsignedDataSet {"id": "<id>"}; `h<id>` is its real hashProto,
// `u<k>` a hash without known value, `z` the zero hash. v<id> = anypb.New(value), w<id> = an Any with another
// URL prefix and the same inner message, e = an Any that does not unmarshal.
//
// ops (see lean/Driver/Transport.lean):
//
//	new <peerIdx> <nodes>
//	prop <id>
//	bc <type> <slot> <dtype> <peer> <round> <vh> <pr> <pvh> <berr> {<idx>}
//	drain
//	rx M <core> {J <core>} {V <val>}
//	mk M <core> {J <core>} {V <val>}
//	dec <idx> <hash> <round> <nsubs>
package main

import (
	"context"
	"crypto/sha256"
	"errors"
	"fmt"
	"runtime"
	"sort"
	"strconv"
	"strings"
	"time"

	"github.com/decred/dcrd/dcrec/secp256k1/v4"
	"google.golang.org/protobuf/proto"
	"google.golang.org/protobuf/types/known/anypb"

	"github.com/obolnetwork/charon/app/log"
	"github.com/obolnetwork/charon/core"
	"github.com/obolnetwork/charon/core/consensus/instance"
	cqbft "github.com/obolnetwork/charon/core/consensus/qbft"
	"github.com/obolnetwork/charon/core/consensus/timer"
	pbv1 "github.com/obolnetwork/charon/core/corepb/v1"
	"github.com/obolnetwork/charon/core/qbft"

	"verifharness/hx"
)

type hash32 = [32]byte

type qmsg = qbft.Msg[core.Duty, [32]byte, proto.Message]

const (
	chCap       = 8
	unknownBase = 1000000
	watchdog    = 20 * time.Second
)

// once a delivery was lost the implementation is evidently broken: do not wait the full watchdog again.
var lostOnce bool

func wd() time.Duration {
	if lostOnce {
		return 100 * time.Millisecond
	}
	return watchdog
}

var theRun *hx.Run

// ---------- symbolic values ----------

var (
	valInner = map[int]*pbv1.UnsignedDataSet{}
	valHash  = map[int]hash32{}
	hashCode = map[hash32]int{} // hash -> model code (id+1 | unknownBase+k)
)

func inner(id int) *pbv1.UnsignedDataSet {
	if v, ok := valInner[id]; ok {
		return v
	}
	v := &pbv1.UnsignedDataSet{Set: map[string][]byte{"id": []byte(strconv.Itoa(id))}}
	h, err := cqbft.HashProtoVerif(v)
	hx.Must(err)
	valInner[id] = v
	valHash[id] = h
	hashCode[h] = id + 1
	return v
}

func hashOf(id int) hash32 { inner(id); return valHash[id] }

func unknownHash(k int) hash32 {
	h := sha256.Sum256([]byte("unknown-" + strconv.Itoa(k)))
	hashCode[h] = unknownBase + k
	return h
}

func parseHash(tok string) (hash32, bool) {
	switch {
	case tok == "z":
		return hash32{}, true
	case strings.HasPrefix(tok, "h"):
		id, err := strconv.Atoi(tok[1:])
		if err != nil || id < 0 {
			return hash32{}, false
		}
		return hashOf(id), true
	case strings.HasPrefix(tok, "u"):
		k, err := strconv.Atoi(tok[1:])
		if err != nil || k < 0 {
			return hash32{}, false
		}
		return unknownHash(k), true
	}
	return hash32{}, false
}

func parseHBytes(tok string) ([]byte, bool) {
	switch tok {
	case "n":
		return nil, true
	case "s":
		return []byte{1, 2, 3, 4, 5}, true
	}
	h, ok := parseHash(tok)
	return h[:], ok
}

func hashTok(h hash32) string {
	if h == (hash32{}) {
		return "z"
	}
	c, ok := hashCode[h]
	if !ok {
		return fmt.Sprintf("?%x", h[:4])
	}
	if c >= unknownBase {
		return "u" + strconv.Itoa(c-unknownBase)
	}
	return "h" + strconv.Itoa(c-1)
}

func hashSortKey(h hash32) int {
	if c, ok := hashCode[h]; ok {
		return c
	}
	return 1 << 40
}

const altPrefix = "alt.verif.example/"

func mkAny(tok string) (*anypb.Any, bool) {
	if tok == "e" {
		return &anypb.Any{TypeUrl: "type.googleapis.com/verif.does.not.Exist", Value: []byte{1}}, true
	}
	if len(tok) < 2 {
		return nil, false
	}
	id, err := strconv.Atoi(tok[1:])
	if err != nil || id < 0 {
		return nil, false
	}
	a, err := anypb.New(inner(id))
	hx.Must(err)
	switch tok[0] {
	case 'v':
		return a, true
	case 'w':
		a.TypeUrl = altPrefix + string(inner(id).ProtoReflect().Descriptor().FullName())
		return a, true
	}
	return nil, false
}

// innerID returns the value id inside an Any (-1 if it is none of ours).
func innerID(a *anypb.Any) int {
	if a == nil {
		return -1
	}
	m, err := a.UnmarshalNew()
	if err != nil {
		return -1
	}
	return protoID(m)
}

func protoID(m proto.Message) int {
	u, ok := m.(*pbv1.UnsignedDataSet)
	if !ok {
		return -1
	}
	id, err := strconv.Atoi(string(u.GetSet()["id"]))
	if err != nil {
		return -1
	}
	return id
}

func anyTok(a *anypb.Any) string {
	id := innerID(a)
	if id < 0 {
		return "e"
	}
	if strings.HasPrefix(a.GetTypeUrl(), altPrefix) {
		return "w" + strconv.Itoa(id)
	}
	return "v" + strconv.Itoa(id)
}

// recomputed hash of a wire value, done here with the hook's hashProto on the unmarshalled inner message.
func anyHash(a *anypb.Any) (hash32, bool) {
	m, err := a.UnmarshalNew()
	if err != nil {
		return hash32{}, false
	}
	h, err := cqbft.HashProtoVerif(m)
	if err != nil {
		return hash32{}, false
	}
	return h, true
}

func showVals(m map[hash32]*anypb.Any) string {
	keys := make([]hash32, 0, len(m))
	for k := range m {
		keys = append(keys, k)
	}
	sort.Slice(keys, func(i, j int) bool { return hashSortKey(keys[i]) < hashSortKey(keys[j]) })
	var parts []string
	for _, k := range keys {
		parts = append(parts, hashTok(k)+":"+anyTok(m[k]))
	}
	return strings.Join(parts, ",")
}

// ---------- canonical forms ----------

func toHash32(b []byte) (hash32, bool) {
	if len(b) != 32 {
		return hash32{}, false
	}
	h := hash32(b)
	if h == (hash32{}) {
		return hash32{}, false
	}
	return h, true
}

func showPbCore(m *pbv1.QBFTMsg) string {
	vh, _ := toHash32(m.GetValueHash())
	pvh, _ := toHash32(m.GetPreparedValueHash())
	return fmt.Sprintf("%d/%d/%d/%d/%d/%s/%d/%s", m.GetType(), m.GetDuty().GetSlot(), m.GetDuty().GetType(),
		m.GetPeerIdx(), m.GetRound(), hashTok(vh), m.GetPreparedRound(), hashTok(pvh))
}

// what peers get: canonical form of the wire message (values keyed by the hash recomputed here).
func showWire(w *pbv1.QBFTConsensusMsg) string {
	var js []string
	for _, j := range w.GetJustification() {
		js = append(js, showPbCore(j))
	}
	vals := map[hash32]*anypb.Any{}
	for _, v := range w.GetValues() {
		if h, ok := anyHash(v); ok {
			vals[h] = v
		} else {
			vals[sha256.Sum256(v.GetValue())] = v
		}
	}
	return showPbCore(w.GetMsg()) + " J[" + strings.Join(js, ";") + "] vals=" + showVals(vals)
}

func showQ(m qmsg) string {
	d := m.Instance()
	return fmt.Sprintf("%d/%d/%d/%d/%d/%s/%d/%s", int64(m.Type()), d.Slot, int(d.Type), m.Source(), m.Round(),
		hashTok(m.Value()), m.PreparedRound(), hashTok(m.PreparedValue()))
}

// what the accessors of a Msg show.
func showMsg(m cqbft.Msg) string {
	var js []string
	for _, j := range m.Justification() {
		js = append(js, showQ(j))
	}
	return showQ(m) + " J[" + strings.Join(js, ";") + "] vals=" + showVals(m.Values())
}

// ---------- episode ----------

type bcastRec struct {
	seq   int
	wire  *pbv1.QBFTConsensusMsg
	canon string
	got   int
	msg   cqbft.Msg
}

type episode struct {
	own, nodes int
	keys       []*secp256k1.PrivateKey
	tv         *cqbft.TransportVerif
	valueCh    chan instance.ValueWithHash
	outer      chan cqbft.Msg
	ctx        context.Context
	cancel     context.CancelFunc
	table      []cqbft.Msg
	through    []bool // table entry went through the transport
	pending    []*bcastRec
	bseq       int
	lastWire   *pbv1.QBFTConsensusMsg
	bcalls     int
	berr       bool
	shadow     map[hash32]int // monitor: inner id first seen under a cache key
}

var errBcast = errors.New("verif: broadcaster failed")

func key(i int) *secp256k1.PrivateKey {
	s := sha256.Sum256([]byte("transport-key-" + strconv.Itoa(i)))
	return secp256k1.PrivKeyFromBytes(s[:])
}

func newEpisode(own, nodes int) *episode {
	ep := &episode{own: own, nodes: nodes, shadow: map[hash32]int{}}
	for i := 0; i < nodes; i++ {
		ep.keys = append(ep.keys, key(i))
	}
	ep.valueCh = make(chan instance.ValueWithHash, chCap)
	ep.outer = make(chan cqbft.Msg, 100)
	ep.ctx, ep.cancel = context.WithCancel(context.Background())
	ep.tv = cqbft.NewTransportVerif(func(_ context.Context, msg *pbv1.QBFTConsensusMsg) error {
		ep.lastWire = msg
		ep.bcalls++
		if ep.berr {
			return errBcast
		}
		return nil
	}, key(own), ep.valueCh, int64(nodes), int64(own))
	go ep.tv.ProcessReceives(ep.ctx, ep.outer)
	return ep
}

func (ep *episode) close() {
	if ep == nil {
		return
	}
	ep.stray("close")
	ep.cancel()
}

// stray: nothing may sit in the inner buffer that the driver does not expect.
func (ep *episode) stray(where string) {
	if len(ep.pending) > 0 {
		return
	}
	for i := 0; i < 3; i++ {
		runtime.Gosched()
	}
	select {
	case m := <-ep.tv.RecvBuffer():
		theRun.Violate("transport:self_delivered_twice", fmt.Sprintf("%s: unexpected message in the inner buffer: %s", where, showQ(m)))
	case <-time.After(time.Millisecond):
	}
}

func (ep *episode) tail() string {
	return fmt.Sprintf("ch=%d pend=%d cache=%s", len(ep.valueCh), len(ep.pending), showVals(ep.checkCache()))
}

// checkCache: monitors on the value cache (key = hash of the value, entries never replaced by another
// value, never lost).
func (ep *episode) checkCache() map[hash32]*anypb.Any {
	c := ep.tv.ValuesVerif()
	for k, v := range c {
		h, ok := anyHash(v)
		if !ok || h != k {
			theRun.Violate("transport:cache_key_mismatch", fmt.Sprintf("cache[%s] holds %s whose hash is %s", hashTok(k), anyTok(v), hashTok(h)))
		}
		id := innerID(v)
		if old, seen := ep.shadow[k]; seen && old != id {
			theRun.Violate("transport:cache_entry_replaced", fmt.Sprintf("cache[%s] was value %d, now %d", hashTok(k), old, id))
		}
		ep.shadow[k] = id
	}
	for k := range ep.shadow {
		if _, ok := c[k]; !ok {
			theRun.Violate("transport:cache_entry_lost", fmt.Sprintf("cache[%s] disappeared", hashTok(k)))
			delete(ep.shadow, k)
		}
	}
	return c
}

func (ep *episode) doProp(id int) string {
	theRun.Count("prop")
	select {
	case ep.valueCh <- instance.ValueWithHash{Hash: hashOf(id), Value: inner(id)}:
		return "ok " + ep.tail()
	default:
		return "full " + ep.tail()
	}
}

// refs: the non-zero hashes a wire message refers to (main + justifications).
func refs(w *pbv1.QBFTConsensusMsg) []hash32 {
	var out []hash32
	add := func(m *pbv1.QBFTMsg) {
		if h, ok := toHash32(m.GetValueHash()); ok {
			out = append(out, h)
		}
		if h, ok := toHash32(m.GetPreparedValueHash()); ok {
			out = append(out, h)
		}
	}
	add(w.GetMsg())
	for _, j := range w.GetJustification() {
		add(j)
	}
	return out
}

func (ep *episode) doBcast(f []string) string {
	i64 := func(s string) (int64, bool) { v, err := strconv.ParseInt(s, 10, 64); return v, err == nil }
	typ, ok1 := i64(f[1])
	slot, err := strconv.ParseUint(f[2], 10, 64)
	dty, ok3 := i64(f[3])
	peer, ok4 := i64(f[4])
	round, ok5 := i64(f[5])
	vh, ok6 := parseHash(f[6])
	pr, ok7 := i64(f[7])
	pvh, ok8 := parseHash(f[8])
	if !(ok1 && err == nil && ok3 && ok4 && ok5 && ok6 && ok7 && ok8) || (f[9] != "0" && f[9] != "1") {
		return "bad-op"
	}
	var just []qmsg
	for _, t := range f[10:] {
		i, err := strconv.Atoi(t)
		if err != nil || i < 0 || i >= len(ep.table) {
			return "bad-op"
		}
		just = append(just, ep.table[i])
	}
	theRun.Count("bc")
	duty := core.Duty{Slot: slot, Type: core.DutyType(dty)}
	ep.berr = f[9] == "1"
	ep.lastWire = nil
	calls := ep.bcalls
	berr := ep.tv.Broadcast(ep.ctx, qbft.MsgType(typ), duty, peer, round, vh, pr, pvh, just)
	ep.berr = false
	if ep.bcalls == calls { // the broadcaster was not reached
		if berr == nil {
			theRun.Violate("transport:broadcast_silent", "Broadcast returned nil without calling the broadcaster")
			return "err:silent " + ep.tail()
		}
		theRun.Count("bc:err")
		if strings.Contains(berr.Error(), "unknown value") {
			return "err:unknown " + ep.tail()
		}
		if strings.Contains(berr.Error(), "not found in values") {
			theRun.Violate("transport:broadcast_missing_value", "createMsg failed in Broadcast: "+berr.Error())
			return "err:create:novalue " + ep.tail()
		}
		return "err:other " + ep.tail()
	}
	if ep.bcalls != calls+1 {
		theRun.Violate("transport:broadcast_twice", "the broadcaster was called more than once")
	}
	if (berr != nil) != (f[9] == "1") {
		theRun.Violate("transport:broadcast_error_swallowed", fmt.Sprintf("broadcaster error %v, Broadcast returned %v", f[9] == "1", berr))
	}
	theRun.Count("bc:ok")
	w := ep.lastWire
	// the broadcast message carries exactly the values its hashes refer to
	have := map[hash32]bool{}
	for _, v := range w.GetValues() {
		h, ok := anyHash(v)
		if !ok {
			theRun.Violate("transport:broadcast_bad_value", "broadcast value does not unmarshal")
			continue
		}
		if have[h] {
			theRun.Violate("transport:broadcast_extra_value", "value "+hashTok(h)+" twice in a broadcast")
		}
		have[h] = true
	}
	need := map[hash32]bool{}
	for _, h := range refs(w) {
		need[h] = true
		if !have[h] {
			theRun.Violate("transport:broadcast_missing_value", "broadcast refers to "+hashTok(h)+" without carrying its value")
		}
	}
	for h := range have {
		if !need[h] {
			theRun.Violate("transport:broadcast_extra_value", "broadcast carries unreferenced value "+hashTok(h))
		}
	}
	// the arguments are what is signed and sent
	m := w.GetMsg()
	if m.GetType() != typ || m.GetDuty().GetSlot() != slot || int64(m.GetDuty().GetType()) != dty || m.GetPeerIdx() != peer ||
		m.GetRound() != round || m.GetPreparedRound() != pr || string(m.GetValueHash()) != string(vh[:]) ||
		string(m.GetPreparedValueHash()) != string(pvh[:]) || len(w.GetJustification()) != len(just) {
		theRun.Violate("transport:broadcast_fields_differ", "broadcast fields differ from the arguments: "+showPbCore(m))
	}
	for i, j := range w.GetJustification() {
		if i < len(just) && j != just[i].(cqbft.Msg).Msg() {
			theRun.Violate("transport:broadcast_fields_differ", "justification proto is not the justification message's proto")
		}
	}
	if ok, err := cqbft.VerifyMsgSigVerif(m, ep.keys[ep.own].PubKey()); err != nil || !ok {
		theRun.Violate("transport:bad_signature", "own broadcast is not signed by the own key")
	}
	// a receiver's valuesByHash + newMsg accept it
	if vals, err := cqbft.ValuesByHashVerif(w.GetValues()); err != nil {
		theRun.Violate("transport:broadcast_rejected_by_receiver", "valuesByHash: "+err.Error())
	} else if _, err := cqbft.NewMsgVerif(w.GetMsg(), w.GetJustification(), vals); err != nil {
		theRun.Violate("transport:broadcast_rejected_by_receiver", "newMsg: "+err.Error())
	}
	sig := 0
	if peer >= 0 && peer < int64(ep.nodes) {
		if ok, err := cqbft.VerifyMsgSigVerif(m, ep.keys[peer].PubKey()); err == nil && ok {
			sig = 1
		}
	}
	ep.bseq++
	rec := &bcastRec{seq: ep.bseq, wire: w, canon: showWire(w)}
	ep.pending = append(ep.pending, rec)
	if len(just) >= 8 {
		theRun.Case("bc:bigjust")
	}
	theRun.Case(fmt.Sprintf("bc:ok:t%d:j%d:v%d", typ, min(len(just), 3), len(w.GetValues())))
	return fmt.Sprintf("ok #%d %s sig=%d berr=%s %s", rec.seq, rec.canon, sig, f[9], ep.tail())
}

// drain: the reader takes every parked own message; each exactly once, equal to what the peers got.
func (ep *episode) drain() int {
	k := len(ep.pending)
	for n := 0; n < k; n++ {
		select {
		case qm := <-ep.tv.RecvBuffer():
			m, ok := qm.(cqbft.Msg)
			if !ok {
				theRun.Violate("transport:self_delivery_unknown", "inner buffer delivered a foreign message type")
				continue
			}
			var rec *bcastRec
			for _, r := range ep.pending {
				if r.wire.GetMsg() == m.Msg() {
					rec = r
				}
			}
			if rec == nil {
				theRun.Violate("transport:self_delivery_unknown", "inner buffer delivered a message that was not broadcast: "+showMsg(m))
				continue
			}
			rec.got++
			rec.msg = m
			if rec.got > 1 {
				theRun.Violate("transport:self_delivered_twice", fmt.Sprintf("own broadcast #%d delivered twice", rec.seq))
			}
			if c := showMsg(m); c != rec.canon {
				theRun.Violate("transport:self_delivery_differs", fmt.Sprintf("own broadcast #%d: peers got %s, self got %s", rec.seq, rec.canon, c))
			}
			if c := showWire(m.ToConsensusMsg()); c != rec.canon {
				theRun.Violate("transport:self_delivery_differs", fmt.Sprintf("own broadcast #%d: peers got %s, self wire %s", rec.seq, rec.canon, c))
			}
		case <-time.After(wd()):
			lostOnce = true
			theRun.Violate("transport:self_not_delivered", fmt.Sprintf("%d own broadcasts never reached the inner buffer", k-n))
			n = k
		}
	}
	for _, r := range ep.pending {
		if r.got == 0 {
			theRun.Violate("transport:self_not_delivered", fmt.Sprintf("own broadcast #%d not self-delivered", r.seq))
			continue
		}
		ep.table = append(ep.table, r.msg)
		ep.through = append(ep.through, true)
	}
	ep.pending = nil
	if k > 0 {
		ep.stray("drain")
	}
	return k
}

func parseCore(s string) *pbv1.QBFTMsg {
	p := strings.Split(s, ",")
	if len(p) != 8 {
		return nil
	}
	var n [6]int64
	for i := 0; i < 6; i++ {
		v, err := strconv.ParseInt(p[i], 10, 64)
		if err != nil {
			return nil
		}
		n[i] = v
	}
	if n[1] < 0 {
		return nil
	}
	vh, ok1 := parseHBytes(p[6])
	pvh, ok2 := parseHBytes(p[7])
	if !ok1 || !ok2 {
		return nil
	}
	return &pbv1.QBFTMsg{Type: n[0], Duty: &pbv1.Duty{Slot: uint64(n[1]), Type: int32(n[2])}, PeerIdx: n[3], Round: n[4],
		PreparedRound: n[5], ValueHash: vh, PreparedValueHash: pvh}
}

func parseWire(toks []string) *pbv1.QBFTConsensusMsg {
	w := &pbv1.QBFTConsensusMsg{}
	for i := 0; i+1 < len(toks) || i < len(toks); i += 2 {
		if i+1 >= len(toks) {
			return nil
		}
		switch toks[i] {
		case "M":
			if w.Msg != nil {
				return nil
			}
			if w.Msg = parseCore(toks[i+1]); w.Msg == nil {
				return nil
			}
		case "J":
			c := parseCore(toks[i+1])
			if c == nil {
				return nil
			}
			w.Justification = append(w.Justification, c)
		case "V":
			a, ok := mkAny(toks[i+1])
			if !ok {
				return nil
			}
			w.Values = append(w.Values, a)
		default:
			return nil
		}
	}
	if w.Msg == nil {
		return nil
	}
	return w
}

// admit: what `handle` does after the signature / duty / limit checks.
func (ep *episode) admit(toks []string) (cqbft.Msg, string) {
	w0 := parseWire(toks)
	if w0 == nil {
		return cqbft.Msg{}, "bad-op"
	}
	b, err := proto.Marshal(w0)
	hx.Must(err)
	w := new(pbv1.QBFTConsensusMsg)
	hx.Must(proto.Unmarshal(b, w))
	vals, err := cqbft.ValuesByHashVerif(w.GetValues())
	if err != nil {
		return cqbft.Msg{}, "rej:values"
	}
	msg, err := cqbft.NewMsgVerif(w.GetMsg(), w.GetJustification(), vals)
	// monitor: newMsg fails iff some referenced non-zero hash has no value (recomputed here)
	missing := ""
	have := map[hash32]bool{}
	for _, v := range w.GetValues() {
		if h, ok := anyHash(v); ok {
			have[h] = true
		}
	}
	for _, h := range refs(w) {
		if !have[h] && missing == "" {
			missing = hashTok(h)
		}
	}
	if (err != nil) != (missing != "") {
		theRun.Violate("transport:newmsg_verdict", fmt.Sprintf("newMsg error %v, missing referenced value %q", err, missing))
	}
	if err != nil {
		switch {
		case strings.Contains(err.Error(), "prepared value hash not found"):
			return cqbft.Msg{}, "rej:nopvalue"
		case strings.Contains(err.Error(), "value hash not found"):
			return cqbft.Msg{}, "rej:novalue"
		}
		return cqbft.Msg{}, "rej:other"
	}
	if len(w.GetJustification()) >= 8 {
		theRun.Case("rx:bigjust")
	}
	return msg, ""
}

func (ep *episode) doRx(toks []string) string {
	theRun.Count("rx")
	msg, rej := ep.admit(toks)
	if rej != "" {
		theRun.Count("rx:" + rej)
		return rej
	}
	k := ep.drain()
	ep.outer <- msg
	select {
	case qm := <-ep.tv.RecvBuffer():
		m, ok := qm.(cqbft.Msg)
		if !ok || m.Msg() != msg.Msg() {
			theRun.Violate("transport:forward_wrong_message", "ProcessReceives forwarded another message than the one received")
		}
	case <-time.After(wd()):
		lostOnce = true
		theRun.Violate("transport:forward_lost", "ProcessReceives did not forward the received message")
	}
	ep.table = append(ep.table, msg)
	ep.through = append(ep.through, true)
	c := ep.tv.ValuesVerif()
	for h, v := range msg.Values() {
		if cv, ok := c[h]; !ok || innerID(cv) != innerID(v) {
			theRun.Violate("transport:received_values_not_cached", "value "+hashTok(h)+" of a forwarded message is not in the cache")
		}
	}
	theRun.Count("rx:ok")
	theRun.Case(fmt.Sprintf("rx:ok:j%d:v%d", min(len(msg.Justification()), 3), min(len(msg.Values()), 4)))
	return fmt.Sprintf("ok dr=%d idx=%d %s %s", k, len(ep.table)-1, showMsg(msg), ep.tail())
}

func (ep *episode) doMk(toks []string) string {
	theRun.Count("mk")
	msg, rej := ep.admit(toks)
	if rej != "" {
		return rej
	}
	ep.table = append(ep.table, msg)
	ep.through = append(ep.through, false)
	return fmt.Sprintf("ok idx=%d %s", len(ep.table)-1, showMsg(msg))
}

func (ep *episode) doDec(f []string) string {
	idx, err1 := strconv.Atoi(f[1])
	h, ok := parseHash(f[2])
	round, err3 := strconv.ParseInt(f[3], 10, 64)
	nsubs, err4 := strconv.Atoi(f[4])
	if err1 != nil || !ok || err3 != nil || err4 != nil || idx < 0 || idx >= len(ep.table) || nsubs < 0 {
		return "bad-op"
	}
	theRun.Count("dec")
	m := ep.table[idx]
	var got []proto.Message
	var subs []func(ctx context.Context, duty core.Duty, value proto.Message) error
	for i := 0; i < nsubs; i++ {
		i := i
		subs = append(subs, func(_ context.Context, _ core.Duty, value proto.Message) error {
			got = append(got, value)
			if i == 0 {
				return errors.New("verif: subscriber error") // must not stop the others
			}
			return nil
		})
	}
	var cbs []int64
	cqbft.DecideVerif(ep.ctx, ep.nodes, timer.NewIncreasingRoundTimer(), m.Instance(), h, round, []qmsg{m}, subs,
		func(r int64) { cbs = append(cbs, r) })
	if len(cbs) == 0 {
		if len(got) != 0 {
			theRun.Violate("transport:decide_without_callback", "subscribers called without decideCallback")
		}
		theRun.Count("dec:none")
		return "none"
	}
	if len(cbs) != 1 || cbs[0] != round {
		theRun.Violate("transport:decide_callback", fmt.Sprintf("decideCallback calls %v for round %d", cbs, round))
	}
	if len(got) != nsubs {
		theRun.Violate("transport:decide_subscriber_skipped", fmt.Sprintf("%d of %d subscribers called", len(got), nsubs))
	}
	id := -1
	for i, v := range got {
		hv, err := cqbft.HashProtoVerif(v)
		if err != nil || hv != h {
			theRun.Violate("transport:decided_value_hash_mismatch", fmt.Sprintf("decided %s, subscriber %d got a value hashing to %s", hashTok(h), i, hashTok(hv)))
		}
		if i == 0 {
			id = protoID(v)
		} else if protoID(v) != id {
			theRun.Violate("transport:decided_value_hash_mismatch", "subscribers got different values")
		}
	}
	if nsubs == 0 { // nothing observed: recompute the answer from the map for the output line
		if a, ok := m.Values()[h]; ok {
			id = innerID(a)
		}
	}
	if ep.through[idx] {
		if cv, ok := ep.tv.ValuesVerif()[h]; !ok || innerID(cv) != id {
			theRun.Violate("transport:decided_not_cached_value", "decided value differs from the cached value of "+hashTok(h))
		}
	}
	theRun.Count("dec:ok")
	return fmt.Sprintf("ok val=%d cb=%d subs=%d", id, cbs[0], len(got))
}

// ---------- execution ----------

func execOp(ep **episode, op string) string {
	f := strings.Fields(op)
	if len(f) == 0 {
		return "bad-op"
	}
	if f[0] == "new" {
		if len(f) != 3 {
			return "bad-op"
		}
		p, err1 := strconv.Atoi(f[1])
		n, err2 := strconv.Atoi(f[2])
		if err1 != nil || err2 != nil || p < 0 || n <= 0 || p >= n {
			return "bad-op"
		}
		(*ep).close()
		*ep = newEpisode(p, n)
		return "ok"
	}
	e := *ep
	if e == nil {
		return "bad-op"
	}
	switch {
	case f[0] == "prop" && len(f) == 2:
		id, err := strconv.Atoi(f[1])
		if err != nil || id < 0 {
			return "bad-op"
		}
		return e.doProp(id)
	case f[0] == "bc" && len(f) >= 10:
		return e.doBcast(f)
	case f[0] == "drain" && len(f) == 1:
		theRun.Count("drain")
		k := e.drain()
		return fmt.Sprintf("ok n=%d tbl=%d", k, len(e.table))
	case f[0] == "rx":
		return e.doRx(f[1:])
	case f[0] == "mk":
		return e.doMk(f[1:])
	case f[0] == "dec" && len(f) == 5:
		return e.doDec(f)
	}
	return "bad-op"
}

// ---------- generator ----------

type gen struct {
	r     *hx.Rng
	ep    **episode
	slot  uint64
	dty   int
	nVals int
}

func (g *gen) hashTokRand(known []int) string {
	switch {
	case len(known) > 0 && g.r.Chance(8, 10):
		return "h" + strconv.Itoa(known[g.r.Intn(len(known))])
	case g.r.Chance(1, 2):
		return "z"
	case g.r.Chance(1, 2):
		return "h" + strconv.Itoa(g.r.Intn(g.nVals))
	}
	return "u" + strconv.Itoa(g.r.Intn(4))
}

// cached value ids of the running transport.
func (g *gen) cached() []int {
	var out []int
	for _, v := range (*g.ep).tv.ValuesVerif() {
		if id := innerID(v); id >= 0 {
			out = append(out, id)
		}
	}
	sort.Ints(out)
	return out
}

func (g *gen) core(typ int, peer int, round int, pr int, vh, pvh string) string {
	return fmt.Sprintf("%d,%d,%d,%d,%d,%d,%s,%s", typ, g.slot, g.dty, peer, round, pr, vh, pvh)
}

// an honest peer message: every referenced value attached once.
func (g *gen) rxOp(kind string) string {
	e := *g.ep
	r := g.r
	typ := 1 + r.Intn(5)
	peer := r.Intn(e.nodes)
	round := 1 + r.Intn(4)
	vid := r.Intn(g.nVals)
	vh := "h" + strconv.Itoa(vid)
	pvh, pr := "z", 0
	need := map[int]bool{vid: true}
	if r.Chance(1, 4) {
		vh = "z"
		delete(need, vid)
	}
	if typ == 4 && r.Chance(1, 2) || r.Chance(1, 8) {
		p := r.Intn(g.nVals)
		pvh, pr = "h"+strconv.Itoa(p), 1+r.Intn(3)
		need[p] = true
	}
	toks := []string{"M", g.core(typ, peer, round, pr, vh, pvh)}
	nj := 0
	switch {
	case r.Chance(1, 25):
		nj = 8 + r.Intn(40) // large justification list
	case r.Chance(1, 3):
		nj = 1 + r.Intn(2*e.nodes)
	}
	for i := 0; i < nj; i++ {
		jv := r.Intn(g.nVals)
		jvh := "h" + strconv.Itoa(jv)
		jp, jpr := "z", 0
		if r.Chance(1, 5) {
			jvh = "z"
		} else {
			need[jv] = true
		}
		if r.Chance(1, 4) {
			p := r.Intn(g.nVals)
			jp, jpr = "h"+strconv.Itoa(p), 1
			need[p] = true
		}
		toks = append(toks, "J", g.core(2+r.Intn(3), r.Intn(e.nodes), round, jpr, jvh, jp))
	}
	var ids []int
	for id := range need {
		ids = append(ids, id)
	}
	sort.Ints(ids)
	for _, j := range r.Perm(len(ids)) {
		tok := "v"
		if r.Chance(1, 6) {
			tok = "w"
		}
		toks = append(toks, "V", tok+strconv.Itoa(ids[j]))
	}
	// adversarial alterations
	if r.Chance(1, 4) {
		switch r.Intn(7) {
		case 0: // a value missing
			if len(ids) > 0 {
				toks = toks[:len(toks)-2]
			}
		case 1: // extra unreferenced values
			for i := 0; i < 1+r.Intn(3); i++ {
				toks = append(toks, "V", "v"+strconv.Itoa(g.nVals+r.Intn(3)))
			}
		case 2: // wrong value in place of a referenced one
			if len(ids) > 0 {
				toks[len(toks)-1] = "v" + strconv.Itoa(g.nVals+3+r.Intn(2))
			}
		case 3: // value that does not unmarshal
			toks = append(toks, "V", "e")
		case 4: // refers to a value only present in earlier messages: no values at all
			var t2 []string
			for i := 0; i+1 < len(toks); i += 2 {
				if toks[i] != "V" {
					t2 = append(t2, toks[i], toks[i+1])
				}
			}
			toks = t2
		case 5: // odd hash bytes
			toks[1] = g.core(typ, peer, round, pr, []string{"n", "s", "z", "u1"}[r.Intn(4)], []string{"n", "s", "u2"}[r.Intn(3)])
		case 6: // the same value twice (both wrappings)
			if len(ids) > 0 {
				toks = append(toks, "V", "w"+strconv.Itoa(ids[0]), "V", "v"+strconv.Itoa(ids[0]))
			}
		}
	}
	return kind + " " + strings.Join(toks, " ")
}

func (g *gen) bcOp() string {
	e := *g.ep
	r := g.r
	known := g.cached()
	typ := 1 + r.Intn(5)
	peer := e.own
	if r.Chance(1, 15) {
		peer = r.Intn(e.nodes + 1)
	}
	round := 1 + r.Intn(4)
	vh := g.hashTokRand(known)
	pvh, pr := "z", 0
	if r.Chance(1, 3) {
		pvh, pr = g.hashTokRand(known), 1+r.Intn(3)
	}
	berr := "0"
	if r.Chance(1, 15) {
		berr = "1"
	}
	op := fmt.Sprintf("bc %d %d %d %d %d %s %d %s %s", typ, g.slot, g.dty, peer, round, vh, pr, pvh, berr)
	if n := len(e.table); n > 0 && r.Chance(1, 2) {
		nj := 1 + r.Intn(2*e.nodes)
		if r.Chance(1, 12) {
			nj = 8 + r.Intn(30)
		}
		for i := 0; i < nj; i++ {
			idx := r.Intn(n)
			if !e.through[idx] && r.Chance(2, 3) { // mostly messages the reader actually saw
				idx = r.Intn(n)
			}
			op += " " + strconv.Itoa(idx)
		}
	}
	return op
}

func (g *gen) decOp() string {
	e := *g.ep
	r := g.r
	idx := r.Intn(len(e.table))
	h := hashTok(e.table[idx].Value())
	if r.Chance(1, 5) {
		h = g.hashTokRand(g.cached())
	}
	return fmt.Sprintf("dec %d %s %d %d", idx, h, 1+r.Intn(4), r.Intn(4))
}

func main() {
	a := hx.ParseArgs()
	hx.Must(log.InitLogger(log.Config{Level: "fatal", Format: "console", Color: "disable"}))
	run := hx.NewRun(a.Dir)
	theRun = run
	defer run.Close()
	var ep *episode
	do := func(op string) {
		run.Begin(op)
		out := execOp(&ep, op)
		run.Op(op, out)
	}
	if a.Mode == "exec" {
		for _, op := range hx.ReadOps(a.Ops) {
			do(op)
		}
		ep.close()
		return
	}
	r := hx.NewRng(a.Seed)
	g := &gen{r: r, ep: &ep}
	for run.NOps < a.N && !run.Enough() {
		nodes := 3 + r.Intn(5)
		do(fmt.Sprintf("new %d %d", r.Intn(nodes), nodes))
		g.slot = uint64(1 + r.Intn(1000))
		g.dty = 1 + r.Intn(12)
		g.nVals = 3 + r.Intn(8)
		steps := 20 + r.Intn(60)
		for i := 0; i < steps && run.NOps < a.N; i++ {
			x := r.Intn(100)
			switch {
			case x < 10:
				do("prop " + strconv.Itoa(r.Intn(g.nVals)))
			case x < 45:
				do(g.rxOp("rx"))
			case x < 50:
				do(g.rxOp("mk"))
			case x < 78:
				do(g.bcOp())
			case x < 88:
				do("drain")
			default:
				if len(ep.table) == 0 {
					do(g.rxOp("rx"))
				} else {
					do(g.decOp())
				}
			}
		}
		do("drain")
	}
	ep.close()
}
