// drive-provide: correspondence driver for C19 (app/eth2wrap/eth2wrap.go provide/submit over
// app/forkjoin).
//
// Runs the real generic `provide` / `submit` (hooks eth2wrap.VerifProvide / VerifSubmit) over
// scripted clients. Every scripted client blocks in its request until the harness releases it
// (a channel; no sleeps), so the completion order is chosen by the op. The harness learns that
// `provide` has received a result from a spy on the caller's context (`ctx.Err()` is the first
// thing the result loop evaluates for every received result), so the next completion is released
// only after the previous one has been consumed. Time is used only as a watchdog that turns "the
// call did not return although it had to" into a monitor violation.
//
// op:   call <p|s> sf=<0|1> P=<nodes> F=<nodes|-> ev=<events|->       (see lean/Driver/Provide.lean)
// out:  <result> n=<events consumed> fb=<0|1>
//
// op:   proxy <GET|POST> body=<body> P=<nodes> F=<nodes|-> ev=<events|->   (proxy.go: the real multi.Proxy over
//       the same scripted clients, lock-step driven in the same way)
// op:   http <ver|sub|pxy> to=<ms> P=<kinds> F=<kinds|-> cancel=<ms|-> uses=<1|2>   (lazyhttp.go: the real
//       NewMultiHTTP / lazy / go-eth2-client http path against loopback servers; wall-clock monitors)
package main

import (
	"context"
	"errors"
	"fmt"
	"io"
	"net"
	"net/http"
	"os"
	"strconv"
	"strings"
	"syscall"
	"time"

	eth2api "github.com/attestantio/go-eth2-client/api"

	"github.com/obolnetwork/charon/app/eth2wrap"
	"github.com/obolnetwork/charon/app/log"

	"verifharness/hx"
)

const watchdog = 2 * time.Second

// ---------------------------------------------------------------------------------------------
// scripted clients

type nodeErr struct {
	fb  bool
	id  int
	err error
}

func (e *nodeErr) Error() string { return fmt.Sprintf("node %s%d: %v", grp(e.fb), e.id, e.err) }
func (e *nodeErr) Unwrap() error { return e.err }

func grp(fb bool) string {
	if fb {
		return "f"
	}

	return "p"
}

type output struct {
	set bool
	fb  bool
	id  int
	ok  bool
}

type node struct {
	eth2wrap.Client // nil: provide must not call anything but the work function and Address

	fb      bool
	id      int
	cls     string // ok nk to sy bg er
	variant int
	hon     bool
	release chan struct{}
	relDone bool
	arrived bool
	exited  chan struct{}
	call    *call

	// proxy ops (proxy.go): what the node's Proxy method was handed; reject: the request did not carry
	// the original body, the node answers 400 instead of a scripted success
	got    *gotReq
	reject bool
}

func (n *node) Address() string { return fmt.Sprintf("http://%s%d", grp(n.fb), n.id) }

// mkErr: the concrete error of (class, variant). Error classification is a table over these
// constructors; the classifier itself is the real one (checked by the monitor).
func mkErr(cls string, variant int) error {
	switch cls {
	case "to":
		switch variant % 3 {
		case 0:
			return errors.New("http request timeout")
		case 1:
			return errors.New("client is not active")
		default:
			return fmt.Errorf("Get \"http://bn/eth/v1/x\": %w", context.DeadlineExceeded)
		}
	case "sy":
		if variant%2 == 0 {
			return errors.New("beacon node is syncing")
		}

		return errors.New("GET failed with status 500: HeadBlockNotFullyVerified")
	case "bg":
		switch variant % 8 {
		case 7:
			// every syscall.Errno implements net.Error, so isBadGateway accepts any errno
			return os.NewSyscallError("open", syscall.EPERM)
		case 0:
			return &net.OpError{Op: "dial", Net: "tcp", Err: os.NewSyscallError("connect", syscall.ECONNREFUSED)}
		case 1:
			return &eth2api.Error{Method: "GET", Endpoint: "/x", StatusCode: http.StatusBadGateway}
		case 2:
			return &eth2api.Error{Method: "GET", Endpoint: "/x", StatusCode: http.StatusServiceUnavailable}
		case 3:
			return &eth2api.Error{Method: "POST", Endpoint: "/x", StatusCode: http.StatusGatewayTimeout}
		case 4:
			return fmt.Errorf("proxy: %w", http.ErrAbortHandler)
		case 5:
			return os.NewSyscallError("read", syscall.EHOSTUNREACH)
		default:
			return &net.DNSError{Err: "no such host", Name: "bn", IsNotFound: true}
		}
	default: // er
		switch variant % 6 {
		case 0:
			return errors.New("boom")
		case 1:
			return &eth2api.Error{Method: "GET", Endpoint: "/x", StatusCode: http.StatusBadRequest}
		case 2:
			return &eth2api.Error{Method: "GET", Endpoint: "/x", StatusCode: http.StatusInternalServerError}
		case 3:
			return io.ErrUnexpectedEOF
		case 4:
			return context.Canceled
		default:
			// the value form is not matched by errors.As(&*eth2api.Error)
			return eth2api.Error{Method: "GET", Endpoint: "/x", StatusCode: http.StatusBadGateway}
		}
	}
}

func (n *node) result() (output, error) {
	switch n.cls {
	case "ok":
		if n.reject {
			return output{}, &nodeErr{fb: n.fb, id: n.id, err: &eth2api.Error{Method: "POST", Endpoint: "/x", StatusCode: http.StatusBadRequest, Data: []byte("invalid body")}}
		}

		return output{set: true, fb: n.fb, id: n.id, ok: true}, nil
	case "nk":
		return output{set: true, fb: n.fb, id: n.id, ok: false}, nil
	default:
		return output{}, &nodeErr{fb: n.fb, id: n.id, err: mkErr(n.cls, n.variant)}
	}
}

// ---------------------------------------------------------------------------------------------

type spyCtx struct {
	context.Context
	sig chan struct{}
}

func (s *spyCtx) Err() error {
	select {
	case s.sig <- struct{}{}:
	default:
	}

	return s.Context.Err()
}

type result struct {
	out output
	err error
}

type call struct {
	arrive chan *node
	px     *proxyCall // proxy ops only
}

func (c *call) work(ctx context.Context, cl eth2wrap.Client) (output, error) {
	n, ok := cl.(*node)
	if !ok {
		panic("unknown client")
	}
	defer close(n.exited)
	c.arrive <- n
	if n.hon {
		select {
		case <-n.release:
		case <-ctx.Done():
			return output{}, ctx.Err()
		}
	} else {
		<-n.release
	}

	return n.result()
}

type event struct {
	cancel bool
	fb     bool
	i      int
}

var nWatchdog int

func parseNodes(s string, fb bool) ([]*node, bool) {
	if s == "-" {
		return nil, true
	}
	var out []*node
	for i, t := range strings.Split(s, ",") {
		if len(t) != 4 {
			return nil, false
		}
		v, err := strconv.Atoi(t[2:3])
		if err != nil || (t[3] != 'h' && t[3] != 'i') {
			return nil, false
		}
		switch t[:2] {
		case "ok", "nk", "to", "sy", "bg", "er":
		default:
			return nil, false
		}
		out = append(out, &node{fb: fb, id: i, cls: t[:2], variant: v, hon: t[3] == 'h',
			release: make(chan struct{}), exited: make(chan struct{})})
	}

	return out, true
}

func parseEvents(s string) ([]event, bool) {
	if s == "-" {
		return nil, true
	}
	var out []event
	for _, t := range strings.Split(s, ",") {
		if t == "x" {
			out = append(out, event{cancel: true})
			continue
		}
		if len(t) < 2 || (t[0] != 'p' && t[0] != 'f') {
			return nil, false
		}
		i, err := strconv.Atoi(t[1:])
		if err != nil {
			return nil, false
		}
		out = append(out, event{fb: t[0] == 'f', i: i})
	}

	return out, true
}

func timeoutC() <-chan time.Time { return time.After(watchdog) }

// doCall executes one scenario on the real code and evaluates the monitors.
func doCall(run *hx.Run, op string) string {
	f := strings.Fields(op)
	if len(f) != 6 || f[0] != "call" || !strings.HasPrefix(f[2], "sf=") || !strings.HasPrefix(f[3], "P=") ||
		!strings.HasPrefix(f[4], "F=") || !strings.HasPrefix(f[5], "ev=") {
		return "bad-op"
	}
	style, sfs := f[1], f[2][3:]
	prim, ok1 := parseNodes(f[3][2:], false)
	fbs, ok2 := parseNodes(f[4][2:], true)
	evs, ok3 := parseEvents(f[5][3:])
	if !ok1 || !ok2 || !ok3 || (style != "p" && style != "s") || (sfs != "0" && sfs != "1") {
		return "bad-op"
	}
	submit := style == "s"
	sf := sfs == "1"
	if submit {
		if sf {
			return "bad-op"
		}
		for _, n := range append(append([]*node{}, prim...), fbs...) {
			if n.cls == "nk" {
				return "bad-op"
			}
		}
	}

	return runScenario(run, op, style, sf, prim, fbs, evs, nil)
}

// runScenario drives one call in lock-step: style p/s = the generic provide/submit, style x = the real
// multi.Proxy (px describes the request; see proxy.go).
func runScenario(run *hx.Run, op string, style string, sf bool, prim, fbs []*node, evs []event, px *proxyCall) string {
	submit := style == "s"
	c := &call{arrive: make(chan *node, 16), px: px}
	for _, n := range prim {
		n.call = c
	}
	for _, n := range fbs {
		n.call = c
	}
	toClients := func(ns []*node) []eth2wrap.Client {
		var out []eth2wrap.Client
		for _, n := range ns {
			out = append(out, n)
		}

		return out
	}
	inner, cancel := context.WithCancel(context.Background())
	defer cancel()
	spy := &spyCtx{Context: inner, sig: make(chan struct{}, 256)}
	done := make(chan result, 1)
	go func() {
		if px != nil {
			o, err := px.invoke(spy, toClients(prim), toClients(fbs))
			done <- result{out: o, err: err}

			return
		}
		if submit {
			err := eth2wrap.VerifSubmit(spy, toClients(prim), toClients(fbs), func(ctx context.Context, cl eth2wrap.Client) error {
				_, err := c.work(ctx, cl)
				return err
			})
			done <- result{err: err}

			return
		}
		var isSuccess func(output) bool
		if sf {
			isSuccess = func(o output) bool { return o.ok }
		}
		o, err := eth2wrap.VerifProvide(spy, toClients(prim), toClients(fbs), c.work, isSuccess)
		done <- result{out: o, err: err}
	}()

	var (
		res         result
		returned    bool
		late        string // set when a watchdog fired: the call did not return when it had to
		stage       = false
		group       = prim
		pending     = map[int]bool{}
		cancelled   bool
		usedFb      bool
		consumed    int
		firstOK     *node // first success received while not cancelled
		lastFail    *node // last failure of the primaries
		allPrimFail bool
	)
	isSuccessNode := func(n *node) bool { return (n.cls == "ok" && !n.reject) || (n.cls == "nk" && !sf) }
	var scriptOK *node // first node scripted to succeed that completed while the call was live
	waitArrivals := func(k int, already int) bool {
		for j := already; j < k; j++ {
			select {
			case n := <-c.arrive:
				n.arrived = true
				px.arrived(run, op, n)
			case r := <-done:
				// the call has returned although not every node of the group was queried
				res, returned = r, true
				return true
			case <-timeoutC():
				return false
			}
		}

		return true
	}
	waitDone := func() bool {
		select {
		case res = <-done:
			returned = true
			return true
		case <-timeoutC():
			return false
		}
	}
	for i := range prim {
		pending[i] = true
	}
	if len(prim) == 0 || px.returnsBeforeNodes() {
		if !waitDone() {
			late = "no_return_without_nodes"
		}
	} else if !waitArrivals(len(prim), 0) {
		violate(run, "provide:nodes_not_queried_in_parallel", "not every primary node was queried while the others were pending: "+op)
		nWatchdog++
	}

	for _, ev := range evs {
		if returned || late != "" {
			break
		}
		consumed++
		if ev.cancel {
			if cancelled {
				continue
			}
			cancelled = true
			honPending := false
			for i := range pending {
				if group[i].hon && group[i].arrived {
					honPending = true
				}
			}
			cancel()
			if honPending && !waitDone() {
				late = "not_prompt_after_cancel"
				violate(run, "provide:not_prompt_after_cancel", "caller context cancelled while a node honouring its context is pending; the call did not return: "+op)
			}

			continue
		}
		if ev.fb != stage || !pending[ev.i] || ev.i >= len(group) {
			continue // completion of a node this call is not (or no longer) waiting for
		}
		n := group[ev.i]
		delete(pending, ev.i)
		n.relDone = true
		// monitor bookkeeping (before anything can race with the call returning)
		if !cancelled && n.cls == "ok" && scriptOK == nil {
			scriptOK = n
		}
		switch {
		case cancelled:
		case isSuccessNode(n):
			if firstOK == nil {
				firstOK = n
			}
		case !stage:
			lastFail = n
			if len(pending) == 0 {
				allPrimFail = true
			}
		}
		// the call is blocked waiting for a result: whatever the spy still holds is a signal of an
		// earlier ctx.Err() evaluation that the harness did not need (end of the primaries' loop)
		for drained := false; !drained; {
			select {
			case <-spy.sig:
			default:
				drained = true
			}
		}
		close(n.release)
		// the loop receives the result: ctx.Err() is evaluated
		select {
		case <-spy.sig:
		case res = <-done:
			returned = true
		case <-timeoutC():
			late = "result_not_received"
			violate(run, "provide:result_not_received", fmt.Sprintf("completion of node %s%d was not consumed: %s", grp(n.fb), n.id, op))
		}
		if returned || late != "" {
			break
		}
		switch {
		case cancelled:
			if !waitDone() {
				late = "not_prompt_after_cancel"
				violate(run, "provide:not_prompt_after_cancel", "a result arrived after the caller's context was cancelled; the call did not return: "+op)
			}
		case isSuccessNode(n):
			if !waitDone() {
				late = "waited_after_success"
				violate(run, "provide:waited_after_success", fmt.Sprintf("node %s%d answered successfully, the call did not return while other nodes are pending: %s", grp(n.fb), n.id, op))
			}
		default:
			if len(pending) > 0 {
				continue
			}
			// group finished: the loop ends (second ctx.Err()), then either the call returns or the
			// fallback nodes are queried
			moved := false
			for !returned && late == "" && !moved {
				select {
				case <-spy.sig: // the loop has ended: ctx.Err() is evaluated once more
				case res = <-done:
					returned = true
				case fn := <-c.arrive:
					fn.arrived = true
					px.arrived(run, op, fn)
					if stage || !fn.fb {
						violate(run, "provide:unexpected_query", "a node was queried again: "+op)
					}
					usedFb = true
					stage = true
					group = fbs
					pending = map[int]bool{}
					for i := range fbs {
						pending[i] = true
					}
					if !waitArrivals(len(fbs), 1) {
						violate(run, "provide:nodes_not_queried_in_parallel", "not every fallback node was queried while the others were pending: "+op)
						nWatchdog++
					}
					moved = true
				case <-timeoutC():
					late = "no_progress_after_last_result"
				}
			}
		}
	}
	stuck := !returned && late == ""
	// cleanup: let everything finish
	cancel()
	release := func(ns []*node) {
		for _, n := range ns {
			if !n.relDone {
				n.relDone = true
				close(n.release)
			}
		}
	}
	// abandoned workers that honour their context must have been cancelled by the call itself
	if returned {
		for _, n := range append(append([]*node{}, prim...), fbs...) {
			if n.arrived && n.hon && !n.relDone {
				select {
				case <-n.exited:
				case <-timeoutC():
					violate(run, "provide:abandoned_worker_not_cancelled", fmt.Sprintf("node %s%d was still being queried after the call returned and its context was not cancelled: %s", grp(n.fb), n.id, op))
				}
			}
		}
	}
	release(prim)
	release(fbs)
	if !returned {
		select {
		case res = <-done:
		case <-time.After(5 * watchdog):
			panic("provide never returned: " + op)
		}
	}
	if late != "" {
		nWatchdog++
	}

	// ---- result rendering
	var rs string
	var ne *nodeErr
	switch {
	case stuck:
		rs = "stuck"
	case late != "":
		rs = "late:" + late
	case res.err == nil && submit:
		rs = "ok"
	case res.err == nil && !res.out.set:
		rs = "ok:zero-output"
	case res.err == nil && (res.out.ok || !sf):
		rs = fmt.Sprintf("ok:%s%d", grp(res.out.fb), res.out.id)
	case res.err == nil:
		rs = fmt.Sprintf("nok:%s%d", grp(res.out.fb), res.out.id)
	case errors.As(res.err, &ne):
		cls := "??"
		for _, n := range append(append([]*node{}, prim...), fbs...) {
			if n.fb == ne.fb && n.id == ne.id {
				cls = n.cls
				if n.reject {
					cls = "rej"
				}
			}
		}
		rs = fmt.Sprintf("err:%s%d:%s", grp(ne.fb), ne.id, cls)
	case errors.Is(res.err, errPanicked):
		rs = "panic"
		violate(run, "provide:proxy_panicked", fmt.Sprintf("%v: %s", res.err, op))
	case px != nil && strings.Contains(res.err.Error(), "read request body"):
		rs = "rderr"
	case errors.Is(res.err, context.Canceled):
		rs = "ctx"
	case len(prim) == 0:
		// no primary configured: forkjoin has no input and provide reports its "no results" error. Classified by the
		// SITUATION, not by the message text (a reworded message must not turn into provide:unexpected_error)
		rs = "bug"
	default:
		rs = "err:unknown:" + res.err.Error()
	}

	// ---- monitors (the property on the implementation's trace; independent of the model)
	if !stuck && late == "" {
		if firstOK != nil {
			want := fmt.Sprintf("ok:%s%d", grp(firstOK.fb), firstOK.id)
			if submit {
				want = "ok"
			}
			if rs != want {
				violate(run, "provide:wrong_result_after_success", fmt.Sprintf("node %s%d answered successfully first, the call returned %s: %s", grp(firstOK.fb), firstOK.id, rs, op))
			}
		} else if res.err == nil && !(sf && strings.HasPrefix(rs, "nok:")) {
			violate(run, "provide:success_without_successful_node", fmt.Sprintf("the call returned %s although no node's success was received: %s", rs, op))
		}
		if ne != nil && !ne.fb && len(pending) > 0 && !stage {
			violate(run, "provide:error_before_all_primaries_failed", fmt.Sprintf("the call returned a primary's error while %d primaries were pending: %s", len(pending), op))
		}
		if res.err != nil && ne == nil && !cancelled && rs != "bug" && rs != "rderr" && rs != "panic" {
			violate(run, "provide:unexpected_error", fmt.Sprintf("%v: %s", res.err, op))
		}
		if errors.Is(res.err, context.Canceled) && ne == nil && !cancelled {
			violate(run, "provide:ctx_error_without_cancel", op)
		}
		// fallback decision, by the real classifiers on the real error value
		if allPrimFail && !cancelled && lastFail != nil && lastFail.cls != "nk" {
			_, e := lastFail.result()
			to, sy, bg := eth2wrap.VerifIsFallbackError(e)
			should := len(fbs) > 0 && (to || sy || bg)
			if should != usedFb {
				violate(run, "provide:fallback_decision", fmt.Sprintf("all primaries failed, last error %q (timeout=%v syncing=%v badgateway=%v), %d fallbacks, fallback consulted=%v: %s", e, to, sy, bg, len(fbs), usedFb, op))
			}
			label := lastFail.cls == "to" || lastFail.cls == "sy" || lastFail.cls == "bg"
			if label != (to || sy || bg) {
				violate(run, "provide:error_class_table", fmt.Sprintf("error %q is labelled %s but classified timeout=%v syncing=%v badgateway=%v", e, lastFail.cls, to, sy, bg))
			}
			run.Count("primaries_all_failed:last=" + lastFail.cls)
		} else if usedFb && !allPrimFail {
			violate(run, "provide:fallback_decision", "fallback nodes consulted although not all primaries had failed: "+op)
		}
	}
	run.Count("res:" + strings.SplitN(rs, ":", 2)[0])
	run.Count(fmt.Sprintf("size:P%dF%d", len(prim), len(fbs)))
	if usedFb {
		run.Count("fallback_consulted")
	}
	if cancelled && consumed <= len(evs) && !stuck {
		run.Count("cancel_seen")
	}
	nLeft := 0
	for _, n := range append(append([]*node{}, prim...), fbs...) {
		if n.arrived && !n.exitedNow() {
			nLeft++
		}
	}
	if nLeft > 0 {
		run.Count("returned_with_nodes_pending")
	}
	classes := ""
	for _, n := range prim {
		classes += n.cls
	}
	classes += "/"
	for _, n := range fbs {
		classes += n.cls
	}
	run.Case(fmt.Sprintf("%s%s:%s:%s:%d", style, px.caseKey(), classes, strings.SplitN(rs, ":", 2)[0], consumed))
	fbFlag := 0
	if usedFb {
		fbFlag = 1
	}
	// wait for the workers to exit so that goroutines do not pile up
	for _, n := range append(append([]*node{}, prim...), fbs...) {
		if n.arrived {
			select {
			case <-n.exited:
			case <-time.After(5 * watchdog):
				panic("worker never exited: " + op)
			}
		}
	}

	if px != nil {
		return fmt.Sprintf("%s n=%d fb=%d %s", rs, consumed, fbFlag, px.finish(run, op, rs, scriptOK, prim, fbs, stuck || late != ""))
	}

	return fmt.Sprintf("%s n=%d fb=%d", rs, consumed, fbFlag)
}

func (n *node) exitedNow() bool {
	select {
	case <-n.exited:
		return true
	default:
		return false
	}
}

var nViol = map[string]int{}

func violate(run *hx.Run, sig, descr string) {
	nViol[sig]++
	run.Count("violation:" + sig)
	if nViol[sig] <= 10 {
		run.Violate(sig, descr)
	}
}

// ---------------------------------------------------------------------------------------------
// generator

var classes = []string{"ok", "nk", "to", "sy", "bg", "er"}

func nodeTok(cls string, variant int, hon bool) string {
	h := "i"
	if hon {
		h = "h"
	}

	return fmt.Sprintf("%s%d%s", cls, variant%10, h)
}

func permutations(n int) [][]int {
	if n == 0 {
		return [][]int{{}}
	}
	var out [][]int
	for _, p := range permutations(n - 1) {
		for pos := 0; pos <= len(p); pos++ {
			q := append(append(append([]int{}, p[:pos]...), n-1), p[pos:]...)
			out = append(out, q)
		}
	}

	return out
}

func tail(rng *hx.Rng, nP, nF int) []string {
	// make sure the call returns: cancel, then complete everything
	out := []string{"x"}
	for _, i := range rng.Perm(nP) {
		out = append(out, fmt.Sprintf("p%d", i))
	}
	for _, i := range rng.Perm(nF) {
		out = append(out, fmt.Sprintf("f%d", i))
	}

	return out
}

func join(l []string) string {
	if len(l) == 0 {
		return "-"
	}

	return strings.Join(l, ",")
}

func main() {
	a := hx.ParseArgs()
	hx.Must(log.InitLogger(log.Config{Level: "error", Format: "console", Color: "disable"}))
	run := hx.NewRun(a.Dir)
	defer run.Close()
	exec := func(op string) {
		run.Begin(op)
		switch {
		case strings.HasPrefix(op, "proxy "):
			run.Op(op, doProxy(run, op))
		case strings.HasPrefix(op, "http "):
			run.Op(op, doHTTP(run, op))
		default:
			run.Op(op, doCall(run, op))
		}
	}
	if a.Mode == "exec" {
		for _, op := range hx.ReadOps(a.Ops) {
			exec(op)
		}

		return
	}
	rng := hx.NewRng(a.Seed)
	// H. the real lazy / http client path against loopback servers (few ops: they take wall-clock time)
	for _, op := range httpOps(rng) {
		exec(op)
	}
	// A. full cross product of outcome classes and completion orders for small sizes
	sizes := [][2]int{{1, 0}, {1, 1}, {2, 0}, {2, 1}, {1, 2}, {3, 0}}
	for _, sz := range sizes {
		nP, nF := sz[0], sz[1]
		total := 1
		for i := 0; i < nP+nF; i++ {
			total *= len(classes)
		}
		for code := 0; code < total && run.NOps < a.N && nWatchdog < 5; code++ {
			cs := make([]string, nP+nF)
			x := code
			for i := range cs {
				cs[i] = classes[x%len(classes)]
				x /= len(classes)
			}
			for _, po := range permutations(nP) {
				for _, fo := range permutations(nF) {
					var ps, fs, ev []string
					for i := 0; i < nP; i++ {
						ps = append(ps, nodeTok(cs[i], rng.Intn(10), rng.Chance(2, 3)))
					}
					for i := 0; i < nF; i++ {
						fs = append(fs, nodeTok(cs[nP+i], rng.Intn(10), rng.Chance(2, 3)))
					}
					for _, i := range po {
						ev = append(ev, fmt.Sprintf("p%d", i))
					}
					for _, i := range fo {
						ev = append(ev, fmt.Sprintf("f%d", i))
					}
					ev = append(ev, tail(rng, nP, nF)...)
					exec(fmt.Sprintf("call p sf=1 P=%s F=%s ev=%s", join(ps), join(fs), join(ev)))
				}
			}
		}
	}
	// A'. the same cross product (without rejected outputs: Proxy has no isSuccessFunc) through multi.Proxy,
	// each scenario with some request body
	pclasses := []string{"ok", "to", "sy", "bg", "er"}
	for _, sz := range sizes {
		nP, nF := sz[0], sz[1]
		total := 1
		for i := 0; i < nP+nF; i++ {
			total *= len(pclasses)
		}
		for code := 0; code < total && run.NOps < a.N && nWatchdog < 5; code++ {
			cs := make([]string, nP+nF)
			x := code
			for i := range cs {
				cs[i] = pclasses[x%len(pclasses)]
				x /= len(pclasses)
			}
			for _, po := range permutations(nP) {
				for _, fo := range permutations(nF) {
					var ps, fs, ev []string
					for i := 0; i < nP; i++ {
						ps = append(ps, nodeTok(cs[i], rng.Intn(10), rng.Chance(2, 3)))
					}
					for i := 0; i < nF; i++ {
						fs = append(fs, nodeTok(cs[nP+i], rng.Intn(10), rng.Chance(2, 3)))
					}
					for _, i := range po {
						ev = append(ev, fmt.Sprintf("p%d", i))
					}
					for _, i := range fo {
						ev = append(ev, fmt.Sprintf("f%d", i))
					}
					ev = append(ev, tail(rng, nP, nF)...)
					exec(fmt.Sprintf("proxy %s body=%s P=%s F=%s ev=%s", randMethod(rng), randBody(rng), join(ps), join(fs), join(ev)))
				}
			}
		}
	}
	// B. random scenarios: up to 4 primaries and 3 fallbacks, hung nodes, cancellation, repeated
	// and out-of-stage completions, submit style, no isSuccessFunc
	for run.NOps < a.N && nWatchdog < 5 {
		nP, nF := 1+rng.Intn(4), rng.Intn(4)
		proxy := rng.Chance(1, 4)
		submit := !proxy && rng.Chance(1, 3)
		sf := !submit && !proxy && rng.Chance(3, 4)
		pick := func(primary bool) string {
			for {
				var c string
				switch r := rng.Intn(100); {
				case r < 25:
					c = "ok"
				case r < 33:
					c = "nk"
				case r < 50:
					c = "to"
				case r < 62:
					c = "sy"
				case r < 80:
					c = "bg"
				default:
					c = "er"
				}
				if (submit || proxy) && c == "nk" {
					continue
				}
				// all-fail primaries are the interesting case for fallbacks
				if primary && c == "ok" && nF > 0 && rng.Chance(1, 2) {
					continue
				}

				return c
			}
		}
		var ps, fs, ev []string
		for i := 0; i < nP; i++ {
			ps = append(ps, nodeTok(pick(true), rng.Intn(10), rng.Chance(2, 3)))
		}
		for i := 0; i < nF; i++ {
			fs = append(fs, nodeTok(pick(false), rng.Intn(10), rng.Chance(2, 3)))
		}
		// completion order; each node hangs with probability 1/5 (it is then only completed in the tail)
		for _, i := range rng.Perm(nP) {
			if !rng.Chance(1, 5) {
				ev = append(ev, fmt.Sprintf("p%d", i))
			}
		}
		for _, i := range rng.Perm(nF) {
			if !rng.Chance(1, 5) {
				ev = append(ev, fmt.Sprintf("f%d", i))
			}
		}
		// noise: a fallback completing early, a node completing twice, a cancellation somewhere
		if rng.Chance(1, 4) && len(ev) > 0 {
			pos := rng.Intn(len(ev) + 1)
			var extra string
			switch rng.Intn(3) {
			case 0:
				extra = fmt.Sprintf("f%d", rng.Intn(nF+1))
			case 1:
				extra = fmt.Sprintf("p%d", rng.Intn(nP+1))
			default:
				extra = ev[rng.Intn(len(ev))]
			}
			ev = append(ev[:pos], append([]string{extra}, ev[pos:]...)...)
		}
		if rng.Chance(1, 3) {
			pos := rng.Intn(len(ev) + 1)
			ev = append(ev[:pos], append([]string{"x"}, ev[pos:]...)...)
		}
		ev = append(ev, tail(rng, nP, nF)...)
		if proxy {
			if rng.Chance(1, 40) {
				ps = nil // no primaries: "bug: no forkjoin results"
			}
			exec(fmt.Sprintf("proxy %s body=%s P=%s F=%s ev=%s", randMethod(rng), randBody(rng), join(ps), join(fs), join(ev)))

			continue
		}
		st := "p"
		if submit {
			st = "s"
		}
		sfv := 0
		if sf {
			sfv = 1
		}
		exec(fmt.Sprintf("call %s sf=%d P=%s F=%s ev=%s", st, sfv, join(ps), join(fs), join(ev)))
	}
}
