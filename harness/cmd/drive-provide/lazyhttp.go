// http ops: the real `eth2wrap.NewMultiHTTP` (multi over lazy clients over go-eth2-client's http
// service) against loopback servers started by this driver. This is the one part of the C19 stream
// that measures wall-clock time: a hung node is a server that accepts the connection and never
// answers, the beacon-node timeout is `to` ms, and "promptly" means within cancel delay + slack
// (slack far below the node timeout).
//
// op:    http <ver|sub|pxy> to=<ms> P=<kinds> F=<kinds|-> cancel=<ms|-> uses=<1|2> [hold=<ms>]
// kind:  ok (healthy) | hg (accepts, never answers) | dd (closed port) | sl (answers every request after slowMs)
// call:  ver = NodePeerCount (provide style), sub = SubmitProposalPreparations (submit style),
//        pxy = Proxy of a POST with a 300 byte body
// out:   r=<ok:<node>|ok|err:un|err:er|ctx> fb=<0|1>  [ | the same for the second use ]
//        (fb: a fallback server received a request during that use)
//        with hold=<ms>: another caller has started the same call 30 ms earlier on the same multi client and
//        gives up only after <ms> (it is inside the lazy clients' creation, holding their provider locks, while
//        the measured caller comes and goes); its result is appended as bg=<…>
//
// The multi client is created afresh per op, so the first use creates the nodes' http services
// (lazy.getOrCreateClient -> eth2http.New, which pings the node synchronously); the second use
// meets existing (possibly inactive) services. No timing goes into the output line; timing is
// judged by monitors only (their names contain `prompt` / `waited`, the check confirms such
// signatures by a second execution).
package main

import (
	"bytes"
	"context"
	"errors"
	"fmt"
	"io"
	"net"
	"net/http"
	"net/http/httptest"
	"strconv"
	"strings"
	"sync"
	"sync/atomic"
	"time"

	eth2api "github.com/attestantio/go-eth2-client/api"
	eth2v1 "github.com/attestantio/go-eth2-client/api/v1"

	"github.com/obolnetwork/charon/app/eth2wrap"

	"verifharness/hx"
)

const (
	slowMs    = 500                     // a slow node delays every response by this much
	slackHTTP = 1000 * time.Millisecond // "promptly": within this much of the earliest possible return
)

type lnode struct {
	kind    string
	fb      bool
	id      int
	srv     *httptest.Server
	addr    string
	hits    atomic.Int64
	release chan struct{}
	mu      sync.Mutex
	echoed  [][]byte
}

func (n *lnode) name() string { return fmt.Sprintf("%s%d", grp(n.fb), n.id) }

func (n *lnode) ServeHTTP(w http.ResponseWriter, r *http.Request) {
	n.hits.Add(1)
	switch n.kind {
	case "hg":
		select {
		case <-n.release:
		case <-r.Context().Done():
		}

		return
	case "sl":
		select {
		case <-time.After(slowMs * time.Millisecond):
		case <-n.release:
			return
		case <-r.Context().Done():
			return
		}
	}
	w.Header().Set("Content-Type", "application/json")
	switch r.URL.Path {
	case "/eth/v1/node/syncing":
		_, _ = io.WriteString(w, `{"data":{"head_slot":"100","sync_distance":"0","is_syncing":false,"is_optimistic":false,"el_offline":false}}`)
	case "/eth/v1/node/version":
		_, _ = io.WriteString(w, `{"data":{"version":"verif/`+n.name()+`"}}`)
	case "/eth/v1/node/peer_count":
		c := 100 + n.id
		if n.fb {
			c = 200 + n.id
		}
		_, _ = io.WriteString(w, fmt.Sprintf(`{"data":{"disconnected":"0","connecting":"0","connected":"%d","disconnecting":"0"}}`, c))
	case "/eth/v1/validator/prepare_beacon_proposer":
		_, _ = io.Copy(io.Discard, r.Body)
		w.WriteHeader(http.StatusOK)
	case "/eth/v1/verif/echo":
		b, _ := io.ReadAll(r.Body)
		n.mu.Lock()
		n.echoed = append(n.echoed, b)
		n.mu.Unlock()
		w.Header().Set("X-Verif-Node", n.name())
		_, _ = io.WriteString(w, `{}`)
	default:
		w.WriteHeader(http.StatusNotFound)
		_, _ = io.WriteString(w, `{"code":404,"message":"not found"}`)
	}
}

func startNodes(spec string, fb bool) ([]*lnode, bool) {
	if spec == "-" {
		return nil, true
	}
	var out []*lnode
	for i, k := range strings.Split(spec, ",") {
		n := &lnode{kind: k, fb: fb, id: i, release: make(chan struct{})}
		switch k {
		case "ok", "hg", "sl":
			n.srv = httptest.NewServer(n)
			n.addr = n.srv.URL
		case "dd":
			l, err := net.Listen("tcp", "127.0.0.1:0")
			hx.Must(err)
			n.addr = "http://" + l.Addr().String()
			hx.Must(l.Close())
		default:
			stopNodes(out)

			return nil, false
		}
		out = append(out, n)
	}

	return out, true
}

func stopNodes(ns []*lnode) {
	for _, n := range ns {
		if n.srv != nil {
			close(n.release)
			n.srv.CloseClientConnections()
			n.srv.Close()
		}
	}
}

func addrs(ns []*lnode) []string {
	var out []string
	for _, n := range ns {
		out = append(out, n.addr)
	}

	return out
}

func has(ns []*lnode, kind string) bool {
	for _, n := range ns {
		if n.kind == kind {
			return true
		}
	}

	return false
}

func fbHits(ns []*lnode) int64 {
	var t int64
	for _, n := range ns {
		t += n.hits.Load()
	}

	return t
}

func doHTTP(run *hx.Run, op string) string {
	f := strings.Fields(op)
	holdMs := -1
	if len(f) == 8 && strings.HasPrefix(f[7], "hold=") {
		h, err := strconv.Atoi(f[7][5:])
		if err != nil || h < 0 {
			return "bad-op"
		}
		holdMs = h
		f = f[:7]
	}
	if len(f) != 7 || f[0] != "http" || !strings.HasPrefix(f[2], "to=") || !strings.HasPrefix(f[3], "P=") ||
		!strings.HasPrefix(f[4], "F=") || !strings.HasPrefix(f[5], "cancel=") || !strings.HasPrefix(f[6], "uses=") {
		return "bad-op"
	}
	callKind := f[1]
	toMs, err := strconv.Atoi(f[2][3:])
	if err != nil || toMs < 50 || toMs > 60000 || (callKind != "ver" && callKind != "sub" && callKind != "pxy") {
		return "bad-op"
	}
	cancelMs := -1
	if c := f[5][7:]; c != "-" {
		cancelMs, err = strconv.Atoi(c)
		if err != nil || cancelMs < 0 || cancelMs >= toMs {
			return "bad-op"
		}
	}
	uses, err := strconv.Atoi(f[6][5:])
	if err != nil || uses < 1 || uses > 2 || f[3][2:] == "-" {
		return "bad-op"
	}
	if holdMs >= 0 && (holdMs >= toMs || uses != 1 || cancelMs < 0 || callKind == "pxy") {
		return "bad-op"
	}
	prim, ok := startNodes(f[3][2:], false)
	if !ok {
		return "bad-op"
	}
	defer stopNodes(prim)
	fbs, ok := startNodes(f[4][2:], true)
	if !ok {
		return "bad-op"
	}
	defer stopNodes(fbs)
	all := append(append([]*lnode{}, prim...), fbs...)
	timeout := time.Duration(toMs) * time.Millisecond
	cl, err := eth2wrap.NewMultiHTTP(timeout, [4]byte{}, map[string]string{}, addrs(prim), addrs(fbs))
	hx.Must(err)
	payload := bodyBytes(300, toMs%256)

	// the background caller (hold=): same call, first on the scene, gives up after holdMs
	type bgResult struct {
		rs      string
		elapsed time.Duration
	}
	var bg chan bgResult
	if holdMs >= 0 {
		bg = make(chan bgResult, 1)
		go func() {
			ctx, cancel := context.WithCancel(context.Background())
			tm := time.AfterFunc(time.Duration(holdMs)*time.Millisecond, cancel)
			defer tm.Stop()
			defer cancel()
			t0 := time.Now()
			var err error
			rs := "ok"
			if callKind == "ver" {
				_, err = cl.NodePeerCount(ctx, &eth2api.NodePeerCountOpts{})
			} else {
				err = cl.SubmitProposalPreparations(ctx, []*eth2v1.ProposalPreparation{{ValidatorIndex: 1}})
			}
			if err != nil {
				rs = "err"
				if ctx.Err() != nil && errors.Is(err, context.Canceled) {
					rs = "ctx"
				}
			}
			bg <- bgResult{rs, time.Since(t0)}
		}()
		time.Sleep(30 * time.Millisecond)
	}

	var outs []string
	for use := 1; use <= uses; use++ {
		which := "first_use"
		if use == 2 {
			which = "second_use"
		}
		hits0 := fbHits(fbs)
		ctx, cancel := context.WithCancel(context.Background())
		var tm *time.Timer
		if cancelMs >= 0 {
			tm = time.AfterFunc(time.Duration(cancelMs)*time.Millisecond, cancel)
		}
		var (
			rs      string
			callErr error
		)
		t0 := time.Now()
		switch callKind {
		case "ver":
			var resp *eth2api.Response[*eth2v1.PeerCount]
			resp, callErr = cl.NodePeerCount(ctx, &eth2api.NodePeerCountOpts{})
			if callErr == nil {
				rs = "ok:?"
				if resp != nil && resp.Data != nil {
					c := int(resp.Data.Connected)
					if c >= 200 {
						rs = fmt.Sprintf("ok:f%d", c-200)
					} else {
						rs = fmt.Sprintf("ok:p%d", c-100)
					}
				}
			}
		case "sub":
			callErr = cl.SubmitProposalPreparations(ctx, []*eth2v1.ProposalPreparation{{ValidatorIndex: 1}})
			if callErr == nil {
				rs = "ok"
			}
		default:
			req, err := http.NewRequestWithContext(ctx, http.MethodPost, "http://vc.local/eth/v1/verif/echo", bytes.NewReader(payload))
			hx.Must(err)
			var resp *http.Response
			resp, callErr = cl.Proxy(ctx, req)
			if callErr == nil {
				rs = "ok:?"
				if resp != nil {
					rs = "ok:" + resp.Header.Get("X-Verif-Node")
				}
			}
		}
		elapsed := time.Since(t0)
		cancelFired := ctx.Err() != nil
		if tm != nil {
			tm.Stop()
		}
		cancel()
		if callErr != nil {
			to, sy, bg := eth2wrap.VerifIsFallbackError(callErr)
			switch {
			case cancelFired && errors.Is(callErr, context.Canceled):
				rs = "ctx"
			case to || sy || bg:
				rs = "err:un"
			default:
				rs = "err:er"
			}
		}
		usedFb := fbHits(fbs) > hits0

		// ---- monitors (the property on the real client stack; wall clock)
		healthyPrim := has(prim, "ok")
		healthy := healthyPrim || has(fbs, "ok")
		anyHung := has(all, "hg")
		descr := fmt.Sprintf("%s returned %s after %v (node timeout %v): %s", which, rs, elapsed.Round(time.Millisecond), timeout, op)
		switch {
		case cancelMs >= 0 && !healthyPrim:
			// nobody can answer before the caller gives up: the call must end with the caller's cancellation
			if elapsed > time.Duration(cancelMs)*time.Millisecond+slackHTTP {
				violate(run, "provide:cancel_not_prompt_"+which, "caller cancelled after "+strconv.Itoa(cancelMs)+" ms; "+descr)
			}
			if rs != "ctx" && !(has(fbs, "ok") && !has(prim, "hg") && !has(prim, "sl")) {
				violate(run, "provide:http_cancel_result_"+which, descr)
			}
		case cancelMs < 0 && healthyPrim:
			if elapsed > slackHTTP {
				sig := "provide:waited_for_slow_node_" + which
				if anyHung {
					sig = "provide:waited_for_hung_node_" + which
				}
				violate(run, sig, "a healthy primary node is configured; "+descr)
			}
			if !strings.HasPrefix(rs, "ok") {
				violate(run, "provide:http_failed_although_node_healthy_"+which, descr)
			}
		case cancelMs < 0 && !healthyPrim:
			// primaries are dead (fail at once) or hung/slow (fail within about two node timeouts: creation ping +
			// the activity check of the call itself); then the fallbacks
			bound := slackHTTP
			if has(prim, "hg") || has(prim, "sl") {
				bound += 2 * timeout
			}
			if has(fbs, "hg") && !has(fbs, "ok") {
				bound += 2 * timeout
			}
			if elapsed > bound {
				violate(run, "provide:waited_beyond_node_timeout_"+which, descr)
			}
			if healthy && !strings.HasPrefix(rs, "ok") && !has(prim, "sl") {
				violate(run, "provide:http_fallback_not_used_"+which, "all primaries are unavailable and a fallback node is healthy; "+descr)
			}
		}
		if callKind == "pxy" && strings.HasPrefix(rs, "ok:") {
			for _, n := range all {
				if n.name() != rs[3:] {
					continue
				}
				n.mu.Lock()
				if len(n.echoed) == 0 || !bytes.Equal(n.echoed[len(n.echoed)-1], payload) {
					got := "nothing"
					if len(n.echoed) > 0 {
						got = digest(n.echoed[len(n.echoed)-1])
					}
					violate(run, "provide:proxy_body_altered_http", fmt.Sprintf("node %s answered the proxied POST but received %s instead of %s: %s", n.name(), got, digest(payload), op))
				}
				n.mu.Unlock()
			}
		}
		run.Count("http:res:" + strings.SplitN(rs, ":", 2)[0])
		run.Count("http:" + callKind + ":" + which)
		fbFlag := 0
		if usedFb {
			fbFlag = 1
			run.Count("http:fallback_consulted")
		}
		outs = append(outs, fmt.Sprintf("r=%s fb=%d", rs, fbFlag))
	}
	run.Case("http:" + strings.Join(f[1:], " "))
	if bg != nil {
		select {
		case b := <-bg:
			if b.elapsed > time.Duration(holdMs)*time.Millisecond+slackHTTP {
				violate(run, "provide:cancel_not_prompt_first_use", fmt.Sprintf("background caller cancelled after %d ms returned %s after %v: %s", holdMs, b.rs, b.elapsed.Round(time.Millisecond), op))
			}
			outs = append(outs, "bg="+b.rs)
		case <-time.After(3*timeout + slackHTTP):
			violate(run, "provide:cancel_not_prompt_first_use", "background caller never returned: "+op)
			outs = append(outs, "bg=stuck")
		}
		run.Count("http:concurrent_first_use")
	}

	return strings.Join(outs, " | ")
}

// httpOps: the fixed shapes of the http part, with random variation in positions, delays and style.
func httpOps(rng *hx.Rng) []string {
	d := func() int { return 100 + 10*rng.Intn(11) } // caller gives up after 100..200 ms
	style := func() string {
		if rng.Chance(1, 2) {
			return "sub"
		}

		return "ver"
	}
	shuffle := func(kinds ...string) string {
		out := make([]string, len(kinds))
		for i, j := range rng.Perm(len(kinds)) {
			out[i] = kinds[j]
		}

		return strings.Join(out, ",")
	}
	const to = 3000
	ops := []string{
		// first use, only hung nodes, the caller gives up
		fmt.Sprintf("http ver to=%d P=hg F=- cancel=%d uses=1", to, d()),
		fmt.Sprintf("http sub to=%d P=hg,hg F=hg cancel=%d uses=1", to, d()),
		fmt.Sprintf("http %s to=%d P=%s F=- cancel=%d uses=2", style(), to, shuffle("dd", "hg"), d()),
		fmt.Sprintf("http %s to=%d P=dd F=hg cancel=%d uses=1", style(), to, d()),
		// first use by two callers at once: the second one comes and goes while the first is creating the clients
		fmt.Sprintf("http %s to=%d P=%s F=- cancel=%d uses=1 hold=1500", style(), to, shuffle("hg", "hg"), d()),
		// first use, a healthy primary next to hung / slow / dead ones
		fmt.Sprintf("http ver to=%d P=%s F=- cancel=- uses=2", to, shuffle("hg", "ok")),
		fmt.Sprintf("http sub to=%d P=%s F=hg cancel=- uses=1", to, shuffle("hg", "ok", "hg")),
		fmt.Sprintf("http %s to=%d P=%s F=- cancel=- uses=1", style(), to, shuffle("sl", "ok", "dd")),
		fmt.Sprintf("http pxy to=%d P=%s F=- cancel=- uses=2", to, shuffle("hg", "ok")),
		// unavailable primaries: fallbacks
		fmt.Sprintf("http %s to=%d P=%s F=%s cancel=- uses=1", style(), to, shuffle("dd", "dd"), shuffle("ok", "dd")),
		fmt.Sprintf("http pxy to=%d P=dd F=ok cancel=- uses=1", to),
		fmt.Sprintf("http ver to=%d P=hg F=ok cancel=- uses=1", 300+10*rng.Intn(11)),
		fmt.Sprintf("http %s to=%d P=dd,dd F=dd cancel=- uses=1", style(), to),
	}

	return ops
}
