// proxy ops: the real `multi.Proxy` (app/eth2wrap/multi.go — the one hand-written endpoint of the
// multi client that handles a request body) over the scripted clients of this driver.
//
// op:   proxy <GET|POST> body=<body> P=<nodes> F=<nodes|-> ev=<events|->
// body: nil                 req.Body == nil
//       E                   req.Body == http.NoBody
//       <n>.<s>             n bytes, byte i = (s + 13 i + i/251) mod 256, read through a spying io.ReadCloser
//       <n>.<s>.e<k>        the same, but Read fails once k bytes (k <= n) have been delivered
// out:  <result> n=<events consumed> fb=<0|1> recv=<node:digest,…|-> caller=<bytes read>/<closes>|- rb=<digest|nil|caller> cl=<ContentLength>
//
// The multi client is built by the production constructor (eth2wrap.Instrument; NewMultiForT only
// for the degenerate "no primaries" case). Every scripted node's Proxy method first takes the
// request apart like a transport would (reads Body to the end, looks at ContentLength, calls
// GetBody, compares method / URL / header with the original, then scribbles on its own header) and
// then blocks until the harness releases it, exactly like the work function of the call ops. A node
// scripted `ok` answers 200 only if it was handed the complete original body (400 otherwise, as a
// beacon node would reject a truncated JSON document).
package main

import (
	"bytes"
	"context"
	"errors"
	"fmt"
	"io"
	"net/http"
	"strconv"
	"strings"
	"sync"

	"github.com/obolnetwork/charon/app/eth2wrap"

	"verifharness/hx"
)

type bodySpec struct {
	kind   string // nil E B
	n      int
	seed   int
	failAt int // -1: never
}

func parseBody(s string) (bodySpec, bool) {
	switch s {
	case "nil":
		return bodySpec{kind: "nil", failAt: -1}, true
	case "E":
		return bodySpec{kind: "E", failAt: -1}, true
	}
	parts := strings.Split(s, ".")
	if len(parts) != 2 && len(parts) != 3 {
		return bodySpec{}, false
	}
	n, err1 := strconv.Atoi(parts[0])
	sd, err2 := strconv.Atoi(parts[1])
	if err1 != nil || err2 != nil || n < 0 || sd < 0 || n > 1<<20 {
		return bodySpec{}, false
	}
	sp := bodySpec{kind: "B", n: n, seed: sd, failAt: -1}
	if len(parts) == 3 {
		if !strings.HasPrefix(parts[2], "e") {
			return bodySpec{}, false
		}
		k, err := strconv.Atoi(parts[2][1:])
		if err != nil || k < 0 || k > n {
			return bodySpec{}, false
		}
		sp.failAt = k
	}

	return sp, true
}

func bodyBytes(n, seed int) []byte {
	b := make([]byte, n)
	for i := range b {
		b[i] = byte((seed + 13*i + i/251) % 256)
	}

	return b
}

// digest: <length>.<checksum>, checksum = fold acc := (131 acc + byte + 1) mod 1000003 from 7.
func digest(b []byte) string {
	acc := 7
	for _, x := range b {
		acc = (acc*131 + int(x) + 1) % 1000003
	}

	return fmt.Sprintf("%d.%d", len(b), acc)
}

// callerBody is the caller's request body: delivers the bytes in chunks of at most 1000 and keeps
// account of what was done to it.
type callerBody struct {
	mu             sync.Mutex
	data           []byte
	pos            int
	failAt         int
	closes         int
	readAfterClose bool
}

func (c *callerBody) Read(p []byte) (int, error) {
	c.mu.Lock()
	defer c.mu.Unlock()
	if c.closes > 0 {
		c.readAfterClose = true
	}
	limit := len(c.data)
	if c.failAt >= 0 {
		limit = c.failAt
	}
	if c.pos >= limit {
		if c.failAt >= 0 {
			return 0, errors.New("caller body: connection reset")
		}

		return 0, io.EOF
	}
	n := limit - c.pos
	if n > 1000 {
		n = 1000
	}
	if n > len(p) {
		n = len(p)
	}
	copy(p, c.data[c.pos:c.pos+n])
	c.pos += n

	return n, nil
}

func (c *callerBody) Close() error {
	c.mu.Lock()
	defer c.mu.Unlock()
	c.closes++

	return nil
}

// gotReq is what a node's Proxy method was handed.
type gotReq struct {
	bodyNil        bool
	body           []byte
	readErr        error
	clen           int64
	getBodyNil     bool
	getBody        []byte
	isCallerReader bool
	sameReq        bool // method, URL and header equal to the original request's
	isOriginalReq  bool // the node was handed the caller's *http.Request itself
}

type proxyCall struct {
	method string
	spec   bodySpec
	orig   []byte // the original body (nil for kind nil)
	req    *http.Request
	spy    *callerBody
	url    string
	hdr    http.Header
	initCL int64

	mu       sync.Mutex // nodes scribble on their requests one at a time
	reported map[string]bool
}

const proxyURL = "http://vc.local/eth/v1/validator/prepare_beacon_proposer?verif=1"

func newProxyCall(method string, sp bodySpec) *proxyCall {
	req, err := http.NewRequestWithContext(context.Background(), method, proxyURL, nil)
	hx.Must(err)
	req.Header.Set("Content-Type", "application/json")
	req.Header.Add("X-Verif", "a")
	req.Header.Add("X-Verif", "b")
	px := &proxyCall{method: method, spec: sp, req: req, url: req.URL.String(), hdr: req.Header.Clone(), reported: map[string]bool{}}
	switch sp.kind {
	case "E":
		req.Body = http.NoBody
		px.orig = []byte{}
	case "B":
		px.orig = bodyBytes(sp.n, sp.seed)
		px.spy = &callerBody{data: px.orig, failAt: sp.failAt}
		req.Body = px.spy
		if sp.seed%2 == 0 {
			req.ContentLength = int64(sp.n)
		}
	}
	px.initCL = req.ContentLength

	return px
}

func (px *proxyCall) returnsBeforeNodes() bool { return px != nil && px.spec.failAt >= 0 }

func (px *proxyCall) caseKey() string {
	if px == nil {
		return ""
	}
	switch {
	case px.spec.kind != "B":
		return ":" + px.spec.kind
	case px.spec.failAt >= 0:
		return ":Berr"
	case px.spec.n == 0:
		return ":B0"
	case px.spec.n > 4096:
		return ":Bbig"
	default:
		return ":B"
	}
}

// errPanicked: multi.Proxy panicked in the caller's goroutine (reported as a violation, not as a harness crash).
var errPanicked = errors.New("panic in multi.Proxy")

func (px *proxyCall) invoke(ctx context.Context, prim, fbs []eth2wrap.Client) (out output, err error) {
	defer func() {
		if r := recover(); r != nil {
			out, err = output{}, fmt.Errorf("%w: %v", errPanicked, r)
		}
	}()
	var m eth2wrap.Client
	if len(prim) == 0 {
		m = eth2wrap.NewMultiForT(prim, fbs)
	} else {
		var err error
		m, err = eth2wrap.Instrument(prim, fbs)
		hx.Must(err)
	}
	resp, err := m.Proxy(ctx, px.req)
	if err != nil {
		return output{}, err
	}
	if resp == nil {
		return output{}, nil
	}
	tok := resp.Header.Get("X-Verif-Node")
	if len(tok) < 2 {
		return output{}, errors.New("response of no node")
	}
	id, err := strconv.Atoi(tok[1:])
	hx.Must(err)

	return output{set: true, fb: tok[0] == 'f', id: id, ok: true}, nil
}

// observe runs in the node's worker goroutine, before the node reports its arrival.
func (px *proxyCall) observe(n *node, req *http.Request) *gotReq {
	g := &gotReq{clen: req.ContentLength, isOriginalReq: req == px.req}
	if req.Body == nil {
		g.bodyNil = true
	} else {
		if cb, ok := req.Body.(*callerBody); ok && cb == px.spy {
			g.isCallerReader = true
		}
		g.body, g.readErr = io.ReadAll(req.Body)
		_ = req.Body.Close()
	}
	if req.GetBody == nil {
		g.getBodyNil = true
	} else if rc, err := req.GetBody(); err == nil && rc != nil {
		g.getBody, _ = io.ReadAll(rc)
		_ = rc.Close()
	}
	px.mu.Lock()
	g.sameReq = req.Method == px.method && req.URL != nil && req.URL.String() == px.url && headerEq(req.Header, px.hdr)
	if req.Header != nil {
		req.Header.Set("X-Scribbled-By", fmt.Sprintf("%s%d", grp(n.fb), n.id))
		req.Header.Del("X-Verif")
	}
	px.mu.Unlock()

	return g
}

func headerEq(a, b http.Header) bool {
	if len(a) != len(b) {
		return false
	}
	for k, v := range a {
		w, ok := b[k]
		if !ok || len(v) != len(w) {
			return false
		}
		for i := range v {
			if v[i] != w[i] {
				return false
			}
		}
	}

	return true
}

func (px *proxyCall) hasBody() bool { return px.spec.kind != "nil" }

// bodyIsOriginal: the node was handed exactly the caller's body (or no body if there was none).
func (px *proxyCall) bodyIsOriginal(g *gotReq) bool {
	if !px.hasBody() {
		return g.bodyNil
	}

	return !g.bodyNil && g.readErr == nil && bytes.Equal(g.body, px.orig)
}

func (px *proxyCall) once(run *hx.Run, sig, descr string) {
	if px.reported[sig] {
		return
	}
	px.reported[sig] = true
	violate(run, sig, descr)
}

func describeBody(g *gotReq) string {
	switch {
	case g.bodyNil:
		return "no body"
	case g.readErr != nil:
		return fmt.Sprintf("a body that fails after %d bytes (%v)", len(g.body), g.readErr)
	default:
		return "body " + digest(g.body)
	}
}

// arrived runs on the harness goroutine when node n has reported its arrival: monitors on what the
// node was handed.
func (px *proxyCall) arrived(run *hx.Run, op string, n *node) {
	if px == nil || n.got == nil {
		return
	}
	g := n.got
	who := fmt.Sprintf("node %s%d", grp(n.fb), n.id)
	want := "no body"
	if px.hasBody() {
		want = "body " + digest(px.orig)
	}
	if !px.bodyIsOriginal(g) {
		px.once(run, "provide:proxy_body_altered", fmt.Sprintf("%s was handed %s, the caller's request carries %s: %s", who, describeBody(g), want, op))
	}
	if g.isCallerReader || g.isOriginalReq {
		px.once(run, "provide:proxy_node_handed_callers_reader", who+" was handed the caller's own request / body reader: "+op)
	}
	if px.hasBody() && g.clen != int64(len(px.orig)) {
		px.once(run, "provide:proxy_content_length_wrong", fmt.Sprintf("%s: ContentLength %d, body has %d bytes: %s", who, g.clen, len(px.orig), op))
	}
	if px.hasBody() && (g.getBodyNil || !bytes.Equal(g.getBody, px.orig)) {
		px.once(run, "provide:proxy_getbody_wrong", fmt.Sprintf("%s: GetBody missing or not the original body (%s): %s", who, digest(g.getBody), op))
	}
	if !g.sameReq {
		px.once(run, "provide:proxy_request_altered", who+" was handed a request whose method, URL or header differs from the caller's (or carries another node's changes): "+op)
	}
}

// finish: monitors on the whole call and the proxy specific part of the output line.
func (px *proxyCall) finish(run *hx.Run, op, rs string, scriptOK *node, prim, fbs []*node, undecided bool) string {
	var recv []string
	for _, n := range append(append([]*node{}, prim...), fbs...) {
		if !n.arrived || n.got == nil {
			continue
		}
		d := "nil"
		if !n.got.bodyNil {
			d = digest(n.got.body)
			if n.got.readErr != nil {
				d += "!"
			}
		}
		recv = append(recv, fmt.Sprintf("%s%d:%s", grp(n.fb), n.id, d))
	}
	if scriptOK != nil && !undecided && !strings.HasPrefix(rs, "ok:") {
		px.once(run, "provide:proxy_failed_although_node_ok", fmt.Sprintf("node %s%d is scripted to answer the proxied request successfully and completed while the call was waiting, the call returned %s: %s", grp(scriptOK.fb), scriptOK.id, rs, op))
	}
	caller := "-"
	if px.spy != nil {
		px.spy.mu.Lock()
		caller = fmt.Sprintf("%d/%d", px.spy.pos, px.spy.closes)
		if px.spec.failAt < 0 && (px.spy.pos != len(px.spy.data) || px.spy.readAfterClose || px.spy.closes != 1) {
			px.once(run, "provide:proxy_caller_body_not_consumed_once", fmt.Sprintf("caller's body of %d bytes: %d read, closed %d times, read after close %v: %s", len(px.spy.data), px.spy.pos, px.spy.closes, px.spy.readAfterClose, op))
		}
		px.spy.mu.Unlock()
	}
	// the caller's request after the call
	rb := "nil"
	if px.req.Body != nil {
		if cb, ok := px.req.Body.(*callerBody); ok && cb == px.spy {
			rb = "caller"
		} else {
			left, err := io.ReadAll(px.req.Body)
			rb = digest(left)
			if err != nil {
				rb += "!"
			}
		}
	}
	if px.req.Method != px.method || px.req.URL.String() != px.url || !headerEq(px.req.Header, px.hdr) {
		px.once(run, "provide:proxy_request_altered", "the caller's request (method, URL, header) was changed by the call: "+op)
	}
	run.Count("proxy:body=" + strings.TrimPrefix(px.caseKey(), ":"))
	run.Count("proxy:" + px.method)
	run.Count(fmt.Sprintf("proxy:nodes_consulted=%d", len(recv)))

	return fmt.Sprintf("recv=%s caller=%s rb=%s cl=%d", join(recv), caller, rb, px.req.ContentLength)
}

// Proxy is the scripted node's implementation of eth2wrap.Client.Proxy.
func (n *node) Proxy(ctx context.Context, req *http.Request) (*http.Response, error) {
	px := n.call.px
	if px == nil {
		panic("Proxy called outside a proxy op")
	}
	n.got = px.observe(n, req)
	n.reject = !px.bodyIsOriginal(n.got)
	if _, err := n.call.work(ctx, n); err != nil {
		return nil, err
	}
	h := http.Header{}
	h.Set("X-Verif-Node", fmt.Sprintf("%s%d", grp(n.fb), n.id))

	return &http.Response{StatusCode: http.StatusOK, Header: h, Body: http.NoBody}, nil
}

func doProxy(run *hx.Run, op string) string {
	f := strings.Fields(op)
	if len(f) != 6 || f[0] != "proxy" || !strings.HasPrefix(f[2], "body=") || !strings.HasPrefix(f[3], "P=") ||
		!strings.HasPrefix(f[4], "F=") || !strings.HasPrefix(f[5], "ev=") {
		return "bad-op"
	}
	sp, ok0 := parseBody(f[2][5:])
	prim, ok1 := parseNodes(f[3][2:], false)
	fbs, ok2 := parseNodes(f[4][2:], true)
	evs, ok3 := parseEvents(f[5][3:])
	if !ok0 || !ok1 || !ok2 || !ok3 || (f[1] != "GET" && f[1] != "POST") {
		return "bad-op"
	}
	for _, n := range append(append([]*node{}, prim...), fbs...) {
		if n.cls == "nk" {
			return "bad-op"
		}
	}

	return runScenario(run, op, "x", false, prim, fbs, evs, newProxyCall(f[1], sp))
}

var bodySizes = []int{1, 2, 13, 100, 512, 1500, 4096}

func randBody(rng *hx.Rng) string {
	switch r := rng.Intn(40); {
	case r < 4:
		return "nil"
	case r < 6:
		return "E"
	case r < 8:
		return fmt.Sprintf("0.%d", rng.Intn(256))
	case r == 8:
		return fmt.Sprintf("%d.%d", 33000+rng.Intn(9000), rng.Intn(256))
	case r < 11:
		n := bodySizes[rng.Intn(len(bodySizes))]
		return fmt.Sprintf("%d.%d.e%d", n, rng.Intn(256), rng.Intn(n+1))
	default:
		return fmt.Sprintf("%d.%d", bodySizes[rng.Intn(len(bodySizes))], rng.Intn(256))
	}
}

func randMethod(rng *hx.Rng) string {
	if rng.Chance(1, 4) {
		return "GET"
	}

	return "POST"
}
