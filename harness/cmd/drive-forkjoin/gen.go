package main

import (
	"fmt"
	"strings"

	"verifharness/hx"
)

// gen: episodes of random walks over the ops, weighted by the state of the episode so that most episodes
// fork their planned inputs, join, and are consumed to the end, while every op also occurs out of place
// (Fork after Join, second Join / cancel, cancel before Join, root cancellation at any point, a consumer
// that stops reading, receives before anything completed, ...).
func gen(d *driver, rng *hx.Rng, n int, do func(string)) {
	ops := 0
	for ops < n && !d.run.Enough() {
		ops += genEpisode(d, rng, do)
	}
}

func pickW(rng *hx.Rng, ws []int) int {
	t := 0
	for _, w := range ws {
		t += w
	}
	if t == 0 {
		return -1
	}
	r := rng.Intn(t)
	for i, w := range ws {
		if r < w {
			return i
		}
		r -= w
	}
	return -1
}

func genEpisode(d *driver, rng *hx.Rng, do func(string)) int {
	nops := 0
	op := func(s string) {
		do(s)
		nops++
	}
	kind := rng.Intn(100)
	planned := rng.Intn(13)
	W, B := fmt.Sprint(1+rng.Intn(8)), "d"
	if rng.Chance(1, 20) {
		W = "d"
	}
	switch rng.Intn(8) {
	case 0:
		B = "0"
	case 1:
		B = "1"
	case 2:
		B = "2"
	case 3:
		B = "3"
	case 4:
		B = "5"
	}
	ff, woc := rng.Intn(2), 0
	if rng.Chance(1, 4) {
		woc = 1
	}
	nextK := rng.Intn(50)
	newID := func() int {
		nextK++
		return 2*nextK + rng.Intn(2)
	}
	kindName := "gen"
	if kind >= 37 && kind < 50 { // few workers, tiny buffer, many inputs: Fork blocks
		kindName = "tight"
		W = fmt.Sprint(1 + rng.Intn(2))
		B = fmt.Sprint(rng.Intn(2))
		planned = 4 + rng.Intn(9)
	}
	switch {
	case kind < 25: // the way eth2wrap.provide uses it
		kindName = "provide"
		planned = 1 + rng.Intn(8)
		W, B, ff, woc = fmt.Sprint(planned), "d", 0, 0
		op(fmt.Sprintf("new W=%s B=%s ff=%d woc=%d", W, B, ff, woc))
	case kind < 37:
		kindName = "nwi"
		ids := make([]string, planned)
		for i := range ids {
			ids[i] = fmt.Sprint(newID())
		}
		in := strings.Join(ids, ",")
		if in == "" {
			in = "-"
		}
		op(fmt.Sprintf("nwi W=%s B=%s ff=%d woc=%d in=%s", W, B, ff, woc, in))
	default:
		op(fmt.Sprintf("new W=%s B=%s ff=%d woc=%d", W, B, ff, woc))
	}
	e := d.e
	forked := 0
	maxOps := 20 + 6*planned + rng.Intn(20)
	sawFlat := false
	for step := 0; step < maxOps && !d.run.Enough(); step++ {
		e.mu.Lock()
		var runIDs []int
		honRunning := false
		for _, id := range e.order {
			w := e.works[id]
			if w.entered && !w.returned {
				runIDs = append(runIDs, id)
				if hon(id) {
					honRunning = true
				}
			}
		}
		haveRes := e.results != nil
		haveCancel := e.cancel != nil
		e.mu.Unlock()
		rootDone := e.root.Err() != nil
		blockedFork := e.pendFork != nil

		const (
			aFork = iota
			aDone
			aJoin
			aRecv
			aFlatten
			aCancel
			aRoot
			aEnd
			nAct
		)
		ws := make([]int, nAct)
		if !e.isNwi && !blockedFork {
			switch {
			case !e.joinCalled && forked < planned:
				ws[aFork] = 45
			case !e.joinCalled:
				ws[aFork] = 3
			default:
				ws[aFork] = 2
			}
		}
		if len(runIDs) > 0 {
			ws[aDone] = 30
		}
		if !e.isNwi {
			switch {
			case blockedFork:
				ws[aJoin] = 1
			case !e.joinCalled && forked >= planned:
				ws[aJoin] = 45
			case !e.joinCalled:
				ws[aJoin] = 3
			default:
				ws[aJoin] = 1
			}
		}
		if haveRes && e.cmode == 0 {
			ws[aRecv] = 38
			if e.closedSeen {
				ws[aRecv] = 3
			} else if !sawFlat {
				ws[aFlatten] = 3
			}
		}
		if haveCancel {
			ws[aCancel] = 3
			if e.cancelCnt > 0 {
				ws[aCancel] = 1
			}
		}
		if !rootDone && !(blockedFork && (e.isNwi || honRunning)) {
			ws[aRoot] = 2
		}
		ws[aEnd] = 1
		if e.closedSeen {
			ws[aEnd] = 25
		}
		a := pickW(rng, ws)
		if a == aEnd {
			break
		}
		switch a {
		case aFork:
			forked++
			op(fmt.Sprintf("fork %d", newID()))
		case aDone:
			id := runIDs[rng.Intn(len(runIDs))]
			cls := "ok"
			switch r := rng.Intn(100); {
			case r < 55:
			case r < 80:
				cls = "fail"
			case r < 90:
				cls = "canc"
			default:
				cls = "dl"
			}
			op(fmt.Sprintf("done %d %s %d", id, cls, id*8+1+rng.Intn(7)))
		case aJoin:
			op("join")
		case aRecv:
			op("recv")
		case aFlatten:
			sawFlat = true
			op("flatten")
		case aCancel:
			op("cancel")
		case aRoot:
			if rng.Chance(1, 3) {
				op("rootcancel d")
			} else {
				op("rootcancel c")
			}
		}
	}
	d.run.Case(fmt.Sprintf("%s|W%s|B%s|ff%d|woc%d|n%d|j%v|closed%v|cancel%d|root%v|recv%d", kindName, W, B, ff, woc, len(e.order),
		e.joinCalled, e.closedSeen, e.cancelCnt, e.root.Err() != nil, len(e.received)))
	op("end")
	return nops
}
