// drive-forkjoin: correspondence driver for C19's fork-join (app/forkjoin/forkjoin.go).
//
// Runs the REAL generic forkjoin.New / forkjoin.NewWithInputs (all option combinations) with a scripted work
// function whose every call blocks on a gate until the op stream releases it (or, for inputs with an odd id,
// until its context is cancelled), a scripted caller (Fork / Join / cancel each in its own goroutine, so that a
// blocking call is observed as blocked instead of hanging the driver), a scripted consumer (single receives from
// the joined channel, or Results.Flatten) and a scripted root context, in strict lock-step: one op forces one
// event; then the driver waits until every goroutine of the process is parked in a blocking wait in one
// stop-the-world goroutine snapshot (no sleeps decide anything) and prints what can be observed:
//
//	<res> run=<ids inside the work function> fk=<-|B> c=<-|W|F> cc=<-|W> fj=<goroutines of forkjoin> got=<…> fkret=<…> flat=<…>
//
// Where Go's semantics leave a choice to the runtime (which of several blocked senders a receive is matched
// with; which ready case a `select` takes), the observed choice is appended to the op line (` ~ got=… fp=… ord=…`)
// and the model has to explain the observation with it (`impossible` otherwise).
//
// ops (see lean/Driver/ForkJoin.lean for the grammar):
//
//	new W=<n|d> B=<n|d> ff=<0|1> woc=<0|1>            forkjoin.New (d = option not given: 8 workers / buffer 100)
//	nwi W=.. B=.. ff=.. woc=.. in=<id,id,…|->          forkjoin.NewWithInputs in a caller goroutine
//	fork <id> | join | done <id> <ok|fail|canc|dl> <out> | cancel | rootcancel <c|d> | recv | flatten | end
package main

import (
	"bytes"
	"context"
	"errors"
	"fmt"
	"runtime"
	"sort"
	"strconv"
	"strings"
	"sync"
	"time"

	"github.com/obolnetwork/charon/app/forkjoin"

	"verifharness/hx"
)

// ---------------------------------------------------------------------------------------------
// goroutine introspection

type goInfo struct {
	id    int64
	state string
	fj    bool // the goroutine runs, or was created by, code of forkjoin.New / NewWithInputs
}

var stackBuf = make([]byte, 1<<18)

var (
	goHdr  = []byte("goroutine ")
	fjMark = []byte("app/forkjoin.New")
)

func snapshot() []goInfo {
	var b []byte
	for {
		n := runtime.Stack(stackBuf, true)
		if n < len(stackBuf) {
			b = stackBuf[:n]
			break
		}
		stackBuf = make([]byte, 2*len(stackBuf))
	}
	var out []goInfo
	for _, blk := range bytes.Split(b, []byte("\n\n")) {
		if !bytes.HasPrefix(blk, goHdr) {
			continue
		}
		nl := bytes.IndexByte(blk, '\n')
		line := blk
		if nl >= 0 {
			line = blk[:nl]
		}
		rest := line[len(goHdr):]
		sp := bytes.IndexByte(rest, ' ')
		lb := bytes.IndexByte(rest, '[')
		rb := bytes.LastIndexByte(rest, ']')
		if sp < 0 || lb < 0 || rb < lb {
			continue
		}
		id, err := strconv.ParseInt(string(rest[:sp]), 10, 64)
		if err != nil {
			continue
		}
		st := string(rest[lb+1 : rb])
		if c := strings.IndexByte(st, ','); c >= 0 {
			st = st[:c]
		}
		out = append(out, goInfo{id: id, state: st, fj: bytes.Contains(blk, fjMark)})
	}
	return out
}

// parked: the goroutine is blocked in a wait that only another goroutine's action can end (or sleeps: the
// watchdog of hx).
func parked(st string) bool {
	switch {
	case strings.HasPrefix(st, "select"), strings.HasPrefix(st, "chan receive"), strings.HasPrefix(st, "chan send"),
		strings.HasPrefix(st, "sync."), st == "sleep":
		return true
	}
	return false
}

var selfGoid int64

func curGoid() int64 {
	var buf [64]byte
	n := runtime.Stack(buf[:], false)
	f := strings.Fields(string(buf[:n]))
	id, err := strconv.ParseInt(f[1], 10, 64)
	hx.Must(err)
	return id
}

// quiesce waits until every other goroutine is parked; returns the number of forkjoin goroutines.
func quiesce() int {
	deadline := time.Now().Add(60 * time.Second)
	for spin := 0; ; spin++ {
		runtime.Gosched()
		gs := snapshot()
		ok := true
		fj := 0
		for _, g := range gs {
			if g.id == selfGoid {
				continue
			}
			if !parked(g.state) {
				ok = false
				break
			}
			if g.fj {
				fj++
			}
		}
		if ok {
			return fj
		}
		if time.Now().After(deadline) {
			panic(fmt.Sprintf("not quiescent: %s", stackBuf[:runtime.Stack(stackBuf, true)]))
		}
		if spin > 200 {
			time.Sleep(20 * time.Microsecond)
		}
	}
}

// ---------------------------------------------------------------------------------------------
// scripted root context: Done() hands the `select` of a Fork call made after cancellation a one-token channel,
// so that the driver sees which of the two ready cases the runtime picked.

type rootCtx struct {
	mu       sync.Mutex
	done     chan struct{}
	err      error
	forkMode bool
	token    chan struct{}
}

func (c *rootCtx) Deadline() (time.Time, bool) { return time.Time{}, false }
func (c *rootCtx) Value(any) any               { return nil }

func (c *rootCtx) Err() error {
	c.mu.Lock()
	defer c.mu.Unlock()
	return c.err
}

func (c *rootCtx) Done() <-chan struct{} {
	c.mu.Lock()
	defer c.mu.Unlock()
	if c.forkMode && c.err != nil {
		if c.token == nil {
			c.token = make(chan struct{}, 1)
			c.token <- struct{}{}
		}
		return c.token
	}
	return c.done
}

// ---------------------------------------------------------------------------------------------

type input struct {
	ID  int
	Tag string
}

type answer struct {
	out int
	err error
}

type workRec struct {
	id       int
	in       input
	gate     chan answer
	entered  bool
	returned bool
	twice    bool
	ctx      context.Context
	entryErr error
	ans      answer
	viaCtx   bool
	doneOp   int
	forkSt   string // added | dropped | blocked | panic | ret (returned from a blocked Fork)
	recv     bool
}

type recvRes struct {
	r    forkjoin.Result[input, int]
	ok   bool
	flat bool
	outs []int
	err  error
}

type episode struct {
	W, B     int
	Wd, Bd   bool
	ff, woc  bool
	isNwi    bool
	root     *rootCtx
	fork     forkjoin.Fork[input]
	join     forkjoin.Join[input, int]
	cancel   context.CancelFunc
	results  forkjoin.Results[input, int]
	mu       sync.Mutex
	works    map[int]*workRec
	order    []int
	draining bool
	foreign  []string // inputs handed to the work function that were never forked

	pendFork   chan string // a Fork (or NewWithInputs) call that has not returned
	pendForkID int
	joinCalled bool
	cmode      int // 0 idle, 1 single receive pending, 2 Flatten pending
	cch        chan recvRes
	received   []int
	cancelCnt  int
	pendCancel []chan string
	ctxExpect  bool  // the worker context must be cancelled by now
	ctxErrObj  error // ... and this is its error
	closedSeen bool
	opSeq      int
	ended      bool
}

func hon(id int) bool { return id%2 == 1 }

func (e *episode) expectCancel(err error) {
	if !e.ctxExpect {
		e.ctxExpect = true
		e.ctxErrObj = err
	}
}

// accepted: the input channel took the input (unknown: a blocked Fork that returned after the root context was done)
func accepted(w *workRec) bool { return w.forkSt == "added" || w.forkSt == "nwi" }

func (e *episode) work(ctx context.Context, in input) (int, error) {
	e.mu.Lock()
	w := e.works[in.ID]
	if w == nil || w.in != in {
		e.foreign = append(e.foreign, fmt.Sprintf("%v", in))
		e.mu.Unlock()
		return 0, nil
	}
	if w.entered {
		w.twice = true
	}
	w.entered = true
	w.ctx = ctx
	w.entryErr = ctx.Err()
	drain := e.draining
	e.mu.Unlock()

	var a answer
	viaCtx := false
	switch {
	case drain:
		a = answer{out: 1}
	case hon(in.ID):
		select {
		case a = <-w.gate:
		case <-ctx.Done():
			a = answer{out: 0, err: ctx.Err()}
			viaCtx = true
		}
	default:
		a = <-w.gate
	}
	e.mu.Lock()
	w.returned = true
	w.ans = a
	w.viaCtx = viaCtx
	w.doneOp = e.opSeq
	e.mu.Unlock()
	return a.out, a.err
}

func errClass(err error) string {
	switch {
	case err == nil:
		return "nil"
	case errors.Is(err, context.Canceled):
		return "canc"
	case errors.Is(err, context.DeadlineExceeded):
		return "dl"
	default:
		return "fail"
	}
}

func mkErr(cls string, id int) error {
	switch cls {
	case "ok":
		return nil
	case "fail":
		return fmt.Errorf("work %d failed", id)
	case "canc":
		return fmt.Errorf("work %d: %w", id, context.Canceled)
	default:
		return fmt.Errorf("work %d: %w", id, context.DeadlineExceeded)
	}
}

// ---------------------------------------------------------------------------------------------

type driver struct {
	run *hx.Run
	e   *episode
	nEp int
}

func parseCfg(f []string) (e *episode, ok bool) {
	e = &episode{works: map[int]*workRec{}}
	for _, t := range f {
		kv := strings.SplitN(t, "=", 2)
		if len(kv) != 2 {
			return nil, false
		}
		switch kv[0] {
		case "W", "B":
			d := kv[1] == "d"
			n := 0
			if !d {
				v, err := strconv.Atoi(kv[1])
				if err != nil || v < 0 || v > 64 || (kv[0] == "W" && v == 0) {
					return nil, false
				}
				n = v
			}
			if kv[0] == "W" {
				e.W, e.Wd = n, d
				if d {
					e.W = 8
				}
			} else {
				e.B, e.Bd = n, d
				if d {
					e.B = 100
				}
			}
		case "ff", "woc":
			if kv[1] != "0" && kv[1] != "1" {
				return nil, false
			}
			if kv[0] == "ff" {
				e.ff = kv[1] == "1"
			} else {
				e.woc = kv[1] == "1"
			}
		default:
			return nil, false
		}
	}
	return e, true
}

func (e *episode) opts() []forkjoin.Option {
	var o []forkjoin.Option
	if !e.Wd {
		o = append(o, forkjoin.WithWorkers(e.W))
	}
	if !e.Bd {
		o = append(o, forkjoin.WithInputBuffer(e.B))
	}
	if !e.ff {
		o = append(o, forkjoin.WithoutFailFast())
	}
	if e.woc {
		o = append(o, forkjoin.WithWaitOnCancel())
	}
	return o
}

func (e *episode) register(id int) *workRec {
	w := &workRec{id: id, in: input{ID: id, Tag: fmt.Sprintf("t%d", id*7+3)}, gate: make(chan answer, 1)}
	e.works[id] = w
	e.order = append(e.order, id)
	return w
}

// call runs f in its own goroutine; the returned channel yields "ret" or "panic:<msg>" when f is over.
func call(f func()) chan string {
	ch := make(chan string, 1)
	go func() {
		defer func() {
			if r := recover(); r != nil {
				ch <- fmt.Sprintf("panic:%v", r)
			}
		}()
		f()
		ch <- "ret"
	}()
	return ch
}

func poll(ch chan string) (string, bool) {
	select {
	case s := <-ch:
		return s, true
	default:
		return "", false
	}
}

// endEpisode: every gate opens, Join and cancel are called if they were not, the consumer is released;
// returns the number of forkjoin goroutines left.
func (d *driver) endEpisode() int {
	e := d.e
	if e == nil || e.ended {
		return 0
	}
	e.ended = true
	e.mu.Lock()
	e.draining = true
	for _, w := range e.works {
		if !w.returned {
			select {
			case w.gate <- answer{out: 1}:
			default:
			}
		}
	}
	e.mu.Unlock()
	quiesce()
	pollFork := func() {
		if e.pendFork != nil {
			if _, ok := poll(e.pendFork); ok {
				e.pendFork = nil
				if e.isNwi {
					e.joinCalled = true
				}
			}
		}
	}
	pollFork()
	if e.pendFork != nil { // safety net (cannot happen with at least one worker)
		e.root.mu.Lock()
		if e.root.err == nil {
			e.root.err = context.Canceled
			close(e.root.done)
		}
		e.root.mu.Unlock()
		quiesce()
		pollFork()
	}
	if !e.isNwi && !e.joinCalled {
		func() {
			defer func() { _ = recover() }()
			e.results = e.join()
			e.joinCalled = true
		}()
	}
	quiesce()
	e.mu.Lock()
	cf := e.cancel
	e.mu.Unlock()
	if cf != nil && e.cancelCnt == 0 {
		e.pendCancel = append(e.pendCancel, call(cf))
		e.cancelCnt++
	}
	fj := quiesce()
	return fj
}

func (d *driver) exec(base string) (opline, out string) {
	run := d.run
	f := strings.Fields(base)
	if len(f) == 0 {
		return base, "bad-op"
	}
	e := d.e
	if e != nil {
		e.opSeq++
	}
	noop := func() (string, string) { return base, "noop" }
	switch f[0] {
	case "new", "nwi":
		nf := 5
		if f[0] == "nwi" {
			nf = 6
		}
		if len(f) != nf {
			return base, "bad-op"
		}
		ne, ok := parseCfg(f[1:5])
		if !ok {
			return base, "bad-op"
		}
		var ins []int
		if f[0] == "nwi" {
			if !strings.HasPrefix(f[5], "in=") {
				return base, "bad-op"
			}
			if s := f[5][3:]; s != "-" {
				seen := map[int]bool{}
				for _, t := range strings.Split(s, ",") {
					v, err := strconv.Atoi(t)
					if err != nil || v < 0 || seen[v] {
						return base, "bad-op"
					}
					seen[v] = true
					ins = append(ins, v)
				}
			}
		}
		d.endEpisode()
		e = ne
		d.e = e
		// most episodes on one P (goroutine hand-over without waking OS threads: fast), every 6th on four
		d.nEp++
		if d.nEp%6 == 0 {
			runtime.GOMAXPROCS(4)
		} else {
			runtime.GOMAXPROCS(1)
		}
		e.root = &rootCtx{done: make(chan struct{})}
		run.Count("cfg:W=" + f[1][2:])
		run.Count("cfg:B=" + f[2][2:])
		run.Count("cfg:" + f[3] + "," + f[4])
		if f[0] == "new" {
			e.fork, e.join, e.cancel = forkjoin.New[input, int](e.root, e.work, e.opts()...)
			return d.observe(base, "ok", "")
		}
		e.isNwi = true
		var inputs []input
		for _, id := range ins {
			w := e.register(id)
			w.forkSt = "nwi"
			inputs = append(inputs, w.in)
		}
		e.pendForkID = -1
		e.pendFork = call(func() {
			res, cancel := forkjoin.NewWithInputs[input, int](e.root, e.work, inputs, e.opts()...)
			e.mu.Lock()
			e.results, e.cancel = res, cancel
			e.mu.Unlock()
		})
		return d.observe(base, "ok", "")
	}
	if !wellFormed(f) {
		return base, "bad-op"
	}
	if e == nil || e.ended {
		return noop()
	}
	switch f[0] {
	case "fork":
		if len(f) != 2 {
			return base, "bad-op"
		}
		id, err := strconv.Atoi(f[1])
		if err != nil || id < 0 {
			return base, "bad-op"
		}
		if e.works[id] != nil || e.pendFork != nil || e.isNwi {
			return noop()
		}
		w := e.register(id)
		e.root.mu.Lock()
		e.root.forkMode = true
		e.root.token = nil
		e.root.mu.Unlock()
		ch := call(func() { e.fork(w.in) })
		quiesce()
		e.root.mu.Lock()
		e.root.forkMode = false
		tok := e.root.token
		cancelled := e.root.err != nil
		e.root.mu.Unlock()
		picked := tok != nil && len(tok) == 0
		res, oracle := "", ""
		if s, ok := poll(ch); ok {
			switch {
			case strings.HasPrefix(s, "panic"):
				res = "panic"
				if cancelled {
					oracle = "fp=p"
				}
				if !e.joinCalled {
					run.Violate("forkjoin:unexpected_panic", "Fork panicked before Join: "+s)
				}
			case picked:
				res, oracle = "dropped", "fp=d"
			default:
				res = "added"
				if cancelled {
					oracle = "fp=s"
				}
				if e.joinCalled {
					run.Violate("forkjoin:fork_after_join_no_panic", fmt.Sprintf("Fork(%d) after Join returned normally", id))
				}
			}
		} else {
			res = "blocked"
			e.pendFork, e.pendForkID = ch, id
		}
		w.forkSt = res
		run.Count("fork:" + res)
		return d.observe(base, res, oracle)
	case "join":
		if len(f) != 1 {
			return base, "bad-op"
		}
		if e.isNwi {
			return noop()
		}
		res := "ok"
		func() {
			defer func() {
				if r := recover(); r != nil {
					res = "panic"
				}
			}()
			r := e.join()
			e.results = r
		}()
		if res == "ok" && e.joinCalled {
			run.Violate("forkjoin:double_join_no_panic", "second Join returned normally")
		}
		if res == "panic" && !e.joinCalled {
			run.Violate("forkjoin:unexpected_panic", "first Join panicked")
		}
		e.joinCalled = true
		run.Count("join:" + res)
		return d.observe(base, res, "")
	case "done":
		if len(f) != 4 {
			return base, "bad-op"
		}
		id, err1 := strconv.Atoi(f[1])
		out, err2 := strconv.Atoi(f[3])
		if err1 != nil || err2 != nil || out < 1 {
			return base, "bad-op"
		}
		switch f[2] {
		case "ok", "fail", "canc", "dl":
		default:
			return base, "bad-op"
		}
		w := e.works[id]
		e.mu.Lock()
		running := w != nil && w.entered && !w.returned
		e.mu.Unlock()
		if !running {
			return noop()
		}
		a := answer{out: out, err: mkErr(f[2], id)}
		if a.err != nil && e.ff {
			e.expectCancel(context.Canceled)
		}
		w.gate <- a
		run.Count("done:" + f[2])
		return d.observe(base, "ok", "")
	case "cancel":
		if len(f) != 1 {
			return base, "bad-op"
		}
		e.mu.Lock()
		cf := e.cancel
		e.mu.Unlock()
		if cf == nil {
			return noop()
		}
		ch := call(cf)
		quiesce()
		res := ""
		if s, ok := poll(ch); ok {
			if strings.HasPrefix(s, "panic") {
				res = "panic"
				if e.cancelCnt == 0 {
					run.Violate("forkjoin:unexpected_panic", "first cancel panicked: "+s)
				}
			} else {
				res = "ret"
			}
		} else {
			res = "wait"
			e.pendCancel = append(e.pendCancel, ch)
			if !e.woc {
				run.Violate("forkjoin:cancel_blocked_without_wait_option", "cancel() did not return although WithWaitOnCancel was not given")
			}
		}
		if e.cancelCnt > 0 && res != "panic" {
			// the code as it is panics (close of closed channel); a CancelFunc ought to be idempotent, so a
			// repaired variant is welcome - just observed
			run.Count("observed:second_cancel_did_not_panic")
		}
		if e.cancelCnt > 0 && res == "panic" {
			run.Count("observed:second_cancel_panics")
		}
		e.cancelCnt++
		e.expectCancel(context.Canceled)
		run.Count("cancel:" + res)
		return d.observe(base, res, "")
	case "rootcancel":
		if len(f) != 2 || (f[1] != "c" && f[1] != "d") {
			return base, "bad-op"
		}
		e.root.mu.Lock()
		if e.root.err != nil {
			e.root.mu.Unlock()
			return noop()
		}
		if f[1] == "c" {
			e.root.err = context.Canceled
		} else {
			e.root.err = context.DeadlineExceeded
		}
		close(e.root.done)
		rerr := e.root.err
		e.root.mu.Unlock()
		e.expectCancel(rerr)
		if e.pendFork != nil {
			// which inputs of the blocked call still make it into the channel is the runtime's choice
			for _, w := range e.works {
				if !w.entered && (w.forkSt == "nwi" || w.forkSt == "blocked") {
					w.forkSt = "ret?"
				}
			}
		}
		run.Count("rootcancel:" + f[1])
		return d.observe(base, "ok", "")
	case "recv", "flatten":
		if len(f) != 1 {
			return base, "bad-op"
		}
		e.mu.Lock()
		res := e.results
		e.mu.Unlock()
		if res == nil || e.cmode != 0 {
			return noop()
		}
		e.cch = make(chan recvRes, 1)
		cch := e.cch
		if f[0] == "recv" {
			e.cmode = 1
			go func() {
				r, ok := <-res
				cch <- recvRes{r: r, ok: ok}
			}()
		} else {
			e.cmode = 2
			go func() {
				outs, err := res.Flatten()
				cch <- recvRes{flat: true, outs: outs, err: err}
			}()
		}
		run.Count(f[0])
		return d.observe(base, "ok", "")
	case "end":
		if len(f) != 1 {
			return base, "bad-op"
		}
		fj := d.endEpisode()
		if fj != 0 {
			run.Violate("forkjoin:goroutine_leak", fmt.Sprintf("%d forkjoin goroutines alive after every work function returned, Join and cancel", fj))
		}
		return base, fmt.Sprintf("ok fj=%d", fj)
	}
	return base, "bad-op"
}

func wellFormed(f []string) bool {
	isNat := func(s string) bool {
		v, err := strconv.Atoi(s)
		return err == nil && v >= 0 && !strings.HasPrefix(s, "+")
	}
	switch f[0] {
	case "fork":
		return len(f) == 2 && isNat(f[1])
	case "join", "cancel", "recv", "flatten", "end":
		return len(f) == 1
	case "rootcancel":
		return len(f) == 2 && (f[1] == "c" || f[1] == "d")
	case "done":
		if len(f) != 4 || !isNat(f[1]) || !isNat(f[3]) || f[3] == "0" {
			return false
		}
		switch f[2] {
		case "ok", "fail", "canc", "dl":
			return true
		}
	}
	return false
}

func idsStr(ids []int) string {
	if len(ids) == 0 {
		return "-"
	}
	sort.Ints(ids)
	s := make([]string, len(ids))
	for i, v := range ids {
		s[i] = strconv.Itoa(v)
	}
	return strings.Join(s, ",")
}

// observe: quiesce, collect what happened, evaluate the monitors, render op line (with the observed choices)
// and output line.
func (d *driver) observe(base, res, oracle string) (string, string) {
	e, run := d.e, d.run
	fj := quiesce()

	// asynchronous returns
	fkret := "-"
	if e.pendFork != nil {
		if s, ok := poll(e.pendFork); ok {
			if strings.HasPrefix(s, "panic") {
				fkret = "panic"
				if !e.joinCalled {
					run.Violate("forkjoin:unexpected_panic", "blocked Fork panicked before Join: "+s)
				}
			} else {
				fkret = "ret"
			}
			if e.pendForkID >= 0 {
				w := e.works[e.pendForkID]
				switch {
				case fkret == "panic":
					w.forkSt = "panic"
				case w.forkSt == "blocked":
					w.forkSt = "added"
				}
			}
			if e.isNwi && fkret == "ret" {
				e.joinCalled = true
			}
			e.pendFork = nil
		}
	}
	var stillWaiting []chan string
	for _, ch := range e.pendCancel {
		if _, ok := poll(ch); !ok {
			stillWaiting = append(stillWaiting, ch)
		}
	}
	cancelReturned := len(stillWaiting) < len(e.pendCancel)
	e.pendCancel = stillWaiting

	got, flat := "-", "-"
	var gotRes *recvRes
	if e.cmode != 0 {
		select {
		case r := <-e.cch:
			gotRes = &r
			e.cmode = 0
		default:
		}
	}

	e.mu.Lock()
	var runIDs []int
	for id, w := range e.works {
		if w.entered && !w.returned {
			runIDs = append(runIDs, id)
		}
	}
	// ---- monitors on the work function's view
	for _, s := range e.foreign {
		run.Violate("forkjoin:work_called_with_unknown_input", "work function called with an input that was never forked: "+s)
	}
	e.foreign = nil
	for id, w := range e.works {
		if w.twice {
			run.Violate("forkjoin:input_processed_twice", fmt.Sprintf("work function called twice for input %d", id))
			w.twice = false
		}
		if w.entered && w.entryErr != nil {
			run.Violate("forkjoin:work_started_after_cancel", fmt.Sprintf("work function entered for input %d with a cancelled context", id))
			w.entryErr = nil
		}
		if w.entered && (w.forkSt == "dropped" || w.forkSt == "panic") {
			run.Violate("forkjoin:dropped_input_processed", fmt.Sprintf("input %d whose Fork %s was processed", id, w.forkSt))
		}
	}
	if len(runIDs) > e.W {
		run.Violate("forkjoin:workers_exceed_limit", fmt.Sprintf("%d work functions running with %d workers", len(runIDs), e.W))
	}
	if !e.ctxExpect && len(runIDs) < e.W {
		for _, id := range e.order {
			w := e.works[id]
			if (w.forkSt == "added" || (w.forkSt == "nwi" && e.pendFork == nil)) && !w.entered {
				run.Violate("forkjoin:deadlock", fmt.Sprintf("input %d is queued, %d of %d workers are idle, nothing happens", id, e.W-len(runIDs), e.W))
				break
			}
		}
	}
	for id, w := range e.works {
		if !w.entered || w.ctx == nil || w.returned {
			continue
		}
		if e.ctxExpect && w.ctx.Err() == nil {
			run.Violate("forkjoin:worker_context_not_cancelled", fmt.Sprintf("work %d runs with a live context after fail-fast error / cancel / root cancel", id))
		}
		if !e.ctxExpect && w.ctx.Err() != nil {
			run.Violate("forkjoin:worker_context_cancelled_unprompted", fmt.Sprintf("context of work %d cancelled without fail-fast error, cancel or root cancel", id))
		}
	}
	e.mu.Unlock()

	// ---- a Fork call must not stay blocked once the root context is done
	if e.pendFork != nil && e.root.Err() != nil {
		run.Violate("forkjoin:fork_blocked_after_root_cancel", "Fork (or NewWithInputs) still blocked although the root context is done")
	}

	// ---- cancel
	if cancelReturned && e.woc && e.joinCalled && len(runIDs) > 0 {
		run.Violate("forkjoin:cancel_returned_before_workers_done", fmt.Sprintf("WithWaitOnCancel: cancel returned while work %s still runs", idsStr(runIDs)))
	}
	if res == "ret" && strings.HasPrefix(base, "cancel") && e.woc && e.cancelCnt == 1 && (len(runIDs) > 0 || !e.joinCalled) {
		run.Violate("forkjoin:cancel_returned_before_workers_done", "WithWaitOnCancel: cancel returned at once although the results channel cannot be closed yet")
	}
	if len(e.pendCancel) > 0 && e.joinCalled && len(runIDs) == 0 && e.pendFork == nil {
		run.Violate("forkjoin:cancel_never_returns", "WithWaitOnCancel: joined, no work function running, cancel still blocked")
	}
	if len(e.pendCancel) > 0 && !e.joinCalled {
		run.Count("observed:cancel_waits_for_join")
	}

	// ---- what the consumer received
	if gotRes != nil && !gotRes.flat {
		if !gotRes.ok {
			got = "closed"
			oracle = strings.TrimSpace(oracle + " got=closed")
			d.onClosed(runIDs)
		} else {
			r := gotRes.r
			src := d.onResult(r.Input, r.Output, r.Err, true)
			got = fmt.Sprintf("%d:%s:%d:%s", r.Input.ID, src, r.Output, errClass(r.Err))
			oracle = strings.TrimSpace(oracle + fmt.Sprintf(" got=%d", r.Input.ID))
		}
	}
	if gotRes != nil && gotRes.flat {
		os := make([]string, len(gotRes.outs))
		for i, o := range gotRes.outs {
			os[i] = strconv.Itoa(o)
		}
		ol := strings.Join(os, ".")
		if ol == "" {
			ol = "e"
		}
		flat = ol + ":" + errClass(gotRes.err)
		oracle = strings.TrimSpace(oracle + " ord=" + ol)
		d.onFlatten(gotRes.outs, gotRes.err, runIDs)
	}
	// ---- liveness at quiescence: the consumer is reading, nothing runs, nothing was delivered
	if e.cmode != 0 && e.joinCalled && len(runIDs) == 0 && e.pendFork == nil {
		missing := d.missing()
		if len(missing) > 0 && e.cancelCnt == 0 {
			run.Violate("forkjoin:deadlock", fmt.Sprintf("joined, consumer reading, no work function running, results for %s never arrive", idsStr(missing)))
		} else {
			run.Violate("forkjoin:channel_not_closed", "joined, consumer reading, nothing outstanding, results channel stays open")
		}
	}

	fk := "-"
	if e.pendFork != nil {
		fk = "B"
	}
	c := [...]string{"-", "W", "F"}[e.cmode]
	cc := "-"
	if len(e.pendCancel) > 0 {
		cc = "W"
	}
	out := fmt.Sprintf("%s run=%s fk=%s c=%s cc=%s fj=%d got=%s fkret=%s flat=%s", res, idsStr(runIDs), fk, c, cc, fj, got, fkret, flat)
	if oracle != "" {
		base += " ~ " + oracle
	}
	return base, out
}

// missing: inputs the input channel accepted that have not been received.
func (d *driver) missing() []int {
	e := d.e
	var m []int
	for _, id := range e.order {
		w := e.works[id]
		if accepted(w) && !w.recv {
			m = append(m, id)
		}
	}
	return m
}

// onResult judges one result against what the work function did; returns its source (w: returned by the work
// function, a: the work function returned its context's error, s: the work function was never called).
func (d *driver) onResult(in input, out int, err error, ordered bool) string {
	e, run := d.e, d.run
	w := e.works[in.ID]
	if w == nil || w.in != in {
		run.Violate("forkjoin:result_wrong_input", fmt.Sprintf("result carries input %v that was never forked", in))
		return "?"
	}
	if w.recv {
		run.Violate("forkjoin:result_duplicated", fmt.Sprintf("second result for input %d", in.ID))
	}
	w.recv = true
	e.received = append(e.received, in.ID)
	if w.forkSt == "dropped" || w.forkSt == "panic" {
		run.Violate("forkjoin:result_wrong_input", fmt.Sprintf("result for input %d whose Fork %s", in.ID, w.forkSt))
	}
	e.mu.Lock()
	defer e.mu.Unlock()
	src := "s"
	switch {
	case w.entered && !w.returned:
		run.Violate("forkjoin:result_before_completion", fmt.Sprintf("result for input %d while its work function is running", in.ID))
		src = "?"
	case w.entered:
		src = "w"
		if w.viaCtx {
			src = "a"
		}
		if out != w.ans.out || err != w.ans.err {
			run.Violate("forkjoin:result_wrong_outcome", fmt.Sprintf("input %d: work returned (%d,%v), result carries (%d,%v)", in.ID, w.ans.out, w.ans.err, out, err))
		}
	default:
		if out != 0 || (!errors.Is(err, context.Canceled) && !errors.Is(err, context.DeadlineExceeded)) {
			run.Violate("forkjoin:result_wrong_outcome", fmt.Sprintf("input %d was never processed, result carries (%d,%v)", in.ID, out, err))
		}
		if !e.ctxExpect {
			run.Violate("forkjoin:input_skipped_without_cancel", fmt.Sprintf("input %d got a context error result without fail-fast error, cancel or root cancel", in.ID))
		}
	}
	// order: a result whose work function returned in a later op overtakes one that returned in an earlier op
	// (both senders were parked: Go's runtime serves blocked senders first-in first-out) and is still unreceived
	if ordered && w.entered && w.returned && e.cancelCnt == 0 {
		for _, id := range e.order {
			o := e.works[id]
			if o != w && o.entered && o.returned && !o.recv && o.doneOp < w.doneOp {
				run.Violate("forkjoin:order_violates_completion_order", fmt.Sprintf("result of input %d (completed in op %d) received before result of input %d (completed in op %d)", in.ID, w.doneOp, id, o.doneOp))
				break
			}
		}
	}
	return src
}

func (d *driver) onClosed(runIDs []int) {
	e, run := d.e, d.run
	e.closedSeen = true
	if !e.joinCalled {
		run.Violate("forkjoin:closed_before_join", "results channel closed before Join")
	}
	if len(runIDs) > 0 {
		run.Violate("forkjoin:closed_while_work_running", fmt.Sprintf("results channel closed while work %s runs", idsStr(runIDs)))
	}
	if e.cancelCnt == 0 {
		if m := d.missing(); len(m) > 0 {
			run.Violate("forkjoin:result_lost", fmt.Sprintf("results channel closed, no cancel(): inputs %s never got a result", idsStr(m)))
		}
	}
}

// onFlatten judges what Flatten returned: the outputs of all results, the first error that is not a context
// cancellation (in the order of the outputs), else the first cancellation error, else nil. Outputs of work
// functions are unique and non-zero; a zero output belongs to a result carrying the worker context's error
// (a work function that returned it, or an input that was skipped).
func (d *driver) onFlatten(outs []int, err error, runIDs []int) {
	e, run := d.e, d.run
	byOut := map[int]*workRec{}
	e.mu.Lock()
	for _, w := range e.works {
		if w.entered && w.returned && w.ans.out != 0 {
			byOut[w.ans.out] = w
		}
	}
	e.mu.Unlock()
	var errs []error
	zeros := 0
	for _, o := range outs {
		if o == 0 {
			zeros++
			errs = append(errs, e.ctxErrObj)
			continue
		}
		w := byOut[o]
		if w == nil {
			run.Violate("forkjoin:flatten_wrong_outputs", fmt.Sprintf("Flatten returned output %d that no work function produced", o))
			continue
		}
		if w.recv {
			run.Violate("forkjoin:result_duplicated", fmt.Sprintf("Flatten returned output %d twice (or after it was received)", o))
		}
		w.recv = true
		errs = append(errs, w.ans.err)
	}
	e.mu.Lock()
	var zeroIDs []int
	unknown := 0
	for _, id := range e.order {
		w := e.works[id]
		if w.recv {
			continue
		}
		if w.forkSt == "ret?" {
			unknown++
		}
		if accepted(w) && (!w.entered || (w.returned && w.ans.out == 0)) {
			zeroIDs = append(zeroIDs, id)
		}
	}
	e.mu.Unlock()
	if zeros > len(zeroIDs)+unknown {
		run.Violate("forkjoin:flatten_wrong_outputs", fmt.Sprintf("Flatten returned %d zero outputs, only %d inputs can have one", zeros, len(zeroIDs)+unknown))
	}
	if zeros > 0 && !e.ctxExpect {
		run.Violate("forkjoin:input_skipped_without_cancel", "Flatten returned a zero output without fail-fast error, cancel or root cancel")
	}
	if e.cancelCnt == 0 {
		if zeros < len(zeroIDs) {
			run.Violate("forkjoin:result_lost", fmt.Sprintf("Flatten returned %d context-error results, %d inputs were aborted or skipped", zeros, len(zeroIDs)))
		}
		for _, id := range zeroIDs {
			e.works[id].recv = true
		}
	}
	d.onClosed(runIDs)
	var ctxE, otherE error
	for _, x := range errs {
		if x == nil {
			continue
		}
		if errors.Is(x, context.Canceled) && ctxE == nil {
			ctxE = x
		}
		if !errors.Is(x, context.Canceled) && otherE == nil {
			otherE = x
		}
	}
	want := ctxE
	if otherE != nil {
		want = otherE
	}
	if err != want {
		run.Violate("forkjoin:flatten_wrong_error", fmt.Sprintf("Flatten returned %v, want %v (first non-cancellation error in result order, else first cancellation error)", err, want))
	}
}

func main() {
	args := hx.ParseArgs()
	run := hx.NewRun(args.Dir)
	defer run.Close()
	selfGoid = curGoid()
	d := &driver{run: run}
	do := func(base string) {
		run.Begin(base)
		op, out := d.exec(base)
		run.Op(op, out)
	}
	if args.Mode == "exec" {
		for _, l := range hx.ReadOps(args.Ops) {
			if i := strings.Index(l, " ~ "); i >= 0 {
				l = l[:i]
			}
			do(strings.TrimSpace(l))
		}
		d.endEpisode()
		return
	}
	gen(d, hx.NewRng(args.Seed), args.N, do)
	d.endEpisode()
}
