// trans-bcastsession is translator T-session (property C13): which session hash every DKG protocol
// hands to dkg/bcast. It lists every non-test call `bcast.New(host, peers, key, session)` under
// <repo>/dkg (dkg/bcast itself, the test helper dkg/pedersen/testutils.go and verif_export files are
// excluded) and writes lean/CharonV/Generated/BcastSession.lean: (file, session argument).
//
// go/parser with object resolution, standard library only. The session argument is printed after
// replacing every SINGLE-ASSIGNMENT local of the enclosing function by its defining expression
// (`session := def.DefinitionHash; bcast.New(…, session)` prints `def.DefinitionHash`): a local is
// followed only when it is defined once by `x := e` / `var x = e` with one expression of its own,
// is never assigned again, incremented or address-taken, and no variable its definition mentions is
// written after the definition; anything else is printed as written (the Lean theorem then sees a
// text it does not expect). Fails closed (exit 1) on any use of bcast.New other than a direct call
// with four arguments, a dot-import of the package, or a file it cannot parse.
package main

import (
	"bytes"
	"flag"
	"fmt"
	"go/ast"
	"go/parser"
	"go/printer"
	"go/token"
	"io/fs"
	"os"
	"path/filepath"
	"sort"
	"strconv"
	"strings"
)

const bcastPath = "github.com/obolnetwork/charon/dkg/bcast"

func die(f string, a ...any) {
	fmt.Printf("trans-bcastsession: "+f+"\n", a...)
	os.Exit(1)
}

var fset = token.NewFileSet()

func show(e ast.Expr) string {
	switch x := e.(type) {
	case *ast.Ident:
		return x.Name
	case *ast.BasicLit:
		return x.Value
	case *ast.ParenExpr:
		return "(" + show(x.X) + ")"
	case *ast.SelectorExpr:
		return show(x.X) + "." + x.Sel.Name
	case *ast.StarExpr:
		return "*" + show(x.X)
	case *ast.UnaryExpr:
		return x.Op.String() + show(x.X)
	case *ast.IndexExpr:
		return show(x.X) + "[" + show(x.Index) + "]"
	case *ast.CallExpr:
		var as []string
		for _, a := range x.Args {
			as = append(as, show(a))
		}
		el := ""
		if x.Ellipsis.IsValid() {
			el = "..."
		}
		return show(x.Fun) + "(" + strings.Join(as, ", ") + el + ")"
	}
	var b bytes.Buffer
	if err := printer.Fprint(&b, fset, e); err != nil {
		die("print: %v", err)
	}
	return strings.Join(strings.Fields(b.String()), " ")
}

func rootIdent(e ast.Expr) *ast.Ident {
	for {
		switch x := e.(type) {
		case *ast.Ident:
			return x
		case *ast.SelectorExpr:
			e = x.X
		case *ast.IndexExpr:
			e = x.X
		case *ast.SliceExpr:
			e = x.X
		case *ast.StarExpr:
			e = x.X
		case *ast.ParenExpr:
			e = x.X
		default:
			return nil
		}
	}
}

// fn is the def-use summary of one function body.
type fn struct {
	lo, hi token.Pos
	def    map[*ast.Object]ast.Expr    // locals defined once by an expression of their own
	defAt  map[*ast.Object]token.Pos   // end of that definition
	writes map[*ast.Object][]token.Pos // every further write (assignment, `:=` re-use, ++/--, range)
	addr   map[*ast.Object]bool        // &x somewhere
}

func (f *fn) local(id *ast.Ident) bool {
	if id.Obj == nil || id.Obj.Kind != ast.Var {
		return false
	}
	p := id.Obj.Pos()
	return p >= f.lo && p < f.hi
}

func analyse(fd *ast.FuncDecl) *fn {
	f := &fn{fd.Pos(), fd.End(), map[*ast.Object]ast.Expr{}, map[*ast.Object]token.Pos{}, map[*ast.Object][]token.Pos{}, map[*ast.Object]bool{}}
	write := func(e ast.Expr, at token.Pos) {
		if id := rootIdent(e); id != nil && f.local(id) {
			f.writes[id.Obj] = append(f.writes[id.Obj], at)
		}
	}
	ast.Inspect(fd.Body, func(n ast.Node) bool {
		switch x := n.(type) {
		case *ast.AssignStmt:
			for i, e := range x.Lhs {
				id, isID := e.(*ast.Ident)
				if x.Tok == token.DEFINE && isID && id.Obj != nil && id.Obj.Pos() == id.Pos() {
					if len(x.Rhs) == len(x.Lhs) {
						f.def[id.Obj], f.defAt[id.Obj] = x.Rhs[i], x.End()
					}
					continue
				}
				write(e, x.Pos())
			}
		case *ast.ValueSpec:
			for i, id := range x.Names {
				if id.Obj != nil && len(x.Values) == len(x.Names) {
					f.def[id.Obj], f.defAt[id.Obj] = x.Values[i], x.End()
				}
			}
		case *ast.IncDecStmt:
			write(x.X, x.Pos())
		case *ast.RangeStmt:
			if x.Tok == token.ASSIGN {
				if x.Key != nil {
					write(x.Key, x.Pos())
				}
				if x.Value != nil {
					write(x.Value, x.Pos())
				}
			}
		case *ast.UnaryExpr:
			if x.Op == token.AND {
				if id := rootIdent(x.X); id != nil && f.local(id) {
					f.addr[id.Obj] = true
				}
			}
		}
		return true
	})
	return f
}

// followable: o is defined once by an expression of its own, never written again or address-taken,
// and no variable of the function that the definition mentions is written after the definition.
func (f *fn) followable(o *ast.Object) bool {
	d, ok := f.def[o]
	if !ok || len(f.writes[o]) > 0 || f.addr[o] {
		return false
	}
	good := true
	ast.Inspect(d, func(n ast.Node) bool {
		if _, isLit := n.(*ast.FuncLit); isLit {
			good = false
			return false
		}
		if id, ok := n.(*ast.Ident); ok && f.local(id) {
			if f.addr[id.Obj] {
				good = false
			}
			for _, w := range f.writes[id.Obj] {
				if w > f.defAt[o] {
					good = false
				}
			}
		}
		return true
	})
	return good
}

func (f *fn) subst(e ast.Expr, depth int) ast.Expr {
	if depth > 20 {
		return e
	}
	switch x := e.(type) {
	case *ast.Ident:
		if f.local(x) && f.followable(x.Obj) {
			return f.subst(f.def[x.Obj], depth+1)
		}
		return x
	case *ast.ParenExpr:
		return &ast.ParenExpr{X: f.subst(x.X, depth)}
	case *ast.SelectorExpr:
		return &ast.SelectorExpr{X: f.subst(x.X, depth), Sel: x.Sel}
	case *ast.StarExpr:
		return &ast.StarExpr{X: f.subst(x.X, depth)}
	case *ast.UnaryExpr:
		return &ast.UnaryExpr{Op: x.Op, X: f.subst(x.X, depth)}
	case *ast.IndexExpr:
		return &ast.IndexExpr{X: f.subst(x.X, depth), Index: f.subst(x.Index, depth)}
	case *ast.CallExpr:
		c := &ast.CallExpr{Fun: f.subst(x.Fun, depth), Ellipsis: x.Ellipsis}
		for _, a := range x.Args {
			c.Args = append(c.Args, f.subst(a, depth))
		}
		return c
	}
	return e // any other form is printed as written
}

type row struct{ file, session string }

func scan(repo, path string) []row {
	rel, _ := filepath.Rel(repo, path)
	rel = filepath.ToSlash(rel)
	file, err := parser.ParseFile(fset, path, nil, 0)
	if err != nil {
		die("parse %s: %v", rel, err)
	}
	name := ""
	for _, im := range file.Imports {
		p, _ := strconv.Unquote(im.Path.Value)
		if p != bcastPath {
			continue
		}
		name = "bcast"
		if im.Name != nil {
			name = im.Name.Name
		}
		if name == "." {
			die("%s: dot-import of dkg/bcast: extend the extractor", rel)
		}
	}
	if name == "" || name == "_" {
		return nil
	}
	isNew := func(e ast.Expr) bool {
		s, ok := e.(*ast.SelectorExpr)
		if !ok || s.Sel.Name != "New" {
			return false
		}
		id, ok := s.X.(*ast.Ident)
		return ok && id.Name == name && id.Obj == nil // the package, not a variable shadowing it
	}
	var rows []row
	direct := map[ast.Expr]bool{}
	visit := func(root ast.Node, f *fn) {
		ast.Inspect(root, func(n ast.Node) bool {
			c, ok := n.(*ast.CallExpr)
			if !ok || !isNew(c.Fun) {
				return true
			}
			direct[c.Fun] = true
			if len(c.Args) != 4 || c.Ellipsis.IsValid() {
				die("%s: bcast.New with %d arguments: extend the extractor", rel, len(c.Args))
			}
			arg := c.Args[3]
			if f != nil {
				arg = f.subst(arg, 0)
			}
			rows = append(rows, row{rel, show(arg)})
			return true
		})
	}
	for _, d := range file.Decls {
		if fd, ok := d.(*ast.FuncDecl); ok && fd.Body != nil {
			visit(fd, analyse(fd))
		} else {
			visit(d, nil)
		}
	}
	// any other way to construct a Component (alias, method value) is not understood: fail closed
	ast.Inspect(file, func(n ast.Node) bool {
		if e, ok := n.(ast.Expr); ok && isNew(e) && !direct[e] {
			die("%s: bcast.New used other than in a direct call: extend the extractor", rel)
		}
		return true
	})
	return rows
}

func main() {
	repo := flag.String("repo", "/repo", "charon repository")
	out := flag.String("out", "", "output .lean file")
	flag.Parse()
	if *out == "" {
		die("-out required")
	}
	var rows []row
	root := filepath.Join(*repo, "dkg")
	err := filepath.WalkDir(root, func(p string, d fs.DirEntry, err error) error {
		if err != nil {
			return err
		}
		rel, _ := filepath.Rel(*repo, p)
		rel = filepath.ToSlash(rel)
		if d.IsDir() || !strings.HasSuffix(rel, ".go") {
			return nil
		}
		if strings.HasSuffix(rel, "_test.go") || strings.HasPrefix(rel, "dkg/bcast/") || rel == "dkg/pedersen/testutils.go" || strings.Contains(rel, "verif_export") {
			return nil
		}
		rows = append(rows, scan(*repo, p)...)
		return nil
	})
	if err != nil {
		die("walk %s: %v", root, err)
	}
	sort.Slice(rows, func(i, j int) bool {
		if rows[i].file != rows[j].file {
			return rows[i].file < rows[j].file
		}
		return rows[i].session < rows[j].session
	})
	var b strings.Builder
	b.WriteString("/- GENERATED by harness/cmd/trans-bcastsession (translator T-session, C13). Do not edit, not committed.\n")
	b.WriteString("Every non-test call `bcast.New(host, peers, key, session)` under dkg/: (file, session argument with\nsingle-assignment locals replaced by their definitions). -/\n")
	b.WriteString("namespace CharonV.Generated.BcastSession\n\ndef sites : List (String × String) := [\n")
	for i, r := range rows {
		sep := ","
		if i == len(rows)-1 {
			sep = ""
		}
		fmt.Fprintf(&b, "  (%s, %s)%s\n", strconv.Quote(r.file), strconv.Quote(r.session), sep)
	}
	b.WriteString("]\n\nend CharonV.Generated.BcastSession\n")
	old, _ := os.ReadFile(*out)
	if string(old) != b.String() { // keep mtime when unchanged: no needless Lean rebuild
		if err := os.WriteFile(*out, []byte(b.String()), 0o644); err != nil {
			die("write: %v", err)
		}
	}
	for _, r := range rows {
		fmt.Printf("%s: %s\n", r.file, r.session)
	}
}
