// trans-sszwrap is translator T-sszwrap (property C14): it regenerates
// lean/CharonV/Generated/SszWrap.lean from the Go source of charon's own SSZ wrappers
// (core/ssz.go), the SSZ-then-JSON fallback and the set encoders (core/proto.go) and the
// data-version table (eth2util/types.go).
//
// The statement list of every function comes from go/ast (go/parser without comments, one
// entry per top-level statement of the body, rendered by go/printer, whitespace collapsed).
// Before rendering, the variables of a function are renamed: canonically (alphaRename: r0, p0…, o0…,
// v0…) for the functions pinned as text, by ROLE (roleRename) for the interpreted wrappers, so no
// output depends on a name the author chose for a receiver, parameter or local.
// For the three versioned wrappers the statements are additionally *interpreted*: every
// statement must match one of a closed set of shapes (header write, slice read, length check,
// offset check, inner call, error propagation, return) and is emitted as plain data (what,
// constant / slice bounds); constants are evaluated from their declarations. Any statement that
// matches no shape makes the tool fail (exit 1): the check then reports the obligation as no
// longer shown. The other functions (AttestationData, attesterDutySSZ, VersionedAttestation
// dispatch, marshal / unmarshal, set encoders) are emitted as normalised statement text, which the
// Lean side pins with `decide` against the text the hand-written model mirrors.
package main

import (
	"bytes"
	"flag"
	"fmt"
	"go/ast"
	"go/parser"
	"go/printer"
	"go/token"
	"os"
	"path/filepath"
	"regexp"
	"sort"
	"strconv"
	"strings"
)

var fset = token.NewFileSet()

func die(f string, a ...any) {
	fmt.Printf("trans-sszwrap: "+f+"\n", a...)
	os.Exit(1)
}

func parse(path string) *ast.File {
	f, err := parser.ParseFile(fset, path, nil, 0) // no comments
	if err != nil {
		die("parse %s: %v", path, err)
	}
	return f
}

var wsRe = regexp.MustCompile(`\s+`)

func render(n ast.Node) string {
	var b bytes.Buffer
	if err := printer.Fprint(&b, fset, n); err != nil {
		die("print: %v", err)
	}
	return strings.TrimSpace(wsRe.ReplaceAllString(b.String(), " "))
}

// funcDecl finds a function by name and (optional) receiver type name.
func funcDecl(f *ast.File, recv, name string) *ast.FuncDecl {
	for _, d := range f.Decls {
		fd, ok := d.(*ast.FuncDecl)
		if !ok || fd.Name.Name != name {
			continue
		}
		r := ""
		if fd.Recv != nil && len(fd.Recv.List) == 1 {
			t := fd.Recv.List[0].Type
			if s, ok := t.(*ast.StarExpr); ok {
				t = s.X
			}
			if id, ok := t.(*ast.Ident); ok {
				r = id.Name
			}
		}
		if r == recv {
			return fd
		}
	}
	die("function %s.%s not found", recv, name)
	return nil
}

var canonName = regexp.MustCompile(`^[rpov][0-9]+$`)

func localObj(fd *ast.FuncDecl, id *ast.Ident) bool {
	if id.Obj == nil || id.Name == "_" || (id.Obj.Kind != ast.Var && id.Obj.Kind != ast.Con) {
		return false
	}
	p := id.Obj.Pos()
	return p >= fd.Pos() && p < fd.End()
}

// applyNames renames, in place, every identifier of fd whose object is in names; an identifier that
// is NOT declared in fd but carries one of the new names (a package-level object that the renaming
// would capture) makes the tool fail closed. Field / method names after a dot are not identifiers
// of the scope and are left alone.
func applyNames(fd *ast.FuncDecl, names map[*ast.Object]string, reserved func(string) bool) {
	sels := map[*ast.Ident]bool{}
	ast.Inspect(fd, func(n ast.Node) bool {
		if s, ok := n.(*ast.SelectorExpr); ok {
			sels[s.Sel] = true
		}
		return true
	})
	seen := map[string]*ast.Object{}
	for o, n := range names {
		if p, dup := seen[n]; dup && p != o {
			die("%s: two variables would both be renamed %s (fail closed)", fd.Name.Name, n)
		}
		seen[n] = o
	}
	ast.Inspect(fd, func(n ast.Node) bool {
		id, ok := n.(*ast.Ident)
		if !ok || sels[id] {
			return true
		}
		if nn, ok := names[id.Obj]; ok && id.Obj != nil {
			id.Name = nn
		} else if reserved(id.Name) && id != fd.Name {
			die("%s: identifier `%s` clashes with the canonical names (fail closed)", fd.Name.Name, id.Name)
		}
		return true
	})
}

// alphaRename renames, IN PLACE, every variable / constant declared inside fd to a canonical name:
// receiver r0, parameters p0, p1, … by position, named results o0, …, locals v0, v1, … in the order of
// their declaration in the source (every scope counts). Statement text rendered afterwards is the
// same for two bodies that differ only in the names of their variables, and different otherwise (the
// renaming is injective).
func alphaRename(fd *ast.FuncDecl) {
	names := map[*ast.Object]string{}
	fields := func(fl *ast.FieldList, prefix string) {
		if fl == nil {
			return
		}
		i := 0
		for _, f := range fl.List {
			if len(f.Names) == 0 {
				i++
			}
			for _, id := range f.Names {
				if id.Name != "_" && id.Obj != nil {
					names[id.Obj] = fmt.Sprintf("%s%d", prefix, i)
				}
				i++
			}
		}
	}
	fields(fd.Recv, "r")
	fields(fd.Type.Params, "p")
	fields(fd.Type.Results, "o")
	nv := 0
	ast.Inspect(fd.Body, func(n ast.Node) bool {
		if id, ok := n.(*ast.Ident); ok && localObj(fd, id) {
			if _, ok := names[id.Obj]; !ok {
				names[id.Obj] = fmt.Sprintf("v%d", nv)
				nv++
			}
		}
		return true
	})
	applyNames(fd, names, canonName.MatchString)
}

var roleNames = map[string]bool{"dst": true, "buf": true, "version": true, "blinded": true, "valIdx": true,
	"valFunc": true, "val": true, "err": true, "o1": true}

// roleRename renames, IN PLACE, the parameters and locals of one of the six interpreted wrapper
// functions to the names the statement shapes below are written with - chosen by ROLE, never by
// the name in the source: a parameter by its type ([]byte = the buffer, eth2util.DataVersion,
// bool, eth2p0.ValidatorIndex, func(…) = the inner-object callback), a local by the call that
// defines it (the callback, eth2util.DataVersionFromUint64, ssz.UnmarshalBool,
// eth2p0.ValidatorIndex(…), ssz.ReadOffset). A parameter type or a local definition outside this
// closed set, two variables with one role, or a name the renaming would capture fail closed.
func roleRename(fd *ast.FuncDecl, bufRole string) {
	names := map[*ast.Object]string{}
	var valFunc *ast.Object
	for _, f := range fd.Type.Params.List {
		role := ""
		switch t := render(f.Type); {
		case t == "[]byte":
			role = bufRole
		case t == "eth2util.DataVersion":
			role = "version"
		case t == "bool":
			role = "blinded"
		case t == "eth2p0.ValidatorIndex":
			role = "valIdx"
		case strings.HasPrefix(t, "func("):
			role = "valFunc"
		default:
			die("%s: parameter type %s has no role (fail closed)", fd.Name.Name, t)
		}
		if len(f.Names) != 1 || f.Names[0].Obj == nil {
			die("%s: parameter list not understood (fail closed)", fd.Name.Name)
		}
		names[f.Names[0].Obj] = role
		if role == "valFunc" {
			valFunc = f.Names[0].Obj
		}
	}
	if fd.Type.Results != nil {
		for _, f := range fd.Type.Results.List {
			if len(f.Names) != 0 {
				die("%s: named results (fail closed)", fd.Name.Name)
			}
		}
	}
	ast.Inspect(fd.Body, func(n ast.Node) bool {
		as, ok := n.(*ast.AssignStmt)
		if !ok || as.Tok != token.DEFINE {
			return true
		}
		var roles []string
		if len(as.Rhs) == 1 {
			if c, ok := as.Rhs[0].(*ast.CallExpr); ok {
				if id, ok := c.Fun.(*ast.Ident); ok && id.Obj != nil && id.Obj == valFunc {
					roles = []string{"val", "err"}
				} else {
					switch render(c.Fun) {
					case "eth2util.DataVersionFromUint64":
						roles = []string{"version", "err"}
					case "ssz.UnmarshalBool":
						roles = []string{"blinded"}
					case "eth2p0.ValidatorIndex":
						roles = []string{"valIdx"}
					case "ssz.ReadOffset":
						roles = []string{"o1"}
					}
				}
			}
		}
		if roles == nil || len(roles) != len(as.Lhs) {
			die("%s: local definition has no role (fail closed): %s", fd.Name.Name, render(as))
		}
		for i, e := range as.Lhs {
			id, ok := e.(*ast.Ident)
			if !ok {
				die("%s: local definition not understood (fail closed): %s", fd.Name.Name, render(as))
			}
			if id.Name == "_" {
				continue
			}
			if !localObj(fd, id) {
				die("%s: `%s` in %s is not a variable of the function (fail closed)", fd.Name.Name, id.Name, render(as))
			}
			if old, ok := names[id.Obj]; ok && old != roles[i] {
				die("%s: `%s` has two roles, %s and %s (fail closed)", fd.Name.Name, id.Name, old, roles[i])
			}
			names[id.Obj] = roles[i]
		}
		return true
	})
	ast.Inspect(fd.Body, func(n ast.Node) bool {
		if id, ok := n.(*ast.Ident); ok && localObj(fd, id) {
			if _, ok := names[id.Obj]; !ok {
				die("%s: variable `%s` has no role (fail closed)", fd.Name.Name, id.Name)
			}
		}
		return true
	})
	applyNames(fd, names, func(s string) bool { return roleNames[s] })
}

// body: the statements of the function as text, variables renamed canonically (alphaRename).
func body(f *ast.File, recv, name string) []string {
	fd := funcDecl(f, recv, name)
	alphaRename(fd)
	return stmts(fd)
}

// bodyRole: the statements of an interpreted wrapper, variables renamed by role (roleRename).
func bodyRole(f *ast.File, name, bufRole string) []string {
	fd := funcDecl(f, "", name)
	roleRename(fd, bufRole)
	return stmts(fd)
}

func stmts(fd *ast.FuncDecl) []string {
	var out []string
	for _, s := range fd.Body.List {
		out = append(out, render(s))
	}
	return out
}

// constants: integer constant declarations built from literals, + and other constants.
type consts map[string]ast.Expr

func collectConsts(f *ast.File) consts {
	c := consts{}
	for _, d := range f.Decls {
		gd, ok := d.(*ast.GenDecl)
		if !ok || gd.Tok != token.CONST {
			continue
		}
		for _, sp := range gd.Specs {
			vs := sp.(*ast.ValueSpec)
			for i, n := range vs.Names {
				if i < len(vs.Values) {
					c[n.Name] = vs.Values[i]
				}
			}
		}
	}
	return c
}

func (c consts) eval(e ast.Expr) int {
	switch x := e.(type) {
	case *ast.BasicLit:
		if x.Kind != token.INT {
			die("non-int literal %s", x.Value)
		}
		v, err := strconv.Atoi(x.Value)
		if err != nil {
			die("literal %s", x.Value)
		}
		return v
	case *ast.BinaryExpr:
		switch x.Op {
		case token.ADD:
			return c.eval(x.X) + c.eval(x.Y)
		case token.MUL:
			return c.eval(x.X) * c.eval(x.Y)
		}
		die("unsupported operator %s in constant", x.Op)
	case *ast.ParenExpr:
		return c.eval(x.X)
	case *ast.Ident:
		d, ok := c[x.Name]
		if !ok {
			die("unknown constant %s", x.Name)
		}
		return c.eval(d)
	}
	die("unsupported constant expression %s", render(e))
	return 0
}

func (c consts) evalStr(s string) int {
	e, err := parser.ParseExpr(s)
	if err != nil {
		die("expr %q: %v", s, err)
	}
	return c.eval(e)
}

type ent2 struct {
	what string
	a    int
}
type ent3 struct {
	what string
	a, b int
}

type shape struct {
	re *regexp.Regexp
	fn func(m []string) (string, int, int, bool) // what, a, b, emit
}

func atoi(s string) int { v, _ := strconv.Atoi(s); return v }

func interpret(name string, stmts []string, shapes []shape) []ent3 {
	var out []ent3
	for _, s := range stmts {
		ok := false
		for _, sh := range shapes {
			if m := sh.re.FindStringSubmatch(s); m != nil {
				w, a, b, emit := sh.fn(m)
				if emit {
					out = append(out, ent3{w, a, b})
				}
				ok = true
				break
			}
		}
		if !ok {
			die("%s: statement matches no known shape (fail closed): %s", name, s)
		}
	}
	return out
}

func marshalShapes(c consts) []shape {
	r := regexp.MustCompile
	return []shape{
		{r(`^dst = ssz\.MarshalUint64\(dst, version\.ToUint64\(\)\)$`), func(m []string) (string, int, int, bool) { return "u64:version", 8, 0, true }},
		{r(`^dst = ssz\.MarshalBool\(dst, blinded\)$`), func(m []string) (string, int, int, bool) { return "bool:blinded", 1, 0, true }},
		{r(`^dst = ssz\.MarshalUint64\(dst, uint64\(valIdx\)\)$`), func(m []string) (string, int, int, bool) { return "u64:valIdx", 8, 0, true }},
		{r(`^dst = ssz\.WriteOffset\(dst, ([\w+* ()]+)\)$`), func(m []string) (string, int, int, bool) { return "u32:offset", c.evalStr(m[1]), 0, true }},
		{r(`^val, err := valFunc\(version(, blinded)?\)$`), func(m []string) (string, int, int, bool) { return "valFunc", 0, 0, true }},
		{r(`^if err != nil \{ return nil, errors\.Wrap\(err, "[^"]*"\) \}$`), func(m []string) (string, int, int, bool) { return "", 0, 0, false }},
		{r(`^if dst, err = val\.MarshalSSZTo\(dst\); err != nil \{ return nil, errors\.Wrap\(err, "[^"]*"\) \}$`), func(m []string) (string, int, int, bool) { return "inner", 0, 0, true }},
		{r(`^return dst, nil$`), func(m []string) (string, int, int, bool) { return "return", 0, 0, true }},
	}
}

func unmarshalShapes(c consts) []shape {
	r := regexp.MustCompile
	return []shape{
		{r(`^if len\(buf\) < ([\w+* ()]+) \{ return ("", )+(false, |nil, )?errors\.Wrap\(ssz\.ErrSize, "versioned object too short"\) \}$`), func(m []string) (string, int, int, bool) { return "minLen:ErrSize", c.evalStr(m[1]), 0, true }},
		{r(`^version, err := eth2util\.DataVersionFromUint64\(ssz\.UnmarshallUint64\(buf\[(\d+):(\d+)\]\)\)$`), func(m []string) (string, int, int, bool) { return "u64:version", atoi(m[1]), atoi(m[2]), true }},
		{r(`^if err != nil \{ return ("", )+(false, |nil, )?errors\.Wrap\(err, "unmarshal sszValFromVersion version"\) \}$`), func(m []string) (string, int, int, bool) { return "versionErr", 0, 0, true }},
		{r(`^blinded := ssz\.UnmarshalBool\(buf\[(\d+):(\d+)\]\)$`), func(m []string) (string, int, int, bool) { return "bool:blinded", atoi(m[1]), atoi(m[2]), true }},
		{r(`^valIdx := eth2p0\.ValidatorIndex\(ssz\.UnmarshallUint64\(buf\[(\d+):(\d+)\]\)\)$`), func(m []string) (string, int, int, bool) { return "u64:valIdx", atoi(m[1]), atoi(m[2]), true }},
		{r(`^o1 := ssz\.ReadOffset\(buf\[(\d+):(\d+)\]\)$`), func(m []string) (string, int, int, bool) { return "u32:offset", atoi(m[1]), atoi(m[2]), true }},
		{r(`^if ([\w+* ()]+) > o1 \|\| o1 > uint64\(len\(buf\)\) \{ return ("", )+(false, |nil, )?errors\.Wrap\(ssz\.ErrOffset, "sszValFromVersion offset"(, z\.\w+\("\w+", \w+\))*\) \}$`), func(m []string) (string, int, int, bool) { return "checkRange:ErrOffset", c.evalStr(m[1]), 0, true }},
		{r(`^if o1 != ([\w+* ()]+) \{ return ("", )+(false, |nil, )?errors\.Wrap\(ssz\.ErrOffset, "sszValFromVersion offset"(, z\.\w+\("\w+", \w+\))*\) \}$`), func(m []string) (string, int, int, bool) { return "checkExact:ErrOffset", c.evalStr(m[1]), 0, true }},
		{r(`^val, err := valFunc\(version(, blinded)?\)$`), func(m []string) (string, int, int, bool) { return "valFunc", 0, 0, true }},
		{r(`^if err != nil \{ return ("", )+(false, |nil, )?errors\.Wrap\(err, "sszValFromVersion from version"(, z\.\w+\("\w+", \w+\))*\) \}$`), func(m []string) (string, int, int, bool) { return "", 0, 0, false }},
		{r(`^if err = val\.UnmarshalSSZ\(buf\[o1:\]\); err != nil \{ return ("", )+(false, |nil, )?errors\.Wrap\(err, "unmarshal sszValFromVersion"(, z\.\w+\("\w+", \w+\))*\) \}$`), func(m []string) (string, int, int, bool) { return "inner:buf[o1:]", 0, 0, true }},
		{r(`^return version, blinded, nil$`), func(m []string) (string, int, int, bool) { return "return:version,blinded", 0, 0, true }},
		{r(`^return version, &valIdx, nil$`), func(m []string) (string, int, int, bool) { return "return:version,valIdx", 0, 0, true }},
		{r(`^return version, nil$`), func(m []string) (string, int, int, bool) { return "return:version", 0, 0, true }},
	}
}

// versionTable reads eth2util.dataVersionValues (map[DataVersion]int literal keyed by constants)
// and the string value of each DataVersion constant.
func versionTable(f *ast.File) []ent2 {
	names := map[string]string{}
	for _, d := range f.Decls {
		gd, ok := d.(*ast.GenDecl)
		if !ok || gd.Tok != token.CONST {
			continue
		}
		for _, sp := range gd.Specs {
			vs := sp.(*ast.ValueSpec)
			for i, n := range vs.Names {
				if i < len(vs.Values) {
					if bl, ok := vs.Values[i].(*ast.BasicLit); ok && bl.Kind == token.STRING {
						s, _ := strconv.Unquote(bl.Value)
						names[n.Name] = s
					}
				}
			}
		}
	}
	var out []ent2
	found := false
	for _, d := range f.Decls {
		gd, ok := d.(*ast.GenDecl)
		if !ok || gd.Tok != token.VAR {
			continue
		}
		for _, sp := range gd.Specs {
			vs := sp.(*ast.ValueSpec)
			if len(vs.Names) != 1 || vs.Names[0].Name != "dataVersionValues" {
				continue
			}
			cl, ok := vs.Values[0].(*ast.CompositeLit)
			if !ok {
				die("dataVersionValues is not a composite literal")
			}
			found = true
			for _, e := range cl.Elts {
				kv := e.(*ast.KeyValueExpr)
				k, ok := kv.Key.(*ast.Ident)
				if !ok {
					die("dataVersionValues key %s", render(kv.Key))
				}
				s, ok := names[k.Name]
				if !ok {
					die("unknown DataVersion constant %s", k.Name)
				}
				bl, ok := kv.Value.(*ast.BasicLit)
				if !ok {
					die("dataVersionValues value %s", render(kv.Value))
				}
				out = append(out, ent2{s, atoi(bl.Value)})
			}
		}
	}
	if !found {
		die("dataVersionValues not found")
	}
	sort.Slice(out, func(i, j int) bool { return out[i].a < out[j].a })
	return out
}

// acceptedVersions lists the case labels of the version switch of T.sszValFromVersion.
func acceptedVersions(f *ast.File, typ string) []string {
	fd := funcDecl(f, typ, "sszValFromVersion")
	if len(fd.Body.List) != 1 {
		die("%s.sszValFromVersion: body is not a single switch", typ)
	}
	sw, ok := fd.Body.List[0].(*ast.SwitchStmt)
	if !ok || sw.Init != nil {
		die("%s.sszValFromVersion: not a switch on version", typ)
	}
	// the tag is the (first, eth2util.DataVersion) parameter of the function, whatever it is called
	ps := fd.Type.Params.List
	tag, isID := sw.Tag.(*ast.Ident)
	if !isID || len(ps) == 0 || len(ps[0].Names) == 0 || ps[0].Names[0].Obj == nil || tag.Obj != ps[0].Names[0].Obj ||
		render(ps[0].Type) != "eth2util.DataVersion" {
		die("%s.sszValFromVersion: not a switch on the version parameter", typ)
	}
	var out []string
	for _, cc := range sw.Body.List {
		c := cc.(*ast.CaseClause)
		if c.List == nil {
			last := render(c.Body[len(c.Body)-1])
			if !strings.HasPrefix(last, "return nil, errors.New(") {
				die("%s.sszValFromVersion: default does not return an error: %s", typ, last)
			}
			out = append(out, "default:error")
			continue
		}
		for _, e := range c.List {
			s := render(e)
			if !strings.HasPrefix(s, "eth2util.DataVersion") {
				die("%s.sszValFromVersion: case %s", typ, s)
			}
			out = append(out, strings.ToLower(strings.TrimPrefix(s, "eth2util.DataVersion")))
		}
	}
	return out
}

func leanStr(s string) string {
	return `"` + strings.NewReplacer(`\`, `\\`, `"`, `\"`).Replace(s) + `"`
}

func main() {
	repo := flag.String("repo", "/repo", "charon repository")
	out := flag.String("out", "", "output .lean file")
	flag.Parse()
	if *out == "" {
		die("-out required")
	}
	sszF := parse(filepath.Join(*repo, "core", "ssz.go"))
	protoF := parse(filepath.Join(*repo, "core", "proto.go"))
	typesF := parse(filepath.Join(*repo, "eth2util", "types.go"))
	c := collectConsts(sszF)

	var b strings.Builder
	w := func(f string, a ...any) { fmt.Fprintf(&b, f, a...) }
	w("/- GENERATED by harness/cmd/trans-sszwrap (translator T-sszwrap) from core/ssz.go, core/proto.go,\n   eth2util/types.go. Not committed; regenerated on every check run. Plain data only. -/\n")
	w("namespace CharonV.Generated.SszWrap\n\n")
	for _, n := range []string{"versionedBlindedOffset", "versionedOffset", "versionedValIdxOffset"} {
		e, ok := c[n]
		if !ok {
			die("constant %s not found", n)
		}
		w("/-- `%s = %s` -/\ndef %s : Nat := %d\n", n, render(e), n, c.eval(e))
	}
	w("\n/-- eth2util.dataVersionValues, sorted by value -/\ndef dataVersionValues : List (String × Nat) := [")
	for i, e := range versionTable(typesF) {
		if i > 0 {
			w(", ")
		}
		w("(%s, %d)", leanStr(e.what), e.a)
	}
	w("]\n\n")

	emit3 := func(name string, ents []ent3) {
		w("def %s : List (String × Nat × Nat) := [", name)
		for i, e := range ents {
			if i > 0 {
				w(", ")
			}
			w("(%s, %d, %d)", leanStr(e.what), e.a, e.b)
		}
		w("]\n")
	}
	w("/-! interpreted statement lists of the three versioned wrappers: (what, size | constant | lo, hi) -/\n")
	for _, n := range []string{"marshalSSZVersionedBlindedTo", "marshalSSZVersionedValidatorIdxTo", "marshalSSZVersionedTo"} {
		emit3(n, interpret(n, bodyRole(sszF, n, "dst"), marshalShapes(c)))
	}
	for _, n := range []string{"unmarshalSSZVersionedBlinded", "unmarshalSSZVersionedValidatorIdx", "unmarshalSSZVersioned"} {
		emit3(n, interpret(n, bodyRole(sszF, n, "buf"), unmarshalShapes(c)))
	}

	types := []string{"VersionedSignedProposal", "VersionedProposal", "VersionedAttestation", "VersionedSignedAggregateAndProof", "VersionedAggregatedAttestation"}
	w("\n/-- versions accepted by T.sszValFromVersion (switch labels in order) -/\ndef acceptedVersions : List (String × List String) := [")
	for i, t := range types {
		if i > 0 {
			w(",\n  ")
		}
		var vs []string
		for _, v := range acceptedVersions(sszF, t) {
			vs = append(vs, leanStr(v))
		}
		w("(%s, [%s])", leanStr(t), strings.Join(vs, ", "))
	}
	w("]\n\n")

	emitBody := func(name string, stmts []string) {
		w("def %s : List String := [", name)
		for i, s := range stmts {
			if i > 0 {
				w(",")
			}
			w("\n  %s", leanStr(s))
		}
		w("]\n")
	}
	w("/-! normalised statement text (go/printer, whitespace collapsed, comments dropped; receiver r0, parameters\n   p0, p1, … by position, named results o0, …, locals v0, v1, … in order of declaration) -/\n")
	for _, t := range types {
		emitBody(t+"_MarshalSSZTo", body(sszF, t, "MarshalSSZTo"))
		emitBody(t+"_UnmarshalSSZ", body(sszF, t, "UnmarshalSSZ"))
	}
	emitBody("AttestationData_MarshalSSZTo", body(sszF, "AttestationData", "MarshalSSZTo"))
	emitBody("AttestationData_UnmarshalSSZ", body(sszF, "AttestationData", "UnmarshalSSZ"))
	emitBody("attesterDutySSZ_MarshalSSZTo", body(sszF, "attesterDutySSZ", "MarshalSSZTo"))
	emitBody("attesterDutySSZ_SizeSSZ", body(sszF, "attesterDutySSZ", "SizeSSZ"))
	emitBody("attesterDutySSZ_UnmarshalSSZ", body(sszF, "attesterDutySSZ", "UnmarshalSSZ"))
	emitBody("proto_marshal", body(protoF, "", "marshal"))
	emitBody("proto_unmarshal", body(protoF, "", "unmarshal"))
	emitBody("ParSignedDataSetToProto", body(protoF, "", "ParSignedDataSetToProto"))
	emitBody("ParSignedDataSetFromProto", body(protoF, "", "ParSignedDataSetFromProto"))
	emitBody("UnsignedDataSetToProto", body(protoF, "", "UnsignedDataSetToProto"))
	emitBody("UnsignedDataSetFromProto", body(protoF, "", "UnsignedDataSetFromProto"))
	w("\nend CharonV.Generated.SszWrap\n")

	if err := os.MkdirAll(filepath.Dir(*out), 0o755); err != nil {
		die("%v", err)
	}
	old, _ := os.ReadFile(*out)
	if string(old) != b.String() { // keep mtime when unchanged: no needless Lean rebuild
		if err := os.WriteFile(*out, []byte(b.String()), 0o644); err != nil {
			die("%v", err)
		}
	}
	fmt.Printf("trans-sszwrap: wrote %s (%d bytes)\n", *out, b.Len())
}
