// drive-dutydb: correspondence driver for C06 (core/dutydb/memory.go).
//
// Runs the real dutydb.MemDB with a scripted deadliner on real eth2 objects and records, per
// operation, its canonical observable result. Blocking queries run in goroutines; whether a query
// is answered or still blocked is decided from the store's own pending-query slices (hook
// VerifSnapshot, taken under the store's mutex), never from timing.
//
// ops (one line each):
//
//	new                                         fresh MemDB + deadliner (episode reset)
//	cfg <keepFirstAgg 0|1> <checkSlot 0|1>      like new; tells the model which proposed fixes the tree has
//	store <ty> <slot> <a|x> <entry>*            Store(duty{slot,ty}, set); a: deadliner answers by its
//	                                            expired set, x: deadliner answers exempt.
//	                                            The entries are listed in the order in which Store's map
//	                                            iteration visited them (observed through Clone(); the
//	                                            order is an oracle of the model, see AGENT_GUIDE rule 1)
//	    -> <ok|err:class> r[q<id>=<val>,..] <snapshot>
//	await att <slot> <comm> | await pro <slot> | await agg <slot> <rslot> <r> <comm> | await con <slot> <sub> <root>
//	    -> q<id> r[..] pend{..}
//	cancel <qid>                                -> - pend{..}
//	expire <ty> <slot> <0|1>                    deadliner: duty expired (1: also queued on C()) -> -
//	pubkey <slot> <comm> <val>                  -> found:k(<pk>) | notfound
//	race <sub> ; <sub> [; <sub>] => <observed>  the sub-operations (store / await (at most one) / cancel / pubkey, same syntax)
//	                                            are called from goroutines released together by a start barrier. <observed> is
//	                                            written by this driver after all calls returned: one result per sub-operation
//	                                            (ok|err:class, q<id>, -, found:..|notfound), then r[..] (all queries answered
//	                                            during the race) and the final snapshot. The model accepts the line iff some
//	                                            sequential order of the atomic sub-operations yields exactly <observed>
//	    -> lin <observed>                       (model: "nolin ..." when no linearisation exists)
//	addrace <store D> ; <store E> => <observed> the deadline of D fires while Store(D) is inside deadliner.Add(D): the driver's
//	                                            deadliner decides its answer, then declares D expired, queues it on C(), starts
//	                                            the real Store(E) in a goroutine and waits up to 20 ms for it before returning.
//	                                            With db.mu held during Add the second Store blocks and runs afterwards, and
//	                                            the first Store deletes D's data in its own expiry loop. The model outcome is
//	                                            that of `store D; expire D; store E`: nothing of D is left or served.
//
// ty: att pro agg con bld oth. entry tokens:
//
//	A:pk:slot:index:head:src:tgt:dutySlot:comm:val    core.AttestationData (map key = pubkey pk)
//	P:slot:root:pay                                   deneb proposal; root = what the block root covers, pay = kzg proofs (not covered)
//	G:slot:r:comm:pay                                 electra aggregate; data root id = slot*100+r; pay = aggregation bits + signature
//	C:slot.sub.root.pay,...   S:slot.sub.root.pay     core.SyncContributions / single core.SyncContribution
//
// snapshot: kv{key=val,..} idx{<t><slot>:key,..} pend{a:u/t,p:u/t,g:u/t,c:u/t}, all sorted.
package main

import (
	"context"
	"fmt"
	"os"
	"runtime"
	"sort"
	"strconv"
	"strings"
	"sync"
	"time"

	"github.com/OffchainLabs/go-bitfield"
	eth2api "github.com/attestantio/go-eth2-client/api"
	eth2v1 "github.com/attestantio/go-eth2-client/api/v1"
	eth2spec "github.com/attestantio/go-eth2-client/spec"
	"github.com/attestantio/go-eth2-client/spec/altair"
	"github.com/attestantio/go-eth2-client/spec/deneb"
	"github.com/attestantio/go-eth2-client/spec/electra"
	eth2p0 "github.com/attestantio/go-eth2-client/spec/phase0"

	"github.com/obolnetwork/charon/core"
	"github.com/obolnetwork/charon/core/dutydb"
	"github.com/obolnetwork/charon/testutil"

	"verifharness/hx"
)

// ---------------------------------------------------------------- scripted deadliner

type scriptDL struct {
	mu      sync.Mutex // racing Stores call Add concurrently when the code under test (a mutant) drops db.mu
	expired map[core.Duty]bool
	exempt  bool // answer of the next Add
	ch      chan core.Duty
	last    core.DeadlineStatus
	adds    int
	// addrace: what happens inside the next Add(hookDuty), after its answer has been decided
	hookArmed bool
	hookDuty  core.Duty
	hookFn    func()
}

func (d *scriptDL) Add(duty core.Duty) core.DeadlineStatus {
	d.mu.Lock()
	d.adds++
	switch {
	case d.exempt:
		d.last = core.DeadlineExempt
	case d.expired[duty]:
		d.last = core.DeadlineExpired
	default:
		d.last = core.DeadlineScheduled
	}
	st := d.last
	var fn func()
	if d.hookArmed && duty == d.hookDuty {
		d.hookArmed = false
		fn = d.hookFn
	}
	d.mu.Unlock()
	if fn != nil {
		fn() // "addrace": the duty's deadline fires right after this answer was decided
	}
	return st
}

func (d *scriptDL) C() <-chan core.Duty { return d.ch }

// ---------------------------------------------------------------- real objects

func rootOf(id uint64) (r eth2p0.Root) {
	r[0] = byte(id)
	r[1] = byte(id >> 8)
	r[31] = 0xC6
	return r
}

func cp(id uint64) *eth2p0.Checkpoint {
	return &eth2p0.Checkpoint{Epoch: eth2p0.Epoch(id), Root: rootOf(id)}
}

func mkAttData(slot, index, head, src, tgt uint64) eth2p0.AttestationData {
	return eth2p0.AttestationData{Slot: eth2p0.Slot(slot), Index: eth2p0.CommitteeIndex(index),
		BeaconBlockRoot: rootOf(head), Source: cp(src), Target: cp(tgt)}
}

func corePk(id uint64) core.PubKey {
	var b [48]byte
	b[0] = byte(id)
	b[1] = byte(id >> 8)
	b[47] = 0x06
	return core.PubKeyFrom48Bytes(b)
}

var pkIDs = map[core.PubKey]uint64{}

func pkID(p core.PubKey) string {
	if id, ok := pkIDs[p]; ok {
		return strconv.FormatUint(id, 10)
	}
	return "?"
}

func canonAtt(d *eth2p0.AttestationData) string {
	if d == nil || d.Source == nil || d.Target == nil {
		return "a(nil)"
	}
	slot, index, head := uint64(d.Slot), uint64(d.Index), uint64(d.BeaconBlockRoot[0])|uint64(d.BeaconBlockRoot[1])<<8
	src, tgt := uint64(d.Source.Epoch), uint64(d.Target.Epoch)
	re := mkAttData(slot, index, head, src, tgt)
	if re.String() != d.String() {
		return "a(?)"
	}
	return fmt.Sprintf("a(%d.%d.%d.%d.%d)", slot, index, head, src, tgt)
}

var proTemplate core.VersionedProposal

func mkProposal(slot, root, pay uint64) core.VersionedProposal {
	c, err := proTemplate.Clone()
	hx.Must(err)
	p := c.(core.VersionedProposal)
	p.Deneb.Block.Slot = eth2p0.Slot(slot)
	p.Deneb.Block.ProposerIndex = eth2p0.ValidatorIndex(root)
	p.Deneb.KZGProofs = []deneb.KZGProof{}
	if pay != 0 {
		var k deneb.KZGProof
		k[0] = byte(pay)
		p.Deneb.KZGProofs = append(p.Deneb.KZGProofs, k)
	}
	return p
}

var proRoots = map[eth2p0.Root]string{} // real block root -> "slot/root" it was built from

func canonPro(p *eth2api.VersionedProposal) string {
	if p == nil || p.Deneb == nil || p.Deneb.Block == nil {
		return "p(nil)"
	}
	root := uint64(p.Deneb.Block.ProposerIndex)
	var pay uint64
	if len(p.Deneb.KZGProofs) > 0 {
		pay = uint64(p.Deneb.KZGProofs[0][0])
	}
	r, err := p.Root()
	hx.Must(err)
	if proRoots[r] != fmt.Sprintf("%d/%d", uint64(p.Deneb.Block.Slot), root) {
		return "p(?)"
	}
	return fmt.Sprintf("p(%d.%d)", root, pay)
}

func aggData(slot, r uint64) *eth2p0.AttestationData {
	d := mkAttData(slot, 0, r, 1, 1)
	return &d
}

var aggRootIDs = map[eth2p0.Root]uint64{} // data root -> model id slot*100+r

func aggRoot(slot, r uint64) eth2p0.Root {
	root, err := aggData(slot, r).HashTreeRoot()
	hx.Must(err)
	aggRootIDs[root] = slot*100 + r
	return root
}

func mkAgg(slot, r, comm, pay uint64) core.VersionedAggregatedAttestation {
	bits := bitfield.NewBitvector64()
	bits.SetBitAt(comm%64, true)
	ab := bitfield.NewBitlist(64)
	ab.SetBitAt(pay%64, true)
	var sig eth2p0.BLSSignature
	sig[0] = byte(pay)
	aggRoot(slot, r)
	return core.VersionedAggregatedAttestation{VersionedAttestation: eth2spec.VersionedAttestation{
		Version: eth2spec.DataVersionElectra,
		Electra: &electra.Attestation{AggregationBits: ab, Data: aggData(slot, r), Signature: sig, CommitteeBits: bits},
	}}
}

func canonAggVal(a *eth2spec.VersionedAttestation) string {
	if a == nil || a.Electra == nil {
		return "g(nil)"
	}
	pay := uint64(a.Electra.Signature[0])
	idx := a.Electra.AggregationBits.BitIndices()
	if len(idx) != 1 || uint64(idx[0]) != pay%64 {
		return "g(?)"
	}
	return fmt.Sprintf("g(%d)", pay)
}

func mkContrib(slot, sub, root, pay uint64) core.SyncContribution {
	bits := bitfield.NewBitvector128()
	bits[0] = byte(pay)
	var sig eth2p0.BLSSignature
	sig[0] = byte(pay)
	return core.NewSyncContribution(&altair.SyncCommitteeContribution{Slot: eth2p0.Slot(slot), BeaconBlockRoot: rootOf(root),
		SubcommitteeIndex: sub, AggregationBits: bits, Signature: sig})
}

func canonCon(c *altair.SyncCommitteeContribution) string {
	if c == nil {
		return "c(nil)"
	}
	pay := uint64(c.Signature[0])
	if len(c.AggregationBits) == 0 || uint64(c.AggregationBits[0]) != pay {
		return "c(?)"
	}
	return fmt.Sprintf("c(%d)", pay)
}

// ---------------------------------------------------------------- set entries

type conE struct{ slot, sub, root, pay uint64 }

type entry struct {
	kind byte // A P G C S
	f    []uint64
	cons []conE
}

func (e entry) token() string {
	switch e.kind {
	case 'C', 'S':
		parts := make([]string, len(e.cons))
		for i, c := range e.cons {
			parts[i] = fmt.Sprintf("%d.%d.%d.%d", c.slot, c.sub, c.root, c.pay)
		}
		return string(e.kind) + ":" + strings.Join(parts, ",")
	}
	parts := make([]string, len(e.f))
	for i, v := range e.f {
		parts[i] = strconv.FormatUint(v, 10)
	}
	return string(e.kind) + ":" + strings.Join(parts, ":")
}

func parseEntry(tok string) (entry, bool) {
	if len(tok) < 2 || tok[1] != ':' {
		return entry{}, false
	}
	e := entry{kind: tok[0]}
	rest := tok[2:]
	switch e.kind {
	case 'C', 'S':
		if rest != "" {
			for _, p := range strings.Split(rest, ",") {
				fs := strings.Split(p, ".")
				if len(fs) != 4 {
					return e, false
				}
				var v [4]uint64
				for i := range fs {
					x, err := strconv.ParseUint(fs[i], 10, 32)
					if err != nil {
						return e, false
					}
					v[i] = x
				}
				e.cons = append(e.cons, conE{v[0], v[1], v[2], v[3]})
			}
		}
		if e.kind == 'S' && len(e.cons) != 1 {
			return e, false
		}
		return e, true
	case 'A', 'P', 'G':
		for _, p := range strings.Split(rest, ":") {
			x, err := strconv.ParseUint(p, 10, 32)
			if err != nil {
				return e, false
			}
			e.f = append(e.f, x)
		}
		want := map[byte]int{'A': 9, 'P': 3, 'G': 4}[e.kind]
		return e, len(e.f) == want
	}
	return e, false
}

// kvw is one (key, value, comparison) a set entry maps to — the property's own reading of "key" and
// "conflict", used only by the monitors.
type kvw struct {
	key, val string
	weak     bool   // committee-index-0 alias of an attestation with another index: source/target only
	src, tgt uint64 // for weak
	ident    string // what a conflict is judged on ("" = never conflicts: aggregate, same data root)
}

func (e entry) writes() []kvw {
	switch e.kind {
	case 'A':
		pk, slot, index, head, src, tgt, comm, val := e.f[0], e.f[1], e.f[2], e.f[3], e.f[4], e.f[5], e.f[7], e.f[8]
		av := fmt.Sprintf("a(%d.%d.%d.%d.%d)", slot, index, head, src, tgt)
		kv := fmt.Sprintf("k(%d)", pk)
		return []kvw{
			{key: fmt.Sprintf("K%d.%d.%d", slot, comm, val), val: kv, ident: kv},
			{key: fmt.Sprintf("A%d.%d", slot, comm), val: av, ident: av, src: src, tgt: tgt},
			{key: fmt.Sprintf("K%d.0.%d", slot, val), val: kv, ident: kv},
			{key: fmt.Sprintf("A%d.0", slot), val: av, ident: av, weak: true, src: src, tgt: tgt},
		}
	case 'P':
		return []kvw{{key: fmt.Sprintf("P%d", e.f[0]), val: fmt.Sprintf("p(%d.%d)", e.f[1], e.f[2]), ident: fmt.Sprintf("root%d", e.f[1])}}
	case 'G':
		return []kvw{{key: fmt.Sprintf("G%d.%d.%d", e.f[0], e.f[0]*100+e.f[1], e.f[2]), val: fmt.Sprintf("g(%d)", e.f[3])}}
	case 'C', 'S':
		var out []kvw
		for _, c := range e.cons {
			v := fmt.Sprintf("c(%d)", c.pay)
			out = append(out, kvw{key: fmt.Sprintf("C%d.%d.%d", c.slot, c.sub, c.root), val: v, ident: v})
		}
		return out
	}
	return nil
}

func (e entry) build() (core.PubKey, core.UnsignedData, bool) {
	switch e.kind {
	case 'A':
		pk, slot, index, head, src, tgt, dslot, comm, val := e.f[0], e.f[1], e.f[2], e.f[3], e.f[4], e.f[5], e.f[6], e.f[7], e.f[8]
		p := corePk(pk)
		pkIDs[p] = pk
		var bls eth2p0.BLSPubKey
		bls[0] = byte(pk)
		return p, core.AttestationData{Data: mkAttData(slot, index, head, src, tgt), Duty: eth2v1.AttesterDuty{
			PubKey: bls, Slot: eth2p0.Slot(dslot), ValidatorIndex: eth2p0.ValidatorIndex(val), CommitteeIndex: eth2p0.CommitteeIndex(comm),
			CommitteeLength: 8, CommitteesAtSlot: 4, ValidatorCommitteeIndex: val % 8}}, true
	case 'P':
		p := mkProposal(e.f[0], e.f[1], e.f[2])
		r, err := p.Root()
		hx.Must(err)
		proRoots[r] = fmt.Sprintf("%d/%d", e.f[0], e.f[1])
		return "", p, false
	case 'G':
		return "", mkAgg(e.f[0], e.f[1], e.f[2], e.f[3]), false
	case 'C':
		cs := core.SyncContributions{}
		for _, c := range e.cons {
			cs = append(cs, mkContrib(c.slot, c.sub, c.root, c.pay))
		}
		return "", cs, false
	case 'S':
		c := e.cons[0]
		return "", mkContrib(c.slot, c.sub, c.root, c.pay), false
	}
	panic("bad entry kind")
}

// spy wraps a set value to observe the order in which Store's map iteration reaches it.
type spy struct {
	inner core.UnsignedData
	idx   int
	log   *[]int
}

func (s spy) Clone() (core.UnsignedData, error) {
	*s.log = append(*s.log, s.idx)
	return s.inner.Clone()
}

func (s spy) MarshalJSON() ([]byte, error) { return s.inner.MarshalJSON() }

// ---------------------------------------------------------------- episode

type qres struct {
	val string
	err error
}

type query struct {
	id     int
	kind   byte // a p g c
	key    string
	hk     any // hook key
	cancel context.CancelFunc
	ch     chan qres
	state  int // 0 blocked, 1 answered, 2 cancelled, 3 lost
}

type ansRec struct {
	val string
	gen int
	op  int
}

type episode struct {
	db      *dutydb.MemDB
	dl      *scriptDL
	queries []*query
	kv      map[string]string // last snapshot, canonical
	snap    dutydb.VerifSnap
	// monitor state
	answers map[string][]ansRec
	gen     map[string]int    // deletions of the key observed so far
	foreign map[string]bool   // key was deleted while its own duty had not expired (through another slot's index)
	writer  map[string]string // duty ("att/7") of the Store that inserted the key's current value
	seen    map[string]map[string]bool
	queued  []core.Duty // expiries sent on C() and not yet consumed by a Store
}

var dutyTypes = map[string]core.DutyType{"att": core.DutyAttester, "pro": core.DutyProposer, "agg": core.DutyAggregator,
	"con": core.DutySyncContribution, "bld": core.DutyBuilderProposer, "oth": core.DutyRandao}

var kindOfTy = map[string]byte{"att": 'a', "pro": 'p', "agg": 'g', "con": 'c'}

func newEpisode() *episode {
	dl := &scriptDL{expired: map[core.Duty]bool{}, ch: make(chan core.Duty, 4096)}
	e := &episode{db: dutydb.NewMemDB(dl), dl: dl, kv: map[string]string{}, answers: map[string][]ansRec{},
		gen: map[string]int{}, foreign: map[string]bool{}, writer: map[string]string{}, seen: map[string]map[string]bool{}}
	e.snap = e.db.VerifSnapshot()
	return e
}

func (e *episode) close() {
	e.db.Shutdown()
	for _, q := range e.queries {
		if q.state == 0 {
			select {
			case <-q.ch:
			case <-time.After(10 * time.Second):
				panic("await goroutine did not return on shutdown")
			}
		}
		q.cancel()
	}
}

func aggKeyStr(k dutydb.VerifAggKey) string {
	id, ok := aggRootIDs[k.Root]
	if !ok {
		return fmt.Sprintf("G%d.?.%d", k.Slot, k.CommIdx)
	}
	return fmt.Sprintf("G%d.%d.%d", k.Slot, id, k.CommIdx)
}

func conKeyStr(k dutydb.VerifContribKey) string {
	return fmt.Sprintf("C%d.%d.%d", k.Slot, k.SubcommIdx, uint64(k.Root[0])|uint64(k.Root[1])<<8)
}

func hookKeyStr(k any) string {
	switch x := k.(type) {
	case dutydb.VerifAttKey:
		return fmt.Sprintf("A%d.%d", x.Slot, x.CommIdx)
	case uint64:
		return fmt.Sprintf("P%d", x)
	case dutydb.VerifAggKey:
		return aggKeyStr(x)
	case dutydb.VerifContribKey:
		return conKeyStr(x)
	}
	return "?"
}

// canonical maps of a snapshot
func snapKV(s dutydb.VerifSnap) map[string]string {
	m := map[string]string{}
	for k, v := range s.Att {
		m[fmt.Sprintf("A%d.%d", k.Slot, k.CommIdx)] = canonAtt(v)
	}
	for k, v := range s.PubKeys {
		m[fmt.Sprintf("K%d.%d.%d", k.Slot, k.CommIdx, k.ValIdx)] = "k(" + pkID(v) + ")"
	}
	for k, v := range s.Pro {
		m[fmt.Sprintf("P%d", k)] = canonPro(v)
	}
	for k, v := range s.Agg {
		vv := v
		m[aggKeyStr(k)] = canonAggVal(&vv.VersionedAttestation)
	}
	for k, v := range s.Contrib {
		m[conKeyStr(k)] = canonCon(v)
	}
	return m
}

func pendStr(s dutydb.VerifSnap) string {
	f := func(qs []dutydb.VerifQuery) string {
		u := 0
		for _, q := range qs {
			if !q.Cancelled {
				u++
			}
		}
		return fmt.Sprintf("%d/%d", u, len(qs))
	}
	return fmt.Sprintf("pend{a:%s,p:%s,g:%s,c:%s}", f(s.AttQueries), f(s.ProQueries), f(s.AggQueries), f(s.ContribQueries))
}

func snapStr(s dutydb.VerifSnap, kv map[string]string) string {
	var kvs []string
	for k, v := range kv {
		kvs = append(kvs, k+"="+v)
	}
	sort.Strings(kvs)
	var idx []string
	for slot, ks := range s.AttKeysBySlot {
		for _, k := range ks {
			idx = append(idx, fmt.Sprintf("a%d:K%d.%d.%d", slot, k.Slot, k.CommIdx, k.ValIdx))
		}
	}
	for slot, ks := range s.AggKeysBySlot {
		for _, k := range ks {
			idx = append(idx, fmt.Sprintf("g%d:%s", slot, aggKeyStr(k)))
		}
	}
	for slot, ks := range s.ConKeysBySlot {
		for _, k := range ks {
			idx = append(idx, fmt.Sprintf("c%d:%s", slot, conKeyStr(k)))
		}
	}
	sort.Strings(idx)
	return "kv{" + strings.Join(kvs, ",") + "} idx{" + strings.Join(idx, ",") + "} " + pendStr(s)
}

func queriesOf(s dutydb.VerifSnap, kind byte) []dutydb.VerifQuery {
	switch kind {
	case 'a':
		return s.AttQueries
	case 'p':
		return s.ProQueries
	case 'g':
		return s.AggQueries
	case 'c':
		return s.ContribQueries
	}
	return nil
}

// uncancelled pending queries of a kind on a key, as the store itself lists them
func countPending(s dutydb.VerifSnap, kind byte, hk any) int {
	n := 0
	for _, q := range queriesOf(s, kind) {
		if !q.Cancelled && q.Key == hk {
			n++
		}
	}
	return n
}

const waitMax = 4 * time.Second // generous for a healthy implementation; a "not prompt" signature is confirmed by a second execution (check step 5b)

// recordAnswer runs the answer monitors (uniqueness per key, only stored data).
func (e *episode) recordAnswer(run *hx.Run, key, val string, extra map[string]map[string]bool) {
	ok := e.kv[key] == val || e.seen[key][val] || (extra != nil && extra[key][val])
	if !ok {
		run.Violate("dutydb:answer_not_stored", fmt.Sprintf("answer %s for key %s was never stored under that key", val, key))
	}
	g := e.gen[key]
	for _, p := range e.answers[key] {
		if p.val == val {
			continue
		}
		switch {
		case key[0] == 'G' && p.gen == g:
			run.Violate("dutydb:agg_replaced_same_root", fmt.Sprintf("key %s answered %s (op %d) and now %s: aggregate with the same data root replaced the stored one", key, p.val, p.op, val))
		case p.gen != g && e.foreign[key]:
			run.Violate("dutydb:answer_changed_after_expiry_cross_slot", fmt.Sprintf("key %s answered %s (op %d), was deleted by the expiry of another slot's duty (index slot differs from the key's slot) and now answers %s", key, p.val, p.op, val))
		case p.gen != g && e.writer[key] != "" && e.writer[key] != keyDuty(key):
			run.Violate("dutydb:answer_changed_after_expiry_cross_slot", fmt.Sprintf("key %s answered %s (op %d) before its duty %s expired and now %s, stored under duty %s", key, p.val, p.op, keyDuty(key), val, e.writer[key]))
		case p.gen != g:
			run.Violate("dutydb:answer_changed_after_expiry", fmt.Sprintf("key %s answered %s (op %d) and, after deletion, %s (stored under its own duty %s)", key, p.val, p.op, val, e.writer[key]))
		default:
			run.Violate("dutydb:answer_changed", fmt.Sprintf("key %s answered %s (op %d) and now %s", key, p.val, p.op, val))
		}
		break
	}
	e.answers[key] = append(e.answers[key], ansRec{val, g, run.NOps + 1})
}

// keyDuty: the duty a key belongs to, e.g. "att/7".
func keyDuty(key string) string {
	slot := key[1:]
	if i := strings.IndexByte(slot, '.'); i >= 0 {
		slot = slot[:i]
	}
	ty := map[byte]string{'A': "att", 'K': "att", 'P': "pro", 'G': "agg", 'C': "con"}[key[0]]
	return ty + "/" + slot
}

func (e *episode) dutyExpired(d string) bool {
	parts := strings.Split(d, "/")
	slot, _ := strconv.ParseUint(parts[1], 10, 64)
	return e.dl.expired[core.Duty{Slot: slot, Type: dutyTypes[parts[0]]}]
}

// collect decides, from the store's own pending slices, which of our blocked queries have been
// answered, waits for exactly those results and returns them ("q<id>=<val>", sorted by id).
func (e *episode) collect(run *hx.Run, s dutydb.VerifSnap, extra map[string]map[string]bool) string {
	mine := map[string]int{}
	for _, q := range e.queries {
		if q.state == 0 {
			mine[string(q.kind)+q.key]++
		}
	}
	var out []string
	for _, q := range e.queries {
		if q.state != 0 {
			continue
		}
		cnt := countPending(s, q.kind, q.hk)
		switch {
		case cnt == 0: // no longer listed: must have been answered
			select {
			case r := <-q.ch:
				if r.err != nil {
					q.state = 3
					run.Violate("dutydb:query_error", fmt.Sprintf("query q%d on %s returned error %v", q.id, q.key, r.err))
					continue
				}
				q.state = 1
				e.recordAnswer(run, q.key, r.val, extra)
				out = append(out, fmt.Sprintf("q%d=%s", q.id, r.val))
			case <-time.After(waitMax):
				q.state = 3
				run.Violate("dutydb:query_lost", fmt.Sprintf("query q%d on %s left the pending slice without an answer", q.id, q.key))
			}
		case cnt == mine[string(q.kind)+q.key]: // still blocked
			select {
			case r := <-q.ch:
				q.state = 1
				run.Violate("dutydb:answered_but_pending", fmt.Sprintf("query q%d on %s returned (%s,%v) but is still listed", q.id, q.key, r.val, r.err))
			default:
			}
		default:
			run.Violate("dutydb:pending_mismatch", fmt.Sprintf("key %s: store lists %d uncancelled queries, harness has %d blocked", q.key, cnt, mine[string(q.kind)+q.key]))
		}
	}
	return "r[" + strings.Join(out, ",") + "]"
}

// promptMonitor: no blocked query of the kind may have its key present.
func (e *episode) promptMonitor(run *hx.Run, kind byte, kv map[string]string, after string) {
	for _, q := range e.queries {
		if q.state == 0 && q.kind == kind {
			if v, ok := kv[q.key]; ok {
				run.Violate("dutydb:query_not_prompt", fmt.Sprintf("query q%d still blocked after %s although key %s is present (%s)", q.id, after, q.key, v))
			}
		}
	}
}

func errClass(err error) string {
	if err == nil {
		return "ok"
	}
	m := err.Error()
	for _, c := range [][2]string{
		{"expired or exempt", "expired"}, {"proposer data set length", "len"}, {"deprecated duty", "deprecated"},
		{"unsupported duty type", "unsupported"}, {"invalid unsigned", "invalid"}, {"invalid versioned proposal", "invalid"},
		{"slot mismatch", "slot"},
		{"clashing public key", "clashPk"}, {"commidx=0 source", "clashSrc"}, {"commidx=0 target", "clashTgt"},
		{"clashing attestation data", "clashAtt"}, {"clashing data root", "clashAgg"}, {"clashing sync contributions", "clashCon"},
		{"clashing blocks", "clashPro"}, {"unknown duty type", "unknownDuty"},
	} {
		if strings.Contains(m, c[0]) {
			return "err:" + c[1]
		}
	}
	return "err:other(" + strings.ReplaceAll(strings.ReplaceAll(m, " ", "_"), "\n", "_") + ")"
}

// doStore executes one Store and returns the op line (entries in visiting order) and the output.
func (e *episode) doStore(run *hx.Run, ty string, slot uint64, st string, entries []entry) (string, string) {
	duty := core.Duty{Slot: slot, Type: dutyTypes[ty]}
	set := core.UnsignedDataSet{}
	var log []int
	byPk := map[core.PubKey]int{}
	for i, en := range entries {
		pk, ud, isAtt := en.build()
		if !isAtt {
			pk = corePk(1000 + uint64(i))
		}
		set[pk] = spy{ud, i, &log}
		byPk[pk] = i // a later entry with the same pubkey replaces the earlier one
	}
	live := map[int]bool{}
	for _, i := range byPk {
		live[i] = true
	}
	e.dl.exempt = st == "x"
	pre := e.kv
	adds := e.dl.adds
	err := e.db.Store(context.Background(), duty, set)
	e.dl.exempt = false
	if e.dl.adds != adds+1 {
		run.Violate("dutydb:deadliner_add_calls", fmt.Sprintf("Store called deadliner.Add %d times", e.dl.adds-adds))
	}
	status := e.dl.last

	// entries in the order Store reached them, then the ones it never reached
	var ordered []entry
	visited := map[int]bool{}
	for _, i := range log {
		if !visited[i] {
			visited[i] = true
			ordered = append(ordered, entries[i])
		}
	}
	nVisited := len(ordered)
	for i, en := range entries {
		if live[i] && !visited[i] {
			ordered = append(ordered, en)
		}
	}
	toks := make([]string, len(ordered))
	for i, en := range ordered {
		toks[i] = en.token()
	}
	line := strings.TrimSpace(fmt.Sprintf("store %s %d %s %s", ty, slot, st, strings.Join(toks, " ")))

	s := e.db.VerifSnapshot()
	post := snapKV(s)
	res := errClass(err)
	dstr := fmt.Sprintf("%s/%d", ty, slot)
	e.queued = e.queued[len(e.queued)-len(e.dl.ch):]

	// values supplied by this call, per key (for the only-stored-data monitor)
	extra := map[string]map[string]bool{}
	for _, en := range ordered[:nVisited] {
		for _, w := range en.writes() {
			if extra[w.key] == nil {
				extra[w.key] = map[string]bool{}
			}
			extra[w.key][w.val] = true
		}
	}

	// --- monitors on the implementation's own trace
	// expired / exempt duty refused without any effect
	if status != core.DeadlineScheduled {
		changed := len(pre) != len(post)
		for k, v := range pre {
			if post[k] != v {
				changed = true
			}
		}
		if err == nil || changed {
			run.Violate("dutydb:expired_store_accepted", fmt.Sprintf("Store for %s (deadliner status %v) returned %s, maps changed: %v", dstr, status, res, changed))
		}
	}
	// conflicting data must make the call fail (sequentially over the entries, first value per key wins)
	if err == nil && kindOfTy[ty] != 0 {
		tmp := map[string]kvw{}
		cur := func(key string) (kvw, bool) {
			if w, ok := tmp[key]; ok {
				return w, true
			}
			v, ok := pre[key]
			if !ok {
				return kvw{}, false
			}
			w := kvw{key: key, val: v, ident: v}
			if key[0] == 'P' {
				w.ident = proRootOf(v)
			}
			var a, b, c uint64
			_, _ = fmt.Sscanf(v, "a(%d.%d.%d.%d.%d)", &a, &b, &c, &w.src, &w.tgt)
			return w, true
		}
		for _, en := range ordered {
			for _, w := range en.writes() {
				old, ok := cur(w.key)
				if !ok {
					tmp[w.key] = w
					continue
				}
				conflict := false
				switch {
				case w.ident == "":
				case w.weak:
					conflict = old.src != w.src || old.tgt != w.tgt
				default:
					conflict = old.ident != w.ident
				}
				if conflict {
					run.Violate("dutydb:conflict_accepted", fmt.Sprintf("Store %s returned ok although %s=%s conflicts with the value %s held for that key", dstr, w.key, w.val, old.val))
				}
			}
		}
	}
	// stored values are never replaced; inserted keys must not belong to an expired duty
	for k, v := range post {
		old, was := pre[k]
		switch {
		case was && old != v && k[0] == 'G':
			run.Violate("dutydb:agg_replaced_same_root", fmt.Sprintf("Store %s replaced %s=%s by %s (same data root, other aggregation bits/signature)", dstr, k, old, v))
			e.writer[k] = dstr
		case was && old != v:
			run.Violate("dutydb:value_replaced", fmt.Sprintf("Store %s replaced %s=%s by %s", dstr, k, old, v))
			e.writer[k] = dstr
		case !was:
			e.writer[k] = dstr
			if kd := keyDuty(k); e.dutyExpired(kd) {
				if kd == dstr {
					run.Violate("dutydb:expired_store_accepted", fmt.Sprintf("Store %s inserted %s although the duty is expired", dstr, k))
				} else {
					run.Violate("dutydb:expired_duty_data_stored_cross_slot", fmt.Sprintf("Store under duty %s inserted %s=%s, which belongs to the expired duty %s", dstr, k, v, kd))
				}
			}
		}
		if e.seen[k] == nil {
			e.seen[k] = map[string]bool{}
		}
		e.seen[k][v] = true
	}
	// keys absent before this call that its (visited) entries supply: if they get answered, it is this call's data
	// (covers keys inserted and deleted again by the expiry loop of the same call)
	for k := range extra {
		if _, was := pre[k]; !was {
			e.writer[k] = dstr
		}
	}
	prev := e.kv
	e.kv, e.snap = post, s
	// answers: which of our queries were resolved inside this call
	e.kv = mergeForAnswers(prev, post) // keys deleted at the end of this very call were present at resolve time
	r := e.collect(run, s, extra)
	e.kv = post
	// keys deleted by the expiry loop at the end of this call start a new generation
	gone := map[string]bool{}
	for k := range pre {
		if _, ok := post[k]; !ok {
			gone[k] = true
		}
	}
	if err == nil || res == "err:unknownDuty" || res == "err:deprecated" {
		for k := range extra {
			if _, ok := post[k]; !ok {
				gone[k] = true
			}
		}
	}
	for k := range gone {
		e.gen[k]++
		if !e.dutyExpired(keyDuty(k)) {
			e.foreign[k] = true
		}
	}
	if err == nil {
		if k := kindOfTy[ty]; k != 0 {
			e.promptMonitor(run, k, post, "successful Store "+dstr)
		}
	}

	run.Count("store:" + ty + ":" + res)
	run.Count(fmt.Sprintf("store:n%d", len(ordered)))
	if r != "r[]" {
		run.Count("store:resolved_some")
	}
	run.Case(fmt.Sprintf("store:%s:%s:n%d:pre%d:r%v", ty, res, len(ordered), len(pre), r != "r[]"))
	return line, res + " " + r + " " + snapStr(s, post)
}

func mergeForAnswers(pre, post map[string]string) map[string]string {
	m := map[string]string{}
	for k, v := range pre {
		m[k] = v
	}
	for k, v := range post {
		m[k] = v
	}
	return m
}

// proRootOf: what a proposal value is compared on (its block root).
func proRootOf(val string) string {
	var r, p uint64
	if _, err := fmt.Sscanf(val, "p(%d.%d)", &r, &p); err != nil {
		return "?"
	}
	return fmt.Sprintf("root%d", r)
}

// mkQuery builds the query object and the real Await* call for "await <kind> <key fields>".
func (e *episode) mkQuery(f []string) (*query, func() (string, error)) {
	id := len(e.queries)
	ctx, cancel := context.WithCancel(context.Background())
	q := &query{id: id, cancel: cancel, ch: make(chan qres, 1)}
	n := func(i int) uint64 { v, _ := strconv.ParseUint(f[i], 10, 32); return v }
	var call func() (string, error)
	switch f[1] {
	case "att":
		slot, comm := n(2), n(3)
		q.kind, q.key, q.hk = 'a', fmt.Sprintf("A%d.%d", slot, comm), dutydb.VerifAttKey{Slot: slot, CommIdx: comm}
		call = func() (string, error) {
			v, err := e.db.AwaitAttestation(ctx, slot, comm)
			if err != nil {
				return "", err
			}
			ans := canonAtt(v)
			hx.Scribble(v) // hostile caller: the answer is the caller's private copy
			return ans, nil
		}
	case "pro":
		slot := n(2)
		q.kind, q.key, q.hk = 'p', fmt.Sprintf("P%d", slot), slot
		call = func() (string, error) {
			v, err := e.db.AwaitProposal(ctx, slot)
			if err != nil {
				return "", err
			}
			ans := canonPro(v)
			hx.Scribble(v) // hostile caller: the answer is the caller's private copy
			return ans, nil
		}
	case "agg":
		slot, rslot, r, comm := n(2), n(3), n(4), n(5)
		root := aggRoot(rslot, r)
		q.kind, q.key, q.hk = 'g', fmt.Sprintf("G%d.%d.%d", slot, rslot*100+r, comm), dutydb.VerifAggKey{Slot: slot, Root: root, CommIdx: comm}
		call = func() (string, error) {
			v, err := e.db.AwaitAggAttestation(ctx, slot, root, eth2p0.CommitteeIndex(comm))
			if err != nil {
				return "", err
			}
			ans := canonAggVal(v)
			hx.Scribble(v) // hostile caller: the answer is the caller's private copy
			return ans, nil
		}
	case "con":
		slot, sub, root := n(2), n(3), n(4)
		q.kind, q.key, q.hk = 'c', fmt.Sprintf("C%d.%d.%d", slot, sub, root), dutydb.VerifContribKey{Slot: slot, SubcommIdx: sub, Root: rootOf(root)}
		call = func() (string, error) {
			v, err := e.db.AwaitSyncContribution(ctx, slot, sub, rootOf(root))
			if err != nil {
				return "", err
			}
			ans := canonCon(v)
			hx.Scribble(v) // hostile caller: the answer is the caller's private copy
			return ans, nil
		}
	default:
		panic("bad await kind")
	}
	return q, call
}

func (e *episode) doAwait(run *hx.Run, f []string) string {
	q, call := e.mkQuery(f)
	id := q.id
	c0 := countPending(e.db.VerifSnapshot(), q.kind, q.hk)
	go func() {
		v, err := call()
		q.ch <- qres{v, err}
	}()
	// wait until the locked part of Await* has run: either the query is listed (blocked), or
	// the key's uncancelled queries are gone and our result arrives (answered at once)
	var s dutydb.VerifSnap
	deadline := time.Now().Add(waitMax)
	for spin := 0; ; spin++ {
		s = e.db.VerifSnapshot()
		cnt := countPending(s, q.kind, q.hk)
		if cnt == c0+1 {
			break
		}
		if cnt == 0 && (c0 > 0 || len(q.ch) > 0) {
			break
		}
		if len(q.ch) > 0 { // answered (c0 == 0): result already delivered
			break
		}
		if time.Now().After(deadline) {
			panic("await did not register")
		}
		if spin < 50 {
			runtime.Gosched()
		} else {
			time.Sleep(20 * time.Microsecond)
		}
	}
	// the loop may have ended on the delivered result with a snapshot taken before the registration:
	// the locked part is over now, take the snapshot the output is computed from
	s = e.db.VerifSnapshot()
	e.queries = append(e.queries, q)
	e.snap = s
	r := e.collect(run, s, nil)
	e.promptMonitor(run, q.kind, e.kv, "Await registration on "+q.key)
	run.Count("await:" + f[1])
	if q.state == 1 {
		run.Count("await:immediate")
	} else {
		run.Count("await:blocked")
	}
	return fmt.Sprintf("q%d %s %s", id, r, pendStr(s))
}

func (e *episode) doCancel(run *hx.Run, id int) string {
	if id >= 0 && id < len(e.queries) && e.queries[id].state == 0 {
		q := e.queries[id]
		q.cancel()
		select {
		case r := <-q.ch:
			q.state = 2
			if r.err == nil {
				// cannot happen in a sequential history: nothing resolves concurrently
				run.Violate("dutydb:cancel_raced_answer", fmt.Sprintf("q%d answered %s while being cancelled", id, r.val))
			}
		case <-time.After(waitMax):
			panic("cancelled await did not return")
		}
		run.Count("cancel:blocked")
	} else {
		run.Count("cancel:noop")
	}
	e.snap = e.db.VerifSnapshot()
	return "- " + pendStr(e.snap)
}

func (e *episode) doExpire(run *hx.Run, ty string, slot uint64, notify bool) string {
	d := core.Duty{Slot: slot, Type: dutyTypes[ty]}
	e.dl.mu.Lock()
	e.dl.expired[d] = true
	e.dl.mu.Unlock()
	if notify {
		e.dl.ch <- d
		e.queued = append(e.queued, d)
	}
	run.Count("expire:" + ty)
	return "-"
}

func (e *episode) doPubkey(run *hx.Run, slot, comm, val uint64) string {
	pk, err := e.db.PubKeyByAttestation(context.Background(), slot, comm, val)
	if err != nil {
		if !strings.Contains(err.Error(), "pubkey not found") {
			return errClass(err)
		}
		run.Count("pubkey:notfound")
		return "notfound"
	}
	v := "k(" + pkID(pk) + ")"
	e.recordAnswer(run, fmt.Sprintf("K%d.%d.%d", slot, comm, val), v, nil)
	run.Count("pubkey:found")
	return "found:" + v
}

// ---------------------------------------------------------------- racing operations

// rsub is one sub-operation of a race.
type rsub struct {
	kind string // store await cancel pubkey
	f    []string
	// store
	ty       string
	slot     uint64
	entries  []entry
	set      core.UnsignedDataSet
	log      []int
	live     map[int]bool
	ordered  []entry
	nVisited int
	err      error
	dstr     string
	supplied map[string]map[string]bool // key -> values the visited entries supply
	// await
	q    *query
	call func() (string, error)
	// cancel
	cq   *query
	cres qres
	// pubkey
	pk    core.PubKey
	pkErr error
	done  chan struct{}
	res   string
}

func buildSet(entries []entry, log *[]int) (core.UnsignedDataSet, map[int]bool) {
	set := core.UnsignedDataSet{}
	byPk := map[core.PubKey]int{}
	for i, en := range entries {
		pk, ud, isAtt := en.build()
		if !isAtt {
			pk = corePk(1000 + uint64(i))
		}
		set[pk] = spy{ud, i, log}
		byPk[pk] = i
	}
	live := map[int]bool{}
	for _, i := range byPk {
		live[i] = true
	}
	return set, live
}

func orderEntries(entries []entry, log []int, live map[int]bool) ([]entry, int) {
	var ordered []entry
	visited := map[int]bool{}
	for _, i := range log {
		if !visited[i] {
			visited[i] = true
			ordered = append(ordered, entries[i])
		}
	}
	n := len(ordered)
	for i, en := range entries {
		if live[i] && !visited[i] {
			ordered = append(ordered, en)
		}
	}
	return ordered, n
}

// conflictFree replays the property's reading of "conflict" over the given successful stores in the
// given order (first value per key wins, starting from the maps before the race).
func conflictFree(pre map[string]string, order []*rsub, skip func(string) bool) (bool, string) {
	tmp := map[string]kvw{}
	cur := func(key string) (kvw, bool) {
		if w, ok := tmp[key]; ok {
			return w, true
		}
		v, ok := pre[key]
		if !ok {
			return kvw{}, false
		}
		w := kvw{key: key, val: v, ident: v}
		if key[0] == 'P' {
			w.ident = proRootOf(v)
		}
		var a, b, c uint64
		_, _ = fmt.Sscanf(v, "a(%d.%d.%d.%d.%d)", &a, &b, &c, &w.src, &w.tgt)
		return w, true
	}
	for _, sb := range order {
		for _, en := range sb.ordered {
			for _, w := range en.writes() {
				old, ok := cur(w.key)
				if !ok {
					tmp[w.key] = w
					continue
				}
				conflict := false
				switch {
				case w.ident == "":
				case w.weak:
					conflict = old.src != w.src || old.tgt != w.tgt
				default:
					conflict = old.ident != w.ident
				}
				if conflict && !skip(w.key) {
					return false, fmt.Sprintf("Store %s: %s=%s conflicts with %s", sb.dstr, w.key, w.val, old.val)
				}
			}
		}
	}
	return true, ""
}

func permsOf(xs []*rsub) [][]*rsub {
	if len(xs) <= 1 {
		return [][]*rsub{append([]*rsub(nil), xs...)}
	}
	var out [][]*rsub
	for i := range xs {
		rest := append(append([]*rsub(nil), xs[:i]...), xs[i+1:]...)
		for _, p := range permsOf(rest) {
			out = append(out, append([]*rsub{xs[i]}, p...))
		}
	}
	return out
}

// collectRace: like collect, but a key's queries may be answered in part (old ones answered by a racing
// Store whose expiry loop then deleted the key, a new one registered afterwards).
func (e *episode) collectRace(run *hx.Run, s dutydb.VerifSnap, record func(key, val string)) []string {
	groups := map[string][]*query{}
	var keys []string
	for _, q := range e.queries {
		if q.state == 0 {
			k := string(q.kind) + q.key
			if groups[k] == nil {
				keys = append(keys, k)
			}
			groups[k] = append(groups[k], q)
		}
	}
	var out []string
	for _, k := range keys {
		qs := groups[k]
		cnt := countPending(s, qs[0].kind, qs[0].hk)
		need := len(qs) - cnt // so many must have been answered
		if need < 0 {
			run.Violate("dutydb:pending_mismatch", fmt.Sprintf("key %s: store lists %d uncancelled queries, harness has %d blocked", qs[0].key, cnt, len(qs)))
			continue
		}
		deadline := time.Now().Add(waitMax)
		for {
			got := 0
			for _, q := range qs {
				got += len(q.ch)
			}
			if got >= need {
				if got > need {
					run.Violate("dutydb:answered_but_pending", fmt.Sprintf("key %s: %d queries returned but the store still lists %d of %d", qs[0].key, got, cnt, len(qs)))
				}
				break
			}
			if time.Now().After(deadline) {
				run.Violate("dutydb:query_lost", fmt.Sprintf("key %s: %d queries left the pending slice, only %d returned", qs[0].key, need, got))
				break
			}
			time.Sleep(20 * time.Microsecond)
		}
		for _, q := range qs {
			select {
			case r := <-q.ch:
				if r.err != nil {
					q.state = 3
					run.Violate("dutydb:query_error", fmt.Sprintf("query q%d on %s returned error %v", q.id, q.key, r.err))
					continue
				}
				q.state = 1
				record(q.key, r.val)
				out = append(out, fmt.Sprintf("%09d q%d=%s", q.id, q.id, r.val))
			default:
			}
		}
	}
	return out
}

// doRace runs the sub-operations concurrently on the real MemDB and returns the op line (with the
// observed outcome) and the output.
func (e *episode) doRace(run *hx.Run, f []string) (string, string) {
	// split "race a ; b ; c [=> ...]"
	var subs []*rsub
	cur := []string{}
	flush := func() {
		if len(cur) > 0 {
			subs = append(subs, &rsub{kind: cur[0], f: cur, done: make(chan struct{})})
		}
		cur = []string{}
	}
	for _, t := range f[1:] {
		if t == "=>" {
			break
		}
		if t == ";" {
			flush()
			continue
		}
		cur = append(cur, t)
	}
	flush()
	if len(subs) < 1 || len(subs) > 3 {
		panic("bad race op")
	}
	hook := f[0] == "addrace"
	if hook && (len(subs) != 2 || subs[0].kind != "store" || subs[1].kind != "store") {
		panic("bad addrace op")
	}
	num := func(sb *rsub, i int) uint64 {
		if i >= len(sb.f) {
			panic("short race sub-op")
		}
		v, err := strconv.ParseUint(sb.f[i], 10, 32)
		if err != nil {
			panic("bad number in race sub-op")
		}
		return v
	}
	// prepare everything in this goroutine (object construction touches shared id tables)
	var awaitSub *rsub
	cancelling := map[int]bool{}
	for _, sb := range subs {
		switch sb.kind {
		case "store":
			if len(sb.f) < 4 || dutyTypes[sb.f[1]] == 0 || sb.f[3] != "a" {
				panic("bad race store")
			}
			sb.ty, sb.slot = sb.f[1], num(sb, 2)
			for _, t := range sb.f[4:] {
				en, ok := parseEntry(t)
				if !ok {
					panic("bad entry in race store")
				}
				sb.entries = append(sb.entries, en)
			}
			sb.set, sb.live = buildSet(sb.entries, &sb.log)
			sb.dstr = fmt.Sprintf("%s/%d", sb.ty, sb.slot)
		case "await":
			want := map[string]int{"att": 4, "pro": 3, "agg": 6, "con": 5}[sb.f[1]]
			if awaitSub != nil || want == 0 || len(sb.f) != want {
				panic("bad race await")
			}
			for i := 2; i < len(sb.f); i++ {
				num(sb, i)
			}
			sb.q, sb.call = e.mkQuery(sb.f)
			awaitSub = sb
		case "cancel":
			id := int(num(sb, 1))
			if id >= 0 && id < len(e.queries) && e.queries[id].state == 0 && !cancelling[id] {
				sb.cq = e.queries[id]
				cancelling[id] = true
			}
		case "pubkey":
			num(sb, 1)
			num(sb, 2)
			num(sb, 3)
		default:
			panic("bad race sub-op " + sb.kind)
		}
	}
	pre := e.kv
	e.dl.mu.Lock()
	adds0 := e.dl.adds
	e.dl.mu.Unlock()
	// Expiries queued before the race: the racing Store that gets to its expiry loop first deletes their keys,
	// possibly between two other racing writes. The monitors cannot see that instant, so for the keys such a
	// deletion can hit ("deletable") a changed value is read as deleted-and-stored-again.
	queued := append([]core.Duty(nil), e.queued...)
	preIdx := map[string]bool{} // "a7:K7.1.2": attester keys indexed under a slot before the race
	for slot, ks := range e.snap.AttKeysBySlot {
		for _, k := range ks {
			preIdx[fmt.Sprintf("a%d:K%d.%d.%d", slot, k.Slot, k.CommIdx, k.ValIdx)] = true
			preIdx[fmt.Sprintf("a%d:A%d.%d", slot, k.Slot, k.CommIdx)] = true
		}
	}

	start := make(chan struct{})
	var hookD core.Duty
	hookFired, hookPreExpired := false, false
	if hook {
		// the second Store is released from inside deadliner.Add(D) of the first one
		hookD = core.Duty{Slot: subs[0].slot, Type: dutyTypes[subs[0].ty]}
		hookPreExpired = e.dl.expired[hookD]
		hookStart := make(chan struct{})
		var once sync.Once
		e.dl.mu.Lock()
		e.dl.hookArmed, e.dl.hookDuty = true, hookD
		e.dl.hookFn = func() {
			e.dl.mu.Lock()
			e.dl.expired[hookD] = true
			e.dl.mu.Unlock()
			e.dl.ch <- hookD
			hookFired = true
			once.Do(func() { close(hookStart) })
			select {
			case <-subs[1].done:
			case <-time.After(20 * time.Millisecond):
			}
		}
		e.dl.mu.Unlock()
		go func() {
			subs[0].err = e.db.Store(context.Background(), hookD, subs[0].set)
			close(subs[0].done)
		}()
		go func() {
			<-hookStart
			subs[1].err = e.db.Store(context.Background(), core.Duty{Slot: subs[1].slot, Type: dutyTypes[subs[1].ty]}, subs[1].set)
			close(subs[1].done)
		}()
		select {
		case <-subs[0].done:
		case <-time.After(waitMax):
			panic("addrace: first Store did not return")
		}
		once.Do(func() { close(hookStart) }) // Add(D) was never called
		e.dl.mu.Lock()
		e.dl.hookArmed = false
		e.dl.mu.Unlock()
	}
	for _, sb := range subs {
		if hook {
			break
		}
		sb := sb
		switch sb.kind {
		case "store":
			go func() {
				<-start
				sb.err = e.db.Store(context.Background(), core.Duty{Slot: sb.slot, Type: dutyTypes[sb.ty]}, sb.set)
				close(sb.done)
			}()
		case "await":
			go func() {
				<-start
				v, err := sb.call()
				sb.q.ch <- qres{v, err}
			}()
			close(sb.done) // not joinable: it may block for good
		case "cancel":
			go func() {
				<-start
				if sb.cq != nil {
					sb.cq.cancel()
					sb.cres = <-sb.cq.ch
				}
				close(sb.done)
			}()
		case "pubkey":
			go func() {
				<-start
				sb.pk, sb.pkErr = e.db.PubKeyByAttestation(context.Background(), num(sb, 1), num(sb, 2), num(sb, 3))
				close(sb.done)
			}()
		}
	}
	close(start)
	for _, sb := range subs {
		select {
		case <-sb.done:
		case <-time.After(waitMax):
			panic("race sub-operation did not return: " + strings.Join(sb.f, " "))
		}
	}
	if hookFired {
		queued = append(queued, hookD)
		e.queued = append(e.queued, hookD)
	}
	// queries whose cancellation raced: they have returned, with a value or with the context error
	var answered []string
	type lateAns struct {
		q   *query
		val string
	}
	var late []lateAns
	for _, sb := range subs {
		if sb.kind == "cancel" && sb.cq != nil {
			if sb.cres.err == nil {
				sb.cq.state = 1
				late = append(late, lateAns{sb.cq, sb.cres.val})
			} else {
				sb.cq.state = 2
			}
		}
	}
	// the racing registration: wait until its locked part has run (see doAwait); other blocked queries on
	// the same key that were answered meanwhile deliver their results, which is what oldStill tracks
	if awaitSub != nil {
		q := awaitSub.q
		deadline := time.Now().Add(waitMax)
		for spin := 0; ; spin++ {
			s := e.db.VerifSnapshot()
			cnt := countPending(s, q.kind, q.hk)
			oldStill := 0
			for _, o := range e.queries {
				if o.state == 0 && o.kind == q.kind && o.key == q.key && len(o.ch) == 0 {
					oldStill++
				}
			}
			if len(q.ch) > 0 || cnt == oldStill+1 {
				break
			}
			if time.Now().After(deadline) {
				panic("racing await did not register")
			}
			if spin < 50 {
				runtime.Gosched()
			} else {
				time.Sleep(20 * time.Microsecond)
			}
		}
		e.queries = append(e.queries, q)
	}
	s := e.db.VerifSnapshot()
	post := snapKV(s)

	// per-store bookkeeping
	var stores, okStores []*rsub
	extra := map[string]map[string]bool{}
	reachedDrain := false
	for _, sb := range subs {
		if sb.kind != "store" {
			continue
		}
		stores = append(stores, sb)
		sb.ordered, sb.nVisited = orderEntries(sb.entries, sb.log, sb.live)
		sb.res = errClass(sb.err)
		sb.supplied = map[string]map[string]bool{}
		for _, en := range sb.ordered[:sb.nVisited] {
			for _, w := range en.writes() {
				if sb.supplied[w.key] == nil {
					sb.supplied[w.key] = map[string]bool{}
				}
				sb.supplied[w.key][w.val] = true
				if extra[w.key] == nil {
					extra[w.key] = map[string]bool{}
				}
				extra[w.key][w.val] = true
			}
		}
		if sb.err == nil && kindOfTy[sb.ty] != 0 {
			okStores = append(okStores, sb)
		}
		if sb.err == nil || sb.res == "err:unknownDuty" || (sb.res == "err:deprecated" && sb.ty != "bld") {
			reachedDrain = true
		}
	}
	e.queued = e.queued[len(e.queued)-len(e.dl.ch):]
	deletable := func(k string) bool {
		if !reachedDrain {
			return false
		}
		kd := keyDuty(k)
		for _, d := range queued {
			ds := ""
			for name, t := range dutyTypes {
				if t == d.Type {
					ds = fmt.Sprintf("%s/%d", name, d.Slot)
				}
			}
			if ds == kd {
				return true
			}
			if d.Type == core.DutyAttester && (k[0] == 'A' || k[0] == 'K') {
				if preIdx[fmt.Sprintf("a%d:%s", d.Slot, k)] {
					return true
				}
				for _, sb := range stores {
					for _, en := range sb.ordered[:sb.nVisited] {
						if en.kind == 'A' && en.f[6] == d.Slot {
							for _, w := range en.writes() {
								if w.key == k {
									return true
								}
							}
						}
					}
				}
			}
		}
		return false
	}
	bumped := map[string]bool{}
	bump := func(k string) {
		e.gen[k]++
		bumped[k] = true
		if !e.dutyExpired(keyDuty(k)) {
			e.foreign[k] = true
		}
	}
	// an answer on a deletable key that differs from what the key answered before: the deletion came in between
	raceAnswers := map[string]map[string]bool{}
	raceAnswer := func(key, val string) {
		if raceAnswers[key] == nil {
			raceAnswers[key] = map[string]bool{}
		}
		raceAnswers[key][val] = true
		if deletable(key) {
			for _, p := range e.answers[key] {
				if p.gen == e.gen[key] && p.val != val {
					bump(key)
					break
				}
			}
		}
		e.recordAnswer(run, key, val, extra)
	}
	// which racing store a (key, value) is attributed to
	supplier := func(k, v string) string {
		var cands []string
		for _, sb := range stores {
			if sb.supplied[k][v] {
				cands = append(cands, sb.dstr)
			}
		}
		if len(cands) == 0 {
			return ""
		}
		kd := keyDuty(k)
		if e.dutyExpired(kd) {
			for _, c := range cands {
				if c != kd {
					return c
				}
			}
		}
		return cands[0]
	}

	// --- monitors, evaluated after all goroutines returned
	e.dl.mu.Lock()
	nadds := e.dl.adds - adds0
	e.dl.mu.Unlock()
	if nadds != len(stores) {
		run.Violate("dutydb:deadliner_add_calls", fmt.Sprintf("%d racing Stores called deadliner.Add %d times", len(stores), nadds))
	}
	for _, sb := range stores {
		if hook && sb == subs[0] && !hookPreExpired {
			continue // its Add was answered before the deadline fired
		}
		if e.dl.expired[core.Duty{Slot: sb.slot, Type: dutyTypes[sb.ty]}] && sb.res != "err:expired" {
			run.Violate("dutydb:expired_store_accepted", fmt.Sprintf("racing Store for expired duty %s returned %s", sb.dstr, sb.res))
		}
	}
	if len(okStores) > 0 {
		free, why := false, ""
		for _, p := range permsOf(okStores) {
			ok, d := conflictFree(pre, p, deletable)
			if ok {
				free = true
				break
			}
			why = d
		}
		if !free {
			run.Violate("dutydb:conflict_accepted", "racing Stores all returned ok although in every order one of them stores conflicting data: "+why)
		}
	}
	for k, v := range post {
		old, was := pre[k]
		if was && old != v && deletable(k) { // deleted by a queued expiry and stored again inside the race
			was = false
		}
		switch {
		case was && old != v && k[0] == 'G':
			run.Violate("dutydb:agg_replaced_same_root", fmt.Sprintf("racing Store replaced %s=%s by %s (same data root, other aggregation bits/signature)", k, old, v))
		case was && old != v:
			run.Violate("dutydb:value_replaced", fmt.Sprintf("racing Store replaced %s=%s by %s", k, old, v))
		case !was:
			d := supplier(k, v)
			if d == "" {
				run.Violate("dutydb:answer_not_stored", fmt.Sprintf("key %s=%s appeared during a race although no racing Store supplies it", k, v))
			} else {
				e.writer[k] = d
			}
			if kd := keyDuty(k); e.dutyExpired(kd) {
				if hook && hookFired && !hookPreExpired && kd == subs[0].dstr && kd == d {
					// judged below (expired_duty_data_served_after_race)
				} else if kd == d {
					run.Violate("dutydb:expired_store_accepted", fmt.Sprintf("racing Store %s inserted %s although the duty is expired", d, k))
				} else {
					run.Violate("dutydb:expired_duty_data_stored_cross_slot", fmt.Sprintf("racing Store under duty %s inserted %s=%s, which belongs to the expired duty %s", d, k, v, kd))
				}
			}
		}
		if e.seen[k] == nil {
			e.seen[k] = map[string]bool{}
		}
		e.seen[k][v] = true
	}
	if hook && hookFired {
		// D was reported expired while Store(D) was running; once both calls have returned and D has been consumed
		// from C(), nothing that Store(D) supplied for D's own keys may be left (whatever the lock placement)
		consumed := true
		for _, d := range e.queued {
			if d == hookD {
				consumed = false
			}
		}
		if consumed {
			for _, en := range subs[0].ordered[:subs[0].nVisited] {
				okSlot := true
				switch en.kind {
				case 'A':
					okSlot = en.f[1] == hookD.Slot && en.f[6] == hookD.Slot
				case 'P', 'G':
					okSlot = en.f[0] == hookD.Slot
				}
				for _, w := range en.writes() {
					if v, is := post[w.key]; is && v == w.val && okSlot && keyDuty(w.key) == subs[0].dstr && !subs[1].supplied[w.key][v] {
						run.Violate("dutydb:expired_duty_data_served_after_race", fmt.Sprintf("duty %s expired during Store(%s) and was consumed from C(), but %s=%s is still stored and served", subs[0].dstr, subs[0].dstr, w.key, v))
					}
				}
			}
		}
	}
	for k, vs := range extra {
		if _, was := pre[k]; !was {
			if _, is := post[k]; !is { // possibly inserted and deleted again inside the race
				for v := range vs {
					if d := supplier(k, v); d != "" {
						e.writer[k] = d
					}
				}
			}
		}
	}
	// answers
	e.kv, e.snap = mergeForAnswers(pre, post), s
	for _, la := range late {
		raceAnswer(la.q.key, la.val)
		answered = append(answered, fmt.Sprintf("%09d q%d=%s", la.q.id, la.q.id, la.val))
	}
	answered = append(answered, e.collectRace(run, s, raceAnswer)...)
	for _, sb := range subs {
		if sb.kind == "pubkey" && sb.pkErr == nil {
			raceAnswer(fmt.Sprintf("K%d.%d.%d", num(sb, 1), num(sb, 2), num(sb, 3)), "k("+pkID(sb.pk)+")")
		}
	}
	sort.Strings(answered)
	for i := range answered {
		answered[i] = answered[i][10:]
	}
	r := "r[" + strings.Join(answered, ",") + "]"
	e.kv = post
	// generations
	gone := map[string]bool{}
	for k := range pre {
		if _, ok := post[k]; !ok {
			gone[k] = true
		}
	}
	if reachedDrain {
		for k := range extra {
			if _, ok := post[k]; !ok {
				gone[k] = true
			}
		}
	}
	for k, v := range post {
		if old, was := pre[k]; was && old != v && deletable(k) && !bumped[k] {
			gone[k] = true
		}
	}
	// answered inside the race with a value that is not the final one: deleted and stored again after the answer
	for k, vals := range raceAnswers {
		if v, ok := post[k]; ok && deletable(k) && !bumped[k] {
			for val := range vals {
				if val != v {
					gone[k] = true
				}
			}
		}
	}
	for k := range gone {
		bump(k)
	}
	// prompt: a resolve of kind K ran (successful Store of that kind, or the registration) — no blocked query of
	// kind K may have its key present, unless a racing Store that FAILED supplies that key (it writes without resolving)
	resolvedKinds := map[byte]string{}
	for _, sb := range okStores {
		resolvedKinds[kindOfTy[sb.ty]] = "racing successful Store " + sb.dstr
	}
	if awaitSub != nil {
		if _, ok := resolvedKinds[awaitSub.q.kind]; !ok {
			resolvedKinds[awaitSub.q.kind] = "racing Await registration on " + awaitSub.q.key
		}
	}
	for _, q := range e.queries {
		after, ok := resolvedKinds[q.kind]
		if q.state != 0 || !ok {
			continue
		}
		v, present := post[q.key]
		if !present {
			continue
		}
		excused := false
		for _, sb := range stores {
			if sb.err != nil && sb.supplied[q.key] != nil {
				excused = true
			}
		}
		if !excused {
			run.Violate("dutydb:query_not_prompt", fmt.Sprintf("query q%d still blocked after %s returned although key %s is present (%s)", q.id, after, q.key, v))
		}
	}

	// line and output
	var lines, results []string
	shape := ""
	for _, sb := range subs {
		switch sb.kind {
		case "store":
			toks := make([]string, len(sb.ordered))
			for i, en := range sb.ordered {
				toks[i] = en.token()
			}
			lines = append(lines, strings.TrimSpace(fmt.Sprintf("store %s %d a %s", sb.ty, sb.slot, strings.Join(toks, " "))))
			results = append(results, sb.res)
			run.Count("race:store:" + sb.res)
		case "await":
			lines = append(lines, strings.Join(sb.f, " "))
			results = append(results, fmt.Sprintf("q%d", sb.q.id))
			if sb.q.state == 1 {
				run.Count("race:await:answered")
			} else {
				run.Count("race:await:blocked")
			}
		case "cancel":
			lines = append(lines, strings.Join(sb.f, " "))
			results = append(results, "-")
			switch {
			case sb.cq == nil:
				run.Count("race:cancel:noop")
			case sb.cres.err == nil:
				run.Count("race:cancel:lost_to_answer")
			default:
				run.Count("race:cancel:cancelled")
			}
		case "pubkey":
			lines = append(lines, strings.Join(sb.f, " "))
			if sb.pkErr != nil {
				if strings.Contains(sb.pkErr.Error(), "pubkey not found") {
					results = append(results, "notfound")
				} else {
					results = append(results, errClass(sb.pkErr))
				}
			} else {
				results = append(results, "found:k("+pkID(sb.pk)+")")
			}
			run.Count("race:pubkey")
		}
		shape += sb.kind[:1]
	}
	observed := strings.Join(results, " ") + " " + r + " " + snapStr(s, post)
	run.Count("race:" + shape)
	if r != "r[]" {
		run.Count("race:resolved_some")
	}
	run.Case("race:" + shape + ":" + strings.Join(results, ","))
	if hook {
		run.Count("addrace:" + subs[0].ty + ":" + strings.Join(results, ","))
		return "addrace " + strings.Join(lines, " ; ") + " => " + observed, "lin " + observed
	}
	return "race " + strings.Join(lines, " ; ") + " => " + observed, "lin " + observed
}

// ---------------------------------------------------------------- main / generator

func main() {
	a := hx.ParseArgs()
	run := hx.NewRun(a.Dir)
	defer run.Close()
	proTemplate = core.VersionedProposal{VersionedProposal: *testutil.RandomDenebVersionedProposal()}
	var ep *episode
	exec := func(op string) {
		f := strings.Fields(op)
		if len(f) == 0 {
			return
		}
		if f[0] != "new" && f[0] != "cfg" && ep == nil {
			ep = newEpisode()
		}
		n := func(i int) uint64 {
			if i >= len(f) {
				panic("short op " + op)
			}
			v, err := strconv.ParseUint(f[i], 10, 32)
			if err != nil {
				panic("bad number in op " + op)
			}
			return v
		}
		switch f[0] {
		case "cfg": // model configuration (which proposed fixes the tree under test has); also resets
			if ep != nil {
				ep.close()
			}
			ep = newEpisode()
			run.Op(op, "ok")
		case "new":
			if ep != nil {
				ep.close()
			}
			ep = newEpisode()
			run.Op(op, "ok")
		case "store":
			if len(f) < 4 || dutyTypes[f[1]] == 0 || (f[3] != "a" && f[3] != "x") {
				panic("bad op " + op)
			}
			var entries []entry
			for _, t := range f[4:] {
				en, ok := parseEntry(t)
				if !ok {
					panic("bad entry in op " + op)
				}
				entries = append(entries, en)
			}
			line, out := ep.doStore(run, f[1], n(2), f[3], entries)
			run.Op(line, out)
		case "await":
			want := map[string]int{"att": 4, "pro": 3, "agg": 6, "con": 5}[f[1]]
			if want == 0 || len(f) != want {
				panic("bad op " + op)
			}
			for i := 2; i < len(f); i++ {
				n(i)
			}
			run.Op(op, ep.doAwait(run, f))
		case "cancel":
			run.Op(op, ep.doCancel(run, int(n(1))))
		case "expire":
			if dutyTypes[f[1]] == 0 {
				panic("bad op " + op)
			}
			run.Op(op, ep.doExpire(run, f[1], n(2), n(3) == 1))
		case "pubkey":
			run.Op(op, ep.doPubkey(run, n(1), n(2), n(3)))
		case "race", "addrace":
			line, out := ep.doRace(run, f)
			run.Op(line, out)
		default:
			panic("bad op " + op)
		}
	}
	if a.Mode == "exec" {
		for _, op := range hx.ReadOps(a.Ops) {
			exec(op)
		}
		if ep != nil {
			ep.close()
		}
		return
	}

	// VERIF_C06_CFG="<keepFirstAgg><checkSlot>" (e.g. "10"): the tree under test carries the proposed
	// fix(es); tell the model. Default: the model's own default (Driver/DutyDB.lean `defaultCfg`).
	if c := os.Getenv("VERIF_C06_CFG"); len(c) == 2 {
		exec(fmt.Sprintf("cfg %c %c", c[0], c[1]))
	}
	// systematic part: for every duty type, the deadline of D fires while Store(D) is inside deadliner.Add(D)
	// (see addrace): nothing of D may be left or served afterwards
	exec("new")
	sysEntry := func(ty string, slot, id uint64) string {
		switch ty {
		case "att":
			return fmt.Sprintf("A:%d:%d:0:1:1:1:%d:%d:%d", id, slot, slot, id, id)
		case "pro":
			return fmt.Sprintf("P:%d:%d:0", slot, id)
		case "agg":
			return fmt.Sprintf("G:%d:1:%d:1", slot, id)
		default:
			return fmt.Sprintf("C:%d.%d.1.1", slot, id)
		}
	}
	for i, ty := range []string{"att", "pro", "agg", "con"} {
		if i > 0 {
			exec("new")
		}
		other := []string{"pro", "con", "att", "agg"}[i]
		for v, ety := range []string{ty, other} {
			dslot := uint64(7 + 2*v) // 7, then 9
			en, _ := parseEntry(sysEntry(ty, dslot, 1))
			ws := en.writes()
			q := keyOp(ws[len(ws)-1].key)
			exec("await " + strings.Join(q, " "))
			exec(fmt.Sprintf("addrace store %s %d a %s ; store %s 8 a %s", ty, dslot, sysEntry(ty, dslot, 1), ety, sysEntry(ety, 8, uint64(2+v))))
			exec("await " + strings.Join(q, " "))
			if ty == "att" {
				exec(fmt.Sprintf("pubkey %d 1 1", dslot))
			}
		}
	}
	rng := hx.NewRng(a.Seed)
	slots := []uint64{7, 8, 9}
	pick := func(xs []uint64) uint64 { return xs[rng.Intn(len(xs))] }
	for run.NOps < a.N && !run.Enough() {
		exec("new")
		var pool []entry // entries used so far in this episode
		var keys [][]string
		nslots := 2 + rng.Intn(2)
		sl := slots[:nslots]
		expiredOf := map[string][]uint64{}
		genEntry := func(kind byte, dslot uint64, tyOfStore string) entry {
			// datum slot: the duty's slot, or (cross-slot) another one, preferably one whose duty has expired
			slot := dslot
			if rng.Chance(3, 20) {
				if ex := expiredOf[tyOfStore]; len(ex) > 0 && rng.Chance(2, 3) {
					slot = pick(ex)
				} else {
					slot = pick(sl)
				}
			}
			small := func(n int) uint64 { return uint64(1 + rng.Intn(n)) }
			switch kind {
			case 'A':
				comm := uint64(rng.Intn(3))
				dutySlot := slot
				if rng.Chance(1, 12) {
					dutySlot = pick(sl)
				}
				idx := comm
				if rng.Chance(1, 2) {
					idx = 0 // electra: data index always 0
				}
				return entry{kind: 'A', f: []uint64{small(4), slot, idx, small(2), small(2), small(2), dutySlot, comm, small(3)}}
			case 'P':
				pay := uint64(0)
				if rng.Chance(1, 2) {
					pay = small(2)
				}
				return entry{kind: 'P', f: []uint64{slot, small(3), pay}}
			case 'G':
				return entry{kind: 'G', f: []uint64{slot, small(2), uint64(rng.Intn(3)), small(3)}}
			default:
				n := 1
				if kind == 'C' {
					n = []int{0, 1, 1, 1, 2, 2, 3}[rng.Intn(7)]
				}
				e := entry{kind: kind}
				for i := 0; i < n; i++ {
					cs := slot
					if i > 0 && rng.Chance(1, 10) {
						cs = pick(sl)
					}
					e.cons = append(e.cons, conE{cs, uint64(rng.Intn(2)), small(2), small(3)})
				}
				return e
			}
		}
		mutate := func(en entry) entry {
			c := entry{kind: en.kind, f: append([]uint64(nil), en.f...), cons: append([]conE(nil), en.cons...)}
			switch en.kind {
			case 'A':
				i := []int{0, 3, 4, 5, 7, 8, 3, 3}[rng.Intn(8)] // pk, head, src, tgt, comm, val
				if i == 7 {
					c.f[7] = uint64(rng.Intn(3))
				} else {
					c.f[i] = c.f[i]%4 + 1
					if i >= 3 && i <= 5 {
						c.f[i] = en.f[i]%2 + 1
					}
				}
			case 'P':
				i := 1 + rng.Intn(2)
				c.f[i] = (c.f[i] + 1) % 3
				if i == 1 && c.f[i] == 0 {
					c.f[i] = 3
				}
			case 'G':
				c.f[3] = c.f[3]%3 + 1
			default:
				if len(c.cons) > 0 {
					j := rng.Intn(len(c.cons))
					c.cons[j].pay = c.cons[j].pay%3 + 1
				}
			}
			return c
		}
		entryKind := map[string]byte{"att": 'A', "pro": 'P', "agg": 'G', "con": 'C'}
		nops := 25 + rng.Intn(50)
		for k := 0; k < nops && run.NOps < a.N; k++ {
			switch c := rng.Intn(100); {
			case c < 36: // store
				ty := []string{"att", "att", "att", "att", "pro", "pro", "agg", "agg", "agg", "con", "con", "con"}[rng.Intn(12)]
				if rng.Chance(1, 25) {
					ty = []string{"bld", "oth"}[rng.Intn(2)]
				}
				dslot := pick(sl)
				st := "a"
				if rng.Chance(1, 30) {
					st = "x"
				}
				n := []int{1, 1, 1, 1, 1, 1, 2, 2, 2, 3, 0}[rng.Intn(11)]
				if ty == "pro" && n > 1 && rng.Chance(3, 4) {
					n = 1
				}
				var es []entry
				usedPk := map[uint64]bool{}
				for i := 0; i < n; i++ {
					ek := entryKind[ty]
					if ek == 0 || rng.Chance(1, 20) {
						ek = []byte{'A', 'P', 'G', 'C', 'S'}[rng.Intn(5)]
					} else if ek == 'C' && rng.Chance(1, 4) {
						ek = 'S'
					}
					var en entry
					var same []entry
					for _, p := range pool {
						if p.kind == ek {
							same = append(same, p)
						}
					}
					switch r := rng.Intn(10); {
					case r < 3 && len(same) > 0: // equal data again
						en = same[rng.Intn(len(same))]
					case r < 6 && len(same) > 0: // conflicting / partially conflicting variant of earlier data
						en = mutate(same[rng.Intn(len(same))])
					default:
						en = genEntry(ek, dslot, ty)
					}
					if en.kind == 'A' {
						for usedPk[en.f[0]] {
							en = entry{kind: 'A', f: append([]uint64(nil), en.f...)}
							en.f[0] = en.f[0]%6 + 1
						}
						usedPk[en.f[0]] = true
					}
					es = append(es, en)
					pool = append(pool, en)
					for _, w := range en.writes() {
						keys = append(keys, keyOp(w.key))
					}
				}
				toks := make([]string, len(es))
				for i, en := range es {
					toks[i] = en.token()
					// queries that this store is going to answer (or not, if it fails / clashes)
					if ws := en.writes(); len(ws) > 0 && rng.Chance(2, 5) {
						for j := 0; j < 1+rng.Intn(2); j++ {
							if f := keyOp(ws[rng.Intn(len(ws))].key); f[0] != "pubkey" && run.NOps < a.N {
								exec("await " + strings.Join(f, " "))
							}
						}
					}
				}
				exec(strings.TrimSpace(fmt.Sprintf("store %s %d %s %s", ty, dslot, st, strings.Join(toks, " "))))
			case c < 58: // await
				var f []string
				for tries := 0; tries < 8 && len(keys) > 0 && f == nil && rng.Chance(4, 5); tries++ {
					f = keys[rng.Intn(len(keys))]
					if f[0] == "pubkey" {
						f = nil
					}
				}
				if f == nil {
					switch rng.Intn(4) {
					case 0:
						f = []string{"att", fmt.Sprint(pick(sl)), fmt.Sprint(rng.Intn(3))}
					case 1:
						f = []string{"pro", fmt.Sprint(pick(sl))}
					case 2:
						s := pick(sl)
						rs := s
						if rng.Chance(1, 8) {
							rs = pick(sl)
						}
						f = []string{"agg", fmt.Sprint(s), fmt.Sprint(rs), fmt.Sprint(1 + rng.Intn(2)), fmt.Sprint(rng.Intn(3))}
					default:
						f = []string{"con", fmt.Sprint(pick(sl)), fmt.Sprint(rng.Intn(2)), fmt.Sprint(1 + rng.Intn(2))}
					}
				}
				exec("await " + strings.Join(f, " "))
			case c < 64: // cancel
				var blocked []int
				for _, q := range ep.queries {
					if q.state == 0 {
						blocked = append(blocked, q.id)
					}
				}
				if len(blocked) > 0 && rng.Chance(5, 6) {
					exec(fmt.Sprintf("cancel %d", blocked[rng.Intn(len(blocked))]))
				} else {
					exec(fmt.Sprintf("cancel %d", rng.Intn(len(ep.queries)+2)))
				}
			case c < 70: // expire
				ty := []string{"att", "pro", "agg", "con"}[rng.Intn(4)]
				if rng.Chance(1, 25) {
					ty = []string{"bld", "oth"}[rng.Intn(2)]
				}
				s := pick(sl)
				notify := 1
				if rng.Chance(1, 7) {
					notify = 0
				}
				expiredOf[ty] = append(expiredOf[ty], s)
				exec(fmt.Sprintf("expire %s %d %d", ty, s, notify))
			case c < 86: // race: 2-3 calls released together on overlapping keys
				ty := []string{"att", "att", "att", "pro", "agg", "con", "con"}[rng.Intn(7)]
				live := func() uint64 { // a slot whose duty of this type has not expired, if there is one
					for tries := 0; tries < 6; tries++ {
						s := pick(sl)
						if !ep.dl.expired[core.Duty{Slot: s, Type: dutyTypes[ty]}] {
							return s
						}
					}
					return pick(sl)
				}
				dslot := live()
				if rng.Chance(1, 3) { // a Store that carries an expiry: queue one first
					xs := pick(sl)
					xty := ty
					if rng.Chance(1, 3) {
						xty = []string{"att", "pro", "agg", "con"}[rng.Intn(4)]
					}
					if xs != dslot || xty != ty || rng.Chance(1, 4) {
						expiredOf[xty] = append(expiredOf[xty], xs)
						exec(fmt.Sprintf("expire %s %d 1", xty, xs))
					}
				}
				// template: an expiry of slot xs is queued and BOTH racing Stores (under live duties) carry data of slot xs on
				// different keys: whichever runs its expiry loop first deletes what has been written so far — the orders differ
				// in the final maps, and an execution in which one Store's expiry loop ran between another Store's writes and
				// its resolve matches neither
				if rng.Chance(1, 6) && ty != "pro" {
					xs := pick(sl)
					if xs != dslot {
						expiredOf[ty] = append(expiredOf[ty], xs)
						exec(fmt.Sprintf("expire %s %d 1", ty, xs))
						mk := func(i uint64) entry {
							switch ty {
							case "att":
								return entry{kind: 'A', f: []uint64{1 + i, xs, 0, 1, 1, 1, xs, 1 + i, 1 + i}}
							case "agg":
								return entry{kind: 'G', f: []uint64{xs, 1 + i, i, 1}}
							default:
								return entry{kind: 'C', cons: []conE{{xs, i, 1, 1}}}
							}
						}
						e1, e2 := mk(0), mk(1)
						s2 := live()
						for _, x := range []entry{e1, e2} {
							for _, w := range x.writes() {
								keys = append(keys, keyOp(w.key))
							}
						}
						if fk := keyOp(e1.writes()[len(e1.writes())-1].key); fk[0] != "pubkey" && rng.Chance(1, 2) && run.NOps < a.N {
							exec("await " + strings.Join(fk, " "))
						}
						subs := []string{fmt.Sprintf("store %s %d a %s", ty, dslot, e1.token()), fmt.Sprintf("store %s %d a %s", ty, s2, e2.token())}
						if rng.Chance(1, 3) {
							if fk := keyOp(e2.writes()[len(e2.writes())-1].key); fk[0] != "pubkey" {
								subs = append(subs, "await "+strings.Join(fk, " "))
							}
						}
						exec("race " + strings.Join(subs, " ; "))
						continue
					}
				}
				if rng.Chance(1, 40) { // the deadline of the first Store's duty fires inside its deadliner.Add
					s2 := live()
					if s2 != dslot {
						e1, e2 := genEntry(entryKind[ty], dslot, ty), genEntry(entryKind[ty], s2, ty)
						for _, w := range e1.writes() {
							keys = append(keys, keyOp(w.key))
						}
						expiredOf[ty] = append(expiredOf[ty], dslot)
						exec(fmt.Sprintf("addrace store %s %d a %s ; store %s %d a %s", ty, dslot, e1.token(), ty, s2, e2.token()))
						continue
					}
				}
				base := genEntry(entryKind[ty], dslot, ty)
				var same []entry
				for _, p := range pool {
					if p.kind == base.kind {
						same = append(same, p)
					}
				}
				if len(same) > 0 && rng.Chance(1, 3) {
					base = same[rng.Intn(len(same))]
					if rng.Chance(1, 2) {
						base = mutate(base)
					}
				}
				variant := func() entry {
					switch rng.Intn(10) {
					case 0, 1, 2:
						return base
					case 3, 4, 5, 6:
						return mutate(base)
					default:
						return genEntry(entryKind[ty], dslot, ty)
					}
				}
				mkStore := func(first bool) string {
					en := base
					slot := dslot
					if !first {
						en = variant()
						if rng.Chance(1, 3) {
							slot = live()
						}
					}
					es := []entry{en}
					if rng.Chance(1, 3) {
						o := variant()
						if !(o.kind == 'A' && o.f[0] == en.f[0]) {
							es = append(es, o)
						}
					}
					if ty == "pro" && len(es) > 1 && rng.Chance(3, 4) {
						es = es[:1]
					}
					toks := make([]string, len(es))
					for i, x := range es {
						toks[i] = x.token()
						pool = append(pool, x)
						for _, w := range x.writes() {
							keys = append(keys, keyOp(w.key))
						}
					}
					return strings.TrimSpace(fmt.Sprintf("store %s %d a %s", ty, slot, strings.Join(toks, " ")))
				}
				bws := base.writes()
				// queries already blocked on what the race is going to store
				if len(bws) > 0 && rng.Chance(1, 2) {
					for j := 0; j < 1+rng.Intn(2); j++ {
						if fk := keyOp(bws[rng.Intn(len(bws))].key); fk[0] != "pubkey" && run.NOps < a.N {
							exec("await " + strings.Join(fk, " "))
						}
					}
				}
				subsOps := []string{mkStore(true)}
				haveAwait := false
				nsub := 2 + rng.Intn(2)
				for len(subsOps) < nsub {
					switch r := rng.Intn(20); {
					case r < 8:
						subsOps = append(subsOps, mkStore(false))
					case r < 13 && !haveAwait && len(bws) > 0:
						fk := keyOp(bws[rng.Intn(len(bws))].key)
						if fk[0] == "pubkey" || rng.Chance(1, 6) {
							fk = []string{"att", fmt.Sprint(pick(sl)), fmt.Sprint(rng.Intn(3))}
						}
						subsOps = append(subsOps, "await "+strings.Join(fk, " "))
						haveAwait = true
					case r < 17:
						var blocked, onKey []int
						for _, q := range ep.queries {
							if q.state == 0 {
								blocked = append(blocked, q.id)
								for _, w := range bws {
									if w.key == q.key {
										onKey = append(onKey, q.id)
									}
								}
							}
						}
						already := func(id int) bool {
							for _, so := range subsOps {
								if so == fmt.Sprintf("cancel %d", id) {
									return true
								}
							}
							return false
						}
						switch {
						case len(onKey) > 0 && rng.Chance(3, 4) && !already(onKey[0]):
							subsOps = append(subsOps, fmt.Sprintf("cancel %d", onKey[rng.Intn(len(onKey))]))
						case len(blocked) > 0 && !already(blocked[0]):
							subsOps = append(subsOps, fmt.Sprintf("cancel %d", blocked[rng.Intn(len(blocked))]))
						default:
							subsOps = append(subsOps, mkStore(false))
						}
					default:
						var pk []string
						for _, w := range bws {
							if w.key[0] == 'K' {
								pk = keyOp(w.key)
							}
						}
						if pk == nil {
							pk = []string{"pubkey", fmt.Sprint(pick(sl)), fmt.Sprint(rng.Intn(3)), fmt.Sprint(1 + rng.Intn(3))}
						}
						subsOps = append(subsOps, strings.Join(pk, " "))
					}
				}
				// duplicate cancels of one query would make the second a no-op in the harness only
				seenC := map[string]bool{}
				var final []string
				for _, so := range subsOps {
					if strings.HasPrefix(so, "cancel ") {
						if seenC[so] {
							continue
						}
						seenC[so] = true
					}
					final = append(final, so)
				}
				exec("race " + strings.Join(final, " ; "))
			default: // pubkey
				var f []string
				for tries := 0; tries < 8 && len(keys) > 0 && f == nil && rng.Chance(4, 5); tries++ {
					f = keys[rng.Intn(len(keys))]
					if f[0] != "pubkey" {
						f = nil
					}
				}
				if f == nil {
					f = []string{"pubkey", fmt.Sprint(pick(sl)), fmt.Sprint(rng.Intn(3)), fmt.Sprint(1 + rng.Intn(3))}
				}
				exec(strings.Join(f, " "))
			}
		}
	}
	if ep != nil {
		ep.close()
	}
}

// keyOp turns a canonical key into the fields of the op that queries it.
func keyOp(key string) []string {
	fs := strings.Split(key[1:], ".")
	switch key[0] {
	case 'A':
		return append([]string{"att"}, fs...)
	case 'P':
		return append([]string{"pro"}, fs...)
	case 'G':
		id, _ := strconv.ParseUint(fs[1], 10, 64)
		return []string{"agg", fs[0], fmt.Sprint(id / 100), fmt.Sprint(id % 100), fs[2]}
	case 'C':
		return append([]string{"con"}, fs...)
	default:
		return append([]string{"pubkey"}, fs...)
	}
}
